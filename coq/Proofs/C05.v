(* C05 — proofs.  Part 1: the translated block arithmetic (Gen/block_kernels.v). *)
From Verif Require Import Lib.Py Lib.PyLemmas Lib.Tactics Gen.block_kernels Model.C05 Model.C05Server.
Open Scope Z_scope.

Definition bsize (szx : Z) : Z := 2 ^ (szx + 4).

Lemma bsize_pos szx : 0 <= szx -> 16 <= bsize szx.
Proof. intros H. unfold bsize. replace (szx + 4) with (4 + szx) by lia. rewrite Z.pow_add_r by lia.
  assert (0 < 2 ^ szx) by (apply Z.pow_pos_nonneg; lia). change (2 ^ 4) with 16. lia. Qed.

Lemma bsize_split a b : 0 <= a -> 0 <= b -> bsize (a + b) = 2 ^ a * bsize b.
Proof. intros Ha Hb. unfold bsize. replace (a + b + 4) with (a + (b + 4)) by lia. apply Z.pow_add_r; lia. Qed.

Lemma bt_size_spec n m s : bt_size n m s = Ok (bsize (Z.min s 6)).
Proof. reflexivity. Qed.
Lemma bt_start_spec n m s : bt_start n m s = Ok (n * bsize (Z.min s 6)).
Proof. reflexivity. Qed.

Lemma bt_is_valid_spec n m s p : 0 <= s <= 6 ->
  bt_is_valid_for_payload_size n m s p = Ok (if m then p =? bsize s else p <=? bsize s).
Proof. intros H. unfold bt_is_valid_for_payload_size, bt_is_bert, bt_size, bind.
  replace (s =? 7) with false by lia. replace (Z.min s 6) with s by lia. destruct m; reflexivity. Qed.

Lemma bt_reduced_to_spec n m s mx : 0 <= s <= 6 -> 0 <= mx ->
  bt_reduced_to n m s mx = Ok (if mx >=? s then (n, m, s) else (n * 2 ^ (s - mx), m, mx)).
Proof. intros H Hm. unfold bt_reduced_to. destruct (mx >=? s) eqn:E; [reflexivity|].
  replace ((mx =? 6) && (s =? 7)) with false by lia. replace (Z.min s 6) with s by lia.
  rewrite Z.shiftl_mul_pow2 by lia. reflexivity. Qed.

(* the offset named by a reduced tuple is the same *)
Lemma bt_reduced_to_offset n m s mx n' m' s' : 0 <= s <= 6 -> 0 <= mx ->
  bt_reduced_to n m s mx = Ok (n', m', s') -> n' * bsize s' = n * bsize s /\ m' = m /\ 0 <= s' <= s /\ s' = Z.min s mx.
Proof. intros H Hm. rewrite bt_reduced_to_spec by lia. destruct (mx >=? s) eqn:E; intros Heq; inv Heq.
  - repeat split; lia.
  - repeat split; try lia. replace s with ((s - s') + s') at 2 by lia. rewrite bsize_split by lia. lia. Qed.

Lemma blen_bslice {A} (l : list A) i j : 0 <= i <= j -> j <= blen l -> blen (bslice l i j) = j - i.
Proof. intros H1 H2. unfold bslice, blen in *. rewrite skipn_length, firstn_length. lia. Qed.

Lemma bslice_clamp {A} (l : list A) i j : blen l <= j -> bslice l i j = bslice l i (blen l).
Proof. intros H. unfold bslice, blen in *. rewrite !firstn_all2 by lia. reflexivity. Qed.

Lemma bto_bslice {A} (l : list A) i j : 0 <= i <= j -> bto l i ++ bslice l i j = bto l j.
Proof. intros H. unfold bto, bslice.
  rewrite <- (firstn_skipn (Z.to_nat i) (firstn (Z.to_nat j) l)) at 2.
  rewrite firstn_firstn. replace (Init.Nat.min (Z.to_nat i) (Z.to_nat j)) with (Z.to_nat i) by lia. reflexivity. Qed.

Lemma bto_all {A} (l : list A) j : blen l <= j -> bto l j = l.
Proof. intros H. unfold bto, blen in *. apply firstn_all2. lia. Qed.

(* Message._extract_block for the regular size exponents *)
Lemma extract_block_spec body n szx mbs : 0 <= szx <= 6 ->
  extract_block body n szx mbs =
    if n * bsize szx >=? blen body then Raise BadRequest
    else Ok (bslice body (n * bsize szx) (Z.min (n * bsize szx + bsize szx) (blen body)),
             (n, n * bsize szx + bsize szx <? blen body, szx)).
Proof.
  intros H. unfold extract_block. replace (szx =? 7) with false by lia. cbn [bind]. fold (bsize szx).
  destruct (n * bsize szx >=? blen body) eqn:E; [reflexivity|].
  destruct (n * bsize szx + bsize szx <? blen body) eqn:E2.
  - replace (Z.min (n * bsize szx + bsize szx) (blen body)) with (n * bsize szx + bsize szx) by lia.
    rewrite E2. reflexivity.
  - replace (Z.min (n * bsize szx + bsize szx) (blen body)) with (blen body) by lia.
    rewrite Z.ltb_irrefl. reflexivity.
Qed.

(* Theorem 1 (per block): contiguous offsets NUM*size, more exactly on non-final blocks, BadRequest exactly out of bounds *)
Lemma extract_blocks_partition_lemma body szx mbs n : 0 <= szx <= 6 -> 0 <= n ->
  (blen body <= n * bsize szx -> extract_block body n szx mbs = Raise BadRequest) /\
  (n * bsize szx < blen body -> exists pl more,
      extract_block body n szx mbs = Ok (pl, (n, more, szx)) /\
      bto body (n * bsize szx) ++ pl = bto body (n * bsize szx + blen pl) /\
      (more = true -> blen pl = bsize szx /\ n * bsize szx + bsize szx < blen body) /\
      (more = false -> 0 < blen pl <= bsize szx /\ n * bsize szx + blen pl = blen body)).
Proof.
  intros H Hn. pose proof (bsize_pos szx ltac:(lia)) as Hs. rewrite extract_block_spec by lia. split.
  - intros Hle. replace (n * bsize szx >=? blen body) with true by lia. reflexivity.
  - intros Hlt. replace (n * bsize szx >=? blen body) with false by lia.
    assert (0 <= n * bsize szx) by nia.
    eexists _, _. split; [reflexivity|].
    destruct (n * bsize szx + bsize szx <? blen body) eqn:E2.
    + replace (Z.min (n * bsize szx + bsize szx) (blen body)) with (n * bsize szx + bsize szx) by lia.
      rewrite blen_bslice by lia. split; [|split]; try (intros; lia).
      rewrite bto_bslice by lia. f_equal. lia.
    + replace (Z.min (n * bsize szx + bsize szx) (blen body)) with (blen body) by lia.
      rewrite blen_bslice by lia. split; [|split]; try (intros; lia).
      rewrite bto_bslice by lia. f_equal. lia.
Qed.

(* ------------------------------------------------------------------------------------------------------------------
   Part 2: the client's Block1 requests on the wire, against ANY server *)

Lemma reduce_size_spec fuel : forall target c e, e <= 6 -> fuel = Z.to_nat (e - target) ->
  reduce_size fuel target c e = if target <? e then (c * 2 ^ (e - target), target) else (c, e).
Proof.
  induction fuel as [|f IH]; intros target c e He Hf; cbn [reduce_size].
  - replace (target <? e) with false by lia. reflexivity.
  - replace (target <? e) with true by lia. replace (e =? 7) with false by lia. rewrite IH by lia.
    destruct (target <? e - 1) eqn:E.
    + f_equal. replace (e - target) with (1 + (e - 1 - target)) by lia. rewrite Z.pow_add_r by lia. lia.
    + assert (e - 1 = target) by lia. f_equal; [|lia]. replace (e - target) with 1 by lia. lia.
Qed.

(* a response as it can come out of Message.decode: size exponents are 3-bit fields *)
Definition bt_wf (b : option bt) : bool := match b with Some (n, _, s) => (0 <=? n) && (0 <=? s) && (s <=? 7) | None => true end.
Definition resp_wf (r : response) : bool := bt_wf (rs_block1 r) && bt_wf (rs_block2 r).
(* a request of a client on a datagram transport: regular size exponents only *)
Definition bt_wf6 (b : option bt) : bool := match b with Some (n, _, s) => (0 <=? n) && (0 <=? s) && (s <=? 6) | None => true end.
Definition req_wf (r : request) : bool := bt_wf6 (rq_block1 r) && bt_wf6 (rq_block2 r).

Lemma block1_react_continue rq resp cursor size_exp n m szx c2 e2 :
  0 <= size_exp <= 6 -> rq_block1 rq = Some (n, m, szx) -> resp_wf resp = true ->
  block1_react rq resp cursor size_exp = B1Continue c2 e2 ->
  m = true /\ 0 <= e2 <= size_exp /\ c2 * bsize e2 = (cursor + 1) * bsize size_exp.
Proof.
  intros Hs Hrq Hwf. unfold block1_react. rewrite Hrq.
  unfold resp_wf in Hwf. destruct (rs_block1 resp) as [[[bn bm] bs]|]; [|discriminate].
  cbn [bt_wf] in Hwf. unfold bt_num, bt_more, bt_szx. cbn [fst snd].
  destruct (bn =? n); cbn [negb]; [|discriminate].
  replace (size_exp =? 7) with false by lia.
  rewrite reduce_size_spec by (reflexivity || lia).
  assert (Hc : forall c cc ee, (if bs <? size_exp then (c * 2 ^ (size_exp - bs), bs) else (c, size_exp)) = (cc, ee) ->
           0 <= ee <= size_exp /\ cc * bsize ee = c * bsize size_exp).
  { intros c cc ee Heq. destruct (bs <? size_exp) eqn:E; inv Heq; [|lia]. split; [lia|].
    replace size_exp with ((size_exp - ee) + ee) at 2 by lia. rewrite bsize_split by lia. lia. }
  destruct (if bs <? size_exp then ((cursor + 1) * 2 ^ (size_exp - bs), bs) else (cursor + 1, size_exp)) as [cc ee] eqn:Hp.
  apply Hc in Hp.
  destruct m; cbn [negb];
    repeat match goal with |- context [if ?b then _ else _] => destruct b end; intros Heq; inv Heq;
    (split; [reflexivity|exact Hp]).
Qed.

Definition no_block1 (tr : list request) : Prop := Forall (fun r => rq_block1 r = None) tr.

Lemma generate_next_no_block1 t a mbse rq : generate_next_block2_request t a mbse = Ok rq -> rq_block1 rq = None /\ rq_payload rq = [].
Proof.
  unfold generate_next_block2_request. destruct (rs_block2 a) as [[[n m] s]|]; [|discriminate].
  unfold bind. rewrite bt_size_spec, bt_start_spec.
  destruct (massert _); [|discriminate]. destruct (bt_reduced_to _ _ _ _); [|discriminate].
  intros H; inv H. split; reflexivity.
Qed.

Section AnyServer.
  Context {S : Type}.
  Variable serve : S -> request -> S * sresult.

  Lemma block2_loop_no_block1 fuel : forall s t a mbse s' tr o,
    block2_loop serve fuel s t a mbse = (s', tr, o) -> no_block1 tr.
  Proof.
    induction fuel as [|f IH]; intros s t a mbse s' tr o; cbn [block2_loop].
    - intros H; inv H. constructor.
    - destruct (generate_next_block2_request t a mbse) as [rq|e] eqn:G; [|intros H; inv H; constructor].
      apply generate_next_no_block1 in G as [G _].
      destruct (serve s rq) as [s1 r]. destruct r as [last|]; [|intros H; inv H; repeat constructor; exact G].
      destruct (rs_block2 last) as [b2|]; [|intros H; inv H; repeat constructor; exact G].
      destruct (append_response_block a last) as [a'|e]; [|intros H; inv H; repeat constructor; exact G].
      destruct (negb (bt_more b2)); [intros H; inv H; repeat constructor; exact G|].
      destruct (block2_loop serve f s1 t a' mbse) as [[s2 tr2] o2] eqn:R. intros H; inv H.
      constructor; [exact G|]. eapply IH; eassumption.
  Qed.

  Lemma complete_no_block1 fuel s t a mbse s' tr o :
    complete_by_requesting_block2 serve fuel s t a mbse = (s', tr, o) -> no_block1 tr.
  Proof.
    unfold complete_by_requesting_block2. destruct (unexpected_first_block t a); [intros H; inv H; constructor|].
    destruct (rs_block2 a) as [b2|]; [|intros H; inv H; constructor].
    destruct (negb (bt_more b2)); [intros H; inv H; constructor|].
    destruct (negb (bt_num b2 =? 0)); [intros H; inv H; constructor|]. apply block2_loop_no_block1.
  Qed.

  (* what the sequence of Block1 requests must look like, starting at byte [offset] of [body] with exponents <= [maxszx] *)
  Fixpoint b1_chain (body : list Z) (offset maxszx : Z) (tr : list request) : Prop :=
    match tr with
    | [] => True
    | rq :: rest =>
      match rq_block1 rq with
      | None => no_block1 tr
      | Some (n, m, szx) =>
        0 <= szx <= maxszx /\ n * bsize szx = offset /\
        bto body offset ++ rq_payload rq = bto body (offset + blen (rq_payload rq)) /\
        (m = true -> blen (rq_payload rq) = bsize szx /\ offset + bsize szx < blen body) /\
        (m = false -> 0 < blen (rq_payload rq) <= bsize szx /\ offset + blen (rq_payload rq) = blen body) /\
        rq_size1 rq = (if offset =? 0 then Some (blen body) else None) /\
        (if m then b1_chain body (offset + bsize szx) szx rest else no_block1 rest)
      end
    end.

  Lemma no_block1_chain body offset maxszx tr : no_block1 tr -> b1_chain body offset maxszx tr.
  Proof. intros H. destruct tr as [|rq rest]; [exact I|]. cbn [b1_chain]. inversion H as [|? ? H1 H2]; subst. rewrite H1. exact H. Qed.

  Variable serve_wf : forall s rq s' r, req_wf rq = true -> serve s rq = (s', SResp r) -> resp_wf r = true.

  Lemma block1_loop_chain cfg fuel : forall s cursor size_exp mbse s' tr o,
    bt_wf6 (c_block2 cfg) = true -> 0 <= size_exp <= 6 -> 0 <= cursor -> cursor * bsize size_exp < blen (c_body cfg) ->
    blen (c_body cfg) > fragmentation_threshold (c_mps cfg) size_exp ->
    block1_loop serve fuel s cfg cursor size_exp mbse = (s', tr, o) ->
    b1_chain (c_body cfg) (cursor * bsize size_exp) size_exp tr.
  Proof.
    induction fuel as [|f IH]; intros s cursor size_exp mbse s' tr o Hb2 Hs Hc Hoff Hfrag; cbn [block1_loop].
    - intros H; inv H. exact I.
    - unfold block1_request. replace (blen (c_body cfg) >? fragmentation_threshold (c_mps cfg) size_exp) with true by lia.
      pose proof (bsize_pos size_exp ltac:(lia)) as Hsz.
      destruct (extract_blocks_partition_lemma (c_body cfg) size_exp (c_mps cfg) cursor Hs Hc) as [_ Hok].
      destruct (Hok Hoff) as (pl & more & Hex & Hcat & Hmore & Hfin). rewrite Hex. cbn [bind].
      set (rq := {| rq_block1 := Some (cursor, more, size_exp); rq_block2 := c_block2 cfg;
                    rq_size1 := if cursor =? 0 then Some (blen (c_body cfg)) else None; rq_payload := pl |}).
      assert (Hhead : forall rest, (if more then b1_chain (c_body cfg) (cursor * bsize size_exp + bsize size_exp) size_exp rest else no_block1 rest) ->
                b1_chain (c_body cfg) (cursor * bsize size_exp) size_exp (rq :: rest)).
      { intros rest Hrest. cbn [b1_chain rq_block1 rq rq_payload rq_size1].
        repeat (split; [first [lia | assumption | reflexivity]|]).
        split; [|exact Hrest]. destruct (cursor =? 0) eqn:E0.
        - replace (cursor * bsize size_exp =? 0) with true by nia. reflexivity.
        - replace (cursor * bsize size_exp =? 0) with false by nia. reflexivity. }
      destruct (serve s rq) as [s1 r] eqn:Hserve. destruct r as [resp|].
      2:{ intros H; inv H. apply Hhead. destruct more; [exact I|constructor]. }
      assert (Hrqwf : req_wf rq = true).
      { unfold req_wf. cbn [rq rq_block1 rq_block2 bt_wf6]. rewrite Hb2. lia. }
      pose proof (serve_wf _ _ _ _ Hrqwf Hserve) as Hwf.
      destruct (block1_react rq resp cursor size_exp) as [e|c2 e2|] eqn:Hreact.
      + intros H; inv H. apply Hhead. destruct more; [exact I|constructor].
      + destruct (block1_react_continue rq resp cursor size_exp cursor more size_exp c2 e2 Hs eq_refl Hwf Hreact) as (Hm & He2 & Hc2).
        subst more. destruct (Hmore eq_refl) as [Hpl Hlt].
        destruct (block1_loop serve f s1 cfg c2 e2 _) as [[s2 tr2] o2] eqn:R. intros H; inv H.
        apply Hhead. pose proof (bsize_pos e2 ltac:(lia)) as Hsz2.
        assert (Hc2' : 0 <= c2) by nia.
        assert (Hfrag2 : blen (c_body cfg) > fragmentation_threshold (c_mps cfg) e2).
        { unfold fragmentation_threshold in *. destruct (e2 >=? 6) eqn:E6.
          - replace (size_exp >=? 6) with true in Hfrag by lia. exact Hfrag.
          - fold (bsize e2). assert (1 <= c2) by nia. assert (bsize e2 <= c2 * bsize e2) by nia. lia. }
        replace (cursor * bsize size_exp + bsize size_exp) with (c2 * bsize e2) by lia.
        assert (Hmono : forall tr0, b1_chain (c_body cfg) (c2 * bsize e2) e2 tr0 -> b1_chain (c_body cfg) (c2 * bsize e2) size_exp tr0).
        { intros [|r0 rest0]; [auto|]. cbn [b1_chain]. destruct (rq_block1 r0) as [[[n0 m0] s0]|]; [|auto].
          intros (H1 & H2). split; [lia|exact H2]. }
        apply Hmono. eapply IH; try eassumption; lia.
      + destruct (complete_by_requesting_block2 serve f s1 rq (clear_block1 resp) _) as [[s2 tr2] o2] eqn:R. intros H; inv H.
        apply complete_no_block1 in R. apply Hhead. destruct more; [apply no_block1_chain; exact R|exact R].
  Qed.
End AnyServer.

Section AnyServer2.
  Context {S : Type}.
  Variable serve : S -> request -> S * sresult.
  Variable serve_wf : forall s rq s' r, req_wf rq = true -> serve s rq = (s', SResp r) -> resp_wf r = true.

  (* the requests of a whole run: either one unfragmented request carrying the body, or a Block1 chain from offset 0 *)
  Definition wire_ok (cfg : ccfg) (tr : list request) : Prop :=
    match tr with
    | [] => True
    | rq :: rest =>
      if blen (c_body cfg) >? fragmentation_threshold (c_mps cfg) (c_mbse cfg)
      then b1_chain (c_body cfg) 0 (c_mbse cfg) tr
      else rq_block1 rq = None /\ rq_payload rq = c_body cfg /\ rq_size1 rq = None /\ no_block1 rest
    end.

  Lemma run_wire_ok cfg fuel s s' tr o :
    0 <= c_mbse cfg <= 6 -> 0 <= c_mps cfg -> bt_wf6 (c_block2 cfg) = true ->
    run serve fuel s cfg = (s', tr, o) -> wire_ok cfg tr.
  Proof.
    intros Hm Hp Hb2. unfold run, wire_ok. intros Hrun. destruct tr as [|rq rest]; [exact I|].
    destruct (blen (c_body cfg) >? fragmentation_threshold (c_mps cfg) (c_mbse cfg)) eqn:Hfrag.
    - pose proof (bsize_pos (c_mbse cfg) ltac:(lia)) as Hsz.
      replace 0 with (0 * bsize (c_mbse cfg)) by lia.
      eapply block1_loop_chain; try eassumption; try lia.
      unfold fragmentation_threshold in Hfrag. destruct (c_mbse cfg >=? 6); [lia|]. fold (bsize (c_mbse cfg)) in Hfrag. lia.
    - destruct fuel as [|f]; cbn [block1_loop] in Hrun; [inv Hrun|].
      unfold block1_request in Hrun. rewrite Hfrag in Hrun.
      set (rq0 := {| rq_block1 := None; rq_block2 := c_block2 cfg; rq_size1 := None; rq_payload := c_body cfg |}) in *.
      destruct (serve s rq0) as [s1 r]. destruct r as [resp|]; [|inv Hrun; repeat split; constructor].
      unfold block1_react in Hrun. cbn [rq_block1 rq0] in Hrun.
      destruct (rs_block1 resp).
      + inv Hrun. repeat split; constructor.
      + destruct (complete_by_requesting_block2 serve f s1 rq0 _ _) as [[s2 tr2] o2] eqn:R. inv Hrun.
        apply complete_no_block1 in R. repeat split; assumption.
  Qed.

  (* Theorem 4: sequencing violations by the server in the Block1 phase end the request at once with UnexpectedBlock1Option *)
  Lemma block1_server_errors_lemma cfg f s cursor size_exp mbse rq s1 resp cb b1 :
    block1_request cfg cursor size_exp = Ok rq -> serve s rq = (s1, SResp resp) ->
    rq_block1 rq = Some cb -> rs_block1 resp = Some b1 ->
    (bt_num b1 <> bt_num cb \/
     (bt_more cb = false /\ (bt_more b1 = true \/ rs_code resp = CONTINUE))) ->
    block1_loop serve (Datatypes.S f) s cfg cursor size_exp mbse = (s1, [rq], Err UnexpectedBlock1Option).
  Proof.
    clear serve_wf. intros Hrq Hs Hcb Hb1 Hviol. cbn [block1_loop]. rewrite Hrq, Hs.
    assert (Hr : block1_react rq resp cursor size_exp = B1Err UnexpectedBlock1Option).
    { unfold block1_react. rewrite Hb1, Hcb. destruct (bt_num b1 =? bt_num cb) eqn:E; cbn [negb]; [|reflexivity].
      destruct Hviol as [Hne|[Hfin Hmore]]; [lia|].
      destruct (reduce_size _ _ _ _). rewrite Hfin. cbn [negb].
      destruct Hmore as [Hm|Hc]; [rewrite Hm; reflexivity|]. rewrite Hc. rewrite Z.eqb_refl, orb_true_r. reflexivity. }
    rewrite Hr. reflexivity.
  Qed.

  (* OBSERVATION (not a violation of C05: the request ends loudly): a non-zero Observe option on the acknowledgement of a non-final block
     ends the request with AttributeError — protocol.py:986 calls `blockrequest.observe.cancel()`, the attribute is `observation` *)
  Lemma block1_early_observe_lemma cfg f s cursor size_exp mbse rq s1 resp cb b1 :
    block1_request cfg cursor size_exp = Ok rq -> serve s rq = (s1, SResp resp) ->
    rq_block1 rq = Some cb -> rs_block1 resp = Some b1 -> bt_num b1 = bt_num cb -> bt_more cb = true -> rs_observe resp = true ->
    block1_loop serve (Datatypes.S f) s cfg cursor size_exp mbse = (s1, [rq], Err AttributeError).
  Proof.
    clear serve_wf. intros Hrq Hs Hcb Hb1 Hn Hm Ho. cbn [block1_loop]. rewrite Hrq, Hs.
    unfold block1_react. rewrite Hb1, Hcb, Hn, Z.eqb_refl. cbn [negb]. destruct (reduce_size _ _ _ _). rewrite Hm, Ho. reflexivity.
  Qed.

  (* a transport failure of any sub-request ends the request with that error *)
  Lemma block1_transport_failure cfg f s cursor size_exp mbse rq s1 :
    block1_request cfg cursor size_exp = Ok rq -> serve s rq = (s1, SFail) ->
    block1_loop serve (Datatypes.S f) s cfg cursor size_exp mbse = (s1, [rq], Err NetworkError).
  Proof. clear serve_wf. intros Hrq Hs. cbn [block1_loop]. rewrite Hrq, Hs. reflexivity. Qed.
End AnyServer2.

(* ------------------------------------------------------------------------------------------------------------------
   Part 3: Block2 assembly against ANY sequence of responses (the scripted server is the general server) *)

Definition appended (acc x : response) (b : bt) : response :=
  {| rs_code := rs_code acc; rs_block1 := rs_block1 acc; rs_block2 := Some b; rs_etag := rs_etag acc;
     rs_payload := rs_payload acc ++ rs_payload x; rs_maxexp := rs_maxexp acc; rs_observe := rs_observe acc |}.

(* the translated guard of _append_response_block, spelled out: valid payload size, then block2.start = assembled length (an OFFSET comparison:
   a block is only ever appended where the assembled bytes end), then equal ETags *)
Definition append_inline (assembled next_block : response) : M response :=
  match rs_block2 next_block with
  | None => Raise AttributeError
  | Some (n, m, szx) =>
    valid <- bt_is_valid_for_payload_size n m szx (blen (rs_payload next_block)) ;;
    if negb valid then Raise UnexpectedBlock2 else
    start <- bt_start n m szx ;;
    if negb (start =? blen (rs_payload assembled)) then Raise NotImplementedError else
    if negb (etag_eqb (rs_etag next_block) (rs_etag assembled)) then Raise ResourceChanged else
    Ok {| rs_code := rs_code assembled; rs_block1 := rs_block1 assembled; rs_block2 := Some (n, m, szx);
          rs_etag := rs_etag assembled; rs_payload := rs_payload assembled ++ rs_payload next_block;
          rs_maxexp := rs_maxexp assembled; rs_observe := rs_observe assembled |}
  end.
Lemma append_response_block_eq acc x : append_response_block acc x = append_inline acc x.
Proof.
  unfold append_response_block, append_inline, append_response_block_guard. destruct (rs_block2 x) as [[[n m] szx]|]; [|reflexivity].
  destruct (bt_is_valid_for_payload_size n m szx (blen (rs_payload x))) as [v|]; [|reflexivity]. cbn [bind].
  destruct (negb v); [reflexivity|]. rewrite bt_start_spec. cbn [bind].
  destruct (negb (n * bsize (Z.min szx 6) =? blen (rs_payload acc))); [reflexivity|].
  destruct (negb (etag_eqb (rs_etag x) (rs_etag acc))); reflexivity.
Qed.

Lemma append_ok acc x n m szx acc' :
  rs_block2 x = Some (n, m, szx) -> append_response_block acc x = Ok acc' ->
  n * bsize (Z.min szx 6) = blen (rs_payload acc) /\ etag_eqb (rs_etag x) (rs_etag acc) = true /\
  (szx <> 7 -> if m then blen (rs_payload x) = bsize (Z.min szx 6) else blen (rs_payload x) <= bsize (Z.min szx 6)) /\
  acc' = appended acc x (n, m, szx).
Proof.
  intros Hb. rewrite append_response_block_eq. unfold append_inline. rewrite Hb.
  unfold bt_is_valid_for_payload_size, bt_is_bert, bt_start, bt_size, bind. fold (bsize (Z.min szx 6)).
  destruct (szx =? 7) eqn:E7.
  - destruct m.
    + destruct (blen (rs_payload x) mod 1024 =? 0); cbn [negb]; [|discriminate].
      destruct (n * bsize (Z.min szx 6) =? blen (rs_payload acc)) eqn:E; cbn [negb]; [|discriminate].
      destruct (etag_eqb (rs_etag x) (rs_etag acc)) eqn:Et; cbn [negb]; [|discriminate].
      intros H; inv H. repeat split; try lia; try reflexivity.
    + cbn [negb]. destruct (n * bsize (Z.min szx 6) =? blen (rs_payload acc)) eqn:E; cbn [negb]; [|discriminate].
      destruct (etag_eqb (rs_etag x) (rs_etag acc)) eqn:Et; cbn [negb]; [|discriminate].
      intros H; inv H. repeat split; try lia; try reflexivity.
  - destruct m.
    + destruct (blen (rs_payload x) =? bsize (Z.min szx 6)) eqn:Ev; cbn [negb]; [|discriminate].
      destruct (n * bsize (Z.min szx 6) =? blen (rs_payload acc)) eqn:E; cbn [negb]; [|discriminate].
      destruct (etag_eqb (rs_etag x) (rs_etag acc)) eqn:Et; cbn [negb]; [|discriminate].
      intros H; inv H. repeat split; try lia; try reflexivity.
    + destruct (blen (rs_payload x) <=? bsize (Z.min szx 6)) eqn:Ev; cbn [negb]; [|discriminate].
      destruct (n * bsize (Z.min szx 6) =? blen (rs_payload acc)) eqn:E; cbn [negb]; [|discriminate].
      destruct (etag_eqb (rs_etag x) (rs_etag acc)) eqn:Et; cbn [negb]; [|discriminate].
      intros H; inv H. repeat split; try lia; try reflexivity.
Qed.

(* what a successful assembly must have looked like: every block continues exactly where the assembled bytes end, carries the
   ETag of the first block, has exactly its size when more follow and at most its size when final *)
Fixpoint b2_chain (acc : response) (consumed : list response) (r : response) : Prop :=
  match consumed with
  | [] => False
  | x :: rest =>
    match rs_block2 x with
    | None => rest = [] /\ r = x               (* by design: a response without Block2 is taken as the whole answer *)
    | Some (n, m, szx) =>
      n * bsize (Z.min szx 6) = blen (rs_payload acc) /\
      etag_eqb (rs_etag x) (rs_etag acc) = true /\
      (szx <> 7 -> if m then blen (rs_payload x) = bsize (Z.min szx 6) else blen (rs_payload x) <= bsize (Z.min szx 6)) /\
      (if m then b2_chain (appended acc x (n, m, szx)) rest r else rest = [] /\ r = appended acc x (n, m, szx))
    end
  end.

Lemma block2_loop_exact fuel : forall script t acc mbse rest tr r,
  block2_loop serve_script fuel script t acc mbse = (rest, tr, Done r) ->
  exists consumed, script = map SResp consumed ++ rest /\ b2_chain acc consumed r /\ length tr = length consumed.
Proof.
  induction fuel as [|f IH]; intros script t acc mbse rest tr r; cbn [block2_loop]; [discriminate|].
  destruct (generate_next_block2_request t acc mbse) as [rq|e]; [|discriminate].
  destruct script as [|x script']; cbn [serve_script]; [discriminate|].
  destruct x as [last|]; [|discriminate].
  destruct (rs_block2 last) as [[[n m] szx]|] eqn:Hb.
  2:{ intros H; inv H. exists [r]. cbn [map app b2_chain]. rewrite Hb. repeat split; reflexivity. }
  destruct (append_response_block acc last) as [acc'|e] eqn:Ha; [|discriminate].
  destruct (append_ok _ _ _ _ _ _ Hb Ha) as (H1 & H2 & H3 & ->).
  unfold bt_more. cbn [fst snd]. destruct m; cbn [negb].
  - destruct (block2_loop serve_script f script' t _ mbse) as [[s2 tr2] o2] eqn:R. intros H; inv H.
    destruct (IH _ _ _ _ _ _ _ R) as (consumed & -> & Hc & Hl).
    exists (last :: consumed). cbn [map app b2_chain length]. rewrite Hb. repeat split; try assumption. lia.
  - intros H; inv H. exists [last]. cbn [map app b2_chain length]. rewrite Hb. repeat split; try assumption; reflexivity.
Qed.

(* Theorem 3, first half: a response handed to the caller is either a single response of the server or the exact in-order
   concatenation of a consistent chain of blocks *)
Lemma block2_assembly_exact_lemma fuel script t initial mbse rest tr r :
  complete_by_requesting_block2 serve_script fuel script t initial mbse = (rest, tr, Done r) ->
  (r = initial /\ rs_block2 initial = None /\ rest = script) \/
  (exists b, rs_block2 initial = Some b /\ bt_more b = false /\
             (bt_num b = 0 \/ exists rb, rq_block2 t = Some rb /\ bt_num rb <> 0) /\
             r = clear_block2 initial /\ rest = script) \/
  (exists szx consumed, rs_block2 initial = Some (0, true, szx) /\ script = map SResp consumed ++ rest /\
                        b2_chain initial consumed r /\ length tr = length consumed).
Proof.
  unfold complete_by_requesting_block2, unexpected_first_block. destruct (rs_block2 initial) as [[[n m] szx]|] eqn:Hb.
  2:{ intros H; inv H. left. auto. }
  unfold bt_more, bt_num. cbn [fst snd].
  destruct (negb (n =? 0) && match rq_block2 t with Some rb => fst (fst rb) =? 0 | None => true end) eqn:Hun; [discriminate|].
  destruct m; cbn [negb].
  - destruct (n =? 0) eqn:E; cbn [negb]; [|discriminate]. intros H. apply block2_loop_exact in H as (consumed & H1 & H2 & H3).
    right. right. exists szx, consumed. replace n with 0 by lia. auto.
  - intros H; inv H. right. left. eexists. repeat split; try reflexivity.
    cbn [fst snd]. destruct (n =? 0) eqn:E; [left; lia|]. cbn [negb andb] in Hun.
    destruct (rq_block2 t) as [rb|]; [|discriminate]. right. exists rb. split; [reflexivity|]. unfold bt_num. lia.
Qed.

(* the first response must be the first block: a later block, even a final one, is refused (fix 69c1201) *)
Lemma first_block2_number_checked_lemma {S} (serve : S -> request -> S * sresult) fuel s t initial mbse b :
  rs_block2 initial = Some b -> bt_num b <> 0 ->
  (rq_block2 t = None \/ exists rb, rq_block2 t = Some rb /\ bt_num rb = 0) ->
  complete_by_requesting_block2 serve fuel s t initial mbse = (s, [], Err UnexpectedBlock2).
Proof.
  intros Hb Hn Ht. unfold complete_by_requesting_block2, unexpected_first_block. rewrite Hb.
  replace (bt_num b =? 0) with false by lia. cbn [negb andb].
  destruct Ht as [->|(rb & -> & Hrb)]; [reflexivity|]. rewrite Hrb. reflexivity.
Qed.

(* Theorem 3, second half: if every response is a slice of one of several representations carrying distinct ETags, then an
   assembled body is one of these representations, whole *)
Definition slice_of (reps : list (Z * list Z)) (x : response) : Prop :=
  exists e rep, In (e, rep) reps /\ rs_etag x = Some e /\
    match rs_block2 x with
    | None => rs_payload x = rep
    | Some (n, m, szx) => 0 <= n /\ 0 <= szx <= 6 /\
        rs_payload x = bslice rep (n * bsize szx) (n * bsize szx + bsize szx) /\ m = (n * bsize szx + bsize szx <? blen rep)
    end.

Lemma nodup_lookup (reps : list (Z * list Z)) e r1 r2 : NoDup (map fst reps) -> In (e, r1) reps -> In (e, r2) reps -> r1 = r2.
Proof.
  induction reps as [|[e0 r0] reps IH]; cbn [map fst In]; [tauto|]. intros Hnd [H1|H1] [H2|H2]; inv Hnd.
  - congruence.
  - inv H1. exfalso. apply H3. change e with (fst (e, r2)). apply in_map. exact H2.
  - inv H2. exfalso. apply H3. change e with (fst (e, r1)). apply in_map. exact H1.
  - auto.
Qed.

Lemma b2_chain_representation reps : NoDup (map fst reps) ->
  forall consumed acc r e rep, In (e, rep) reps ->
  rs_etag acc = Some e -> rs_payload acc = bto rep (blen (rs_payload acc)) -> blen (rs_payload acc) <= blen rep ->
  Forall (slice_of reps) consumed -> b2_chain acc consumed r ->
  exists e' rep', In (e', rep') reps /\ rs_payload r = rep'.
Proof.
  intros Hnd. induction consumed as [|x rest IH]; intros acc r e rep Hin Het Hpl Hle Hall Hch; cbn [b2_chain] in Hch; [tauto|].
  inversion Hall as [|? ? Hx Hrest]; subst. destruct Hx as (e' & rep' & Hin' & Het' & Hx).
  destruct (rs_block2 x) as [[[n m] szx]|].
  - destruct Hch as (Hoff & Hetag & _ & Hch). destruct Hx as (Hn & Hszx & Hxp & Hm).
    rewrite Het, Het' in Hetag. cbn [etag_eqb] in Hetag. assert (e' = e) by lia. subst e'.
    assert (rep' = rep) by (eapply nodup_lookup; eassumption). subst rep'.
    replace (Z.min szx 6) with szx in * by lia. pose proof (bsize_pos szx ltac:(lia)) as Hsz.
    pose proof (blen_nonneg (rs_payload acc)) as Hnn.
    assert (Hnew : rs_payload acc ++ rs_payload x = bto rep (n * bsize szx + bsize szx)).
    { rewrite Hpl, Hxp, <- Hoff. apply bto_bslice. lia. }
    destruct m.
    + symmetry in Hm. apply Z.ltb_lt in Hm.
      apply (IH (appended acc x (n, true, szx)) r e rep); try assumption; cbn [appended rs_etag rs_payload].
      * rewrite Hnew. rewrite blen_bto by lia. reflexivity.
      * rewrite Hnew. rewrite blen_bto by lia. lia.
    + symmetry in Hm. apply Z.ltb_ge in Hm. destruct Hch as [_ ->]. cbn [appended rs_payload].
      exists e, rep. split; [assumption|]. rewrite Hnew. apply bto_all. lia.
  - destruct Hch as [_ ->]. exists e', rep'. split; assumption.
Qed.

(* the three ways a later block is refused (the rest of Theorem 3) *)
Lemma block2_server_errors_lemma {S} (serve : S -> request -> S * sresult) f s t acc mbse rq s1 x n m szx :
  generate_next_block2_request t acc mbse = Ok rq -> serve s rq = (s1, SResp x) ->
  rs_block2 x = Some (n, m, szx) -> 0 <= szx <= 6 ->
  let valid := if m then blen (rs_payload x) =? bsize szx else blen (rs_payload x) <=? bsize szx in
  (valid = false -> block2_loop serve (Datatypes.S f) s t acc mbse = (s1, [rq], Err UnexpectedBlock2)) /\
  (valid = true -> n * bsize szx <> blen (rs_payload acc) ->
     block2_loop serve (Datatypes.S f) s t acc mbse = (s1, [rq], Err NotImplementedError)) /\
  (valid = true -> n * bsize szx = blen (rs_payload acc) -> etag_eqb (rs_etag x) (rs_etag acc) = false ->
     block2_loop serve (Datatypes.S f) s t acc mbse = (s1, [rq], Err ResourceChanged)).
Proof.
  intros Hg Hs Hb Hszx valid. cbn [block2_loop]. rewrite Hg, Hs, Hb.
  rewrite append_response_block_eq. unfold append_inline. rewrite Hb. rewrite bt_is_valid_spec by lia. cbn [bind]. fold valid.
  rewrite bt_start_spec. cbn [bind]. replace (Z.min szx 6) with szx by lia.
  repeat split.
  - intros ->. reflexivity.
  - intros -> Hne. cbn [negb]. replace (n * bsize szx =? blen (rs_payload acc)) with false by lia. reflexivity.
  - intros -> He Het. cbn [negb]. replace (n * bsize szx =? blen (rs_payload acc)) with true by lia. rewrite Het. reflexivity.
Qed.

(* ------------------------------------------------------------------------------------------------------------------
   Part 4: the client composed with the RFC 7959 reference server *)

Lemma etag_eqb_refl e : etag_eqb e e = true.
Proof. destruct e; cbn; [apply Z.eqb_refl|reflexivity]. Qed.

Lemma pol_nonneg l k d : Forall (fun x => 0 <= x) l -> 0 <= d -> 0 <= pol l k d.
Proof.
  intros Hl Hd. unfold pol.
  assert (Hlast : 0 <= last l d). { induction Hl as [|x l Hx Hl IH]; cbn [last]; [exact Hd|]. destruct l; [exact Hx|exact IH]. }
  generalize (Z.to_nat k) as i. induction Hl as [|x l Hx Hl IH]; intros i; destruct i; cbn [nth]; try assumption.
  cbn [last] in *. destruct l as [|y l']; [destruct i; exact Hx || assumption|]. apply IH. exact Hlast.
Qed.

Lemma div_mul_bsize got j s s3 : 0 <= s3 <= s -> got = j * bsize s -> got / bsize s3 * bsize s3 = got.
Proof.
  intros H ->. pose proof (bsize_pos s3 ltac:(lia)). replace s with ((s - s3) + s3) by lia. rewrite bsize_split by lia.
  replace (j * (2 ^ (s - s3) * bsize s3)) with (j * 2 ^ (s - s3) * bsize s3) by lia. rewrite Z.div_mul by lia. reflexivity.
Qed.

Record honest_cfg (scf : scfg) (e : option Z) (rep : list Z) : Prop := {
  h_mis : s_mis scf = None;
  h_reps : s_reps scf = [(e, rep)];
  h_rep_at : s_rep_at scf = [];
  h_pol1 : Forall (fun x => 0 <= x) (s_policy1 scf);
  h_pol2 : Forall (fun x => 0 <= x) (s_policy2 scf);
  h_bert : s_bert scf = 0 }.

Lemma honest_eq_regular scf st rq : s_bert scf = 0 -> is_bert_request rq = false -> honest scf st rq = honest_regular scf st rq.
Proof. intros Hb Hr. unfold honest. rewrite Hb, Hr. reflexivity. Qed.
Lemma req_wf_not_bert rq : req_wf rq = true -> is_bert_request rq = false.
Proof.
  unfold req_wf, is_bert_request, szx_is_7, bt_wf6. destruct (rq_block1 rq) as [[[n m] s]|]; destruct (rq_block2 rq) as [[[n2 m2] s2]|]; lia.
Qed.

Section Ref.
  Variable scf : scfg. Variable e : option Z. Variable rep : list Z.
  Hypothesis Hh : honest_cfg scf e rep.

  Lemma current_rep k : nth (Z.to_nat (pol (s_rep_at scf) k 0)) (s_reps scf) (None, []) = (e, rep).
  Proof. rewrite (h_rep_at _ _ _ Hh), (h_reps _ _ _ Hh). unfold pol. destruct (Z.to_nat k); reflexivity. Qed.

  Lemma slice_response_some k code b1 n2 m2 s2 : 0 <= s2 <= 6 -> 0 <= n2 -> n2 * bsize s2 < blen rep ->
    let s3 := Z.min s2 (pol (s_policy2 scf) k 6) in let off := n2 * bsize s2 in
    slice_response scf k code b1 (Some (n2, m2, s2)) =
      {| rs_code := code; rs_block1 := b1; rs_block2 := Some (off / bsize s3, off + bsize s3 <? blen rep, s3);
         rs_etag := e; rs_payload := bslice rep off (off + bsize s3); rs_maxexp := 6; rs_observe := false |}.
  Proof.
    intros Hs Hn Hoff s3 off. unfold slice_response. rewrite current_rep.
    replace (Z.min s2 6) with s2 by lia. fold (bsize s2). fold off. fold s3. fold (bsize s3).
    replace ((off >? blen rep) || (off =? blen rep) && (0 <? n2)) with false by (subst off; lia). reflexivity.
  Qed.

  Lemma slice_response_first k code b1 req_b2 s2 :
    (req_b2 = None /\ s2 = 6) \/ (exists m2, req_b2 = Some (0, m2, s2) /\ 0 <= s2 <= 6) ->
    let s3 := Z.min s2 (pol (s_policy2 scf) k 6) in
    let r := slice_response scf k code b1 req_b2 in
    rs_code r = code /\ rs_block1 r = b1 /\ rs_etag r = e /\ rs_payload r = bslice rep 0 (bsize s3) /\ rs_maxexp r = 6 /\
    (bsize s3 <? blen rep = true -> rs_block2 r = Some (0, true, s3)) /\
    (bsize s3 <? blen rep = false -> match rs_block2 r with None => True | Some b => bt_more b = false end).
  Proof.
    intros Hreq s3 r. subst r. unfold slice_response. rewrite current_rep. pose proof (blen_nonneg rep) as Hnn.
    destruct Hreq as [[-> ->]|(m2 & -> & Hs2)].
    - change (Z.min 6 6) with 6 in *. fold s3. fold (bsize s3). cbn [Z.mul]. 
      replace ((0 >? blen rep) || (0 =? blen rep) && (0 <? 0)) with false by lia.
      cbn [rs_code rs_block1 rs_etag rs_payload rs_maxexp rs_block2]. repeat split.
      + cbn [Z.add]. intros ->. reflexivity.
      + cbn [Z.add]. intros ->. exact I.
    - replace (Z.min s2 6) with s2 by lia. fold s3. fold (bsize s3). cbn [Z.mul].
      replace ((0 >? blen rep) || (0 =? blen rep) && (0 <? 0)) with false by lia.
      cbn [rs_code rs_block1 rs_etag rs_payload rs_maxexp rs_block2]. pose proof (bsize_pos s3) as Hsz. repeat split.
      + cbn [Z.add]. intros ->. rewrite Z.div_0_l; [reflexivity|]. 
        assert (0 <= pol (s_policy2 scf) k 6) by (apply pol_nonneg; [apply (h_pol2 _ _ _ Hh)|lia]). subst s3. lia.
      + cbn [Z.add]. intros ->. reflexivity.
  Qed.

  Lemma serve_ref_followup st rq n2 m2 s2 : rq_block1 rq = None -> rq_block2 rq = Some (n2, m2, s2) -> 0 < n2 -> s2 <> 7 ->
    serve_ref scf st rq = ({| sv_asm := sv_asm st; sv_bodies := sv_bodies st; sv_step := sv_step st + 1 |},
                           SResp (slice_response scf (sv_step st) CONTENT None (Some (n2, m2, s2)))).
  Proof.
    intros H1 H2 Hn Hs7. unfold serve_ref. rewrite honest_eq_regular; [|apply (h_bert _ _ _ Hh)|unfold is_bert_request, szx_is_7; rewrite H1, H2; lia].
    unfold honest_regular. rewrite H1, H2. replace (0 <? n2) with true by lia. rewrite (h_mis _ _ _ Hh). reflexivity.
  Qed.

  (* Block2 completion against the reference server: the whole representation, nothing else *)
  Lemma block2_loop_ref fuel : forall st t acc mbse nn szx j,
    0 <= mbse -> rs_block2 acc = Some (nn, true, szx) -> 0 <= szx <= 6 ->
    rs_payload acc = bto rep (j * bsize szx) -> 0 < j * bsize szx < blen rep -> rs_etag acc = e ->
    (Z.to_nat (blen rep - j * bsize szx) < fuel)%nat ->
    exists st' tr r, block2_loop (serve_ref scf) fuel st t acc mbse = (st', tr, Done r) /\
       rs_payload r = rep /\ rs_etag r = e /\ rs_code r = rs_code acc /\ rs_block1 r = rs_block1 acc /\
       sv_bodies st' = sv_bodies st /\ no_block1 tr.
  Proof.
    induction fuel as [|f IH]; intros st t acc mbse nn szx j Hmb Hb Hszx Hpl Hgot Het Hfuel; [lia|].
    set (got := j * bsize szx) in *. pose proof (bsize_pos szx ltac:(lia)) as Hsz.
    assert (Hlen : blen (rs_payload acc) = got) by (rewrite Hpl; apply blen_bto; lia).
    cbn [block2_loop]. unfold generate_next_block2_request. rewrite Hb. rewrite bt_size_spec. cbn [bind]. rewrite bt_start_spec. cbn [bind].
    replace (Z.min szx 6) with szx by lia. rewrite Hlen.
    assert (Hdiv : got / bsize szx = j) by (subst got; apply Z.div_mul; lia). rewrite Hdiv. fold got.
    rewrite Z.eqb_refl. cbn [massert bind].
    destruct (bt_reduced_to j false szx mbse) as [[[n2 m2] s2]|] eqn:Hred; [|rewrite bt_reduced_to_spec in Hred by lia; discriminate].
    apply bt_reduced_to_offset in Hred as (Hoff2 & -> & Hs2 & Hs2min); try lia. cbn [bind]. fold got in Hoff2.
    pose proof (bsize_pos s2 ltac:(lia)) as Hsz2. assert (Hn2 : 0 < n2) by nia.
    set (rq := {| rq_block1 := None; rq_block2 := Some (n2, false, s2); rq_size1 := rq_size1 t; rq_payload := [] |}).
    rewrite (serve_ref_followup st rq n2 false s2) by (reflexivity || lia).
    rewrite slice_response_some by lia. rewrite Hoff2.
    set (k := sv_step st). set (s3 := Z.min s2 (pol (s_policy2 scf) k 6)).
    assert (Hp : 0 <= pol (s_policy2 scf) k 6) by (apply pol_nonneg; [apply (h_pol2 _ _ _ Hh)|lia]).
    assert (Hs3 : 0 <= s3 <= s2) by (subst s3; lia). pose proof (bsize_pos s3 ltac:(lia)) as Hsz3.
    assert (Hdiv3 : got / bsize s3 * bsize s3 = got) by (apply (div_mul_bsize got j szx s3); [lia|reflexivity]).
    cbn [rs_block2]. rewrite append_response_block_eq. unfold append_inline. cbn [rs_block2 rs_payload rs_etag].
    rewrite bt_is_valid_spec by lia. rewrite bt_start_spec. replace (Z.min s3 6) with s3 by lia. cbn [bind].
    rewrite Hdiv3, Hlen, Z.eqb_refl. rewrite Het, etag_eqb_refl. cbn [negb].
    destruct (got + bsize s3 <? blen rep) eqn:Emore.
    - rewrite blen_bslice by lia. replace (got + bsize s3 - got =? bsize s3) with true by lia. cbn [negb bt_more fst snd].
      assert (Hnext : (got / bsize s3 + 1) * bsize s3 = got + bsize s3) by (rewrite Z.mul_add_distr_r, Hdiv3; lia).
      match goal with |- context [block2_loop _ f ?s1 t ?a mbse] => 
        destruct (IH s1 t a mbse (got / bsize s3) s3 (got / bsize s3 + 1)) as (st' & tr & r & Hrun & H1 & H2 & H3 & H4 & H5 & H6) end;
        rewrite ?Hnext; try lia; try reflexivity.
      + cbn [rs_payload]. rewrite Hpl. fold got. rewrite bto_bslice by lia. reflexivity.
      + rewrite Hrun. exists st', (rq :: tr), r. repeat split; try assumption. constructor; [reflexivity|assumption].
    - rewrite (bslice_clamp rep got (got + bsize s3)) by lia. rewrite blen_bslice by lia.
      replace (blen rep - got <=? bsize s3) with true by lia. cbn [negb bt_more fst snd].
      eexists _, [rq], _. split; [reflexivity|]. cbn [rs_payload rs_etag rs_code rs_block1 sv_bodies].
      repeat split; try reflexivity.
      + rewrite Hpl. fold got. rewrite bto_bslice by lia. apply bto_all. lia.
      + repeat constructor.
  Qed.
End Ref.

Lemma bslice_0 {A} (l : list A) j : bslice l 0 j = bto l j.
Proof. reflexivity. Qed.

Lemma slice_response_wf scf k code b1 req_b2 : Forall (fun x => 0 <= x) (s_policy2 scf) ->
  bt_wf b1 = true -> bt_wf req_b2 = true -> resp_wf (slice_response scf k code b1 req_b2) = true.
Proof.
  intros Hp H1 H2. unfold slice_response. destruct (nth _ (s_reps scf) (None, [])) as [etag rp].
  assert (Hpol : 0 <= pol (s_policy2 scf) k 6) by (apply pol_nonneg; [assumption|lia]).
  destruct req_b2 as [[[n2 m2] s2]|]; cbn [bt_wf] in H2.
  - match goal with |- context [if ?c then _ else _] => destruct c end; [reflexivity|].
    unfold resp_wf. cbn [rs_block1 rs_block2]. rewrite H1. cbn [andb bt_wf].
    set (s3 := Z.min (Z.min s2 6) (pol (s_policy2 scf) k 6)).
    assert (0 <= s3 <= 6) by (subst s3; lia).
    assert (0 < 2 ^ (s3 + 4)) by (apply Z.pow_pos_nonneg; lia).
    assert (0 <= 2 ^ (Z.min s2 6 + 4)) by (apply Z.pow_nonneg; lia).
    assert (0 <= n2 * 2 ^ (Z.min s2 6 + 4) / 2 ^ (s3 + 4)) by (apply Z.div_pos; nia).
    lia.
  - match goal with |- context [if ?c then _ else _] => destruct c end; [reflexivity|].
    unfold resp_wf. cbn [rs_block1 rs_block2]. rewrite H1. cbn [andb].
    match goal with |- context [if ?c then _ else _] => destruct c end; [|reflexivity].
    cbn [bt_wf]. change (Z.min 6 6) with 6. lia.
Qed.

Lemma serve_ref_wf scf : s_mis scf = None -> Forall (fun x => 0 <= x) (s_policy1 scf) -> Forall (fun x => 0 <= x) (s_policy2 scf) -> s_bert scf = 0 ->
  forall st rq st' r, req_wf rq = true -> serve_ref scf st rq = (st', SResp r) -> resp_wf r = true.
Proof.
  intros Hmis Hp1 Hp2 Hbert st rq st' r Hwf. unfold serve_ref. rewrite Hmis. rewrite honest_eq_regular by (assumption || apply req_wf_not_bert; assumption).
  destruct (honest_regular scf st rq) as [st1 r1] eqn:Hh. intros H; inv H.
  unfold req_wf in Hwf. apply andb_prop in Hwf as [Hw1 Hw2].
  assert (Hw1' : bt_wf (rq_block1 rq) = true) by (unfold bt_wf, bt_wf6 in *; destruct (rq_block1 rq) as [[[? ?] ?]|]; lia).
  assert (Hw2' : bt_wf (rq_block2 rq) = true) by (unfold bt_wf, bt_wf6 in *; destruct (rq_block2 rq) as [[[? ?] ?]|]; lia).
  clear Hw1 Hw2. rename Hw1' into Hw1. rename Hw2' into Hw2.
  assert (Hpol : 0 <= pol (s_policy1 scf) (sv_step st) 6) by (apply pol_nonneg; [assumption|lia]).
  unfold honest_regular in Hh. destruct (rq_block1 rq) as [[[n m] szx]|]; cbn [bt_wf] in Hw1.
  - destruct (negb _); [inv Hh; reflexivity|]. destruct (_ || _); [inv Hh; reflexivity|].
    destruct m; inv Hh.
    + unfold resp_wf. cbn [rs_block1 rs_block2 bt_wf]. lia.
    + apply slice_response_wf; try assumption. cbn [bt_wf]. lia.
  - destruct (rq_block2 rq) as [[[n2 m2] s2]|] eqn:Hb2.
    + destruct (0 <? n2); inv Hh; apply slice_response_wf; try assumption; reflexivity.
    + inv Hh. apply slice_response_wf; try assumption; reflexivity.
Qed.

Section Ref2.
  Variable scf : scfg. Variable e : option Z. Variable rep : list Z.
  Hypothesis Hh : honest_cfg scf e rep.
  Variable cfg : ccfg.
  Hypothesis Hmbse : 0 <= c_mbse cfg <= 6.
  Hypothesis Hmps : 0 <= c_mps cfg.
  Hypothesis Hb2 : c_block2 cfg = None \/ exists m2 s2, c_block2 cfg = Some (0, m2, s2) /\ 0 <= s2 <= 6.
  Let srv := serve_ref scf.
  Let body := c_body cfg.

  Definition req_szx : Z := match c_block2 cfg with Some (_, _, s2) => s2 | None => 6 end.
  Lemma first_req : (c_block2 cfg = None /\ req_szx = 6) \/ (exists m2, c_block2 cfg = Some (0, m2, req_szx) /\ 0 <= req_szx <= 6).
  Proof. unfold req_szx. destruct Hb2 as [->|(m2 & s2 & -> & H)]; [left; auto|right; eauto]. Qed.

  (* completion of the first slice *)
  Lemma complete_ref fuel st t k code b1 mbse : 0 <= mbse ->
    (Z.to_nat (blen rep) < fuel)%nat ->
    exists st' tr r,
      complete_by_requesting_block2 srv fuel st t (clear_block1 (slice_response scf k code b1 (c_block2 cfg))) mbse = (st', tr, Done r) /\
      rs_payload r = rep /\ rs_etag r = e /\ rs_code r = code /\ rs_block1 r = None /\ sv_bodies st' = sv_bodies st /\ no_block1 tr.
  Proof.
    intros Hmb Hfuel. pose proof (slice_response_first scf e rep Hh k code b1 (c_block2 cfg) req_szx first_req) as H.
    cbv zeta in H. set (s3 := Z.min req_szx (pol (s_policy2 scf) k 6)) in *.
    set (r0 := slice_response scf k code b1 (c_block2 cfg)) in *.
    destruct H as (Hc & _ & He & Hp & _ & Hmore & Hfin).
    assert (Hpol : 0 <= pol (s_policy2 scf) k 6) by (apply pol_nonneg; [apply (h_pol2 _ _ _ Hh)|lia]).
    assert (Hs3 : 0 <= s3 <= 6) by (subst s3; destruct first_req as [[_ ->]|(m2 & _ & Hr)]; lia).
    pose proof (bsize_pos s3 ltac:(lia)) as Hsz. pose proof (blen_nonneg rep) as Hnn.
    unfold complete_by_requesting_block2, unexpected_first_block. cbn [clear_block1 rs_block2].
    assert (Hfirst0 : match rs_block2 r0 with Some b => bt_num b = 0 | None => True end).
    { subst r0. unfold slice_response. rewrite (current_rep scf e rep Hh).
      destruct (c_block2 cfg) as [[[n2 m2] s2]|] eqn:Hcb.
      - destruct Hb2 as [Hn|(m2' & s2' & Heq & _)]; [congruence|]. rewrite ?Hcb in Heq. inv Heq.
        match goal with |- context [if ?c then plain _ else _] => destruct c end; [exact I|]. cbn [rs_block2 bt_num fst Z.mul].
        apply Zdiv_0_l.
      - match goal with |- context [if ?c then plain _ else _] => destruct c end; [exact I|]. cbn [rs_block2].
        match goal with |- context [if ?c then Some _ else None] => destruct c end; [reflexivity|exact I]. }
    destruct (bsize s3 <? blen rep) eqn:E.
    - rewrite (Hmore eq_refl) in *. cbn [bt_more bt_num fst snd negb]. rewrite Z.eqb_refl. cbn [negb andb].
      destruct (block2_loop_ref scf e rep Hh fuel st t (clear_block1 r0) mbse 0 s3 1) as (st' & tr & r & Hrun & H1 & H2 & H3 & H4 & H5 & H6);
        try lia; cbn [clear_block1 rs_block2 rs_payload rs_etag]; try assumption.
      + apply Hmore. reflexivity.
      + rewrite Hp, bslice_0. f_equal. lia.
      + exists st', tr, r. repeat split; try assumption. rewrite H3. exact Hc.
    - specialize (Hfin eq_refl). assert (Hrep : rs_payload r0 = rep) by (rewrite Hp, bslice_0; apply bto_all; lia).
      destruct (rs_block2 r0) as [b|].
      + rewrite Hfirst0, Z.eqb_refl. cbn [negb andb]. rewrite Hfin. cbn [negb]. eexists _, [], _. split; [reflexivity|]. cbn [clear_block2 clear_block1 rs_payload rs_etag rs_code rs_block1].
        repeat split; try assumption. constructor.
      + eexists _, [], _. split; [reflexivity|]. cbn [clear_block1 rs_payload rs_etag rs_code rs_block1]. repeat split; try assumption. constructor.
  Qed.

  Lemma serve_ref_block1 st n (m : bool) szx b2 s1 pl :
    let asm := if n =? 0 then (@nil Z) else sv_asm st in
    n * bsize szx = blen asm -> (if m then blen pl =? bsize szx else blen pl <=? bsize szx) = true -> szx <> 7 -> szx_is_7 b2 = false ->
    let k := sv_step st in let aszx := Z.min szx (pol (s_policy1 scf) k 6) in
    srv st {| rq_block1 := Some (n, m, szx); rq_block2 := b2; rq_size1 := s1; rq_payload := pl |} =
      if m then ({| sv_asm := asm ++ pl; sv_bodies := sv_bodies st; sv_step := k + 1 |},
                 SResp {| rs_code := if s_atomic scf then CONTINUE else CHANGED; rs_block1 := Some (n, s_atomic scf, aszx); rs_block2 := None;
                          rs_etag := None; rs_payload := []; rs_maxexp := 6; rs_observe := false |})
      else ({| sv_asm := []; sv_bodies := (asm ++ pl) :: sv_bodies st; sv_step := k + 1 |},
            SResp (slice_response scf k CHANGED (Some (n, false, aszx)) b2)).
  Proof.
    intros asm Hoff Hlen Hs7 Hb7 k aszx. unfold srv, serve_ref. rewrite honest_eq_regular; [|apply (h_bert _ _ _ Hh)|unfold is_bert_request; cbn [rq_block1 rq_block2 szx_is_7]; rewrite Hb7; lia].
    unfold honest_regular. cbn [rq_block1 rq_payload rq_block2]. fold (bsize szx). fold asm. fold k.
    rewrite Hoff, Z.eqb_refl. cbn [negb]. rewrite (h_mis _ _ _ Hh).
    destruct m; cbn [negb andb orb].
    - rewrite Hlen. cbn [negb]. reflexivity.
    - replace (bsize szx <? blen pl) with false by lia. reflexivity.
  Qed.

  Lemma block1_loop_ref fuel : forall st cursor size_exp mbse,
    0 <= size_exp <= 6 -> 0 <= cursor -> cursor * bsize size_exp < blen body ->
    blen body > fragmentation_threshold (c_mps cfg) size_exp -> 0 <= mbse <= 6 ->
    (cursor <> 0 -> sv_asm st = bto body (cursor * bsize size_exp)) ->
    (Z.to_nat (blen body - cursor * bsize size_exp) + Z.to_nat (blen rep) + 1 < fuel)%nat ->
    exists st' tr r, block1_loop srv fuel st cfg cursor size_exp mbse = (st', tr, Done r) /\
      sv_bodies st' = body :: sv_bodies st /\ rs_payload r = rep /\ rs_etag r = e /\ rs_code r = CHANGED /\ rs_block1 r = None.
  Proof.
    induction fuel as [|f IH]; intros st cursor size_exp mbse Hs Hc Hoff Hfrag Hmb Hasm Hfuel; [lia|].
    cbn [block1_loop]. unfold block1_request. fold body.
    replace (blen body >? fragmentation_threshold (c_mps cfg) size_exp) with true by lia.
    pose proof (bsize_pos size_exp ltac:(lia)) as Hsz.
    destruct (extract_blocks_partition_lemma body size_exp (c_mps cfg) cursor Hs Hc) as [_ Hok].
    destruct (Hok Hoff) as (pl & more & Hex & Hcat & Hmore & Hfin). rewrite Hex. cbn [bind].
    assert (Hcb7 : szx_is_7 (c_block2 cfg) = false) by (unfold szx_is_7; destruct Hb2 as [->|(m2 & s2 & -> & Hs2)]; [reflexivity|lia]).
    set (asm := if cursor =? 0 then [] else sv_asm st).
    assert (Hasm' : asm = bto body (cursor * bsize size_exp)).
    { subst asm. destruct (cursor =? 0) eqn:E0; [replace cursor with 0 by lia; reflexivity|apply Hasm; lia]. }
    assert (Hasmlen : cursor * bsize size_exp = blen asm) by (rewrite Hasm', blen_bto; [reflexivity|fold body; lia]).
    set (k := sv_step st). set (aszx := Z.min size_exp (pol (s_policy1 scf) k 6)).
    assert (Hpol : 0 <= pol (s_policy1 scf) k 6) by (apply pol_nonneg; [apply (h_pol1 _ _ _ Hh)|lia]).
    replace (if mbse <? 6 then mbse else 6) with mbse by (destruct (mbse <? 6) eqn:E; lia).
    destruct more.
    - destruct (Hmore eq_refl) as [Hpl Hlt].
      rewrite (serve_ref_block1 st cursor true size_exp (c_block2 cfg) _ pl Hasmlen ltac:(lia) ltac:(lia) Hcb7). fold asm k aszx.
      cbn [rs_maxexp]. replace (if mbse <? 6 then mbse else 6) with mbse by (destruct (mbse <? 6) eqn:E; lia).
      match goal with |- context [block1_react ?rq ?resp cursor size_exp] =>
        assert (Hreact : exists c2 e2, block1_react rq resp cursor size_exp = B1Continue c2 e2);
        [|destruct Hreact as (c2 & e2 & Hreact);
          destruct (block1_react_continue rq resp cursor size_exp cursor true size_exp c2 e2 Hs eq_refl) as (_ & He2 & Hc2);
          [unfold resp_wf; cbn [rs_block1 rs_block2 bt_wf]; subst aszx; lia|exact Hreact|rewrite Hreact] ] end.
      { unfold block1_react. cbn [rs_block1 rq_block1 bt_num bt_more bt_szx fst snd rs_code rs_observe]. rewrite Z.eqb_refl. cbn [negb].
        destruct (reduce_size _ _ _ _) as [c2 e2]. destruct (s_atomic scf); [eauto|]. cbn. eauto. }
      pose proof (bsize_pos e2 ltac:(lia)) as Hsz2. assert (Hc2' : 1 <= c2) by nia.
      match goal with |- context [block1_loop srv f ?s1 cfg c2 e2 mbse] =>
        destruct (IH s1 c2 e2 mbse) as (st' & tr & r & Hrun & H1 & H2 & H3 & H4 & H5) end; try lia.
      + unfold fragmentation_threshold in *. destruct (e2 >=? 6) eqn:E6.
        * replace (size_exp >=? 6) with true in Hfrag by lia. exact Hfrag.
        * fold (bsize e2). assert (bsize e2 <= c2 * bsize e2) by nia. lia.
      + intros _. cbn [sv_asm]. rewrite Hasm', Hc2. fold body in Hcat. rewrite Hcat. f_equal. lia.
      + rewrite Hrun. exists st', ({| rq_block1 := Some (cursor, true, size_exp); rq_block2 := c_block2 cfg;
                                      rq_size1 := if cursor =? 0 then Some (blen body) else None; rq_payload := pl |} :: tr), r.
        cbn [sv_bodies] in H1. repeat split; assumption.
    - destruct (Hfin eq_refl) as [Hpl Hend].
      rewrite (serve_ref_block1 st cursor false size_exp (c_block2 cfg) _ pl Hasmlen ltac:(lia) ltac:(lia) Hcb7). fold asm k aszx.
      pose proof (slice_response_first scf e rep Hh k CHANGED (Some (cursor, false, aszx)) (c_block2 cfg) req_szx first_req) as Hfirst.
      cbv zeta in Hfirst. destruct Hfirst as (Hcode & Hblk1 & _ & _ & Hmax & _).
      rewrite Hmax. replace (if mbse <? 6 then mbse else 6) with mbse by (destruct (mbse <? 6) eqn:E; lia).
      assert (Hreact : block1_react {| rq_block1 := Some (cursor, false, size_exp); rq_block2 := c_block2 cfg;
                                       rq_size1 := if cursor =? 0 then Some (blen body) else None; rq_payload := pl |}
                         (slice_response scf k CHANGED (Some (cursor, false, aszx)) (c_block2 cfg)) cursor size_exp = B1Break).
      { unfold block1_react. rewrite Hblk1, Hcode. cbn [rq_block1 bt_num bt_more bt_szx fst snd]. rewrite Z.eqb_refl. cbn [negb].
        destruct (reduce_size _ _ _ _). reflexivity. }
      rewrite Hreact.
      match goal with |- context [complete_by_requesting_block2 srv f ?s1 ?t _ mbse] =>
        destruct (complete_ref f s1 t k CHANGED (Some (cursor, false, aszx)) mbse) as (st' & tr & r & Hrun & H1 & H2 & H3 & H4 & H5 & H6) end; try lia.
      rewrite Hrun. eexists _, _, _. split; [reflexivity|]. cbn [sv_bodies] in H5. rewrite H5.
      repeat split; try assumption. f_equal. rewrite Hasm'. fold body in Hcat. rewrite Hcat. apply bto_all. lia.
  Qed.

  (* the end-to-end statement *)
  Lemma transfer_correct_lemma fuel :
    (Z.to_nat (blen body) + Z.to_nat (blen rep) + 1 < fuel)%nat ->
    exists st tr r, run srv fuel sstate0 cfg = (st, tr, Done r) /\
      sv_bodies st = [body] /\ rs_payload r = rep /\ rs_etag r = e /\ is_successful (rs_code r) = true /\ rs_block1 r = None /\
      wire_ok cfg tr.
  Proof.
    intros Hfuel. unfold run.
    assert (Hgoal : exists st tr r, block1_loop srv fuel sstate0 cfg 0 (c_mbse cfg) (c_mbse cfg) = (st, tr, Done r) /\
      sv_bodies st = [body] /\ rs_payload r = rep /\ rs_etag r = e /\ is_successful (rs_code r) = true /\ rs_block1 r = None).
    { destruct (blen body >? fragmentation_threshold (c_mps cfg) (c_mbse cfg)) eqn:Hfrag.
      - destruct (block1_loop_ref fuel sstate0 0 (c_mbse cfg) (c_mbse cfg)) as (st' & tr & r & Hrun & H1 & H2 & H3 & H4 & H5); try lia.
        + pose proof (bsize_pos (c_mbse cfg) ltac:(lia)). unfold fragmentation_threshold in Hfrag.
          destruct (c_mbse cfg >=? 6); [lia|]. fold (bsize (c_mbse cfg)) in Hfrag. lia.
        + exists st', tr, r. rewrite H4. repeat split; assumption.
      - destruct fuel as [|f]; [lia|]. cbn [block1_loop]. unfold block1_request. fold body. rewrite Hfrag.
        set (rq0 := {| rq_block1 := None; rq_block2 := c_block2 cfg; rq_size1 := None; rq_payload := body |}).
        assert (Hserve : srv sstate0 rq0 = ({| sv_asm := []; sv_bodies := [body]; sv_step := 1 |},
                                           SResp (slice_response scf 0 CONTENT None (c_block2 cfg)))).
        { unfold srv, serve_ref. rewrite honest_eq_regular; [|apply (h_bert _ _ _ Hh)|unfold is_bert_request, szx_is_7; cbn [rq0 rq_block1 rq_block2]; destruct Hb2 as [->|(m2 & s2 & -> & Hs2)]; [reflexivity|lia]].
          unfold honest_regular. cbn [rq0 rq_block1 rq_block2 rq_payload sstate0 sv_step sv_bodies sv_asm]. rewrite (h_mis _ _ _ Hh).
          destruct Hb2 as [->|(m2 & s2 & -> & _)]; reflexivity. }
        rewrite Hserve.
        pose proof (slice_response_first scf e rep Hh 0 CONTENT None (c_block2 cfg) req_szx first_req) as Hfirst.
        cbv zeta in Hfirst. destruct Hfirst as (Hcode & Hblk1 & _ & _ & Hmax & _).
        unfold block1_react. rewrite Hblk1, Hmax.
        replace (if c_mbse cfg <? 6 then c_mbse cfg else 6) with (c_mbse cfg) by (destruct (c_mbse cfg <? 6) eqn:E; lia).
        match goal with |- context [complete_by_requesting_block2 srv f ?s1 ?t _ ?mb] =>
          destruct (complete_ref f s1 t 0 CONTENT None mb) as (st' & tr & r & Hrun & H1 & H2 & H3 & H4 & H5 & H6) end; try lia.
        rewrite Hrun. eexists _, _, _. split; [reflexivity|]. rewrite H5, H3. repeat split; assumption. }
    destruct Hgoal as (st & tr & r & Hrun & H). exists st, tr, r. split; [exact Hrun|].
    destruct H as (H1 & H2 & H3 & H4 & H5). repeat split; try assumption.
    eapply (run_wire_ok srv) with (fuel := fuel) (s := sstate0); try eassumption.
    - (* the reference server answers well-formed requests with well-formed responses *)
      apply serve_ref_wf; [apply (h_mis _ _ _ Hh)|apply (h_pol1 _ _ _ Hh)|apply (h_pol2 _ _ _ Hh)|apply (h_bert _ _ _ Hh)].
    - unfold bt_wf6. destruct Hb2 as [->|(m2 & s2 & -> & Hs2)]; [reflexivity|lia].
  Qed.
End Ref2.

(* Theorem 3 put together: whatever the server does and whenever its representation changes, as long as every block it sends is a
   slice of one of its representations and carries that representation's ETag (distinct ETags), a body handed to the caller is one of
   the representations, whole — never a truncated, duplicated or mixed one *)
Lemma block2_never_mixed_lemma reps : NoDup (map fst reps) ->
  forall fuel script t initial mbse rest tr r e rep szx,
  In (e, rep) reps -> rs_etag initial = Some e -> rs_block2 initial = Some (0, true, szx) -> 0 <= szx <= 6 ->
  rs_payload initial = bto rep (bsize szx) -> bsize szx < blen rep ->
  (forall x, In (SResp x) script -> slice_of reps x) ->
  complete_by_requesting_block2 serve_script fuel script t initial mbse = (rest, tr, Done r) ->
  exists e' rep', In (e', rep') reps /\ rs_payload r = rep'.
Proof.
  intros Hnd fuel script t initial mbse rest tr r e rep szx Hin Het Hb Hszx Hpl Hlt Hall Hrun.
  apply block2_assembly_exact_lemma in Hrun as [(_ & Hn & _)|[(b & Hb' & Hm & _)|(szx' & consumed & _ & Hscript & Hch & _)]].
  - congruence.
  - rewrite Hb in Hb'. inv Hb'. discriminate.
  - pose proof (bsize_pos szx ltac:(lia)). eapply (b2_chain_representation reps Hnd consumed initial r e rep); try eassumption.
    + rewrite Hpl. rewrite blen_bto by lia. reflexivity.
    + rewrite Hpl. rewrite blen_bto by lia. lia.
    + apply Forall_forall. intros x Hx. apply Hall. rewrite Hscript. apply in_or_app. left. apply in_map. exact Hx.
Qed.

