(* C14 — what one event does to the queue of one remote: released exactly on ACK/RST, dropped (and the
   requests failed) exactly on give-up / transport error, untouched otherwise; immediate transmission when
   nothing is outstanding; other remotes are not affected. *)
From Verif Require Import Lib.Tactics Model.C14 Proofs.C14.
Import ListNotations.
Open Scope Z_scope.

(* ---------------------------------------------------------------- classification of an event with respect to remote r *)
(* an ACK or RST from r carrying the message ID of the exchange that is open with r *)
Definition acks (s : st) (e : event) (r : Z) : bool :=
  match e with
  | RecvEmpty r' mt mid | RecvResp r' mt mid _ =>
      (r' =? r) && ((mt =? 2) || (mt =? 3)) && match xget r mid (active_exchanges s) with Some _ => true | None => false end
  | _ => false
  end.
(* a transport error for r, or the last time-out of the exchange that is open with r *)
Definition fails (s : st) (e : event) (r : Z) : bool :=
  match e with
  | TransportError r' => r' =? r
  | Fire => match min_timer (active_exchanges s) with
            | Some x => (m_remote (x_msg x) =? r) && negb (x_counter x <? m_maxre (x_msg x))
            | None => false
            end
  | _ => false
  end.
(* the remote an event is about *)
Definition touches (s : st) (e : event) (r : Z) : bool :=
  match e with
  | Request _ r' _ _ | RawSend _ r' _ _ _ | RecvEmpty r' _ _ | RecvResp r' _ _ _ | TransportError r' => r' =? r
  | Fire => match min_timer (active_exchanges s) with Some x => m_remote (x_msg x) =? r | None => false end
  | Advance _ | Cancel _ => false
  | Serve _ r' _ _ => r' =? r
  | Respond _ k _ _ => match find (fun v => v_k v =? k) (incoming_requests s) with Some v => v_remote v =? r | None => false end
  end.
(* outputs that concern remote r: datagrams to it, and the ghost records of its messages *)
Definition about (r : Z) (o : output) : bool :=
  match o with
  | Tx m _ | Submitted m | Dropped m => m_remote m =? r
  | TxEmpty r' _ _ | Fired r' _ => r' =? r
  | _ => false
  end.
Definition silent (r : Z) (o : list output) : bool := forallb (fun x => negb (about r x)) o.

Lemma silent_app r a b : silent r (a ++ b) = silent r a && silent r b. Proof. apply forallb_app. Qed.
Lemma silent_logs r o : silent r o = true -> subm r o = [] /\ left r o = [].
Proof. induction o as [|x o IH]; [auto|]. unfold silent in *. cbn [forallb]. intros H. apply andb_prop in H. destruct H as [H1 H2].
  destruct (IH H2) as (A & B). unfold subm, left in *. cbn [flat_map]. rewrite A, B.
  destruct x; cbn in *; auto; unfold con_to; try (replace (m_remote m =? r) with false by lia); rewrite ?andb_false_r; auto.
  destruct retr; auto. Qed.
Lemma neutral_fails l : forallb neutral (map (fun o : Z * Z * Z => Fail (q_of o) ConRetransmitsExceeded) l) = true.
Proof. induction l; [reflexivity|assumption]. Qed.

(* ---------------------------------------------------------------- normal forms *)
Lemma remove_exchange_nf r mid mt s x : Inv s -> xget r mid (active_exchanges s) = Some x ->
  remove_exchange r mid mt s =
    (let s1 := upd_ex s (xdel r mid (active_exchanges s)) in
     let mon := if mt =? 3 then call_monitor (x_msg x) s1 else (s1, []) in
     (fst (release r (fst mon)), snd mon ++ snd (release r (fst mon)))) /\
  exs r (upd_ex s (xdel r mid (active_exchanges s))) = [] /\ exists q, aget r (backlogs s) = Some q /\ Forall (fun m => con_to r m = true) q.
Proof. intros HI Ex. unfold remove_exchange. rewrite Ex.
  destruct (xget_some _ _ _ _ Ex) as (Hin & Hr & Hm).
  set (s1 := upd_ex s (xdel r mid (active_exchanges s))).
  destruct (inv_count_aget s r HI) as [[Hc _]|(x0 & q & Hx & Ha & Hq)].
  { exfalso. pose proof (in_exs r s x Hin Hr) as Hi. rewrite (count0_exs r s Hc) in Hi. exact Hi. }
  assert (Hz1 : exs r s1 = []).
  { unfold s1. rewrite exs_upd_ex. apply (filter_xdel_same r mid _ x); [fold (exs r s); rewrite Hx; cbn; lia|exact Hin|unfold key_eqb; lia]. }
  split; [|split; [exact Hz1|exists q; auto]]. cbn zeta.
  set (mon := if mt =? 3 then call_monitor (x_msg x) s1 else (s1, [])).
  assert (Hmon : active_exchanges (fst mon) = active_exchanges s1 /\ backlogs (fst mon) = backlogs s1).
  { unfold mon. destruct (mt =? 3); [destruct (call_monitor_frame (x_msg x) s1) as (A & B & _); auto|cbn; auto]. }
  destruct mon as [s2 o2]. cbn [fst snd] in *. destruct Hmon as (He2 & Hb2).
  rewrite (continue_backlog_nf r s2 q).
  - destruct (release r s2); reflexivity.
  - rewrite has_exchange_exs. unfold count_r, exs. rewrite He2. fold (exs r s1). rewrite Hz1. reflexivity.
  - rewrite Hb2. exact Ha.
  - exact Hq. Qed.

(* the part of dispatch_message after _remove_exchange touches neither exchanges nor backlogs *)
Lemma dispatch_message_shape r mt code mid tok s :
  let first := if (mt =? 2) || (mt =? 3) then remove_exchange r mid mt s else (s, []) in
  exists tail, snd (dispatch_message r mt code mid tok s) = snd first ++ tail /\ forallb neutral tail = true /\
    (forall r', r' <> r -> silent r' tail = true) /\
    active_exchanges (fst (dispatch_message r mt code mid tok s)) = active_exchanges (fst first) /\
    backlogs (fst (dispatch_message r mt code mid tok s)) = backlogs (fst first).
Proof. cbn zeta. unfold dispatch_message, send_empty.
  destruct (if (mt =? 2) || (mt =? 3) then remove_exchange r mid mt s else (s, [])) as [s1 o1]. cbn [fst snd].
  assert (Hs : forall r' a b, r' <> r -> silent r' [TxEmpty r a b] = true) by (intros; unfold silent; cbn; replace (r =? r') with false by lia; reflexivity).
  destruct (code =? 0).
  - destruct (mt =? 0); cbn [fst snd].
    + eexists. split; [reflexivity|]. split; [reflexivity|]. split; [intros; apply Hs; assumption|auto].
    + exists []. rewrite app_nil_r. auto.
  - destruct (mt =? 3); cbn [fst snd]; [exists []; rewrite app_nil_r; auto|].
    pose proof (tm_process_response_frame r tok s1) as (He & Hb & Hn).
    assert (Hd : forall r', silent r' (snd (fst (tm_process_response r tok s1))) = true).
    { intros r'. unfold tm_process_response. destruct (find _ _); reflexivity. }
    destruct (tm_process_response r tok s1) as [[s2 o2] ok]. cbn [fst snd] in *.
    destruct ok; destruct (mt =? 0); cbn [fst snd]; eexists; (split; [reflexivity|]); rewrite ?forallb_app, ?Hn;
      (split; [reflexivity|]); (split; [|auto]); intros r' Hne; rewrite ?silent_app, ?Hd, ?Hs by assumption; reflexivity. Qed.

(* ---------------------------------------------------------------- (A) released exactly when acknowledged / reset *)
Lemma release_head r s m rest : exs r s = [] -> aget r (backlogs s) = Some (m :: rest) -> con_to r m = true ->
  snd (release r s) = [Tx m false] /\ aget r (backlogs (fst (release r s))) = Some rest /\
  exists x', exs r (fst (release r s)) = [x'] /\ x_msg x' = m /\ x_counter x' = 0.
Proof. intros Hz Ha Hm. unfold release, backlog_of. rewrite Ha. cbn [fst snd].
  assert (Hr : m_remote m = r) by (unfold con_to in Hm; lia).
  set (s1 := upd_bl s (aset r rest (backlogs s))).
  split; [reflexivity|]. split.
  - rewrite add_exchange_bl, Hr. unfold in_backlogs, s1. cbn [backlogs upd_bl]. rewrite aget_aset_same. apply aget_aset_same.
  - destruct (add_exchange_exs_same m s1) as (x' & A & B & C); [rewrite Hr; exact Hz|]. exists x'. rewrite <- Hr at 1. auto. Qed.

Lemma release_empty r s : exs r s = [] -> aget r (backlogs s) = Some [] ->
  snd (release r s) = [] /\ aget r (backlogs (fst (release r s))) = None /\ exs r (fst (release r s)) = [].
Proof. intros Hz Ha. unfold release, backlog_of. rewrite Ha. cbn. split; [reflexivity|]. split; [apply aget_adel_same|exact Hz]. Qed.

Lemma acks_inv s e r : acks s e r = true ->
  exists mt mid x, (mt = 2 \/ mt = 3) /\ xget r mid (active_exchanges s) = Some x /\
    (e = RecvEmpty r mt mid \/ exists tok, e = RecvResp r mt mid tok).
Proof. destruct e; cbn; try discriminate; intros H.
  - destruct (xget r mid (active_exchanges s)) as [x|] eqn:E; [|rewrite andb_false_r in H; discriminate].
    assert (r0 = r) by lia. subst r0. exists mtype, mid, x. split; [lia|]. split; [exact E|left; reflexivity].
  - destruct (xget r mid (active_exchanges s)) as [x|] eqn:E; [|rewrite andb_false_r in H; discriminate].
    assert (r0 = r) by lia. subst r0. exists mtype, mid, x. split; [lia|]. split; [exact E|right; exists tok; reflexivity]. Qed.

Lemma dispatch_message_acked r mt code mid tok s x q : Inv s -> (mt = 2 \/ mt = 3) -> xget r mid (active_exchanges s) = Some x ->
  aget r (backlogs s) = Some q ->
  let s' := fst (dispatch_message r mt code mid tok s) in let o := snd (dispatch_message r mt code mid tok s) in
  subm r o = [] /\
  match q with
  | m :: rest => In (Tx m false) o /\ left r o = [m] /\ aget r (backlogs s') = Some rest /\
                 exists x', exs r s' = [x'] /\ x_msg x' = m /\ x_counter x' = 0
  | [] => left r o = [] /\ aget r (backlogs s') = None /\ exs r s' = []
  end.
Proof. intros HI Hmt Ex Ha. cbn zeta.
  destruct (dispatch_message_shape r mt code mid tok s) as (tail & Ho & Hn & _ & He & Hb).
  replace ((mt =? 2) || (mt =? 3)) with true in * by lia.
  destruct (remove_exchange_nf r mid mt s x HI Ex) as (Hnf & Hz1 & q' & Ha' & Hq). rewrite Ha in Ha'. inv Ha'.
  rewrite Hnf in Ho, He, Hb. cbn zeta in *. cbn [fst snd] in *.
  set (s1 := upd_ex s (xdel r mid (active_exchanges s))) in *.
  set (mon := if mt =? 3 then call_monitor (x_msg x) s1 else (s1, [])) in *.
  assert (Hmon : active_exchanges (fst mon) = active_exchanges s1 /\ backlogs (fst mon) = backlogs s1 /\ forallb neutral (snd mon) = true).
  { unfold mon. destruct (mt =? 3); [apply call_monitor_frame|cbn; auto]. }
  destruct Hmon as (He2 & Hb2 & Hn2).
  assert (Hz2 : exs r (fst mon) = []) by (unfold exs; rewrite He2; exact Hz1).
  assert (Ha2 : aget r (backlogs (fst mon)) = Some q') by (rewrite Hb2; exact Ha).
  destruct (neutral_logs r (snd mon) Hn2) as (M1 & M2 & _). destruct (neutral_logs r tail Hn) as (T1 & T2 & _).
  unfold exs. rewrite Ho, He, Hb. fold (exs r (fst (release r (fst mon)))).
  rewrite !subm_app, !left_app, M1, M2, T1, T2, !app_nil_r. cbn [app].
  destruct q' as [|m rest].
  - destruct (release_empty r (fst mon) Hz2 Ha2) as (R1 & R2 & R3). rewrite R1. cbn. auto.
  - inv Hq. destruct (release_head r (fst mon) m rest Hz2 Ha2 H1) as (R1 & R2 & R3). rewrite R1.
    split; [reflexivity|]. split; [apply in_or_app; left; apply in_or_app; right; left; reflexivity|].
    split; [unfold left; cbn; rewrite H1; reflexivity|]. split; [exact R2|exact R3]. Qed.

Theorem released_when_acked s e r q : Inv s -> acks s e r = true -> aget r (backlogs s) = Some q ->
  let s' := fst (step s e) in let o := snd (step s e) in
  subm r o = [] /\
  match q with
  | m :: rest => In (Tx m false) o /\ left r o = [m] /\ aget r (backlogs s') = Some rest /\
                 exists x', exs r s' = [x'] /\ x_msg x' = m /\ x_counter x' = 0
  | [] => left r o = [] /\ aget r (backlogs s') = None /\ exs r s' = []
  end.
Proof. intros HI Hack Ha. destruct (acks_inv s e r Hack) as (mt & mid & x & Hmt & Ex & [->|[tok ->]]); cbn [step];
  apply (dispatch_message_acked r mt _ mid _ s x q HI Hmt Ex Ha). Qed.

(* ---------------------------------------------------------------- (B) dropped, and the requests failed, exactly on failure of the endpoint *)
Lemma neutral_fail_map e l : forallb neutral (map (fun o : Z * Z * Z => Fail (q_of o) e) l) = true.
Proof. induction l; [reflexivity|assumption]. Qed.
Lemma reqs_after_filter r s : filter (fun o => remote_of o =? r) (filter (fun o => negb (remote_of o =? r)) (outgoing_requests s)) = [].
Proof. induction (outgoing_requests s) as [|a l IH]; [reflexivity|]. cbn. destruct (remote_of a =? r) eqn:E; cbn; [exact IH|rewrite E; exact IH]. Qed.

(* the responders serving requests from r *)
Definition served_from (r : Z) (s : st) : list served := filter (fun v => v_remote v =? r) (incoming_requests s).

Definition failed_outcome (r : Z) (q : list msg) (s s' : st) (o : list output) : Prop :=
  left r o = q /\ subm r o = [] /\ (forall m, In m q -> In (Dropped m) o) /\ (forall m b, ~ In (Tx m b) o) /\
  (forall en, In en (reqs r s) -> exists err, In (Fail (q_of en) err) o) /\
  aget r (backlogs s') = None /\ exs r s' = [] /\ reqs r s' = [] /\
  (forall v, In v (served_from r s) -> In (Ended (v_k v)) o) /\ served_from r s' = [].

(* what TokenManager.dispatch_error does, as far as the proofs need it *)
Lemma tm_dispatch_error_spec e r s :
  let s' := fst (tm_dispatch_error e r s) in let o := snd (tm_dispatch_error e r s) in
  active_exchanges s' = active_exchanges s /\ backlogs s' = backlogs s /\ forallb neutral o = true /\
  (forall m b, ~ In (Tx m b) o) /\ (forall m, ~ In (Dropped m) o) /\
  (forall en, In en (reqs r s) -> In (Fail (q_of en) e) o) /\ reqs r s' = [] /\
  (forall v, In v (served_from r s) -> In (Ended (v_k v)) o) /\ served_from r s' = [].
Proof. cbn zeta. destruct (tm_dispatch_error_frame e r s) as (A & B & C). split; [exact A|]. split; [exact B|]. split; [exact C|].
  unfold tm_dispatch_error. cbn [fst snd]. split; [|split; [|split; [|split; [|split]]]].
  - intros m b H. apply in_app_or in H. destruct H as [H|H]; apply in_map_iff in H; destruct H as (? & H & _); discriminate.
  - intros m H. apply in_app_or in H. destruct H as [H|H]; apply in_map_iff in H; destruct H as (? & H & _); discriminate.
  - intros en Hen. apply in_or_app. left. apply (in_map (fun o => Fail (q_of o) e)). exact Hen.
  - unfold reqs. cbn [outgoing_requests upd_in upd_out]. apply reqs_after_filter.
  - intros v Hv. apply in_or_app. right. apply (in_map (fun v => Ended (v_k v))). exact Hv.
  - unfold served_from. cbn [incoming_requests upd_in upd_out].
    induction (incoming_requests s) as [|v t IH]; [reflexivity|]. cbn. destruct (v_remote v =? r) eqn:E; cbn; [exact IH|rewrite E; exact IH]. Qed.

Lemma in_dropped_map m q : In m q -> In (Dropped m) (map Dropped q). Proof. apply in_map. Qed.
Lemma no_tx_dropped m b q : ~ In (Tx m b) (map Dropped q).
Proof. intros H. apply in_map_iff in H. destruct H as (? & H & _). discriminate. Qed.

Lemma dispatch_error_failed r s q : Inv s -> aget r (backlogs s) = Some q ->
  failed_outcome r q s (fst (dispatch_error r s)) (snd (dispatch_error r s)).
Proof. intros HI Ha. assert (Hq : Forall (fun m => con_to r m = true) q).
  { destruct (HI r) as (_ & _ & C). unfold backlog_of in C. rewrite Ha in C. exact C. }
  unfold dispatch_error. pose proof (tm_dispatch_error_spec NetworkError r s) as (A & B & Hn & T1 & T2 & T3 & T4 & T5 & T6). cbn zeta in *.
  destruct (tm_dispatch_error NetworkError r s) as [s1 o1]. cbn [fst snd backlogs upd_ex upd_bl] in *. rewrite B, Ha.
  destruct (neutral_logs r _ Hn) as (N1 & N2 & _).
  unfold failed_outcome. rewrite left_app, subm_app, N1, N2, subm_dropped, left_dropped_same by assumption. cbn [app].
  split; [reflexivity|]. split; [reflexivity|]. split; [|split; [|split; [|split; [|split; [|split; [|split]]]]]].
  - intros m Hm. apply in_or_app. right. apply in_map. exact Hm.
  - intros m b H. apply in_app_or in H. destruct H as [H|H]; [exact (T1 m b H)|exact (no_tx_dropped m b q H)].
  - intros en Hen. exists NetworkError. apply in_or_app. left. apply T3. exact Hen.
  - apply aget_adel_same.
  - unfold exs. cbn [active_exchanges upd_bl upd_ex]. rewrite filter_drop_remote, Z.eqb_refl. reflexivity.
  - exact T4.
  - intros v Hv. apply in_or_app. left. apply T5. exact Hv.
  - exact T6. Qed.

Lemma fire_giveup_failed s x r q : Inv s -> min_timer (active_exchanges s) = Some x -> m_remote (x_msg x) = r ->
  (x_counter x <? m_maxre (x_msg x)) = false -> aget r (backlogs s) = Some q ->
  failed_outcome r q s (fst (fire s)) (snd (fire s)).
Proof. intros HI Hmin Hr Hc Ha. assert (Hq : Forall (fun m => con_to r m = true) q).
  { destruct (HI r) as (_ & _ & C). unfold backlog_of in C. rewrite Ha in C. exact C. }
  pose proof (min_timer_in _ _ Hmin) as Hin.
  unfold fire. rewrite Hmin. set (s0 := upd_now s (Z.max (now s) (x_due x))).
  unfold retransmit. rewrite (xget_own s0 x); [|destruct (HI (m_remote (x_msg x))) as (A & _); exact A|exact Hin].
  rewrite Hc, Hr. subst s0. cbn [backlogs upd_ex upd_now]. rewrite Ha.
  match goal with |- context [tm_dispatch_error ?e ?rr ?ss] => pose proof (tm_dispatch_error_spec e rr ss) as (A & B & Hn & T1 & T2 & T3 & T4 & T5 & T6);
    destruct (tm_dispatch_error e rr ss) as [s1 o1] end. cbn zeta in *. cbn [fst snd backlogs active_exchanges upd_ex upd_bl upd_now] in *.
  destruct (neutral_logs r _ Hn) as (N1 & N2 & _).
  unfold failed_outcome. unfold left, subm. cbn [flat_map left_o subm_o app].
  change (flat_map (left_o r)) with (left r). change (flat_map (subm_o r)) with (subm r).
  rewrite left_app, subm_app, N1, N2, subm_dropped, left_dropped_same by assumption. rewrite app_nil_r.
  split; [reflexivity|]. split; [reflexivity|]. split; [|split; [|split; [|split; [|split; [|split; [|split]]]]]].
  - intros m Hm. right. apply in_or_app. left. apply in_map. exact Hm.
  - intros m b [H|H]; [discriminate|]. apply in_app_or in H. destruct H as [H|H]; [exact (no_tx_dropped m b q H)|exact (T1 m b H)].
  - intros en Hen. exists ConRetransmitsExceeded. right. apply in_or_app. right. apply T3. exact Hen.
  - rewrite B. apply aget_adel_same.
  - unfold exs. rewrite A.
    destruct (inv_count_aget s r HI) as [[Hc0 _]|(x0 & q0 & Hx & _)].
    { exfalso. pose proof (in_exs r s x Hin Hr) as Hi. rewrite (count0_exs r s Hc0) in Hi. exact Hi. }
    apply (filter_xdel_same r (m_mid (x_msg x)) _ x); [fold (exs r s); rewrite Hx; cbn; lia|exact Hin|unfold key_eqb; lia].
  - exact T4.
  - intros v Hv. right. apply in_or_app. right. apply T5. exact Hv.
  - exact T6. Qed.

Theorem dropped_when_failed s e r q : Inv s -> fails s e r = true -> aget r (backlogs s) = Some q ->
  failed_outcome r q s (fst (step s e)) (snd (step s e)).
Proof. intros HI Hf Ha. destruct e; cbn in Hf; try discriminate; cbn [step].
  - assert (r0 = r) by lia. subst r0. apply dispatch_error_failed; assumption.
  - destruct (min_timer (active_exchanges s)) as [x|] eqn:E; [|discriminate].
    apply (fire_giveup_failed s x r q HI E); [lia| |exact Ha]. destruct (x_counter x <? m_maxre (x_msg x)); [rewrite andb_false_r in Hf; discriminate|reflexivity]. Qed.

(* ---------------------------------------------------------------- not delayed / held back at submission *)
Definition submits (e : event) : option (sub * Z * Z) :=
  match e with
  | Request q r mt _ => Some (Req q, r, mt)
  | RawSend k r mt _ _ => Some (Raw k, r, mt)
  | _ => None
  end.

Lemma send_message_immediately who r mt code tok maxre s : (resolve_mtype mt <> 0 \/ in_backlogs r s = false) ->
  exists m, snd (send_message who r mt code tok maxre s) = [Submitted m; Tx m false] /\
    m_sub m = who /\ m_remote m = r /\ m_mtype m = resolve_mtype mt /\ m_mid m = message_id s.
Proof. intros H. unfold send_message, next_message_id. cbn [m_mtype]. unfold in_backlogs in *. cbn [backlogs].
  replace ((resolve_mtype mt =? 0) && match aget r (backlogs s) with Some _ => true | None => false end) with false
    by (destruct H as [H|H]; [replace (resolve_mtype mt =? 0) with false by lia; reflexivity|rewrite H, andb_false_r; reflexivity]).
  unfold send_initially. eexists. split; [reflexivity|]. cbn. auto. Qed.

Theorem not_delayed s e who r mt : submits e = Some (who, r, mt) -> (resolve_mtype mt <> 0 \/ in_backlogs r s = false) ->
  exists m, snd (step s e) = [Submitted m; Tx m false] /\ m_sub m = who /\ m_remote m = r /\ m_mtype m = resolve_mtype mt.
Proof. intros He H. destruct e; cbn in He; inv He; cbn [step].
  - unfold tm_request, next_token. cbn -[send_message Z.pow Z.modulo].
    match goal with |- context [send_message ?a ?b ?c ?d ?e ?f ?s1] => destruct (send_message_immediately a b c d e f s1) as (m & A & B & C & D & _); [exact H|] end.
    exists m. auto.
  - destruct (send_message_immediately (Raw k) r mt 69 tok maxre s H) as (m & A & B & C & D & _). exists m. auto. Qed.

Lemma send_message_held who r mt code tok maxre s q : Inv s -> resolve_mtype mt = 0 -> aget r (backlogs s) = Some q ->
  exists m, send_message who r mt code tok maxre s =
      (upd_bl (snd (next_message_id s)) (aset r (q ++ [m]) (backlogs s)), [Submitted m]) /\
    m_sub m = who /\ m_remote m = r /\ m_mtype m = 0 /\ m_mid m = message_id s.
Proof. intros HI Hc Ha. unfold send_message, next_message_id. cbn [m_mtype snd]. unfold in_backlogs. cbn [backlogs]. rewrite Ha, Hc. cbn [Z.eqb andb].
  rewrite has_exchange_exs.
  destruct (inv_count_aget s r HI) as [[_ Hn]|(x & q' & Hx & _)]; [congruence|].
  unfold count_r, exs in *. cbn [active_exchanges]. rewrite Hx. cbn [length Nat.eqb negb].
  eexists. split; [reflexivity|]. cbn. auto. Qed.

Theorem held_back_when_busy s e who r mt q : Inv s -> submits e = Some (who, r, mt) -> resolve_mtype mt = 0 ->
  aget r (backlogs s) = Some q ->
  exists m, snd (step s e) = [Submitted m] /\ aget r (backlogs (fst (step s e))) = Some (q ++ [m]) /\
    exs r (fst (step s e)) = exs r s /\ m_sub m = who /\ m_remote m = r /\ m_mtype m = 0.
Proof. intros HI He Hc Ha. destruct e; cbn in He; inv He; cbn [step].
  - unfold tm_request, next_token. cbn -[send_message Z.pow Z.modulo].
    match goal with |- context [send_message ?a ?b ?c ?d ?e ?f ?s1] =>
      destruct (send_message_held a b c d e f s1 q) as (m & A & B & C & D & _);
        [apply (inv_ext s); [reflexivity|reflexivity|exact HI]|exact Hc|exact Ha|]; rewrite A end.
    exists m. cbn [fst snd backlogs upd_bl]. rewrite aget_aset_same. split; [reflexivity|]. split; [reflexivity|]. split; [reflexivity|]. auto.
  - destruct (send_message_held (Raw k) r mt 69 tok maxre s q HI Hc Ha) as (m & A & B & C & D & _). rewrite A.
    exists m. cbn [fst snd backlogs upd_bl]. rewrite aget_aset_same. split; [reflexivity|]. split; [reflexivity|]. split; [reflexivity|]. auto. Qed.

(* ---------------------------------------------------------------- frame: remotes an event is not about *)
Definition Untouched (r : Z) (s s' : st) (o : list output) : Prop :=
  exs r s' = exs r s /\ aget r (backlogs s') = aget r (backlogs s) /\ silent r o = true.

Lemma untouched_refl r s : Untouched r s s []. Proof. repeat split. Qed.
Lemma untouched_trans r s s1 s2 o1 o2 : Untouched r s s1 o1 -> Untouched r s1 s2 o2 -> Untouched r s s2 (o1 ++ o2).
Proof. intros (A & B & C) (A' & B' & C'). split; [congruence|]. split; [congruence|]. rewrite silent_app, C, C'. reflexivity. Qed.
Lemma untouched_ext r s s' : active_exchanges s' = active_exchanges s -> backlogs s' = backlogs s -> Untouched r s s' [].
Proof. intros A B. unfold Untouched, exs. rewrite A, B. auto. Qed.

Lemma release_untouched r0 r s : r <> r0 -> Forall (fun m => con_to r0 m = true) (backlog_of r0 s) ->
  Untouched r s (fst (release r0 s)) (snd (release r0 s)).
Proof. intros Hne Hq. unfold release. destruct (backlog_of r0 s) as [|m q]; cbn [fst snd].
  - split; [reflexivity|]. split; [cbn; apply aget_adel_other; assumption|reflexivity].
  - inv Hq. assert (Hr : m_remote m = r0) by (unfold con_to in H1; lia). split; [|split].
    + rewrite add_exchange_exs_other by lia. reflexivity.
    + rewrite add_exchange_aget_other by lia. cbn. apply aget_aset_other; assumption.
    + unfold silent. cbn. replace (m_remote m =? r) with false by lia. reflexivity. Qed.

Lemma neutral_silent_fail e l r : silent r (map (fun o : Z * Z * Z => Fail (q_of o) e) l) = true.
Proof. induction l; [reflexivity|assumption]. Qed.
Lemma call_monitor_silent m s r : silent r (snd (call_monitor m s)) = true.
Proof. unfold call_monitor, stop_responder. destruct (m_sub m); [destruct (existsb _ _)| |destruct (alive _ _)]; reflexivity. Qed.

Lemma remove_exchange_untouched r0 mid mt s r : Inv s -> r <> r0 ->
  Untouched r s (fst (remove_exchange r0 mid mt s)) (snd (remove_exchange r0 mid mt s)).
Proof. intros HI Hne. destruct (xget r0 mid (active_exchanges s)) as [x|] eqn:Ex.
  - destruct (remove_exchange_nf r0 mid mt s x HI Ex) as (-> & _ & q & Ha & Hq). cbn zeta. cbn [fst snd].
    set (s1 := upd_ex s (xdel r0 mid (active_exchanges s))).
    set (mon := if mt =? 3 then call_monitor (x_msg x) s1 else (s1, [])).
    assert (Hmon : active_exchanges (fst mon) = active_exchanges s1 /\ backlogs (fst mon) = backlogs s1 /\ silent r (snd mon) = true).
    { unfold mon. destruct (mt =? 3); [destruct (call_monitor_frame (x_msg x) s1) as (A & B & _); split; [exact A|split; [exact B|apply call_monitor_silent]]|cbn; auto]. }
    destruct Hmon as (He & Hb & Hs).
    apply (untouched_trans r s (fst mon)).
    + split; [unfold exs; rewrite He; apply filter_xdel_other; assumption|]. split; [rewrite Hb; reflexivity|exact Hs].
    + apply release_untouched; [assumption|]. unfold backlog_of. rewrite Hb. cbn [backlogs s1 upd_ex]. rewrite Ha. exact Hq.
  - unfold remove_exchange. rewrite Ex. apply untouched_refl. Qed.

Lemma dispatch_message_untouched r0 mt code mid tok s r : Inv s -> r <> r0 ->
  Untouched r s (fst (dispatch_message r0 mt code mid tok s)) (snd (dispatch_message r0 mt code mid tok s)).
Proof. intros HI Hne. destruct (dispatch_message_shape r0 mt code mid tok s) as (tail & Ho & _ & Hs & He & Hb). rewrite Ho.
  set (first := if (mt =? 2) || (mt =? 3) then remove_exchange r0 mid mt s else (s, [])) in *.
  apply (untouched_trans r s (fst first)).
  - unfold first. destruct ((mt =? 2) || (mt =? 3)); [apply remove_exchange_untouched; assumption|apply untouched_refl].
  - split; [unfold exs; rewrite He; reflexivity|]. split; [rewrite Hb; reflexivity|apply Hs; assumption]. Qed.

Lemma send_message_untouched who r0 mt code tok maxre s r : r <> r0 ->
  Untouched r s (fst (send_message who r0 mt code tok maxre s)) (snd (send_message who r0 mt code tok maxre s)).
Proof. intros Hne. unfold send_message, next_message_id. cbn [m_mtype].
  set (s0 := {| now := now s; seq := seq s; message_id := Z.land 65535 (1 + message_id s); token := token s; rand := rand s;
                active_exchanges := active_exchanges s; backlogs := backlogs s; outgoing_requests := outgoing_requests s; incoming_requests := incoming_requests s |}).
  set (m := {| m_sub := who; m_remote := r0; m_mtype := resolve_mtype mt; m_code := code; m_mid := message_id s; m_tok := tok; m_maxre := maxre |}).
  assert (Hsm : forall b, silent r [Submitted m; Tx m b] = true) by (intros; unfold silent; cbn; replace (r0 =? r) with false by lia; reflexivity).
  destruct ((resolve_mtype mt =? 0) && in_backlogs r0 s0).
  - destruct (aget r0 (backlogs s0)) as [q|] eqn:Ea; [|apply untouched_ext; reflexivity].
    destruct (has_exchange r0 s0); cbn [fst snd].
    + split; [reflexivity|]. split; [cbn; apply aget_aset_other; assumption|]. unfold silent. cbn. replace (r0 =? r) with false by lia. reflexivity.
    + split; [reflexivity|]. split; reflexivity.
  - unfold send_initially. cbn [m_mtype m]. destruct (resolve_mtype mt =? 0); cbn [fst snd].
    + split; [rewrite add_exchange_exs_other by (cbn; assumption); reflexivity|]. split; [rewrite add_exchange_aget_other by (cbn; assumption); reflexivity|apply Hsm].
    + split; [reflexivity|]. split; [reflexivity|apply Hsm]. Qed.

Lemma silent_dropped r0 r q : Forall (fun m => con_to r0 m = true) q -> r <> r0 -> silent r (map Dropped q) = true.
Proof. intros H Hne. induction H as [|m q H _ IH]; [reflexivity|]. unfold silent in *. cbn. rewrite IH.
  unfold con_to in H. replace (m_remote m =? r) with false by lia. reflexivity. Qed.

Lemma silent_tm e r0 s r : silent r (snd (tm_dispatch_error e r0 s)) = true.
Proof. unfold tm_dispatch_error. cbn [snd]. rewrite silent_app, neutral_silent_fail. cbn [andb].
  induction (filter _ (incoming_requests s)); [reflexivity|assumption]. Qed.

Lemma dispatch_error_untouched r0 s r : Inv s -> r <> r0 -> Untouched r s (fst (dispatch_error r0 s)) (snd (dispatch_error r0 s)).
Proof. intros HI Hne. unfold dispatch_error, tm_dispatch_error. cbn [fst snd backlogs upd_out upd_ex upd_bl active_exchanges]. split; [|split].
  - unfold exs. cbn [active_exchanges upd_bl upd_ex upd_out]. rewrite filter_drop_remote. replace (r =? r0) with false by lia. reflexivity.
  - cbn. apply aget_adel_other; assumption.
  - rewrite silent_app. apply andb_true_intro. split; [exact (silent_tm NetworkError r0 s r)|]. apply (silent_dropped r0); [|assumption].
    destruct (HI r0) as (_ & _ & C). exact C. Qed.

Lemma retransmit_untouched x s r : Inv s -> In x (active_exchanges s) -> r <> m_remote (x_msg x) ->
  Untouched r s (fst (retransmit x s)) (snd (retransmit x s)).
Proof. intros HI Hin Hne. unfold retransmit.
  rewrite (xget_own s x); [|destruct (HI (m_remote (x_msg x))) as (A & _); exact A|exact Hin].
  set (m := x_msg x) in *. set (r0 := m_remote m) in *.
  destruct (x_counter x <? m_maxre m).
  - unfold schedule_retransmit. cbn [fst snd upd_ex active_exchanges]. split; [|split].
    + unfold exs. cbn [active_exchanges upd_ex filter x_msg]. unfold to_remote at 1. cbn [x_msg]. fold m. fold r0.
      replace (r0 =? r) with false by lia. rewrite !filter_xdel_other by assumption. reflexivity.
    + reflexivity.
    + unfold silent. cbn. fold r0. replace (r0 =? r) with false by lia. reflexivity.
  - cbn [backlogs upd_ex]. destruct (aget r0 (backlogs s)) as [q|] eqn:Ea.
    + unfold tm_dispatch_error. cbn [fst snd backlogs upd_out upd_ex upd_bl active_exchanges]. split; [|split].
      * unfold exs. cbn [active_exchanges upd_bl upd_ex upd_out]. apply filter_xdel_other; assumption.
      * cbn. apply aget_adel_other; assumption.
      * rewrite silent_app. apply andb_true_intro. split; [apply (silent_dropped r0); [|assumption];
          destruct (HI r0) as (_ & _ & C); unfold backlog_of in C; rewrite Ea in C; exact C|].
        match goal with |- silent r ?o = true => change o with (snd (tm_dispatch_error ConRetransmitsExceeded r0 (upd_bl (upd_ex s (xdel r0 (m_mid m) (active_exchanges s))) (adel r0 (backlogs s))))) end.
        apply silent_tm.
    + cbn [fst snd]. split; [unfold exs; cbn [active_exchanges upd_ex]; apply filter_xdel_other; assumption|]. split; reflexivity. Qed.

Lemma respond_untouched send r :
  (forall who r0 mt code tok maxre s, r <> r0 -> Untouched r s (fst (send who r0 mt code tok maxre s)) (snd (send who r0 mt code tok maxre s))) ->
  forall j k last maxre s,
  match find (fun v => v_k v =? k) (incoming_requests s) with Some v => v_remote v =? r | None => false end = false ->
  Untouched r s (fst (respond send j k last maxre s)) (snd (respond send j k last maxre s)).
Proof. intros Hs j k last maxre s Ht. unfold respond. destruct (find _ (incoming_requests s)) as [v|]; [|apply untouched_refl].
  pose proof (Hs (Resp j k) (v_remote v) (if v_mtype v =? 1 then 7 else 8) 69 (v_tok v) maxre s ltac:(lia)) as U.
  destruct (send _ _ _ _ _ _ s) as [s1 o1]. cbn [fst snd] in U.
  destruct last; [|exact U]. destruct (alive k s1) eqn:Ea; cbn [fst snd]; [|exact U].
  unfold stop_responder. rewrite Ea. cbn [fst snd]. apply (untouched_trans r s s1); [exact U|]. repeat split. Qed.

Theorem step_frame s e r : Inv s -> touches s e r = false -> Untouched r s (fst (step s e)) (snd (step s e)).
Proof. intros HI Ht. destruct e; cbn in Ht; cbn [step].
  - unfold tm_request, next_token. cbn -[send_message Z.pow Z.modulo].
    match goal with |- context [send_message ?a ?b ?c ?d ?e ?f ?s1] =>
      pose proof (send_message_untouched a b c d e f s1 r ltac:(lia)) as (A & B & C) end.
    split; [rewrite A; reflexivity|]. split; [rewrite B; reflexivity|exact C].
  - apply send_message_untouched; lia.
  - apply dispatch_message_untouched; [exact HI|lia].
  - apply dispatch_message_untouched; [exact HI|lia].
  - apply dispatch_error_untouched; [exact HI|lia].
  - unfold fire. destruct (min_timer (active_exchanges s)) as [x|] eqn:E; [|apply untouched_refl].
    set (s0 := upd_now s (Z.max (now s) (x_due x))).
    pose proof (retransmit_untouched x s0 r) as H. 
    destruct (retransmit x s0) as [s1 o1]. cbn [fst snd] in *.
    destruct H as (A & B & C); [apply (inv_ext s); [reflexivity|reflexivity|exact HI]|apply min_timer_in; exact E|lia|].
    split; [rewrite A; reflexivity|]. split; [rewrite B; reflexivity|]. unfold silent in *. cbn. rewrite Ht. exact C.
  - cbn [fst snd]. split; [|split; [|reflexivity]]; unfold advance; destruct (d <? 0); try reflexivity;
      destruct (min_timer (active_exchanges s)) as [x|]; try reflexivity; destruct (x_due x <=? now s + d); reflexivity.
  - destruct (outstanding q s); cbn [fst snd]; [|apply untouched_refl]. repeat split.
  - unfold tm_process_request. cbn [fst snd]. split; [reflexivity|]. split; [reflexivity|].
    induction (filter _ (incoming_requests s)); [reflexivity|assumption].
  - apply respond_untouched; [intros; apply send_message_untouched; assumption|exact Ht]. Qed.

Lemma send_message_non who r mt code tok maxre s : (resolve_mtype mt =? 0) = false ->
  active_exchanges (fst (send_message who r mt code tok maxre s)) = active_exchanges s /\
  backlogs (fst (send_message who r mt code tok maxre s)) = backlogs s /\
  forall r', subm r' (snd (send_message who r mt code tok maxre s)) = [] /\ left r' (snd (send_message who r mt code tok maxre s)) = [].
Proof. intros Ec. unfold send_message, next_message_id, send_initially. cbn [m_mtype]. rewrite Ec. cbn [andb fst snd active_exchanges backlogs].
  split; [reflexivity|]. split; [reflexivity|]. intros r'. unfold subm, left. cbn [flat_map subm_o left_o]. unfold con_to. cbn [m_mtype]. rewrite Ec. cbn. auto. Qed.

(* ---------------------------------------------------------------- (C) otherwise the queue only grows and the same message stays outstanding *)
(* a submission to a remote that has an exchange open: queued behind it (CON) or sent past it (NON) *)
Lemma send_message_busy who r mt code tok maxre s q x : Inv s -> aget r (backlogs s) = Some q -> exs r s = [x] ->
  aget r (backlogs (fst (send_message who r mt code tok maxre s))) = Some (q ++ subm r (snd (send_message who r mt code tok maxre s))) /\
  left r (snd (send_message who r mt code tok maxre s)) = [] /\ exs r (fst (send_message who r mt code tok maxre s)) = [x].
Proof. intros HI Ha Hx. destruct (resolve_mtype mt =? 0) eqn:Ec.
  - destruct (send_message_held who r mt code tok maxre s q HI ltac:(lia) Ha) as (m & -> & _ & Hr & Hc & _). cbn [fst snd backlogs upd_bl].
    rewrite aget_aset_same. unfold subm, left. cbn. unfold con_to. rewrite Hr, Hc, !Z.eqb_refl. cbn. split; [reflexivity|]. split; [reflexivity|exact Hx].
  - destruct (send_message_non who r mt code tok maxre s Ec) as (A & B & C). destruct (C r) as (C1 & C2).
    unfold exs. rewrite A, B, C1, C2, app_nil_r. auto. Qed.

(* the timer of the exchange with r fires (and, given [fails s e r = false], retransmits) *)
Definition fires_on (s : st) (e : event) (r : Z) : bool :=
  match e with
  | Fire => match min_timer (active_exchanges s) with Some x => m_remote (x_msg x) =? r | None => false end
  | _ => false
  end.
Lemma fires_on_touches s e r : touches s e r = false -> fires_on s e r = false.
Proof. destruct e; cbn; auto. Qed.

Theorem held_otherwise_detail s e r q : Inv s -> aget r (backlogs s) = Some q -> acks s e r = false -> fails s e r = false ->
  let s' := fst (step s e) in let o := snd (step s e) in
  aget r (backlogs s') = Some (q ++ subm r o) /\ left r o = [] /\
  exists x x', exs r s = [x] /\ exs r s' = [x'] /\ x_msg x' = x_msg x /\
    (if fires_on s e r then x_counter x' = x_counter x + 1 /\ x_counter x < m_maxre (x_msg x) else x' = x).
Proof. intros HI Ha Hack Hf. cbn zeta.
  destruct (inv_count_aget s r HI) as [[_ Hn]|(x & q' & Hx & Ha' & Hq)]; [congruence|]. rewrite Ha in Ha'. inv Ha'.
  destruct (touches s e r) eqn:Ht.
  2:{ destruct (step_frame s e r HI Ht) as (A & B & C). destruct (silent_logs r _ C) as (S1 & S2).
      rewrite S1, S2, app_nil_r, B, A. split; [exact Ha|]. split; [reflexivity|]. exists x, x. rewrite (fires_on_touches s e r Ht). auto. }
  destruct e; cbn in Ht, Hack, Hf; try discriminate; try (exfalso; congruence).
  - (* Request to r *) assert (r0 = r) by lia. subst r0.
    destruct (resolve_mtype mt =? 0) eqn:Ec.
    + destruct (held_back_when_busy s (Request q r mt maxre) (Req q) r mt q' HI eq_refl ltac:(lia) Ha) as (m & Ho & Hb & He & _ & Hr & Hc).
      rewrite Ho, Hb, He. unfold subm, left. cbn. unfold con_to. rewrite Hr, Hc, !Z.eqb_refl. cbn. split; [reflexivity|]. split; [reflexivity|]. exists x, x. cbn [fires_on]. auto.
    + cbn [step]. unfold tm_request, next_token.
      match goal with |- context [send_message ?a ?b ?c ?d ?e ?f ?s1] => destruct (send_message_non a b c d e f s1 Ec) as (A & B & C) end.
      destruct (C r) as (C1 & C2). unfold exs. rewrite A, B, C1, C2, app_nil_r.
      split; [exact Ha|]. split; [reflexivity|]. exists x, x. cbn [fires_on]. auto.
  - (* RawSend to r *) assert (r0 = r) by lia. subst r0.
    destruct (resolve_mtype mt =? 0) eqn:Ec.
    + destruct (held_back_when_busy s (RawSend k r mt tok maxre) (Raw k) r mt q' HI eq_refl ltac:(lia) Ha) as (m & Ho & Hb & He & _ & Hr & Hc).
      rewrite Ho, Hb, He. unfold subm, left. cbn. unfold con_to. rewrite Hr, Hc, !Z.eqb_refl. cbn. split; [reflexivity|]. split; [reflexivity|]. exists x, x. cbn [fires_on]. auto.
    + cbn [step]. destruct (send_message_non (Raw k) r mt 69 tok maxre s Ec) as (A & B & C).
      destruct (C r) as (C1 & C2). unfold exs. rewrite A, B, C1, C2, app_nil_r.
      split; [exact Ha|]. split; [reflexivity|]. exists x, x. cbn [fires_on]. auto.
  - (* empty message from r that does not end the exchange *) assert (r0 = r) by lia. subst r0. cbn [step].
    destruct (dispatch_message_shape r mtype 0 mid 0 s) as (tail & Ho & Hn & _ & He & Hb). rewrite Ho. unfold exs. rewrite He, Hb.
    assert (Hfirst : (if (mtype =? 2) || (mtype =? 3) then remove_exchange r mid mtype s else (s, [])) = (s, [])).
    { destruct ((mtype =? 2) || (mtype =? 3)); [|reflexivity]. unfold remove_exchange.
      destruct (xget r mid (active_exchanges s)); [rewrite Z.eqb_refl in Hack; discriminate|reflexivity]. }
    rewrite Hfirst. cbn [fst snd app]. destruct (neutral_logs r tail Hn) as (N1 & N2 & _). rewrite N1, N2, app_nil_r.
    split; [exact Ha|]. split; [reflexivity|]. exists x, x. cbn [fires_on]. auto.
  - assert (r0 = r) by lia. subst r0. cbn [step].
    destruct (dispatch_message_shape r mtype 69 mid tok s) as (tail & Ho & Hn & _ & He & Hb). rewrite Ho. unfold exs. rewrite He, Hb.
    assert (Hfirst : (if (mtype =? 2) || (mtype =? 3) then remove_exchange r mid mtype s else (s, [])) = (s, [])).
    { destruct ((mtype =? 2) || (mtype =? 3)); [|reflexivity]. unfold remove_exchange.
      destruct (xget r mid (active_exchanges s)); [rewrite Z.eqb_refl in Hack; discriminate|reflexivity]. }
    rewrite Hfirst. cbn [fst snd app]. destruct (neutral_logs r tail Hn) as (N1 & N2 & _). rewrite N1, N2, app_nil_r.
    split; [exact Ha|]. split; [reflexivity|]. exists x, x. cbn [fires_on]. auto.
  - (* a retransmission *) cbn [step]. unfold fire. destruct (min_timer (active_exchanges s)) as [y|] eqn:E; [|discriminate Ht].
    assert (Hy : m_remote (x_msg y) = r) by lia. pose proof (min_timer_in _ _ E) as Hin.
    assert (y = x). { pose proof (in_exs r s y Hin Hy) as Hi. rewrite Hx in Hi. destruct Hi as [Hi|[]]. congruence. } subst y.
    assert (Hc : (x_counter x <? m_maxre (x_msg x)) = true) by (destruct (x_counter x <? m_maxre (x_msg x)); [reflexivity|rewrite Hy, Z.eqb_refl in Hf; discriminate]).
    set (s0 := upd_now s (Z.max (now s) (x_due x))).
    unfold retransmit. rewrite (xget_own s0 x); [|destruct (HI (m_remote (x_msg x))) as (A & _); exact A|exact Hin].
    rewrite Hc. unfold schedule_retransmit. cbn [fst snd upd_ex active_exchanges backlogs upd_now s0].
    unfold subm, left. cbn [flat_map subm_o left_o app]. rewrite app_nil_r.
    split; [exact Ha|]. split; [reflexivity|]. eexists x, _. split; [exact Hx|]. cbn [fires_on]. rewrite E, Ht. split.
    {    unfold exs. cbn [active_exchanges upd_ex filter x_msg]. unfold to_remote at 1. cbn [x_msg]. rewrite Hy, Z.eqb_refl. f_equal.
    assert (Hz : filter (to_remote r) (xdel r (m_mid (x_msg x)) (active_exchanges s)) = []).
    { apply (filter_xdel_same r _ _ x); [fold (exs r s); rewrite Hx; cbn; lia|exact Hin|unfold key_eqb; lia]. }
    pose proof (filter_xdel_incl r r (m_mid (x_msg x)) (xdel r (m_mid (x_msg x)) (active_exchanges s))) as Hle. rewrite Hz in Hle.
    destruct (filter (to_remote r) (xdel r (m_mid (x_msg x)) (xdel r (m_mid (x_msg x)) (active_exchanges s)))); [reflexivity|cbn in Hle; lia]. }
    cbn [x_msg x_counter]. split; [reflexivity|]. split; [reflexivity|lia].
  - (* a new request from r is served *) cbn [step fires_on]. unfold tm_process_request. cbn [fst snd].
    assert (Hn : forallb neutral (map (fun v => Ended (v_k v)) (filter (fun v => (v_tok v =? tok) && (v_remote v =? r0)) (incoming_requests s))) = true)
      by (induction (filter _ (incoming_requests s)); [reflexivity|assumption]).
    destruct (neutral_logs r _ Hn) as (N1 & N2 & _). rewrite N1, N2, app_nil_r.
    split; [exact Ha|]. split; [reflexivity|]. exists x, x. auto.
  - (* a responder serving r produces a response *) cbn [step fires_on]. unfold respond.
    destruct (find (fun v => v_k v =? k) (incoming_requests s)) as [v|]; [|discriminate Ht].
    assert (Hv : v_remote v = r) by lia. rewrite Hv.
    destruct (send_message_busy (Resp j k) r (if v_mtype v =? 1 then 7 else 8) 69 (v_tok v) maxre s q' x HI Ha Hx) as (A & B & C).
    destruct (send_message _ _ _ _ _ _ s) as [s1 o1]. cbn [fst snd] in *.
    destruct last; [destruct (alive k s1) eqn:Eal|]; cbn [fst snd].
    + unfold stop_responder. rewrite Eal. cbn [fst snd]. rewrite subm_app, left_app, B. unfold subm, left. cbn. rewrite app_nil_r.
      split; [exact A|]. split; [reflexivity|]. exists x, x. auto.
    + split; [exact A|]. split; [exact B|]. exists x, x. auto.
    + split; [exact A|]. split; [exact B|]. exists x, x. auto. Qed.

Theorem held_otherwise s e r q : Inv s -> aget r (backlogs s) = Some q -> acks s e r = false -> fails s e r = false ->
  let s' := fst (step s e) in let o := snd (step s e) in
  aget r (backlogs s') = Some (q ++ subm r o) /\ left r o = [] /\ exists x x', exs r s = [x] /\ exs r s' = [x'] /\ x_msg x' = x_msg x.
Proof. intros HI Ha Hack Hf. destruct (held_otherwise_detail s e r q HI Ha Hack Hf) as (A & B & x & x' & C & D & E & _).
  split; [exact A|]. split; [exact B|]. exists x, x'. auto. Qed.


(* ---------------------------------------------------------------- liveness when the peers stay silent: firing timers empties everything *)
Lemma trans_trans s o1 s1 o2 s2 : Trans s o1 s1 -> Trans s1 o2 s2 -> Trans s (o1 ++ o2) s2.
Proof. intros (A & B & C) (A' & B' & C'). split; [exact A'|]. split.
  - intros r. rewrite subm_app, left_app, app_assoc, B, <- !app_assoc. f_equal. apply B'.
  - rewrite nocrash_app, C, C'. reflexivity. Qed.

Lemma run_trans es : forall s, Inv s -> Trans s (concat (snd (run s es))) (fst (run s es)).
Proof. induction es as [|e es IH]; intros s HI; cbn [run].
  - apply trans_refl; exact HI.
  - pose proof (step_trans s e HI) as T. destruct (step s e) as [s1 o1]. cbn [fst snd] in T.
    specialize (IH s1 (proj1 T)). destruct (run s1 es) as [s2 os]. cbn [fst snd concat] in *. apply (trans_trans s o1 s1); assumption. Qed.

(* transmissions still to come before the exchange gives up *)
Definition weight (x : exchange) : nat := S (Z.to_nat (m_maxre (x_msg x) - x_counter x)).
Definition measure (s : st) : nat := list_sum (map weight (active_exchanges s)).

Lemma list_sum_filter (p : exchange -> bool) l :
  list_sum (map weight l) = (list_sum (map weight (filter p l)) + list_sum (map weight (filter (fun x => negb (p x)) l)))%nat.
Proof. unfold list_sum. induction l as [|x l IH]; [reflexivity|]. cbn -[weight]. destruct (p x); cbn -[weight]; rewrite IH; lia. Qed.

Lemma filter_key_exs r mid l : filter (key_eqb r mid) l = filter (key_eqb r mid) (filter (to_remote r) l).
Proof. induction l as [|x l IH]; [reflexivity|]. cbn [filter]. destruct (to_remote r x) eqn:E.
  - cbn [filter]. destruct (key_eqb r mid x); rewrite IH; reflexivity.
  - replace (key_eqb r mid x) with false by (unfold key_eqb, to_remote in *; rewrite E; reflexivity). exact IH. Qed.

Lemma measure_xdel s x : Inv s -> In x (active_exchanges s) ->
  (list_sum (map weight (xdel (m_remote (x_msg x)) (m_mid (x_msg x)) (active_exchanges s))) + weight x = measure s)%nat.
Proof. intros HI Hin. unfold measure. set (r := m_remote (x_msg x)). set (mid := m_mid (x_msg x)).
  rewrite (list_sum_filter (key_eqb r mid) (active_exchanges s)). unfold xdel.
  destruct (inv_count_aget s r HI) as [[Hc _]|(x0 & q & Hx & _)].
  { exfalso. pose proof (in_exs r s x Hin eq_refl) as Hi. rewrite (count0_exs r s Hc) in Hi. exact Hi. }
  assert (x0 = x). { pose proof (in_exs r s x Hin eq_refl) as Hi. rewrite Hx in Hi. destruct Hi as [Hi|[]]. exact Hi. } subst x0.
  rewrite filter_key_exs. fold (exs r s). rewrite Hx. cbn [filter]. replace (key_eqb r mid x) with true by (unfold key_eqb, r, mid; lia).
  cbn -[weight]. lia. Qed.

Lemma xdel_idem r mid l : xdel r mid (xdel r mid l) = xdel r mid l.
Proof. unfold xdel. induction l as [|x l IH]; [reflexivity|]. cbn [filter]. destruct (key_eqb r mid x) eqn:E; cbn [negb filter]; [exact IH|rewrite E; cbn; rewrite IH; reflexivity]. Qed.

Lemma fire_measure s : Inv s -> active_exchanges s <> [] -> S (measure (fst (fire s))) = measure s.
Proof. intros HI Hne. unfold fire. destruct (min_timer (active_exchanges s)) as [x|] eqn:E; [|apply min_timer_none in E; contradiction].
  pose proof (min_timer_in _ _ E) as Hin. set (s0 := upd_now s (Z.max (now s) (x_due x))).
  pose proof (measure_xdel s x HI Hin) as Hm.
  unfold retransmit. rewrite (xget_own s0 x); [|destruct (HI (m_remote (x_msg x))) as (A & _); exact A|exact Hin].
  destruct (x_counter x <? m_maxre (x_msg x)) eqn:Ec.
  - unfold measure in *. unfold schedule_retransmit. cbn [fst snd upd_ex active_exchanges upd_now s0 map]. rewrite xdel_idem.
    change (list_sum (?a :: ?l)) with (a + list_sum l)%nat.
    unfold weight at 1. cbn [x_msg x_counter]. unfold weight in Hm at 2. lia.
  - cbn [backlogs upd_ex upd_now s0]. destruct (aget (m_remote (x_msg x)) (backlogs s)) as [q|] eqn:Ea.
    + unfold measure in *. unfold tm_dispatch_error. cbn [fst snd upd_in upd_out upd_bl upd_ex active_exchanges upd_now s0].
      unfold weight in Hm at 2. lia.
    + exfalso. destruct (inv_count_aget s (m_remote (x_msg x)) HI) as [[Hc _]|(x0 & q & _ & Ha & _)]; [|congruence].
      pose proof (in_exs _ s x Hin eq_refl) as Hi. rewrite (count0_exs _ s Hc) in Hi. exact Hi. Qed.

Lemma no_exchange_no_backlog s : Inv s -> active_exchanges s = [] -> backlogs s = [].
Proof. intros HI He. destruct (backlogs s) as [|[k v] l] eqn:Eb; [reflexivity|]. exfalso.
  destruct (HI k) as (_ & B & _). unfold count_r, exs in B. rewrite He, Eb in B. cbn in B. rewrite Z.eqb_refl in B.
  assert (0 = 1)%nat by (apply B; discriminate). lia. Qed.

Lemma fire_idle s : active_exchanges s = [] -> fire s = (s, []).
Proof. intros H. unfold fire. rewrite H. reflexivity. Qed.

Lemma fires_quiesce n : forall s, Inv s -> (measure s <= n)%nat -> active_exchanges (fst (run s (repeat Fire n))) = [].
Proof. induction n as [|n IH]; intros s HI Hm.
  - cbn. destruct (active_exchanges s) as [|x l] eqn:E; [reflexivity|]. unfold measure in Hm. rewrite E in Hm. cbn in Hm. unfold weight in Hm. lia.
  - cbn [repeat run step]. destruct (active_exchanges s) as [|x l] eqn:E.
    + rewrite (fire_idle s E). specialize (IH s HI). destruct (run s (repeat Fire n)) as [s2 os]. cbn [fst] in *. apply IH.
      unfold measure. rewrite E. cbn. lia.
    + pose proof (fire_measure s HI) as Hd. pose proof (fire_trans s HI) as (HI1 & _). destruct (fire s) as [s1 o1]. cbn [fst snd] in *.
      specialize (IH s1 HI1). destruct (run s1 (repeat Fire n)) as [s2 os]. cbn [fst] in *. apply IH.
      rewrite E in Hd. specialize (Hd ltac:(discriminate)). lia. Qed.

Lemma retransmit_no_subm x s r : subm r (snd (retransmit x s)) = [].
Proof. unfold retransmit. destruct (xget _ _ _); [|reflexivity].
  destruct (x_counter x <? m_maxre (x_msg x)); [reflexivity|].
  destruct (aget _ _) as [q|]; [|reflexivity].
  match goal with |- context [tm_dispatch_error ?e ?rr ?ss] => destruct (tm_dispatch_error_frame e rr ss) as (_ & _ & Hn); destruct (tm_dispatch_error e rr ss) as [s1 o1] end.
  cbn [fst snd] in *. rewrite subm_app, subm_dropped. cbn [app]. destruct (neutral_logs r _ Hn) as (N1 & _). exact N1. Qed.

Lemma fire_no_subm s r : subm r (snd (fire s)) = [].
Proof. unfold fire. destruct (min_timer (active_exchanges s)) as [x|]; [|reflexivity].
  pose proof (retransmit_no_subm x (upd_now s (Z.max (now s) (x_due x))) r) as H.
  destruct (retransmit x _) as [s1 o1]. cbn [snd] in *. unfold subm in *. cbn [flat_map subm_o app]. exact H. Qed.

Lemma fires_no_subm n : forall s r, subm r (concat (snd (run s (repeat Fire n)))) = [].
Proof. induction n as [|n IH]; intros s r; [reflexivity|]. cbn [repeat run step].
  pose proof (fire_no_subm s r) as H. destruct (fire s) as [s1 o1]. cbn [snd] in H.
  specialize (IH s1 r). destruct (run s1 (repeat Fire n)) as [s2 os]. cbn [snd concat] in *. rewrite subm_app, H, IH. reflexivity. Qed.

Theorem quiesces_when_peers_silent s : Inv s ->
  let s' := fst (run s (repeat Fire (measure s))) in let tr := concat (snd (run s (repeat Fire (measure s)))) in
  active_exchanges s' = [] /\ backlogs s' = [] /\ forall r, left r tr = backlog_of r s.
Proof. intros HI. cbn zeta. pose proof (run_trans (repeat Fire (measure s)) s HI) as (HI' & B & _).
  pose proof (fires_quiesce (measure s) s HI (le_n _)) as He.
  pose proof (no_exchange_no_backlog _ HI' He) as Hb.
  split; [exact He|]. split; [exact Hb|]. intros r. specialize (B r). rewrite fires_no_subm, app_nil_r in B.
  unfold backlog_of at 2 in B. rewrite Hb in B. cbn in B. rewrite app_nil_r in B. symmetry. exact B. Qed.

Theorem dropped_response_stopped s e r q : Inv s -> fails s e r = true -> aget r (backlogs s) = Some q ->
  (forall v, In v (incoming_requests s) -> v_remote v = r -> In (Ended (v_k v)) (snd (step s e))) /\
  served_from r (fst (step s e)) = [].
Proof. intros HI Hf Ha. destruct (dropped_when_failed s e r q HI Hf Ha) as (_ & _ & _ & _ & _ & _ & _ & _ & A & B).
  split; [|exact B]. intros v Hv Hr. apply A. unfold served_from. apply filter_In. split; [exact Hv|lia]. Qed.
