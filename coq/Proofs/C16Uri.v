(* C16 — URI -> options -> URI -> options: what every successful decomposition looks like (inversion of set_request_uri /
   urlsplit), and the round trip from there. *)
From Verif Require Import Lib.Py Lib.Tactics Lib.PyLemmas Model.C16Str Gen.uri_kernels Model.C16 Proofs.C16Str Proofs.C16.
Open Scope Z_scope.

(* ---------------------------------------------------------------- pieces of a string keep a property of its characters *)
Section Pieces.
Variable P : Z -> bool.
Lemma partition_forallb c s : forallb P s = true ->
  forallb P (fst (fst (partition c s))) = true /\ forallb P (snd (partition c s)) = true.
Proof.
  induction s as [|x s IH]; intros H; [split; reflexivity|]. cbn [forallb] in H. apply andb_prop in H as [Hx Hs].
  cbn [partition]. destruct (x =? c); [split; [reflexivity | exact Hs]|]. destruct (IH Hs) as [I1 I2].
  destruct (partition c s) as [[a h] b]. cbn [fst snd] in *. cbn [forallb]. rewrite Hx, I1. split; [reflexivity | exact I2].
Qed.
Lemma forallb_rev s : forallb P (rev s) = forallb P s.
Proof. induction s as [|x s IH]; [reflexivity|]. cbn [rev]. rewrite forallb_app, IH. cbn. rewrite andb_true_r. apply andb_comm. Qed.
Lemma rpartition_forallb c s : forallb P s = true -> forallb P (snd (rpartition c s)) = true.
Proof.
  intros H. unfold rpartition. pose proof (partition_forallb c (rev s)) as Hp. rewrite forallb_rev in Hp. destruct (Hp H) as [I1 I2].
  destruct (partition c (rev s)) as [[a h] b]. cbn [fst snd] in *. destruct h; cbn [snd]; [rewrite forallb_rev; exact I1 | exact H].
Qed.
Lemma splitnetloc_forallb s : forallb P s = true -> forallb P (fst (splitnetloc s)) = true /\ forallb P (snd (splitnetloc s)) = true.
Proof.
  induction s as [|x s IH]; intros H; [split; reflexivity|]. cbn [forallb] in H. apply andb_prop in H as [Hx Hs].
  cbn [splitnetloc]. destruct (is_delim x). { cbn [fst snd forallb]. rewrite Hx, Hs. split; reflexivity. }
  destruct (IH Hs) as [I1 I2]. destruct (splitnetloc s) as [a b]. cbn [fst snd] in *. cbn [forallb]. rewrite Hx, I1. split; [reflexivity | exact I2].
Qed.
Lemma split_on_forallb c s : forallb P s = true -> forallb (forallb P) (split_on c s) = true.
Proof.
  induction s as [|x s IH]; intros H; [reflexivity|]. cbn [forallb] in H. apply andb_prop in H as [Hx Hs]. specialize (IH Hs).
  cbn [split_on]. destruct (x =? c); [cbn [forallb]; exact IH|]. destruct (split_on c s) as [|a t]; cbn [forallb] in *; [rewrite Hx; reflexivity|].
  apply andb_prop in IH as [I1 I2]. rewrite Hx, I1, I2. reflexivity.
Qed.
Lemma skipn_forallb {A} (Q : A -> bool) n l : forallb Q l = true -> forallb Q (skipn n l) = true.
Proof. revert l. induction n as [|n IH]; intros [|x l] H; cbn [skipn]; auto. cbn [forallb] in H. apply andb_prop in H as [_ H]. apply IH. exact H. Qed.
Lemma lstrip_forallb s : forallb P s = true -> forallb P (lstrip_c0 s) = true.
Proof. induction s as [|x s IH]; intros H; [reflexivity|]. cbn [lstrip_c0]. destruct (_ && _); [|exact H]. cbn [forallb] in H. apply andb_prop in H as [_ H]. apply IH. exact H. Qed.
Lemma filter_forallb (f : Z -> bool) s : forallb P s = true -> forallb P (filter f s) = true.
Proof. induction s as [|x s IH]; intros H; [reflexivity|]. cbn [forallb] in H. apply andb_prop in H as [Hx Hs]. cbn [filter]. destruct (f x); [cbn [forallb]; rewrite Hx|]; apply IH; exact Hs. Qed.
End Pieces.

(* ---------------------------------------------------------------- unquote keeps strings valid and non-empty *)
Definition nonneg_char (c : Z) : bool := 0 <=? c.
Lemma scalar_nonneg s : valid_str s = true -> forallb nonneg_char s = true.
Proof. unfold valid_str. intros H. apply forallb_forall. intros x Hin. rewrite forallb_forall in H. specialize (H x Hin). unfold scalar, nonneg_char in *. lia. Qed.

Lemma utf8_decode_valid n : forall b s, (length b <= n)%nat -> bytes_ok b = true -> utf8_decode b = Ok s -> valid_str s = true.
Proof.
  induction n as [|n IH]; intros b s Hl Hb H.
  - destruct b; [cbn in H; ok_inj H; reflexivity | cbn in Hl; lia].
  - destruct b as [|b0 r]; [cbn in H; ok_inj H; reflexivity|]. cbn [length] in Hl.
    rewrite bytes_ok_cons in Hb. apply andb_prop in Hb as [H0 Hr]. unfold byte_ok in H0.
    assert (Hrec : forall r' c, (length r' <= n)%nat -> bytes_ok r' = true -> scalar c = true ->
               (r0 <- utf8_decode r' ;; Ok (c :: r0)) = Ok s -> valid_str s = true).
    { intros r' c Hr' Hbr Hc Hd. destruct (utf8_decode r') as [r0|] eqn:E; [|discriminate]. cbn [bind] in Hd. ok_inj Hd.
      cbn [valid_str forallb]. rewrite Hc. exact (IH _ _ Hr' Hbr E). }
    cbn [utf8_decode] in H.
    destruct ((0 <=? b0) && (b0 <? 128)) eqn:E1. { eapply (Hrec r b0); eauto; [lia | unfold scalar, is_surrogate; lia]. }
    destruct ((194 <=? b0) && (b0 <? 224)) eqn:E2.
    { destruct r as [|b1 r']; [discriminate|]. cbn [length] in Hl. rewrite bytes_ok_cons in Hr. apply andb_prop in Hr as [_ Hr].
      destruct (is_cont b1) eqn:C1; [|discriminate]. unfold is_cont in C1.
      eapply (Hrec r'); eauto; [lia | unfold scalar, is_surrogate; lia]. }
    destruct ((224 <=? b0) && (b0 <? 240)) eqn:E3.
    { destruct r as [|b1 [|b2 r']]; try discriminate. cbn [length] in Hl. rewrite !bytes_ok_cons in Hr. apply andb_prop in Hr as [_ Hr]. apply andb_prop in Hr as [_ Hr].
      destruct (is_cont b1 && is_cont b2 && implb (b0 =? 224) (160 <=? b1) && implb (b0 =? 237) (b1 <? 160)) eqn:C; [|discriminate].
      unfold is_cont in C. eapply (Hrec r'); eauto; [lia | unfold scalar, is_surrogate; lia]. }
    destruct ((240 <=? b0) && (b0 <? 245)) eqn:E4; [|discriminate].
    destruct r as [|b1 [|b2 [|b3 r']]]; try discriminate. cbn [length] in Hl. rewrite !bytes_ok_cons in Hr.
    apply andb_prop in Hr as [_ Hr]. apply andb_prop in Hr as [_ Hr]. apply andb_prop in Hr as [_ Hr].
    destruct (is_cont b1 && is_cont b2 && is_cont b3 && implb (b0 =? 240) (144 <=? b1) && implb (b0 =? 244) (b1 <? 144)) eqn:C; [|discriminate].
    unfold is_cont in C. eapply (Hrec r'); eauto; [lia | unfold scalar, is_surrogate; lia].
Qed.
Lemma hexval_range c v : hexval c = Some v -> 0 <= v < 16.
Proof.
  unfold hexval, is_digit. destruct ((48 <=? c) && (c <=? 57)) eqn:E1; [intros H; inv H; lia|].
  destruct ((65 <=? c) && (c <=? 70)) eqn:E2; [intros H; inv H; lia|].
  destruct ((97 <=? c) && (c <=? 102)) eqn:E3; intros H; inv H; lia.
Qed.
Lemma unquote_impl_bytes_ok s : forallb (fun c => (0 <=? c) && (c <? 128)) s = true -> bytes_ok (unquote_impl s) = true.
Proof.
  assert (G : forall n s, (length s <= n)%nat -> forallb (fun c => (0 <=? c) && (c <? 128)) s = true -> bytes_ok (unquote_impl s) = true).
  { induction n as [|n IH]; intros s0 Hl H; [destruct s0; [reflexivity | cbn in Hl; lia]|].
    destruct s0 as [|c r]; [reflexivity|]. cbn [length] in Hl. cbn [forallb] in H. apply andb_prop in H as [Hc Hr].
    assert (Hplain : bytes_ok (c :: unquote_impl r) = true) by (rewrite bytes_ok_cons, IH by (auto; lia); unfold byte_ok; lia).
    cbn [unquote_impl]. destruct (c =? 37) eqn:E; [|exact Hplain]. apply Z.eqb_eq in E. subst c.
    destruct r as [|h1 [|h2 r']]; try exact Hplain.
    destruct (hexval h1) as [a|] eqn:E1; [|exact Hplain]. destruct (hexval h2) as [b|] eqn:E2; [|exact Hplain].
    cbn [length forallb] in *. apply andb_prop in Hr as [_ Hr]. apply andb_prop in Hr as [_ Hr].
    rewrite bytes_ok_cons, IH by (auto; lia). apply hexval_range in E1, E2. unfold byte_ok. lia. }
  intros H. eapply G; [apply le_n | exact H].
Qed.
Lemma unquote_impl_nonempty s : unquote_impl s = [] -> s = [].
Proof.
  destruct s as [|c r]; [reflexivity|]. cbn [unquote_impl]. destruct (c =? 37); [|discriminate].
  destruct r as [|h1 [|h2 r']]; try discriminate. destruct (hexval h1); [|discriminate]. destruct (hexval h2); discriminate.
Qed.
Lemma utf8_decode_nonempty b : utf8_decode b = Ok [] -> b = [].
Proof.
  destruct b as [|b0 r]; [reflexivity|]. intros H. exfalso.
  assert (Hb : forall (m : M (list Z)) c, (r0 <- m ;; Ok (c :: r0)) = Ok [] -> False) by (intros m c Hm; destruct m; discriminate).
  cbn [utf8_decode] in H.
  destruct ((0 <=? b0) && (b0 <? 128)); [eapply Hb; exact H|].
  destruct ((194 <=? b0) && (b0 <? 224)).
  { destruct r as [|b1 r']; [discriminate|]. destruct (is_cont b1); [eapply Hb; exact H | discriminate]. }
  destruct ((224 <=? b0) && (b0 <? 240)).
  { destruct r as [|b1 [|b2 r']]; try discriminate. destruct (_ && _) in H; [eapply Hb; exact H | discriminate]. }
  destruct ((240 <=? b0) && (b0 <? 245)); [|discriminate].
  destruct r as [|b1 [|b2 [|b3 r']]]; try discriminate. destruct (_ && _) in H; [eapply Hb; exact H | discriminate].
Qed.
Lemma decode_run_facts run r : forallb (fun c => (0 <=? c) && (c <? 128)) run = true -> decode_run run = Ok r ->
  valid_str r = true /\ (r = [] -> run = []).
Proof.
  intros Ha H. unfold decode_run in H. split.
  - eapply utf8_decode_valid; [apply le_n | apply unquote_impl_bytes_ok; exact Ha | exact H].
  - intros ->. apply utf8_decode_nonempty in H. apply unquote_impl_nonempty. exact H.
Qed.
Lemma unquote_parts_facts s : forall run r, valid_str s = true -> forallb (fun c => (0 <=? c) && (c <? 128)) run = true ->
  unquote_parts s run = Ok r -> valid_str r = true /\ (r = [] -> s = [] /\ run = []).
Proof.
  induction s as [|c s IH]; intros run r Hs Hrun H; cbn [unquote_parts] in H.
  - destruct (decode_run_facts (rev run) r) as [V N]; [rewrite forallb_rev; exact Hrun | exact H|].
    split; [exact V|]. intros E. split; [reflexivity|]. specialize (N E). destruct run; [reflexivity|]. cbn [rev] in N. destruct (rev run); discriminate.
  - cbn [valid_str forallb] in Hs. apply andb_prop in Hs as [Hc Hs]. fold (valid_str s) in Hs. unfold is_ascii in H. destruct (c <? 128) eqn:Ec.
    + destruct (IH (c :: run) r Hs) as [V N]; [cbn [forallb]; rewrite Hrun; unfold scalar in Hc; lia | exact H|].
      split; [exact V|]. intros E. destruct (N E) as [_ N2]. discriminate.
    + destruct (decode_run (rev run)) as [d|] eqn:Ed; [|discriminate]. cbn [bind] in H.
      destruct (unquote_parts s []) as [rest|] eqn:Er; [|discriminate]. cbn [bind] in H. ok_inj H.
      destruct (decode_run_facts (rev run) d) as [V1 _]; [rewrite forallb_rev; exact Hrun | exact Ed|].
      destruct (IH [] rest Hs eq_refl Er) as [V2 _].
      split; [|intros E; destruct d; discriminate]. unfold valid_str in *. rewrite forallb_app. cbn [forallb]. rewrite V1, Hc, V2. reflexivity.
Qed.
Lemma unquote_facts s r : valid_str s = true -> unquote s = Ok r -> valid_str r = true /\ (r = [] -> s = []).
Proof. intros Hs H. destruct (unquote_parts_facts s [] r Hs eq_refl H) as [V N]. split; [exact V | intros E; apply N; exact E]. Qed.
Lemma mapM_unquote_facts l : forall r, forallb valid_str l = true -> mapM unquote l = Ok r ->
  forallb valid_str r = true /\ (r = [[]] -> l = [[]]).
Proof.
  induction l as [|s l IH]; intros r Hl H; cbn [mapM] in H. { ok_inj H. split; [reflexivity | discriminate]. }
  cbn [forallb] in Hl. apply andb_prop in Hl as [Hs Hl]. destruct (unquote s) as [x|] eqn:Ex; [|discriminate]. cbn [bind] in H.
  destruct (mapM unquote l) as [rest|] eqn:Er; [|discriminate]. cbn [bind] in H. ok_inj H.
  destruct (unquote_facts s x Hs Ex) as [V N]. destruct (IH rest Hl eq_refl) as [V2 _].
  split; [cbn [forallb]; rewrite V, V2; reflexivity|]. intros E. injection E as -> ->.
  rewrite (N eq_refl). destruct l; [reflexivity|]. cbn [mapM] in Er. destruct (unquote l); [|discriminate]. cbn [bind] in Er. destruct (mapM unquote l0); discriminate.
Qed.
Lemma split_on_nonnil c r : split_on c r <> [].
Proof. destruct r as [|y r]; cbn [split_on]; [discriminate|]. destruct (y =? c); [discriminate|]. destruct (split_on c r); discriminate. Qed.
Lemma split_on_single c r x : split_on c r = [x] -> r = x.
Proof.
  revert x. induction r as [|y r IH]; intros x H; cbn [split_on] in H. { injection H as <-. reflexivity. }
  destruct (y =? c). { injection H as _ H. exfalso. exact (split_on_nonnil c r H). }
  destruct (split_on c r) as [|a t] eqn:E; [exfalso; exact (split_on_nonnil c r E)|].
  injection H as <- ->. f_equal. apply IH. reflexivity.
Qed.

(* the decomposed Uri-Path / Uri-Query are never the degenerate [""] and consist of encodable strings *)
Lemma unquote_path_facts path p : valid_str path = true -> (path = [] \/ startswith path [47] = true) -> unquote_path path = Ok p ->
  p <> [[]] /\ forallb valid_str p = true.
Proof.
  intros Hv Hshape H. unfold unquote_path in H. destruct (is_nil path || beqb path [47]) eqn:E. { ok_inj H. split; [discriminate | reflexivity]. }
  apply orb_false_elim in E as [E1 E2]. destruct path as [|c r]; [discriminate|]. destruct Hshape as [|Hs]; [discriminate|].
  cbn [startswith] in Hs. apply andb_prop in Hs as [Hc _]. apply Z.eqb_eq in Hc. subst c.
  cbn [split_on] in H. rewrite Z.eqb_refl in H. cbn [skipn] in H.
  cbn [valid_str forallb] in Hv. apply andb_prop in Hv as [_ Hr]. fold (valid_str r) in Hr.
  destruct (mapM_unquote_facts (split_on 47 r) p) as [V N]; [apply split_on_forallb; exact Hr | exact H|].
  split; [|exact V]. intros Ep. specialize (N Ep). apply split_on_single in N. subst r. cbn in E2. discriminate.
Qed.
Lemma unquote_query_facts query q : valid_str query = true -> unquote_query query = Ok q -> q <> [[]] /\ forallb valid_str q = true.
Proof.
  intros Hv H. unfold unquote_query in H. destruct (is_nil query) eqn:E. { ok_inj H. split; [discriminate | reflexivity]. }
  destruct (mapM_unquote_facts (split_on 38 query) q) as [V N]; [apply split_on_forallb; exact Hv | exact H|].
  split; [|exact V]. intros Eq. specialize (N Eq). apply split_on_single in N. subst query. discriminate.
Qed.

(* ---------------------------------------------------------------- what a successful decomposition went through *)
Lemma catch_unicode_ok {A} (m : M A) x : catch_unicode m = Ok x -> m = Ok x.
Proof. destruct m as [a|e]; [auto|]. destruct e; discriminate. Qed.
Lemma catch_value_ok {A} (m : M A) x : catch_value m = Ok x -> m = Ok x.
Proof. destruct m as [a|e]; [auto|]. destruct e; discriminate. Qed.
Lemma bind_ok {A B} (m : M A) (f : A -> M B) r : bind m f = Ok r -> exists a, m = Ok a /\ f a = Ok r.
Proof. destruct m as [a|e]; cbn [bind]; [eauto | discriminate]. Qed.

Lemma parse_dec_nonneg s : forallb is_digit s = true -> forall a, 0 <= a -> 0 <= fold_left decf s a.
Proof.
  induction s as [|c s IH]; intros H a Ha; [exact Ha|]. cbn [forallb] in H. apply andb_prop in H as [Hc Hs].
  cbn [fold_left]. apply IH; [exact Hs|]. unfold decf, is_digit in *. lia.
Qed.
Lemma port_of_ok netloc port : port_of netloc = Ok port -> port_ok port.
Proof.
  unfold port_of. destruct (snd (hostinfo_of netloc)) as [ds|]; [|intros H; ok_inj H; exact I].
  destruct (forallb is_digit ds) eqn:Ed; [|discriminate]. intros H. apply bind_ok in H as (pv & Hpv & H).
  destruct (pv <=? 65535) eqn:El; [|discriminate]. ok_inj H. cbn.
  unfold py_int_digits in Hpv. destruct (_ || _); [discriminate|]. ok_inj Hpv.
  split; [rewrite parse_dec_unfold; apply parse_dec_nonneg; [exact Ed | lia] | lia].
Qed.

Lemma splitnetloc_rest s : snd (splitnetloc s) = [] \/ exists c r, snd (splitnetloc s) = c :: r /\ is_delim c = true.
Proof.
  induction s as [|x s IH]; [left; reflexivity|]. cbn [splitnetloc]. destruct (is_delim x) eqn:E; [right; exists x, s; auto|].
  destruct (splitnetloc s) as [a b]. exact IH.
Qed.
Lemma lower_ascii_scalar s : forallb scalar s = true -> forallb scalar (lower_ascii s) = true.
Proof.
  induction s as [|c s IH]; intros H; [reflexivity|]. cbn [forallb] in H. apply andb_prop in H as [Hc Hs].
  cbn [lower_ascii map forallb]. fold (lower_ascii s). rewrite IH by exact Hs. unfold lower_c, is_upper, scalar, is_surrogate in *.
  destruct ((65 <=? c) && (c <=? 90)) eqn:E; lia.
Qed.

Section Inversion.
Variable ip_address : list Z -> ipres.

Lemma urlsplit_shape uri s netloc path query frag : valid_str uri = true ->
  urlsplit ip_address uri = Ok (s, netloc, path, query, frag) ->
  valid_str netloc = true /\ valid_str path = true /\ valid_str query = true /\
  (netloc <> [] -> path = [] \/ startswith path [47] = true).
Proof.
  intros Hv H. unfold urlsplit in H.
  assert (V0 : forallb scalar (remove_unsafe (lstrip_c0 uri)) = true) by (apply filter_forallb, lstrip_forallb; exact Hv).
  set (u0 := remove_unsafe (lstrip_c0 uri)) in *.
  assert (V1 : forallb scalar (snd (split_scheme u0)) = true).
  { unfold split_scheme. destruct (partition_forallb scalar 58 u0 V0) as [_ I2]. destruct (partition 58 u0) as [[a h] b]. cbn [snd] in I2.
    destruct (_ && _); [exact I2 | exact V0]. }
  destruct (split_scheme u0) as [scheme url]. cbn [snd] in V1.
  apply bind_ok in H as ([nl rest] & Hn & H).
  assert (Hrest : forallb scalar nl = true /\ forallb scalar rest = true /\ (nl <> [] -> rest = [] \/ exists c r, rest = c :: r /\ is_delim c = true)).
  { destruct (startswith url [47; 47]).
    - pose proof (splitnetloc_forallb scalar (skipn 2 url) (skipn_forallb scalar 2 url V1)) as [I1 I2].
      pose proof (splitnetloc_rest (skipn 2 url)) as Hr. destruct (splitnetloc (skipn 2 url)) as [a b]. cbn [fst snd] in *.
      destruct (_ || _); [discriminate|]. apply bind_ok in Hn as (x & _ & Hn). ok_inj Hn. injection Hn as <- <-. auto.
    - ok_inj Hn. injection Hn as <- <-. split; [reflexivity|]. split; [exact V1|]. congruence. }
  destruct Hrest as (Vn & Vr & Hshape).
  destruct (partition_forallb scalar 35 rest Vr) as [F1 _].
  destruct (partition 35 rest) as [[url1 hf] fragment] eqn:E35. cbn [fst] in F1.
  destruct (partition_forallb scalar 63 url1 F1) as [G1 G2].
  destruct (partition 63 url1) as [[url2 hq] qy] eqn:E63. cbn [fst snd] in G1, G2.
  destruct (all_ascii nl); [|discriminate]. ok_inj H. injection H as <- <- <- <- <-.
  split; [exact Vn|]. split; [exact G1|]. split; [exact G2|].
  intros Hne. destruct (Hshape Hne) as [-> | (c & r & -> & Hc)].
  - cbn in E35. injection E35 as <- _ _. cbn in E63. injection E63 as <- _ _. left. reflexivity.
  - cbn [partition] in E35. unfold is_delim in Hc. destruct (c =? 35) eqn:C35.
    + injection E35 as <- _ _. cbn in E63. injection E63 as <- _ _. left. reflexivity.
    + destruct (partition 35 r) as [[a1 h1] b1]. injection E35 as <- _ _. cbn [partition] in E63. destruct (c =? 63) eqn:C63.
      * injection E63 as <- _ _. left. reflexivity.
      * destruct (partition 63 a1) as [[a2 h2] b2]. injection E63 as <- _ _. right. cbn [startswith].
        replace (c =? 47) with true by lia. destruct a2; reflexivity.
Qed.

Lemma hostname_of_valid netloc hostname : valid_str netloc = true -> hostname_of netloc = Ok (Some hostname) ->
  valid_str hostname = true /\ hostname <> [].
Proof.
  intros Hv H. unfold hostname_of in H.
  assert (Vh : forallb scalar (fst (hostinfo_of netloc)) = true).
  { unfold hostinfo_of. pose proof (rpartition_forallb scalar 64 netloc Hv) as R.
    destruct (rpartition 64 netloc) as [[a0 b0] hostinfo]. cbn [snd] in R.
    destruct (partition_forallb scalar 91 hostinfo R) as [_ B]. destruct (partition_forallb scalar 58 hostinfo R) as [C _].
    destruct (partition 91 hostinfo) as [[a1 ob] bracketed]. cbn [snd] in B. destruct ob.
    - destruct (partition_forallb scalar 93 bracketed B) as [D _]. destruct (partition 93 bracketed) as [[hn x] pt]. cbn [fst] in D.
      destruct (partition 58 pt) as [[y1 y2] y3]. exact D.
    - destruct (partition 58 hostinfo) as [[hn x] pt]. exact C. }
  destruct (is_nil (fst (hostinfo_of netloc))) eqn:En; [discriminate|].
  destruct (partition_forallb scalar 37 _ Vh) as [P1 P2].
  destruct (partition 37 (fst (hostinfo_of netloc))) as [[h pc] z] eqn:Ep. cbn [fst snd] in P1, P2.
  destruct (all_ascii h); [|discriminate]. ok_inj H. injection H as <-. split.
  - unfold valid_str. rewrite !forallb_app, lower_ascii_scalar, P2 by exact P1. destruct pc; reflexivity.
  - destruct (fst (hostinfo_of netloc)) as [|c r]; [discriminate|]. cbn [partition] in Ep. destruct (c =? 37).
    + injection Ep as <- <- <-. discriminate.
    + destruct (partition 37 r) as [[a1 a2] a3]. injection Ep as <- <- <-. discriminate.
Qed.

(* ---- what urlsplit guarantees about a non-empty network location *)
Lemma filter_self (f : Z -> bool) s : forallb f (filter f s) = true.
Proof. induction s as [|x s IH]; [reflexivity|]. cbn [filter]. destruct (f x) eqn:E; [cbn [forallb]; rewrite E|]; exact IH. Qed.
Lemma splitnetloc_nodelim s : forallb (fun c => negb (is_delim c)) (fst (splitnetloc s)) = true.
Proof.
  induction s as [|x s IH]; [reflexivity|]. cbn [splitnetloc]. destruct (is_delim x) eqn:E; [reflexivity|].
  destruct (splitnetloc s) as [a b]. cbn [fst] in *. cbn [forallb]. rewrite E, IH. reflexivity.
Qed.
Lemma urlsplit_netloc_facts uri s netloc path query frag :
  urlsplit ip_address uri = Ok (s, netloc, path, query, frag) -> netloc <> [] ->
  all_ascii netloc = true /\ brackets_ok ip_address netloc /\
  mem 47 netloc = false /\ mem 63 netloc = false /\ mem 35 netloc = false /\
  mem 9 netloc = false /\ mem 10 netloc = false /\ mem 13 netloc = false.
Proof.
  intros H Hne. unfold urlsplit in H.
  set (safe := fun c => negb (unsafe_byte c)) in *.
  assert (V0 : forallb safe (remove_unsafe (lstrip_c0 uri)) = true) by apply filter_self.
  set (u0 := remove_unsafe (lstrip_c0 uri)) in *.
  assert (V1 : forallb safe (snd (split_scheme u0)) = true).
  { unfold split_scheme. destruct (partition_forallb safe 58 u0 V0) as [_ I2]. destruct (partition 58 u0) as [[a h] b]. cbn [snd] in I2.
    destruct (_ && _); [exact I2 | exact V0]. }
  destruct (split_scheme u0) as [scheme url]. cbn [snd] in V1.
  apply bind_ok in H as ([nl rest] & Hn & H).
  destruct (partition 35 rest) as [[url1 hf] fragment]. destruct (partition 63 url1) as [[url2 hq] qy].
  destruct (all_ascii nl) eqn:Ea; [|discriminate]. ok_inj H. injection H as <- <- <- <- <-.
  destruct (startswith url [47; 47]); [|ok_inj Hn; injection Hn as <- <-; congruence].
  pose proof (splitnetloc_forallb safe (skipn 2 url) (skipn_forallb safe 2 url V1)) as [I1 _].
  pose proof (splitnetloc_nodelim (skipn 2 url)) as Hd.
  destruct (splitnetloc (skipn 2 url)) as [a b]. cbn [fst] in I1, Hd.
  destruct ((mem 91 a && negb (mem 93 a)) || (mem 93 a && negb (mem 91 a))) eqn:Ec; [discriminate|].
  apply bind_ok in Hn as (x & Hx & Hn). ok_inj Hn. injection Hn as <- <-.
  split; [exact Ea|]. split.
  { unfold brackets_ok. rewrite Ec, Hx. reflexivity. }
  repeat split; first [ apply (forallb_mem_false _ _ _ Hd); reflexivity | apply (forallb_mem_false _ _ _ I1); reflexivity ].
Qed.

(* ================================================================ 6.4, step by step: what every successful decomposition is.
   For both values of set_uri_host. Uri-Path / Uri-Query are the percent-decoded segments of the path / query component; there is
   no user name or password; the port was numeric and stays with the remote: the remote's hostinfo is the network location
   verbatim, or — for a bracketed literal — the literal as ipaddress prints it, joined with the same port. *)
Theorem decompose_spec uri flag s hi uh p q : set_request_uri ip_address uri flag = Ok (DRequest s hi uh p q) ->
  existsb (beqb s) coap_schemes = true /\
  exists netloc path query hostname port,
    urlsplit ip_address uri = Ok (s, netloc, path, query, []) /\ hostname_of netloc = Ok (Some hostname) /\
    (let '(u, pw) := userinfo_of netloc in truthy u || truthy pw) = false /\
    unquote_path path = Ok p /\ unquote_query query = Ok q /\
    port_of netloc = Ok port /\ port_ok port /\ hostportsplit netloc = Ok (Some hostname, port) /\
    undecided_remote ip_address s netloc = Ok (s, hi) /\
    (mem 91 netloc = false -> hi = netloc) /\
    (mem 91 netloc = true -> exists n, (ip_address hostname = Ip6 n \/ ip_address hostname = Ip4 n) /\ hostportjoin n port = Ok hi) /\
    match uh with
    | Some h => flag = true /\ mem 91 netloc = false /\ is_ipv4_literal hostname = Ok false /\
                exists h', unquote hostname = Ok h' /\ h = translate ascii_lowercase h'
    | None => flag = false \/ mem 91 netloc = true \/ is_ipv4_literal hostname = Ok true
    end.
Proof.
  unfold set_request_uri. intros H.
  destruct (urlsplit ip_address uri) as [[[[[scheme netloc] path] query] fragment]|e0] eqn:Eu; [|destruct e0; discriminate].
  cbn [catch_value bind] in H.
  destruct fragment as [|f0 fr]; cbn [is_nil negb] in H; [|discriminate].
  destruct scheme as [|s0 sr]; cbn [is_nil] in H; [discriminate|].
  destruct (existsb (beqb (s0 :: sr)) coap_schemes) eqn:Es; cbn [negb] in H; [|discriminate].
  destruct (hostname_of netloc) as [[hostname|]|e1] eqn:Eh; cbn [bind] in H; try discriminate.
  destruct (userinfo_of netloc) as [username password] eqn:Eui.
  destruct (truthy username || truthy password) eqn:Etr; [discriminate|].
  apply bind_ok in H as (uri_path & Hp & H). apply catch_unicode_ok in Hp.
  apply bind_ok in H as (uri_query & Hq & H). apply catch_unicode_ok in Hq.
  apply bind_ok in H as (port & Hport & H). apply catch_value_ok in Hport.
  apply bind_ok in H as ([rs rhi] & Hrem & H). apply catch_value_ok in Hrem.
  pose proof (undecided_remote_scheme _ _ _ _ Hrem) as Ers. cbn [fst] in Ers. subst rs. cbn [fst snd] in H.
  assert (Hsp : hostportsplit netloc = Ok (Some hostname, port)) by (unfold hostportsplit; rewrite Eh, Hport; reflexivity).
  assert (Hplain : mem 91 netloc = false -> rhi = netloc).
  { intros N. unfold undecided_remote in Hrem. rewrite N in Hrem. ok_inj Hrem. congruence. }
  assert (Hbr : mem 91 netloc = true -> exists n, (ip_address hostname = Ip6 n \/ ip_address hostname = Ip4 n) /\ hostportjoin n port = Ok rhi).
  { intros N. unfold undecided_remote in Hrem. rewrite N, Hsp in Hrem. cbn [bind] in Hrem.
    destruct (ip_address hostname) as [|n|n]; [discriminate| |]; apply bind_ok in Hrem as (j & Hj & Hrem); ok_inj Hrem;
      injection Hrem as <-; exists n; auto. }
  apply bind_ok in H as (lit & Hlit & H).
  assert (Hcommon : forall uh0, (match uh0 with
            | Some h => flag = true /\ mem 91 netloc = false /\ is_ipv4_literal hostname = Ok false /\
                        exists h', unquote hostname = Ok h' /\ h = translate ascii_lowercase h'
            | None => flag = false \/ mem 91 netloc = true \/ is_ipv4_literal hostname = Ok true end) ->
          existsb (beqb (s0 :: sr)) coap_schemes = true /\
          exists netloc0 path0 query0 hostname0 port0,
            Ok (s0 :: sr, netloc, path, query, @nil Z) = Ok (s0 :: sr, netloc0, path0, query0, []) /\ hostname_of netloc0 = Ok (Some hostname0) /\
            (let '(u, pw) := userinfo_of netloc0 in truthy u || truthy pw) = false /\
            unquote_path path0 = Ok uri_path /\ unquote_query query0 = Ok uri_query /\
            port_of netloc0 = Ok port0 /\ port_ok port0 /\ hostportsplit netloc0 = Ok (Some hostname0, port0) /\
            undecided_remote ip_address (s0 :: sr) netloc0 = Ok (s0 :: sr, rhi) /\
            (mem 91 netloc0 = false -> rhi = netloc0) /\
            (mem 91 netloc0 = true -> exists n, (ip_address hostname0 = Ip6 n \/ ip_address hostname0 = Ip4 n) /\ hostportjoin n port0 = Ok rhi) /\
            match uh0 with
            | Some h => flag = true /\ mem 91 netloc0 = false /\ is_ipv4_literal hostname0 = Ok false /\
                        exists h', unquote hostname0 = Ok h' /\ h = translate ascii_lowercase h'
            | None => flag = false \/ mem 91 netloc0 = true \/ is_ipv4_literal hostname0 = Ok true end).
  { intros uh0 Hu. split; [exact Es|]. exists netloc, path, query, hostname, port.
    split; [reflexivity|]. split; [exact Eh|]. split; [rewrite Eui; exact Etr|]. split; [exact Hp|]. split; [exact Hq|].
    split; [exact Hport|]. split; [exact (port_of_ok _ _ Hport)|]. split; [exact Hsp|]. split; [exact Hrem|]. split; [exact Hplain|]. split; [exact Hbr|]. exact Hu. }
  destruct (flag && negb lit) eqn:Ef.
  - apply bind_ok in H as (h' & Hh & H). apply catch_unicode_ok in Hh. apply Ok_inj in H. injection H as <- <- <- <- <-.
    apply andb_prop in Ef as [-> Hl]. destruct lit; [discriminate|].
    apply (Hcommon (Some (translate ascii_lowercase h'))). split; [reflexivity|]. destruct (mem 91 netloc); [discriminate|]. split; [reflexivity|]. split; [exact Hlit|].
    exists h'. split; [exact Hh | reflexivity].
  - apply Ok_inj in H. injection H as <- <- <- <- <-. apply (Hcommon None).
    destruct flag; [|left; reflexivity]. destruct lit; [|discriminate]. right.
    destruct (mem 91 netloc); [left; reflexivity | right; exact Hlit].
Qed.

(* ================================================================ each class of unacceptable text IS rejected (clause by clause)
   no scheme -> IncompleteUrlError; fragment, no host, user info, non-UTF-8 escapes in path / query / host, non-numeric or
   out-of-range port, unusable bracketed literal, unbalanced brackets (urlsplit's ValueError) -> MalformedUrlError. *)
Theorem rejects_each_class uri flag :
  (urlsplit ip_address uri = Raise ValueError -> set_request_uri ip_address uri flag = Raise MalformedUrlError) /\
  forall s netloc path query frag, urlsplit ip_address uri = Ok (s, netloc, path, query, frag) ->
    (frag <> [] -> set_request_uri ip_address uri flag = Raise MalformedUrlError) /\
    (frag = [] -> s = [] -> set_request_uri ip_address uri flag = Raise IncompleteUrlError) /\
    (frag = [] -> existsb (beqb s) coap_schemes = true ->
       (hostname_of netloc = Ok None -> set_request_uri ip_address uri flag = Raise MalformedUrlError) /\
       (forall hn, hostname_of netloc = Ok (Some hn) ->
          ((let '(u, pw) := userinfo_of netloc in truthy u || truthy pw) = true ->
             set_request_uri ip_address uri flag = Raise MalformedUrlError) /\
          ((let '(u, pw) := userinfo_of netloc in truthy u || truthy pw) = false ->
             ((exists e, unquote_path path = Raise e) \/ (exists e, unquote_query query = Raise e) \/ (exists e, port_of netloc = Raise e) ->
                set_request_uri ip_address uri flag = Raise MalformedUrlError) /\
             (forall p q port, unquote_path path = Ok p -> unquote_query query = Ok q -> port_of netloc = Ok port ->
                (undecided_remote ip_address s netloc = Raise ValueError -> set_request_uri ip_address uri flag = Raise MalformedUrlError) /\
                (forall r, undecided_remote ip_address s netloc = Ok r -> flag = true -> mem 91 netloc = false ->
                   is_ipv4_literal hn = Ok false -> (exists e, unquote hn = Raise e) ->
                   set_request_uri ip_address uri flag = Raise MalformedUrlError))))).
Proof.
  split. { intros H. unfold set_request_uri. rewrite H. reflexivity. }
  intros s netloc path query frag Eu. unfold set_request_uri. rewrite Eu. cbn [catch_value bind].
  split. { intros Hf. destruct frag; [congruence | reflexivity]. }
  split. { intros -> ->. reflexivity. }
  intros -> Hs. cbn [is_nil negb]. destruct s as [|s0 sr]; [discriminate|]. cbn [is_nil]. rewrite Hs. cbn [negb].
  split. { intros Hh. rewrite Hh. reflexivity. }
  intros hn Hh. rewrite Hh. cbn [bind]. destruct (userinfo_of netloc) as [u pw].
  split. { intros Ht. rewrite Ht. reflexivity. }
  intros Ht. rewrite Ht. split.
  - intros Hbad.
    destruct (unquote_path path) as [p|e1] eqn:Ep; [|rewrite (unquote_path_raises _ _ Ep); reflexivity].
    cbn [catch_unicode bind].
    destruct (unquote_query query) as [q|e2] eqn:Eq; [|rewrite (unquote_query_raises _ _ Eq); reflexivity].
    cbn [catch_unicode bind].
    destruct (port_of netloc) as [port|e3] eqn:Eport; [|rewrite (port_of_raises _ _ Eport); reflexivity].
    exfalso. destruct Hbad as [(e & He) | [(e & He) | (e & He)]]; discriminate.
  - intros p q port Ep Eq Eport. rewrite Ep, Eq, Eport. cbn [catch_unicode catch_value bind]. split.
    + intros Hr. rewrite Hr. reflexivity.
    + intros r Hr -> N91 Hlit (e & He). rewrite Hr, N91, Hlit. cbn [catch_value bind andb negb]. rewrite He, (unquote_raises _ _ He). reflexivity.
Qed.

(* ================================================================ URI -> options -> URI -> options
   For EVERY accepted URI (string of Unicode scalar values): the decomposed Uri-Path / Uri-Query are non-degenerate and
   encodable, Uri-Host (if any) is non-empty, encodable and without upper-case ASCII letters — and composing then decomposing
   again returns the same scheme, Uri-Host, Uri-Path, Uri-Query with the authority in normal form:
   * Uri-Host present (any characters, percent-escapes, reserved, non-ASCII): always, except for the NAMED RESIDUE
     "the decoded host is itself the text of an IP address / passes the IPv4-literal test" (e.g. coap://1%2E2.3.4/, coap://%3A%3A1/),
     where 6.5 legitimately composes a literal;
   * no Uri-Host, network location without "[" (IPv4 literals in ANY spelling the URI had: leading zeros in the port, empty
     user info, empty port): the decomposition is a fixed point — derived, no hypothesis on the shape of the remote;
   * no Uri-Host, bracketed IPv6 remote [t][:port] with t a text ipaddress prints: fixed point.
   (Residue: non-ASCII network locations, and what ipaddress prints — ip6_text_ok — is a hypothesis.) *)
Theorem uri_options_uri uri s hi uh p q : valid_str uri = true ->
  set_request_uri ip_address uri true = Ok (DRequest s hi uh p q) ->
  existsb (beqb s) coap_schemes = true /\ p <> [[]] /\ q <> [[]] /\ forallb valid_str p = true /\ forallb valid_str q = true /\
  match uh with
  | Some h =>
      h <> [] /\ valid_str h = true /\ Forall not_upper h /\
      (ip_address (strip_brackets h) = IpBad -> is_ipv4_literal h = Ok false ->
       exists u' e h0 port, hostportsplit hi = Ok (h0, port) /\ get_request_uri ip_address (opts_of (DRequest s hi uh p q)) = Ok u' /\
         quote quote_for_host_chars h = Ok e /\
         set_request_uri ip_address u' true = Ok (DRequest s (e ++ port_text port) (Some h) p q))
  | None =>
      exists u', get_request_uri ip_address (opts_of (DRequest s hi None p q)) = Ok u' /\
      (forall netloc path query, urlsplit ip_address uri = Ok (s, netloc, path, query, []) -> mem 91 netloc = false ->
         hi = netloc /\ set_request_uri ip_address u' true = Ok (DRequest s hi None p q)) /\
      (forall t p0, hi = 91 :: t ++ 93 :: port_text p0 -> ip6_text_ok ip_address t -> port_ok p0 ->
         set_request_uri ip_address u' true = Ok (DRequest s hi None p q))
  end.
Proof.
  intros Hv H. destruct (decompose_spec _ _ _ _ _ _ _ H) as (Hs & netloc & path & query & hostname & port & Eu & Eh & Eui & Ep & Eq & Eport & Hpok & Hsp & Erem & Hplain & Hbr & Huh).
  destruct (urlsplit_shape _ _ _ _ _ _ Hv Eu) as (Vn & Vp & Vq & Hshape).
  destruct (hostname_of_valid _ _ Vn Eh) as (Vh & Hhne).
  assert (Hnl : netloc <> []). { intros ->. cbn in Eh. discriminate. }
  destruct (unquote_path_facts _ _ Vp (Hshape Hnl) Ep) as (Pd & Pv). destruct (unquote_query_facts _ _ Vq Eq) as (Qd & Qv).
  split; [exact Hs|]. split; [exact Pd|]. split; [exact Qd|]. split; [exact Pv|]. split; [exact Qv|].
  destruct uh as [h|].
  - destruct Huh as (_ & N91 & _ & h' & Hh' & ->). destruct (unquote_facts _ _ Vh Hh') as (Vh' & Hne').
    assert (Hn : translate ascii_lowercase h' <> []). { destruct h' as [|c r]; [exfalso; apply Hhne; apply Hne'; reflexivity | discriminate]. }
    assert (Vt : valid_str (translate ascii_lowercase h') = true).
    { unfold valid_str, translate. rewrite forallb_forall. intros x Hin. apply in_map_iff in Hin as (c & <- & Hin).
      unfold valid_str in Vh'. rewrite forallb_forall in Vh'. specialize (Vh' c Hin). rewrite lookup_lower.
      unfold lower_c, is_upper, scalar, is_surrogate in *. destruct ((65 <=? c) && (c <=? 90)) eqn:E; lia. }
    split; [exact Hn|]. split; [exact Vt|]. split; [apply translate_no_upper|].
    intros Hip Hlit. rewrite (Hplain N91) in *.
    destruct (options_uri_options_name ip_address (opts_of (DRequest s netloc (Some (translate ascii_lowercase h')) p q)) _ _ _
                Hs eq_refl eq_refl eq_refl Hn Vt (translate_no_upper h') Hip Hlit Hsp Hpok Pd Qd Pv Qv) as (u' & e & G & Q & D).
    exists u', e, (Some hostname), port. auto.
  - destruct (compose_path_total _ Pv) as (ptext & Ept). destruct (compose_query_total _ Qv) as (qtext & Eqt).
    exists (urlunsplit s hi ptext qtext). split.
    { unfold get_request_uri, compose_netloc, opts_of. cbn. rewrite Eqt, Ept. reflexivity. }
    split.
    + intros netloc0 path0 query0 Eu0 N91. rewrite Eu in Eu0. apply Ok_inj in Eu0. injection Eu0 as <- <- <-.
      pose proof (Hplain N91) as Ehi. split; [exact Ehi|]. subst hi.
      destruct (urlsplit_netloc_facts _ _ _ _ _ _ Eu Hnl) as (Fa & Fb & F47 & F63 & F35 & F9 & F10 & F13).
      assert (Hl : is_ipv4_literal hostname = Ok true) by (destruct Huh as [? | [? | ?]]; [discriminate | congruence | assumption]).
      eapply (decompose_composed ip_address s netloc hostname port netloc true); try eassumption.
      * rewrite N91. exact Hl.
      * reflexivity.
    + intros t p0 -> Hok Hp0.
      destruct (options_uri_options_ip6 ip_address (opts_of (DRequest s (91 :: t ++ 93 :: port_text p0) None p q)) t p0
                  Hs eq_refl eq_refl eq_refl eq_refl Hok Hp0 Hp0 Pd Qd Pv Qv) as (u' & G & D).
      unfold get_request_uri, compose_netloc, opts_of in G. cbn in G. rewrite Eqt, Ept in G. cbn in G. apply Ok_inj in G. rewrite G. exact D.
Qed.
End Inversion.

(* ================================================================ host:port strings, the other direction: split, then join, then split *)
Lemma partition_fst_nomem c s : mem c (fst (fst (partition c s))) = false.
Proof.
  induction s as [|x s IH]; [reflexivity|]. cbn [partition]. destruct (x =? c) eqn:E; [reflexivity|].
  destruct (partition c s) as [[a h] b]. cbn [fst] in *. rewrite mem_cons, IH. replace (c =? x) with false by lia. reflexivity.
Qed.
Lemma forallb_neq_mem d s : forallb (fun c => negb (c =? d)) s = true <-> mem d s = false.
Proof.
  induction s as [|x s IH]; [split; reflexivity|]. cbn [forallb]. rewrite mem_cons. split.
  - intros H. apply andb_prop in H as [H1 H2]. apply IH in H2. rewrite H2. lia.
  - intros H. apply orb_false_elim in H as [H1 H2]. apply IH in H2. rewrite H2. lia.
Qed.
Lemma mem_lower_ascii d a : is_lower d = false -> is_upper d = false -> mem d (lower_ascii a) = mem d a.
Proof.
  intros Hl Hu. induction a as [|c a IH]; [reflexivity|]. cbn [lower_ascii map]. fold (lower_ascii a). rewrite !mem_cons, IH. f_equal.
  unfold lower_c, is_lower, is_upper in *. destruct ((65 <=? c) && (c <=? 90)) eqn:E; lia.
Qed.
Lemma lower_ascii_idem a : lower_ascii (lower_ascii a) = lower_ascii a.
Proof.
  induction a as [|c a IH]; [reflexivity|]. cbn [lower_ascii map]. fold (lower_ascii a). fold (lower_ascii (lower_ascii a)). rewrite IH. f_equal.
  unfold lower_c, is_upper. destruct ((65 <=? c) && (c <=? 90)) eqn:E; [|rewrite E; reflexivity].
  replace ((65 <=? c + 32) && (c + 32 <=? 90)) with false by lia. reflexivity.
Qed.
Lemma all_ascii_lower a : all_ascii a = true -> all_ascii (lower_ascii a) = true.
Proof.
  unfold all_ascii. induction a as [|c a IH]; intros H; [reflexivity|]. cbn [forallb] in H. apply andb_prop in H as [Hc Ha].
  cbn [lower_ascii map forallb]. fold (lower_ascii a). rewrite IH by exact Ha. unfold is_ascii, lower_c, is_upper in *.
  destruct ((65 <=? c) && (c <=? 90)) eqn:E; lia.
Qed.

Lemma partition_notfound_rest c l : forall a z, partition c l = (a, false, z) -> z = [].
Proof.
  induction l as [|x l IH]; intros a z E; cbn [partition] in E. { injection E as _ <-. reflexivity. }
  destruct (x =? c); [discriminate|]. destruct (partition c l) as [[a1 h1] b1] eqn:E2. injection E as _ -> <-. eapply IH. reflexivity.
Qed.

(* whatever hostportsplit returns as host (without "[" inside, which only junk like "[a[b]" produces) can be joined with the
   returned port into a string that splits into exactly the same pair: the normal form of a host:port string *)
Theorem hostport_split_join j h p : hostportsplit j = Ok (Some h, p) -> mem 64 j = false -> mem 91 h = false ->
  exists j', hostportjoin h p = Ok j' /\ hostportsplit j' = Ok (Some h, p).
Proof.
  unfold hostportsplit. intros H N64 N91.
  apply bind_ok in H as (ho & Hh & H). apply bind_ok in H as (po & Hp & H). apply Ok_inj in H. injection H as E1 E2. subst ho po.
  pose proof (port_of_ok _ _ Hp) as Hpok.
  (* shape of the raw host part *)
  set (raw := fst (hostinfo_of j)) in *.
  assert (Hraw : (mem 58 raw = false \/ mem 93 raw = false) /\ mem 64 raw = false).
  { unfold raw, hostinfo_of. apply forallb_neq_mem in N64.
    pose proof (rpartition_forallb _ 64 j N64) as R. destruct (rpartition 64 j) as [[a0 b0] hostinfo]. cbn [snd] in R.
    destruct (partition_forallb _ 91 hostinfo R) as [_ B]. destruct (partition_forallb _ 58 hostinfo R) as [C _].
    pose proof (partition_fst_nomem 58 hostinfo) as M58.
    destruct (partition 91 hostinfo) as [[a1 ob] bracketed]. cbn [snd] in B. destruct ob.
    - destruct (partition_forallb _ 93 bracketed B) as [D _]. pose proof (partition_fst_nomem 93 bracketed) as M93.
      destruct (partition 93 bracketed) as [[hn x] pt]. cbn [fst] in D, M93. destruct (partition 58 pt) as [[y1 y2] y3]. cbn [fst].
      split; [right; exact M93 | apply forallb_neq_mem; exact D].
    - destruct (partition 58 hostinfo) as [[hn x] pt]. cbn [fst] in *. split; [left; exact M58 | apply forallb_neq_mem; exact C]. }
  destruct Hraw as (Hcolon & R64).
  unfold hostname_of in Hh. fold raw in Hh. destruct (is_nil raw) eqn:En; [discriminate|].
  pose proof (partition_fst_nomem 37 raw) as M37.
  assert (Hpieces : forall d, mem d raw = false -> mem d (fst (fst (partition 37 raw))) = false /\ mem d (snd (partition 37 raw)) = false).
  { intros d Hd. apply forallb_neq_mem in Hd. destruct (partition_forallb _ 37 raw Hd) as [A B]. split; apply forallb_neq_mem; assumption. }
  destruct (partition 37 raw) as [[a pc] z] eqn:Epart. cbn [fst snd] in *.
  destruct (all_ascii a) eqn:Ea; [|discriminate]. ok_inj Hh. injection Hh as <-.
  set (h := lower_ascii a ++ (if pc then [37] else []) ++ z) in *.
  assert (Hmem : forall d, is_lower d = false -> is_upper d = false -> d <> 37 -> mem d raw = false -> mem d h = false).
  { intros d L U D Hd. destruct (Hpieces d Hd) as [A B]. unfold h. rewrite !mem_app, mem_lower_ascii, A, B by assumption.
    destruct pc; cbn [mem existsb]; [replace (d =? 37) with false by lia|]; reflexivity. }
  assert (Hpart : partition 37 h = (lower_ascii a, pc, z)).
  { unfold h. assert (M : mem 37 (lower_ascii a) = false) by (rewrite mem_lower_ascii by reflexivity; exact M37).
    destruct pc; cbn [app].
    - apply partition_found. exact M.
    - (* no "%" at all: z is empty *)
      assert (z = []) by (eapply partition_notfound_rest; exact Epart).
      subst z. rewrite app_nil_r. apply partition_notfound. exact M. }
  assert (Hlow : lower_before_pct h = h) by (unfold lower_before_pct; rewrite Hpart, lower_ascii_idem; reflexivity).
  assert (Hap : host_ascii_part h = true) by (unfold host_ascii_part; rewrite Hpart; cbn [fst]; apply all_ascii_lower; exact Ea).
  assert (Hne : h <> []). { unfold h. destruct raw as [|c r]; [discriminate|]. cbn [partition] in Epart. destruct (c =? 37).
    - injection Epart as <- <- <-. discriminate.
    - destruct (partition 37 r) as [[a1 h1] b1]. injection Epart as <- <- <-. discriminate. }
  assert (H64 : mem 64 h = false) by (apply Hmem; auto; lia).
  destruct (mem 58 h) eqn:E58.
  - (* contains ":" : it came out of brackets, and goes back into brackets *)
    assert (H93 : mem 93 h = false).
    { destruct Hcolon as [C | C]; [|apply Hmem; auto; lia]. rewrite (Hmem 58) in E58 by (auto; lia). discriminate. }
    exists (91 :: h ++ 93 :: port_text p). split; [apply hostportjoin_bare6; assumption|].
    rewrite <- Hlow at 2. apply hostportsplit_of_hostinfo; auto. apply hostinfo_of_bracketed; auto.
  - exists (h ++ port_text p). split; [apply hostportjoin_plain; exact E58|].
    rewrite <- Hlow at 2. apply hostportsplit_of_hostinfo; auto. apply hostinfo_of_plain; auto.
Qed.

(* ================================================================ distinct resources never collapse, remotes without Uri-Host:
   two option sets whose authority is the remote's  host[:port]  (reg-name or IPv4 literal) and that compose to the same URI have
   the same scheme, hostinfo, Uri-Path and Uri-Query. (For option sets with Uri-Host see compose_injective; a mixed pair that
   composes to one URI decomposes to one and the same result, i.e. denotes the same authority, by options_uri_options_name /
   _hostinfo / _ip6, set_request_uri being a function.) *)
Theorem compose_injective_hostinfo ip (m1 m2 : request_opts) h1 p1 l1 h2 p2 l2 u :
  (forall (m : request_opts) h p l, m = m1 /\ h = h1 /\ p = p1 /\ l = l1 \/ m = m2 /\ h = h2 /\ p = p2 /\ l = l2 ->
     existsb (beqb (r_scheme m)) coap_schemes = true /\ o_proxy_uri m = None /\ o_proxy_scheme m = None /\
     o_uri_host m = None /\ o_uri_port m = None /\ r_hostinfo m = h ++ port_text p /\ regular_host h = true /\
     is_ipv4_literal h = Ok l /\ port_ok p /\ o_uri_path m <> [[]] /\ o_uri_query m <> [[]] /\
     forallb valid_str (o_uri_path m) = true /\ forallb valid_str (o_uri_query m) = true) ->
  get_request_uri ip m1 = Ok u -> get_request_uri ip m2 = Ok u ->
  r_scheme m1 = r_scheme m2 /\ r_hostinfo m1 = r_hostinfo m2 /\ o_uri_path m1 = o_uri_path m2 /\ o_uri_query m1 = o_uri_query m2.
Proof.
  intros Hnd U1 U2.
  destruct (Hnd m1 h1 p1 l1 (or_introl (conj eq_refl (conj eq_refl (conj eq_refl eq_refl))))) as (A1 & A2 & A3 & A4 & A5 & A6 & A7 & A8 & A9 & A10 & A11 & A12 & A13).
  destruct (Hnd m2 h2 p2 l2 (or_intror (conj eq_refl (conj eq_refl (conj eq_refl eq_refl))))) as (B1 & B2 & B3 & B4 & B5 & B6 & B7 & B8 & B9 & B10 & B11 & B12 & B13).
  destruct (options_uri_options_hostinfo ip m1 h1 p1 l1 A1 A2 A3 A4 A5 A6 A7 A8 A9 A10 A11 A12 A13) as (u1 & G1 & D1).
  destruct (options_uri_options_hostinfo ip m2 h2 p2 l2 B1 B2 B3 B4 B5 B6 B7 B8 B9 B10 B11 B12 B13) as (u2 & G2 & D2).
  rewrite U1 in G1. rewrite U2 in G2. apply Ok_inj in G1. apply Ok_inj in G2. subst u1 u2.
  rewrite D1 in D2. apply Ok_inj in D2. injection D2 as Es Ehi _ Ep Eq. auto.
Qed.
