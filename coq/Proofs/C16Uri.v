(* C16 — URI -> options -> URI -> options: what every successful decomposition looks like (inversion of set_request_uri /
   urlsplit), and the round trip from there. *)
From Verif Require Import Lib.Py Lib.Tactics Lib.PyLemmas Model.C16Str Gen.uri_kernels Model.C16 Proofs.C16Str Proofs.C16.
Open Scope Z_scope.

(* ---------------------------------------------------------------- pieces of a string keep a property of its characters *)
Section Pieces.
Variable P : Z -> bool.
Lemma partition_forallb c s : forallb P s = true ->
  forallb P (fst (fst (partition c s))) = true /\ forallb P (snd (partition c s)) = true.
Proof.
  induction s as [|x s IH]; intros H; [split; reflexivity|]. cbn [forallb] in H. apply andb_prop in H as [Hx Hs].
  cbn [partition]. destruct (x =? c); [split; [reflexivity | exact Hs]|]. destruct (IH Hs) as [I1 I2].
  destruct (partition c s) as [[a h] b]. cbn [fst snd] in *. cbn [forallb]. rewrite Hx, I1. split; [reflexivity | exact I2].
Qed.
Lemma forallb_rev s : forallb P (rev s) = forallb P s.
Proof. induction s as [|x s IH]; [reflexivity|]. cbn [rev]. rewrite forallb_app, IH. cbn. rewrite andb_true_r. apply andb_comm. Qed.
Lemma rpartition_forallb c s : forallb P s = true -> forallb P (snd (rpartition c s)) = true.
Proof.
  intros H. unfold rpartition. pose proof (partition_forallb c (rev s)) as Hp. rewrite forallb_rev in Hp. destruct (Hp H) as [I1 I2].
  destruct (partition c (rev s)) as [[a h] b]. cbn [fst snd] in *. destruct h; cbn [snd]; [rewrite forallb_rev; exact I1 | exact H].
Qed.
Lemma splitnetloc_forallb s : forallb P s = true -> forallb P (fst (splitnetloc s)) = true /\ forallb P (snd (splitnetloc s)) = true.
Proof.
  induction s as [|x s IH]; intros H; [split; reflexivity|]. cbn [forallb] in H. apply andb_prop in H as [Hx Hs].
  cbn [splitnetloc]. destruct (is_delim x). { cbn [fst snd forallb]. rewrite Hx, Hs. split; reflexivity. }
  destruct (IH Hs) as [I1 I2]. destruct (splitnetloc s) as [a b]. cbn [fst snd] in *. cbn [forallb]. rewrite Hx, I1. split; [reflexivity | exact I2].
Qed.
Lemma split_on_forallb c s : forallb P s = true -> forallb (forallb P) (split_on c s) = true.
Proof.
  induction s as [|x s IH]; intros H; [reflexivity|]. cbn [forallb] in H. apply andb_prop in H as [Hx Hs]. specialize (IH Hs).
  cbn [split_on]. destruct (x =? c); [cbn [forallb]; exact IH|]. destruct (split_on c s) as [|a t]; cbn [forallb] in *; [rewrite Hx; reflexivity|].
  apply andb_prop in IH as [I1 I2]. rewrite Hx, I1, I2. reflexivity.
Qed.
Lemma skipn_forallb {A} (Q : A -> bool) n l : forallb Q l = true -> forallb Q (skipn n l) = true.
Proof. revert l. induction n as [|n IH]; intros [|x l] H; cbn [skipn]; auto. cbn [forallb] in H. apply andb_prop in H as [_ H]. apply IH. exact H. Qed.
Lemma lstrip_forallb s : forallb P s = true -> forallb P (lstrip_c0 s) = true.
Proof. induction s as [|x s IH]; intros H; [reflexivity|]. cbn [lstrip_c0]. destruct (_ && _); [|exact H]. cbn [forallb] in H. apply andb_prop in H as [_ H]. apply IH. exact H. Qed.
Lemma filter_forallb (f : Z -> bool) s : forallb P s = true -> forallb P (filter f s) = true.
Proof. induction s as [|x s IH]; intros H; [reflexivity|]. cbn [forallb] in H. apply andb_prop in H as [Hx Hs]. cbn [filter]. destruct (f x); [cbn [forallb]; rewrite Hx|]; apply IH; exact Hs. Qed.
End Pieces.

(* ---------------------------------------------------------------- unquote keeps strings valid and non-empty *)
Definition nonneg_char (c : Z) : bool := 0 <=? c.
Lemma scalar_nonneg s : valid_str s = true -> forallb nonneg_char s = true.
Proof. unfold valid_str. intros H. apply forallb_forall. intros x Hin. rewrite forallb_forall in H. specialize (H x Hin). unfold scalar, nonneg_char in *. lia. Qed.

Lemma utf8_decode_valid n : forall b s, (length b <= n)%nat -> bytes_ok b = true -> utf8_decode b = Ok s -> valid_str s = true.
Proof.
  induction n as [|n IH]; intros b s Hl Hb H.
  - destruct b; [cbn in H; ok_inj H; reflexivity | cbn in Hl; lia].
  - destruct b as [|b0 r]; [cbn in H; ok_inj H; reflexivity|]. cbn [length] in Hl.
    rewrite bytes_ok_cons in Hb. apply andb_prop in Hb as [H0 Hr]. unfold byte_ok in H0.
    assert (Hrec : forall r' c, (length r' <= n)%nat -> bytes_ok r' = true -> scalar c = true ->
               (r0 <- utf8_decode r' ;; Ok (c :: r0)) = Ok s -> valid_str s = true).
    { intros r' c Hr' Hbr Hc Hd. destruct (utf8_decode r') as [r0|] eqn:E; [|discriminate]. cbn [bind] in Hd. ok_inj Hd.
      cbn [valid_str forallb]. rewrite Hc. exact (IH _ _ Hr' Hbr E). }
    cbn [utf8_decode] in H.
    destruct ((0 <=? b0) && (b0 <? 128)) eqn:E1. { eapply (Hrec r b0); eauto; [lia | unfold scalar, is_surrogate; lia]. }
    destruct ((194 <=? b0) && (b0 <? 224)) eqn:E2.
    { destruct r as [|b1 r']; [discriminate|]. cbn [length] in Hl. rewrite bytes_ok_cons in Hr. apply andb_prop in Hr as [_ Hr].
      destruct (is_cont b1) eqn:C1; [|discriminate]. unfold is_cont in C1.
      eapply (Hrec r'); eauto; [lia | unfold scalar, is_surrogate; lia]. }
    destruct ((224 <=? b0) && (b0 <? 240)) eqn:E3.
    { destruct r as [|b1 [|b2 r']]; try discriminate. cbn [length] in Hl. rewrite !bytes_ok_cons in Hr. apply andb_prop in Hr as [_ Hr]. apply andb_prop in Hr as [_ Hr].
      destruct (is_cont b1 && is_cont b2 && implb (b0 =? 224) (160 <=? b1) && implb (b0 =? 237) (b1 <? 160)) eqn:C; [|discriminate].
      unfold is_cont in C. eapply (Hrec r'); eauto; [lia | unfold scalar, is_surrogate; lia]. }
    destruct ((240 <=? b0) && (b0 <? 245)) eqn:E4; [|discriminate].
    destruct r as [|b1 [|b2 [|b3 r']]]; try discriminate. cbn [length] in Hl. rewrite !bytes_ok_cons in Hr.
    apply andb_prop in Hr as [_ Hr]. apply andb_prop in Hr as [_ Hr]. apply andb_prop in Hr as [_ Hr].
    destruct (is_cont b1 && is_cont b2 && is_cont b3 && implb (b0 =? 240) (144 <=? b1) && implb (b0 =? 244) (b1 <? 144)) eqn:C; [|discriminate].
    unfold is_cont in C. eapply (Hrec r'); eauto; [lia | unfold scalar, is_surrogate; lia].
Qed.
Lemma hexval_range c v : hexval c = Some v -> 0 <= v < 16.
Proof.
  unfold hexval, is_digit. destruct ((48 <=? c) && (c <=? 57)) eqn:E1; [intros H; inv H; lia|].
  destruct ((65 <=? c) && (c <=? 70)) eqn:E2; [intros H; inv H; lia|].
  destruct ((97 <=? c) && (c <=? 102)) eqn:E3; intros H; inv H; lia.
Qed.
Lemma unquote_impl_bytes_ok s : forallb (fun c => (0 <=? c) && (c <? 128)) s = true -> bytes_ok (unquote_impl s) = true.
Proof.
  assert (G : forall n s, (length s <= n)%nat -> forallb (fun c => (0 <=? c) && (c <? 128)) s = true -> bytes_ok (unquote_impl s) = true).
  { induction n as [|n IH]; intros s0 Hl H; [destruct s0; [reflexivity | cbn in Hl; lia]|].
    destruct s0 as [|c r]; [reflexivity|]. cbn [length] in Hl. cbn [forallb] in H. apply andb_prop in H as [Hc Hr].
    assert (Hplain : bytes_ok (c :: unquote_impl r) = true) by (rewrite bytes_ok_cons, IH by (auto; lia); unfold byte_ok; lia).
    cbn [unquote_impl]. destruct (c =? 37) eqn:E; [|exact Hplain]. apply Z.eqb_eq in E. subst c.
    destruct r as [|h1 [|h2 r']]; try exact Hplain.
    destruct (hexval h1) as [a|] eqn:E1; [|exact Hplain]. destruct (hexval h2) as [b|] eqn:E2; [|exact Hplain].
    cbn [length forallb] in *. apply andb_prop in Hr as [_ Hr]. apply andb_prop in Hr as [_ Hr].
    rewrite bytes_ok_cons, IH by (auto; lia). apply hexval_range in E1, E2. unfold byte_ok. lia. }
  intros H. eapply G; [apply le_n | exact H].
Qed.
Lemma unquote_impl_nonempty s : unquote_impl s = [] -> s = [].
Proof.
  destruct s as [|c r]; [reflexivity|]. cbn [unquote_impl]. destruct (c =? 37); [|discriminate].
  destruct r as [|h1 [|h2 r']]; try discriminate. destruct (hexval h1); [|discriminate]. destruct (hexval h2); discriminate.
Qed.
Lemma utf8_decode_nonempty b : utf8_decode b = Ok [] -> b = [].
Proof.
  destruct b as [|b0 r]; [reflexivity|]. intros H. exfalso.
  assert (Hb : forall (m : M (list Z)) c, (r0 <- m ;; Ok (c :: r0)) = Ok [] -> False) by (intros m c Hm; destruct m; discriminate).
  cbn [utf8_decode] in H.
  destruct ((0 <=? b0) && (b0 <? 128)); [eapply Hb; exact H|].
  destruct ((194 <=? b0) && (b0 <? 224)).
  { destruct r as [|b1 r']; [discriminate|]. destruct (is_cont b1); [eapply Hb; exact H | discriminate]. }
  destruct ((224 <=? b0) && (b0 <? 240)).
  { destruct r as [|b1 [|b2 r']]; try discriminate. destruct (_ && _) in H; [eapply Hb; exact H | discriminate]. }
  destruct ((240 <=? b0) && (b0 <? 245)); [|discriminate].
  destruct r as [|b1 [|b2 [|b3 r']]]; try discriminate. destruct (_ && _) in H; [eapply Hb; exact H | discriminate].
Qed.
Lemma decode_run_facts run r : forallb (fun c => (0 <=? c) && (c <? 128)) run = true -> decode_run run = Ok r ->
  valid_str r = true /\ (r = [] -> run = []).
Proof.
  intros Ha H. unfold decode_run in H. split.
  - eapply utf8_decode_valid; [apply le_n | apply unquote_impl_bytes_ok; exact Ha | exact H].
  - intros ->. apply utf8_decode_nonempty in H. apply unquote_impl_nonempty. exact H.
Qed.
Lemma unquote_parts_facts s : forall run r, valid_str s = true -> forallb (fun c => (0 <=? c) && (c <? 128)) run = true ->
  unquote_parts s run = Ok r -> valid_str r = true /\ (r = [] -> s = [] /\ run = []).
Proof.
  induction s as [|c s IH]; intros run r Hs Hrun H; cbn [unquote_parts] in H.
  - destruct (decode_run_facts (rev run) r) as [V N]; [rewrite forallb_rev; exact Hrun | exact H|].
    split; [exact V|]. intros E. split; [reflexivity|]. specialize (N E). destruct run; [reflexivity|]. cbn [rev] in N. destruct (rev run); discriminate.
  - cbn [valid_str forallb] in Hs. apply andb_prop in Hs as [Hc Hs]. fold (valid_str s) in Hs. unfold is_ascii in H. destruct (c <? 128) eqn:Ec.
    + destruct (IH (c :: run) r Hs) as [V N]; [cbn [forallb]; rewrite Hrun; unfold scalar in Hc; lia | exact H|].
      split; [exact V|]. intros E. destruct (N E) as [_ N2]. discriminate.
    + destruct (decode_run (rev run)) as [d|] eqn:Ed; [|discriminate]. cbn [bind] in H.
      destruct (unquote_parts s []) as [rest|] eqn:Er; [|discriminate]. cbn [bind] in H. ok_inj H.
      destruct (decode_run_facts (rev run) d) as [V1 _]; [rewrite forallb_rev; exact Hrun | exact Ed|].
      destruct (IH [] rest Hs eq_refl Er) as [V2 _].
      split; [|intros E; destruct d; discriminate]. unfold valid_str in *. rewrite forallb_app. cbn [forallb]. rewrite V1, Hc, V2. reflexivity.
Qed.
Lemma unquote_facts s r : valid_str s = true -> unquote s = Ok r -> valid_str r = true /\ (r = [] -> s = []).
Proof. intros Hs H. destruct (unquote_parts_facts s [] r Hs eq_refl H) as [V N]. split; [exact V | intros E; apply N; exact E]. Qed.
Lemma mapM_unquote_facts l : forall r, forallb valid_str l = true -> mapM unquote l = Ok r ->
  forallb valid_str r = true /\ (r = [[]] -> l = [[]]).
Proof.
  induction l as [|s l IH]; intros r Hl H; cbn [mapM] in H. { ok_inj H. split; [reflexivity | discriminate]. }
  cbn [forallb] in Hl. apply andb_prop in Hl as [Hs Hl]. destruct (unquote s) as [x|] eqn:Ex; [|discriminate]. cbn [bind] in H.
  destruct (mapM unquote l) as [rest|] eqn:Er; [|discriminate]. cbn [bind] in H. ok_inj H.
  destruct (unquote_facts s x Hs Ex) as [V N]. destruct (IH rest Hl eq_refl) as [V2 _].
  split; [cbn [forallb]; rewrite V, V2; reflexivity|]. intros E. injection E as -> ->.
  rewrite (N eq_refl). destruct l; [reflexivity|]. cbn [mapM] in Er. destruct (unquote l); [|discriminate]. cbn [bind] in Er. destruct (mapM unquote l0); discriminate.
Qed.
Lemma split_on_nonnil c r : split_on c r <> [].
Proof. destruct r as [|y r]; cbn [split_on]; [discriminate|]. destruct (y =? c); [discriminate|]. destruct (split_on c r); discriminate. Qed.
Lemma split_on_single c r x : split_on c r = [x] -> r = x.
Proof.
  revert x. induction r as [|y r IH]; intros x H; cbn [split_on] in H. { injection H as <-. reflexivity. }
  destruct (y =? c). { injection H as _ H. exfalso. exact (split_on_nonnil c r H). }
  destruct (split_on c r) as [|a t] eqn:E; [exfalso; exact (split_on_nonnil c r E)|].
  injection H as <- ->. f_equal. apply IH. reflexivity.
Qed.

(* the decomposed Uri-Path / Uri-Query are never the degenerate [""] and consist of encodable strings *)
Lemma unquote_path_facts path p : valid_str path = true -> (path = [] \/ startswith path [47] = true) -> unquote_path path = Ok p ->
  p <> [[]] /\ forallb valid_str p = true.
Proof.
  intros Hv Hshape H. unfold unquote_path in H. destruct (is_nil path || beqb path [47]) eqn:E. { ok_inj H. split; [discriminate | reflexivity]. }
  apply orb_false_elim in E as [E1 E2]. destruct path as [|c r]; [discriminate|]. destruct Hshape as [|Hs]; [discriminate|].
  cbn [startswith] in Hs. apply andb_prop in Hs as [Hc _]. apply Z.eqb_eq in Hc. subst c.
  cbn [split_on] in H. rewrite Z.eqb_refl in H. cbn [skipn] in H.
  cbn [valid_str forallb] in Hv. apply andb_prop in Hv as [_ Hr]. fold (valid_str r) in Hr.
  destruct (mapM_unquote_facts (split_on 47 r) p) as [V N]; [apply split_on_forallb; exact Hr | exact H|].
  split; [|exact V]. intros Ep. specialize (N Ep). apply split_on_single in N. subst r. cbn in E2. discriminate.
Qed.
Lemma unquote_query_facts query q : valid_str query = true -> unquote_query query = Ok q -> q <> [[]] /\ forallb valid_str q = true.
Proof.
  intros Hv H. unfold unquote_query in H. destruct (is_nil query) eqn:E. { ok_inj H. split; [discriminate | reflexivity]. }
  destruct (mapM_unquote_facts (split_on 38 query) q) as [V N]; [apply split_on_forallb; exact Hv | exact H|].
  split; [|exact V]. intros Eq. specialize (N Eq). apply split_on_single in N. subst query. discriminate.
Qed.

(* ---------------------------------------------------------------- what a successful decomposition went through *)
Lemma catch_unicode_ok {A} (m : M A) x : catch_unicode m = Ok x -> m = Ok x.
Proof. destruct m as [a|e]; [auto|]. destruct e; discriminate. Qed.
Lemma catch_value_ok {A} (m : M A) x : catch_value m = Ok x -> m = Ok x.
Proof. destruct m as [a|e]; [auto|]. destruct e; discriminate. Qed.
Lemma bind_ok {A B} (m : M A) (f : A -> M B) r : bind m f = Ok r -> exists a, m = Ok a /\ f a = Ok r.
Proof. destruct m as [a|e]; cbn [bind]; [eauto | discriminate]. Qed.

Lemma parse_dec_nonneg s : forallb is_digit s = true -> forall a, 0 <= a -> 0 <= fold_left decf s a.
Proof.
  induction s as [|c s IH]; intros H a Ha; [exact Ha|]. cbn [forallb] in H. apply andb_prop in H as [Hc Hs].
  cbn [fold_left]. apply IH; [exact Hs|]. unfold decf, is_digit in *. lia.
Qed.
Lemma port_of_ok netloc port : port_of netloc = Ok port -> port_ok port.
Proof.
  unfold port_of. destruct (snd (hostinfo_of netloc)) as [ds|]; [|intros H; ok_inj H; exact I].
  destruct (forallb is_digit ds) eqn:Ed; [|discriminate]. intros H. apply bind_ok in H as (pv & Hpv & H).
  destruct (pv <=? 65535) eqn:El; [|discriminate]. ok_inj H. cbn.
  unfold py_int_digits in Hpv. destruct (_ || _); [discriminate|]. ok_inj Hpv.
  split; [rewrite parse_dec_unfold; apply parse_dec_nonneg; [exact Ed | lia] | lia].
Qed.

Lemma splitnetloc_rest s : snd (splitnetloc s) = [] \/ exists c r, snd (splitnetloc s) = c :: r /\ is_delim c = true.
Proof.
  induction s as [|x s IH]; [left; reflexivity|]. cbn [splitnetloc]. destruct (is_delim x) eqn:E; [right; exists x, s; auto|].
  destruct (splitnetloc s) as [a b]. exact IH.
Qed.
Lemma lower_ascii_scalar s : forallb scalar s = true -> forallb scalar (lower_ascii s) = true.
Proof.
  induction s as [|c s IH]; intros H; [reflexivity|]. cbn [forallb] in H. apply andb_prop in H as [Hc Hs].
  cbn [lower_ascii map forallb]. fold (lower_ascii s). rewrite IH by exact Hs. unfold lower_c, is_upper, scalar, is_surrogate in *.
  destruct ((65 <=? c) && (c <=? 90)) eqn:E; lia.
Qed.

Section Inversion.
Variable ip_address : list Z -> ipres.

Lemma urlsplit_shape uri s netloc path query frag : valid_str uri = true ->
  urlsplit ip_address uri = Ok (s, netloc, path, query, frag) ->
  valid_str netloc = true /\ valid_str path = true /\ valid_str query = true /\
  (netloc <> [] -> path = [] \/ startswith path [47] = true).
Proof.
  intros Hv H. unfold urlsplit in H.
  assert (V0 : forallb scalar (remove_unsafe (lstrip_c0 uri)) = true) by (apply filter_forallb, lstrip_forallb; exact Hv).
  set (u0 := remove_unsafe (lstrip_c0 uri)) in *.
  assert (V1 : forallb scalar (snd (split_scheme u0)) = true).
  { unfold split_scheme. destruct (partition_forallb scalar 58 u0 V0) as [_ I2]. destruct (partition 58 u0) as [[a h] b]. cbn [snd] in I2.
    destruct (_ && _); [exact I2 | exact V0]. }
  destruct (split_scheme u0) as [scheme url]. cbn [snd] in V1.
  apply bind_ok in H as ([nl rest] & Hn & H).
  assert (Hrest : forallb scalar nl = true /\ forallb scalar rest = true /\ (nl <> [] -> rest = [] \/ exists c r, rest = c :: r /\ is_delim c = true)).
  { destruct (startswith url [47; 47]).
    - pose proof (splitnetloc_forallb scalar (skipn 2 url) (skipn_forallb scalar 2 url V1)) as [I1 I2].
      pose proof (splitnetloc_rest (skipn 2 url)) as Hr. destruct (splitnetloc (skipn 2 url)) as [a b]. cbn [fst snd] in *.
      destruct (_ || _); [discriminate|]. apply bind_ok in Hn as (x & _ & Hn). ok_inj Hn. injection Hn as <- <-. auto.
    - ok_inj Hn. injection Hn as <- <-. split; [reflexivity|]. split; [exact V1|]. congruence. }
  destruct Hrest as (Vn & Vr & Hshape).
  destruct (partition_forallb scalar 35 rest Vr) as [F1 _].
  destruct (partition 35 rest) as [[url1 hf] fragment] eqn:E35. cbn [fst] in F1.
  destruct (partition_forallb scalar 63 url1 F1) as [G1 G2].
  destruct (partition 63 url1) as [[url2 hq] qy] eqn:E63. cbn [fst snd] in G1, G2.
  destruct (all_ascii nl); [|discriminate]. ok_inj H. injection H as <- <- <- <- <-.
  split; [exact Vn|]. split; [exact G1|]. split; [exact G2|].
  intros Hne. destruct (Hshape Hne) as [-> | (c & r & -> & Hc)].
  - cbn in E35. injection E35 as <- _ _. cbn in E63. injection E63 as <- _ _. left. reflexivity.
  - cbn [partition] in E35. unfold is_delim in Hc. destruct (c =? 35) eqn:C35.
    + injection E35 as <- _ _. cbn in E63. injection E63 as <- _ _. left. reflexivity.
    + destruct (partition 35 r) as [[a1 h1] b1]. injection E35 as <- _ _. cbn [partition] in E63. destruct (c =? 63) eqn:C63.
      * injection E63 as <- _ _. left. reflexivity.
      * destruct (partition 63 a1) as [[a2 h2] b2]. injection E63 as <- _ _. right. cbn [startswith].
        replace (c =? 47) with true by lia. destruct a2; reflexivity.
Qed.

Lemma hostname_of_valid netloc hostname : valid_str netloc = true -> hostname_of netloc = Ok (Some hostname) ->
  valid_str hostname = true /\ hostname <> [].
Proof.
  intros Hv H. unfold hostname_of in H.
  assert (Vh : forallb scalar (fst (hostinfo_of netloc)) = true).
  { unfold hostinfo_of. pose proof (rpartition_forallb scalar 64 netloc Hv) as R.
    destruct (rpartition 64 netloc) as [[a0 b0] hostinfo]. cbn [snd] in R.
    destruct (partition_forallb scalar 91 hostinfo R) as [_ B]. destruct (partition_forallb scalar 58 hostinfo R) as [C _].
    destruct (partition 91 hostinfo) as [[a1 ob] bracketed]. cbn [snd] in B. destruct ob.
    - destruct (partition_forallb scalar 93 bracketed B) as [D _]. destruct (partition 93 bracketed) as [[hn x] pt]. cbn [fst] in D.
      destruct (partition 58 pt) as [[y1 y2] y3]. exact D.
    - destruct (partition 58 hostinfo) as [[hn x] pt]. exact C. }
  destruct (is_nil (fst (hostinfo_of netloc))) eqn:En; [discriminate|].
  destruct (partition_forallb scalar 37 _ Vh) as [P1 P2].
  destruct (partition 37 (fst (hostinfo_of netloc))) as [[h pc] z] eqn:Ep. cbn [fst snd] in P1, P2.
  destruct (all_ascii h); [|discriminate]. ok_inj H. injection H as <-. split.
  - unfold valid_str. rewrite !forallb_app, lower_ascii_scalar, P2 by exact P1. destruct pc; reflexivity.
  - destruct (fst (hostinfo_of netloc)) as [|c r]; [discriminate|]. cbn [partition] in Ep. destruct (c =? 37).
    + injection Ep as <- <- <-. discriminate.
    + destruct (partition 37 r) as [[a1 a2] a3]. injection Ep as <- <- <-. discriminate.
Qed.

Lemma set_request_uri_inv uri s hi uh p q : set_request_uri ip_address uri true = Ok (DRequest s hi uh p q) ->
  existsb (beqb s) coap_schemes = true /\
  exists netloc path query hostname port,
    urlsplit ip_address uri = Ok (s, netloc, path, query, []) /\ hostname_of netloc = Ok (Some hostname) /\
    unquote_path path = Ok p /\ unquote_query query = Ok q /\ port_of netloc = Ok port /\
    undecided_remote ip_address s netloc = Ok (s, hi) /\
    match uh with
    | Some h => mem 91 netloc = false /\ exists h', unquote hostname = Ok h' /\ h = translate ascii_lowercase h'
    | None => True
    end.
Proof.
  unfold set_request_uri. intros H.
  destruct (urlsplit ip_address uri) as [[[[[scheme netloc] path] query] fragment]|e0] eqn:Eu; [|destruct e0; discriminate].
  cbn [catch_value bind] in H.
  destruct fragment as [|f0 fr]; cbn [is_nil negb] in H; [|discriminate].
  destruct scheme as [|s0 sr]; cbn [is_nil] in H; [discriminate|].
  destruct (existsb (beqb (s0 :: sr)) coap_schemes) eqn:Es; cbn [negb] in H; [|discriminate].
  destruct (hostname_of netloc) as [[hostname|]|e1] eqn:Eh; cbn [bind] in H; try discriminate.
  destruct (userinfo_of netloc) as [username password].
  destruct (truthy username || truthy password); [discriminate|].
  apply bind_ok in H as (uri_path & Hp & H). apply catch_unicode_ok in Hp.
  apply bind_ok in H as (uri_query & Hq & H). apply catch_unicode_ok in Hq.
  apply bind_ok in H as (port & Hport & H). apply catch_value_ok in Hport.
  apply bind_ok in H as ([rs rhi] & Hrem & H). apply catch_value_ok in Hrem.
  pose proof (undecided_remote_scheme _ _ _ _ Hrem) as Ers. cbn [fst] in Ers. subst rs. cbn [fst snd] in H.
  apply bind_ok in H as (lit & Hlit & H).
  destruct lit; cbn [andb negb] in H.
  - apply Ok_inj in H. injection H as <- <- <- <- <-. split; [exact Es|]. exists netloc, path, query, hostname, port. repeat split; auto.
  - apply bind_ok in H as (h' & Hh & H). apply catch_unicode_ok in Hh. apply Ok_inj in H. injection H as <- <- <- <- <-.
    split; [exact Es|]. exists netloc, path, query, hostname, port. repeat split; auto.
    + destruct (mem 91 netloc); [discriminate | reflexivity].
    + exists h'. split; [exact Hh | reflexivity].
Qed.

(* ================================================================ URI -> options -> URI -> options
   For EVERY accepted URI (string of Unicode scalar values): the decomposed Uri-Path / Uri-Query are non-degenerate and
   encodable, Uri-Host (if any) is non-empty, encodable and without upper-case ASCII letters — and composing then decomposing
   again returns the same scheme, Uri-Host, Uri-Path, Uri-Query with the authority in normal form:
   * Uri-Host present (any characters, percent-escapes, reserved, non-ASCII): always, except for the NAMED RESIDUE
     "the decoded host is itself the text of an IP address / passes the IPv4-literal test" (e.g. coap://1%2E2.3.4/, coap://%3A%3A1/),
     where 6.5 legitimately composes a literal;
   * no Uri-Host: for a bracketed IPv6 remote [t][:port] with t a text ipaddress prints, and for an IPv4 literal / name remote
     host[:port] in canonical spelling, the decomposition is a fixed point. (Residue: a remote whose hostinfo keeps a
     non-canonical spelling of the URI — leading zeros in the port, empty user info — and non-ASCII network locations.) *)
Theorem uri_options_uri uri s hi uh p q : valid_str uri = true ->
  set_request_uri ip_address uri true = Ok (DRequest s hi uh p q) ->
  existsb (beqb s) coap_schemes = true /\ p <> [[]] /\ q <> [[]] /\ forallb valid_str p = true /\ forallb valid_str q = true /\
  match uh with
  | Some h =>
      h <> [] /\ valid_str h = true /\ Forall not_upper h /\
      (ip_address (strip_brackets h) = IpBad -> is_ipv4_literal h = Ok false ->
       exists u' e h0 port, hostportsplit hi = Ok (h0, port) /\ get_request_uri ip_address (opts_of (DRequest s hi uh p q)) = Ok u' /\
         quote quote_for_host_chars h = Ok e /\
         set_request_uri ip_address u' true = Ok (DRequest s (e ++ port_text port) (Some h) p q))
  | None =>
      (forall t p0, hi = 91 :: t ++ 93 :: port_text p0 -> ip6_text_ok ip_address t -> port_ok p0 ->
         exists u', get_request_uri ip_address (opts_of (DRequest s hi None p q)) = Ok u' /\
                    set_request_uri ip_address u' true = Ok (DRequest s hi None p q)) /\
      (forall h0 p0, hi = h0 ++ port_text p0 -> regular_host h0 = true -> is_ipv4_literal h0 = Ok true -> port_ok p0 ->
         exists u', get_request_uri ip_address (opts_of (DRequest s hi None p q)) = Ok u' /\
                    set_request_uri ip_address u' true = Ok (DRequest s hi None p q))
  end.
Proof.
  intros Hv H. destruct (set_request_uri_inv _ _ _ _ _ _ H) as (Hs & netloc & path & query & hostname & port & Eu & Eh & Ep & Eq & Eport & Erem & Huh).
  destruct (urlsplit_shape _ _ _ _ _ _ Hv Eu) as (Vn & Vp & Vq & Hshape).
  destruct (hostname_of_valid _ _ Vn Eh) as (Vh & Hhne).
  assert (Hnl : netloc <> []). { intros ->. cbn in Eh. discriminate. }
  destruct (unquote_path_facts _ _ Vp (Hshape Hnl) Ep) as (Pd & Pv). destruct (unquote_query_facts _ _ Vq Eq) as (Qd & Qv).
  split; [exact Hs|]. split; [exact Pd|]. split; [exact Qd|]. split; [exact Pv|]. split; [exact Qv|].
  destruct uh as [h|].
  - destruct Huh as (N91 & h' & Hh' & ->). destruct (unquote_facts _ _ Vh Hh') as (Vh' & Hne').
    assert (Hn : translate ascii_lowercase h' <> []). { destruct h' as [|c r]; [exfalso; apply Hhne; apply Hne'; reflexivity | discriminate]. }
    assert (Vt : valid_str (translate ascii_lowercase h') = true).
    { unfold valid_str, translate. rewrite forallb_forall. intros x Hin. apply in_map_iff in Hin as (c & <- & Hin).
      unfold valid_str in Vh'. rewrite forallb_forall in Vh'. specialize (Vh' c Hin). rewrite lookup_lower.
      unfold lower_c, is_upper, scalar, is_surrogate in *. destruct ((65 <=? c) && (c <=? 90)) eqn:E; lia. }
    split; [exact Hn|]. split; [exact Vt|]. split; [apply translate_no_upper|].
    intros Hip Hlit.
    assert (Ehi : hi = netloc). { unfold undecided_remote in Erem. rewrite N91 in Erem. ok_inj Erem. congruence. }
    subst hi.
    assert (Hsp : hostportsplit netloc = Ok (Some hostname, port)) by (unfold hostportsplit; rewrite Eh, Eport; reflexivity).
    destruct (options_uri_options_name ip_address (opts_of (DRequest s netloc (Some (translate ascii_lowercase h')) p q)) _ _ _
                Hs eq_refl eq_refl eq_refl Hn Vt (translate_no_upper h') Hip Hlit Hsp (port_of_ok _ _ Eport) Pd Qd Pv Qv) as (u' & e & G & Q & D).
    exists u', e, (Some hostname), port. auto.
  - split.
    + intros t p0 -> Hok Hp0.
      destruct (options_uri_options_ip6 ip_address (opts_of (DRequest s (91 :: t ++ 93 :: port_text p0) None p q)) t p0
                  Hs eq_refl eq_refl eq_refl eq_refl Hok Hp0 Hp0 Pd Qd Pv Qv) as (u' & G & D). exists u'. auto.
    + intros h0 p0 -> Hreg Hlit Hp0.
      destruct (options_uri_options_hostinfo ip_address (opts_of (DRequest s (h0 ++ port_text p0) None p q)) h0 p0 true
                  Hs eq_refl eq_refl eq_refl eq_refl eq_refl Hreg Hlit Hp0 Pd Qd Pv Qv) as (u' & G & D). exists u'. auto.
Qed.
End Inversion.
