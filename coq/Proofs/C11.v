(* C11 — OSCORE protect/unprotect: lemmas and proofs. *)
From Verif Require Import Lib.Py Lib.Tactics Lib.PyLemmas Gen.options_ext Gen.oscore_replay Gen.oscore_consts Model.C11.
From Verif Require Proofs.C12.
Open Scope Z_scope.

(* ------------------------------------------------------------------ ideal AEAD *)
(* Only honest encryptions decrypt (and to their plaintext), and a ciphertext determines key, nonce, AAD and plaintext. *)
Definition ideal (E : aead) : Prop :=
  (forall k n a p, dec E k n a (enc E k n a p) = Some p) /\
  (forall k n a c p, dec E k n a c = Some p -> c = enc E k n a p) /\
  (forall k n a p k' n' a' p', enc E k n a p = enc E k' n' a' p' -> k = k' /\ n = n' /\ a = a' /\ p = p').

(* ---------- the symbolic scheme is ideal *)
Lemma take_lp_lp x r : take_lp (lp x ++ r) = Some (x, r).
Proof.
  unfold lp, take_lp. cbn [app]. pose proof (blen_nonneg x) as Hx.
  assert (H1 : blen x / 256 * 256 + blen x mod 256 = blen x) by lia.
  rewrite H1. rewrite blen_app.
  replace ((0 <=? blen x / 256) && byte_ok (blen x mod 256) && (blen x <=? blen x + blen r)) with true.
  - rewrite bto_app, bfrom_app. reflexivity.
  - unfold byte_ok. pose proof (blen_nonneg r). symmetry. lia.
Qed.
Lemma take_lp_sound c x r : take_lp c = Some (x, r) -> c = lp x ++ r.
Proof.
  unfold take_lp. destruct c as [|h [|l t]]; try discriminate.
  destruct ((0 <=? h) && byte_ok l && (h * 256 + l <=? blen t)) eqn:E; [|discriminate].
  intros H. inv H. unfold lp. unfold byte_ok in E.
  assert (Hlen : blen (bto t (h * 256 + l)) = h * 256 + l) by (apply blen_bto; pose proof (blen_nonneg t); lia).
  rewrite Hlen. cbn [app].
  replace ((h * 256 + l) / 256) with h by lia. replace ((h * 256 + l) mod 256) with l by lia.
  rewrite bto_bfrom. reflexivity.
Qed.
Lemma sym_parse_enc k n a p : sym_parse (sym_enc k n a p) = Some (k, n, a, p, p).
Proof. unfold sym_parse, sym_enc. rewrite !take_lp_lp. reflexivity. Qed.
Lemma sym_parse_sound c k n a p t : sym_parse c = Some (k, n, a, p, t) -> c = lp k ++ lp n ++ lp a ++ lp p ++ t.
Proof.
  unfold sym_parse.
  destruct (take_lp c) as [[k0 r1]|] eqn:E1; [|discriminate].
  destruct (take_lp r1) as [[n0 r2]|] eqn:E2; [|discriminate].
  destruct (take_lp r2) as [[a0 r3]|] eqn:E3; [|discriminate].
  destruct (take_lp r3) as [[p0 t0]|] eqn:E4; [|discriminate].
  intros H. inv H.
  apply take_lp_sound in E1, E2, E3, E4. subst. reflexivity.
Qed.
Lemma beqb_refl b : beqb b b = true. Proof. apply list_eqb_Z_eq. reflexivity. Qed.
Theorem sym_ideal : ideal sym_aead.
Proof.
  unfold ideal, sym_aead; cbn [enc dec]. repeat split.
  - intros. unfold sym_dec. rewrite sym_parse_enc, !beqb_refl. reflexivity.
  - intros k n a c p. unfold sym_dec.
    destruct (sym_parse c) as [[[[[k' n'] a'] p'] t]|] eqn:E; [|discriminate].
    destruct (beqb k k' && beqb n n' && beqb a a' && beqb p' t) eqn:B; [|discriminate].
    intros H. inv H. apply andb_prop in B as [B B4]. apply andb_prop in B as [B B3]. apply andb_prop in B as [B1 B2].
    apply list_eqb_Z_eq in B1, B2, B3, B4. subst. apply sym_parse_sound in E. exact E.
  - intros. assert (P : sym_parse (sym_enc k n a p) = sym_parse (sym_enc k' n' a' p')) by congruence.
    rewrite !sym_parse_enc in P. inv P. reflexivity.
  - intros. assert (P : sym_parse (sym_enc k n a p) = sym_parse (sym_enc k' n' a' p')) by congruence.
    rewrite !sym_parse_enc in P. inv P. reflexivity.
  - intros. assert (P : sym_parse (sym_enc k n a p) = sym_parse (sym_enc k' n' a' p')) by congruence.
    rewrite !sym_parse_enc in P. inv P. reflexivity.
  - intros. assert (P : sym_parse (sym_enc k n a p) = sym_parse (sym_enc k' n' a' p')) by congruence.
    rewrite !sym_parse_enc in P. inv P. reflexivity.
Qed.

(* ------------------------------------------------------------------ _uncompress raises nothing but DecodeError *)
Theorem uncompress_total od : (exists u, uncompress od = Ok u) \/ uncompress od = Raise DecodeError.
Proof.
  unfold uncompress.
  destruct (match od with [] => (0, []) | b :: t => (b, t) end) as [firstbyte tail].
  destruct (negb (Z.land firstbyte COMPRESSION_BITS_RESERVED =? 0)); [right; reflexivity|].
  destruct (Z.land firstbyte COMPRESSION_BITS_N >? PIVSZ_MAX); [right; reflexivity|].
  destruct (negb (Z.land firstbyte COMPRESSION_BITS_N =? 0)).
  - destruct (blen tail <? Z.land firstbyte COMPRESSION_BITS_N); [right; reflexivity|]. cbn [bind].
    destruct (negb (Z.land firstbyte COMPRESSION_BIT_H =? 0)).
    + destruct (bfrom tail (Z.land firstbyte COMPRESSION_BITS_N)) as [|s t]; [right; reflexivity|].
      destruct (blen (s :: t) - 1 <? s); [right; reflexivity|]. left. eexists. reflexivity.
    + left. eexists. reflexivity.
  - cbn [bind]. destruct (negb (Z.land firstbyte COMPRESSION_BIT_H =? 0)).
    + destruct tail as [|s t]; [right; reflexivity|].
      destruct (blen (s :: t) - 1 <? s); [right; reflexivity|]. left. eexists. reflexivity.
    + left. eexists. reflexivity.
Qed.

(* ================================================================== protect: structure, non-interference *)

(* what protect looks at outside the plaintext *)
Definition view_eq (m1 m2 : msg) : Prop :=
  is_request (code m1) = is_request (code m2) /\ is_response (code m1) = is_response (code m2) /\
  get_opt OPT_URI_HOST (opts m1) = get_opt OPT_URI_HOST (opts m2) /\
  get_opt OPT_OBSERVE (opts m1) = get_opt OPT_OBSERVE (opts m2).

Lemma bind_ok_inv {A B} (m : M A) (f : A -> M B) b : bind m f = Ok b -> exists a, m = Ok a /\ f a = Ok b.
Proof. destruct m; cbn; [eauto|discriminate]. Qed.

(* the outcome of protect, decomposed: everything but the last argument of enc is computed without the plaintext *)
Lemma protect_finish_inv E c m om pt nonce pivs upiv r1 kc pm rid' :
  protect_finish E c m om pt nonce pivs upiv r1 kc = Ok (pm, rid') ->
  exists od, code pm = code om /\ opts pm = add_oscore (opts om) od /\
    payload pm = enc E (sender_key c) nonce (build_encrypt0_structure (extract_external_aad (c_alg c) rid')) pt /\
    forall pt', protect_finish E c m om pt' nonce pivs upiv r1 kc =
      Ok ({| code := code om; opts := add_oscore (opts om) od;
             payload := enc E (sender_key c) nonce (build_encrypt0_structure (extract_external_aad (c_alg c) rid')) pt' |}, rid').
Proof.
  unfold protect_finish. intros H.
  apply bind_ok_inv in H as [[rid0 u] [Hh H]].
  apply bind_ok_inv in H as [od [Hc H]]. inv H. cbn [code opts payload].
  exists od. repeat split; try reflexivity.
  intros pt'. rewrite Hh. cbn [bind]. rewrite Hc. reflexivity.
Qed.

Lemma protect_inv E c m r kc c' r' pm rid' :
  protect E c m r kc = (c', r', Ok (pm, rid')) ->
  exists om pt ns nonce pivs upiv,
    Bool.eqb (match r with None => true | Some _ => false end) (is_request (code m)) = true /\
    split_message m r = Ok (om, pt) /\ protect_nonce c r = (c', r', ns) /\ ns = Ok (nonce, pivs, upiv) /\
    protect_finish E c m om pt nonce pivs upiv r' kc = Ok (pm, rid').
Proof.
  unfold protect. intros H.
  destruct (Bool.eqb (match r with None => true | Some _ => false end) (is_request (code m))) eqn:Ha; cbn [massert bind] in H; [|inv H].
  destruct (split_message m r) as [[om pt]|e] eqn:Hs; [|inv H].
  destruct (protect_nonce c r) as [[c1 r1] ns] eqn:Hn. inv H.
  destruct ns as [[[nonce pivs] upiv]|e]; [|discriminate]. cbn [bind] in *.
  exists om, pt, (Ok (nonce, pivs, upiv)), nonce, pivs, upiv. repeat split; assumption.
Qed.

Lemma split_message_inv m r om pt : split_message m r = Ok (om, pt) ->
  exists oc, outer_code_of m r = Ok oc /\ plaintext_of (code m) (inner_opts m) (payload m) = Ok pt /\
             om = {| code := oc; opts := outer_opts_of m; payload := [] |}.
Proof.
  unfold split_message. destruct (is_request (code m) && _); [discriminate|].
  intros H. apply bind_ok_inv in H as [oc [H1 H]]. apply bind_ok_inv in H as [p [H2 H]]. inv H.
  exists oc. repeat split; assumption.
Qed.

Lemma view_outer m1 m2 r : view_eq m1 m2 -> outer_code_of m1 r = outer_code_of m2 r /\ outer_opts_of m1 = outer_opts_of m2.
Proof.
  intros (H1 & H2 & H3 & H4). unfold outer_code_of, outer_opts_of, observe_value. rewrite H1, H2, H3, H4. split; reflexivity.
Qed.

(* non-interference of everything but the plaintext: two messages that agree on request/response class, Uri-Host and Observe
   are protected (from the same context state and request identifiers) into outer messages with the same code and the same options,
   the same context / request-id updates, and ciphertexts enc k n a p1, enc k n a p2 that differ in the plaintext only *)
Theorem outer_reveals_nothing E c m1 m2 r kc c1 r1 pm1 rid1 c2 r2 pm2 rid2 :
  view_eq m1 m2 ->
  protect E c m1 r kc = (c1, r1, Ok (pm1, rid1)) ->
  protect E c m2 r kc = (c2, r2, Ok (pm2, rid2)) ->
  c1 = c2 /\ r1 = r2 /\ rid1 = rid2 /\ code pm1 = code pm2 /\ opts pm1 = opts pm2 /\
  exists k n a p1 p2,
    payload pm1 = enc E k n a p1 /\ payload pm2 = enc E k n a p2 /\
    plaintext_of (code m1) (inner_opts m1) (payload m1) = Ok p1 /\
    plaintext_of (code m2) (inner_opts m2) (payload m2) = Ok p2.
Proof.
  intros V P1 P2.
  apply protect_inv in P1 as (om1 & pt1 & ns1 & n1 & pv1 & up1 & _ & S1 & N1 & -> & F1).
  apply protect_inv in P2 as (om2 & pt2 & ns2 & n2 & pv2 & up2 & _ & S2 & N2 & -> & F2).
  rewrite N1 in N2. inv N2.
  apply split_message_inv in S1 as (oc1 & C1 & T1 & ->). apply split_message_inv in S2 as (oc2 & C2 & T2 & ->).
  destruct (view_outer m1 m2 r V) as [VC VO]. rewrite VC in C1. rewrite C1 in C2. inv C2. rewrite VO in F1.
  destruct V as (V1 & _).
  apply protect_finish_inv in F1 as (od1 & Hc1 & Ho1 & Hp1 & G1).
  (* protect_finish looks at the message only through is_request (code m) *)
  assert (F2' : protect_finish E c m1 {| code := oc2; opts := outer_opts_of m2; payload := [] |} pt2 n2 pv2 up2 r2 kc = Ok (pm2, rid2)).
  { unfold protect_finish in *. rewrite V1. exact F2. }
  rewrite G1 in F2'. inv F2'. cbn [code opts payload] in *.
  split; [reflexivity|]. split; [reflexivity|]. split; [reflexivity|].
  split; [congruence|]. split; [congruence|].
  do 5 eexists. split; [exact Hp1|]. split; [reflexivity|]. split; assumption.
Qed.

(* ================================================================== nonce and AAD are injective *)

(* ------------------------------------------------------------------ list helpers *)
Lemma blen_zeros n : blen (zeros n) = Z.max 0 n.
Proof. unfold zeros, blen. rewrite repeat_length. lia. Qed.
Lemma app_inv_len {A} (a a' b b' : list A) : a ++ b = a' ++ b' -> length a = length a' -> a = a' /\ b = b'.
Proof.
  revert a'. induction a as [|x a IH]; intros [|y a'] H L; cbn in *; try discriminate; auto.
  injection H as -> H. apply IH in H as [-> ->]; auto.
Qed.
Lemma blen_length_eq {A} (a b : list A) : blen a = blen b -> length a = length b.
Proof. unfold blen. lia. Qed.
Lemma map2_lxor_inj a x y : length x = length a -> length y = length a -> map2 Z.lxor a x = map2 Z.lxor a y -> x = y.
Proof.
  revert x y. induction a as [|h a IH]; intros [|p x] [|q y] Lx Ly H; cbn in *; try discriminate; auto.
  injection H as H1 H2. f_equal.
  - apply (f_equal (Z.lxor h)) in H1. rewrite <- !Z.lxor_assoc, Z.lxor_nilpotent, !Z.lxor_0_l in H1. exact H1.
  - apply IH; auto.
Qed.

(* ------------------------------------------------------------------ the nonce *)
Lemma blen_components piv id iv : blen id <= iv - NONCE_ID_OVERHEAD -> blen piv <= NONCE_PIV_BYTES ->
  blen (nonce_components piv id iv) = iv.
Proof.
  intros H1 H2. unfold nonce_components. rewrite !blen_app, !blen_zeros. cbn [blen length].
  unfold NONCE_ID_OVERHEAD, NONCE_PIV_BYTES in *. pose proof (blen_nonneg id). pose proof (blen_nonneg piv). change (blen [blen id]) with 1. lia.
Qed.
Lemma construct_nonce_ok civ piv id iv : blen id <= iv - NONCE_ID_OVERHEAD -> blen piv <= NONCE_PIV_BYTES -> iv <= blen civ -> iv <= 255 + NONCE_ID_OVERHEAD ->
  construct_nonce civ piv id iv = Ok (map2 Z.lxor (bto civ iv) (nonce_components piv id iv)).
Proof.
  intros H1 H2 H3 H4. unfold construct_nonce. unfold NONCE_ID_OVERHEAD in *.
  replace (blen id >? 255) with false by lia.
  rewrite blen_components by (unfold NONCE_ID_OVERHEAD; assumption).
  unfold xor_bytes. rewrite blen_bto by (pose proof (blen_nonneg id); lia).
  rewrite blen_components by (unfold NONCE_ID_OVERHEAD; assumption). rewrite Z.eqb_refl. reflexivity.
Qed.
(* for admissible id and Partial-IV lengths the nonce determines the id and the Partial IV (left-padded to 5 bytes) *)
Theorem nonce_injective civ piv id piv' id' iv n :
  blen id <= iv - NONCE_ID_OVERHEAD -> blen id' <= iv - NONCE_ID_OVERHEAD -> blen piv <= NONCE_PIV_BYTES -> blen piv' <= NONCE_PIV_BYTES ->
  construct_nonce civ piv id iv = Ok n -> construct_nonce civ piv' id' iv = Ok n ->
  id = id' /\ zeros (NONCE_PIV_BYTES - blen piv) ++ piv = zeros (NONCE_PIV_BYTES - blen piv') ++ piv'.
Proof.
  intros Hi Hi' Hp Hp' H H'.
  unfold construct_nonce in H, H'.
  destruct (blen id >? 255); [discriminate|]. destruct (blen id' >? 255); [discriminate|].
  rewrite blen_components in H, H' by assumption.
  unfold xor_bytes in H, H'.
  destruct (blen (bto civ iv) =? blen (nonce_components piv id iv)) eqn:L; [|discriminate].
  destruct (blen (bto civ iv) =? blen (nonce_components piv' id' iv)) eqn:L'; [|discriminate].
  inv H. inv H'. rename H0 into H.
  apply map2_lxor_inj in H; try (apply blen_length_eq; lia).
  unfold nonce_components in H. cbn [app] in H. injection H as Hl H.
  assert (Hz : zeros (iv - NONCE_ID_OVERHEAD - blen id') = zeros (iv - NONCE_ID_OVERHEAD - blen id)) by (rewrite Hl; reflexivity).
  rewrite Hz in H. apply app_inv_head in H.
  apply app_inv_len in H; [|apply blen_length_eq; lia]. destruct H as [-> H]. split; [reflexivity|]. symmetry. exact H.
Qed.

(* ------------------------------------------------------------------ CBOR: heads are self-delimiting *)
Definition head_dec (b : list Z) : option (Z * Z * list Z) :=
  match b with
  | [] => None
  | x :: r =>
      let major := x / 32 in let ai := x mod 32 in
      if ai <? 24 then Some (major, ai, r)
      else if ai =? 24 then match r with a :: r' => Some (major, a, r') | [] => None end
      else if ai =? 25 then Some (major, from_bytes_big (bto r 2), bfrom r 2)
      else if ai =? 26 then Some (major, from_bytes_big (bto r 4), bfrom r 4)
      else Some (major, from_bytes_big (bto r 8), bfrom r 8)
  end.
Lemma bto_app_n {A} (a b : list A) n : blen a = n -> bto (a ++ b) n = a.
Proof. intros <-. apply bto_app. Qed.
Lemma bfrom_app_n {A} (a b : list A) n : blen a = n -> bfrom (a ++ b) n = b.
Proof. intros <-. apply bfrom_app. Qed.
Lemma blen_tbn n v : blen (to_bytes_big_n n v) = Z.of_nat n.
Proof. unfold blen. rewrite to_bytes_big_n_length. reflexivity. Qed.
Lemma fb_tb k n : 0 <= n < 2 ^ (8 * Z.of_nat k) -> from_bytes_big (to_bytes_big_n k n) = n.
Proof. intros H. unfold from_bytes_big. rewrite from_to_bytes_big by exact H. lia. Qed.
Lemma head_dec_head m n rest : 0 <= m < 8 -> 0 <= n < 2 ^ 64 -> head_dec (cbor_head m n ++ rest) = Some (m, n, rest).
Proof.
  intros Hm Hn. unfold cbor_head.
  destruct (n <? 24) eqn:E1.
  { cbn [app head_dec]. replace ((m * 32 + n) / 32) with m by lia. replace ((m * 32 + n) mod 32) with n by lia. rewrite E1. reflexivity. }
  destruct (n <? 256) eqn:E2.
  { cbn [app head_dec]. replace ((m * 32 + 24) / 32) with m by lia. replace ((m * 32 + 24) mod 32) with 24 by lia. reflexivity. }
  destruct (n <? 65536) eqn:E3.
  { cbn [app head_dec]. replace ((m * 32 + 25) / 32) with m by lia. replace ((m * 32 + 25) mod 32) with 25 by lia. change (25 <? 24) with false. change (25 =? 24) with false. change (25 =? 25) with true. cbv iota.
    rewrite bto_app_n, bfrom_app_n by apply blen_tbn. rewrite fb_tb by (cbn; lia). reflexivity. }
  destruct (n <? 4294967296) eqn:E4.
  { cbn [app head_dec]. replace ((m * 32 + 26) / 32) with m by lia. replace ((m * 32 + 26) mod 32) with 26 by lia. change (26 <? 24) with false. change (26 =? 24) with false. change (26 =? 25) with false. change (26 =? 26) with true. cbv iota.
    rewrite bto_app_n, bfrom_app_n by apply blen_tbn. rewrite fb_tb by (cbn; lia). reflexivity. }
  cbn [app head_dec]. replace ((m * 32 + 27) / 32) with m by lia. replace ((m * 32 + 27) mod 32) with 27 by lia. change (27 <? 24) with false. change (27 =? 24) with false. change (27 =? 25) with false. change (27 =? 26) with false. cbv iota.
  rewrite bto_app_n, bfrom_app_n by apply blen_tbn. rewrite fb_tb by (cbn; lia). reflexivity.
Qed.
Definition bstr_dec (b : list Z) : option (list Z * list Z) :=
  match head_dec b with Some (_, n, r) => Some (bto r n, bfrom r n) | None => None end.
Lemma bstr_dec_bstr x rest : blen x < 2 ^ 64 -> bstr_dec (cbor_bstr x ++ rest) = Some (x, rest).
Proof.
  intros H. unfold bstr_dec, cbor_bstr. rewrite <- app_assoc. rewrite head_dec_head by (pose proof (blen_nonneg x); lia).
  rewrite bto_app, bfrom_app. reflexivity.
Qed.
Definition int_dec (b : list Z) : option (Z * list Z) :=
  match head_dec b with Some (m, n, r) => Some ((if m =? 0 then n else -1 - n), r) | None => None end.
Lemma int_dec_int v rest : - 2 ^ 64 <= v < 2 ^ 64 -> int_dec (cbor_int v ++ rest) = Some (v, rest).
Proof.
  intros H. unfold int_dec, cbor_int. destruct (0 <=? v) eqn:E.
  - rewrite head_dec_head by lia. reflexivity.
  - rewrite head_dec_head by lia. cbn [Z.eqb]. f_equal. f_equal. lia.
Qed.

(* the external AAD determines algorithm, request kid and request Partial IV; the Enc_structure determines the external AAD *)
Definition aad_dec (b : list Z) : option (Z * list Z * list Z) :=
  match b with
  | _ :: _ :: _ :: r =>
      match int_dec r with
      | Some (a, r1) => match bstr_dec r1 with
                        | Some (kid, r2) => match bstr_dec r2 with
                                            | Some (piv, _) => Some (a, kid, piv)
                                            | None => None end
                        | None => None end
      | None => None end
  | _ => None
  end.
Lemma aad_dec_aad a r : - 2 ^ 64 <= alg_value a < 2 ^ 64 -> blen (rid_kid r) < 2 ^ 64 -> blen (rid_piv r) < 2 ^ 64 ->
  aad_dec (extract_external_aad a r) = Some (alg_value a, rid_kid r, rid_piv r).
Proof.
  intros Ha Hk Hp. unfold extract_external_aad, cbor_array. cbn [blen length Z.of_nat Pos.of_succ_nat Pos.succ concat cbor_head Z.ltb Z.compare Pos.compare Pos.compare_cont Z.mul Z.add Pos.mul Pos.add app cbor_int Z.leb].
  rewrite app_nil_r. cbn [app aad_dec].
  rewrite int_dec_int by assumption. rewrite bstr_dec_bstr by assumption. rewrite bstr_dec_bstr by assumption. reflexivity.
Qed.
Theorem external_aad_injective a r a' r' :
  - 2 ^ 64 <= alg_value a < 2 ^ 64 -> - 2 ^ 64 <= alg_value a' < 2 ^ 64 ->
  blen (rid_kid r) < 2 ^ 64 -> blen (rid_piv r) < 2 ^ 64 -> blen (rid_kid r') < 2 ^ 64 -> blen (rid_piv r') < 2 ^ 64 ->
  extract_external_aad a r = extract_external_aad a' r' ->
  alg_value a = alg_value a' /\ rid_kid r = rid_kid r' /\ rid_piv r = rid_piv r'.
Proof.
  intros Ha Ha' Hk Hp Hk' Hp' H. apply (f_equal aad_dec) in H. rewrite !aad_dec_aad in H by assumption. inv H. auto.
Qed.
Theorem encrypt0_structure_injective x y : blen x < 2 ^ 64 -> blen y < 2 ^ 64 ->
  build_encrypt0_structure x = build_encrypt0_structure y -> x = y.
Proof.
  intros Hx Hy H. unfold build_encrypt0_structure, cbor_array in H.
  cbn [concat] in H. rewrite !app_nil_r in H.
  apply app_inv_head in H. apply app_inv_head in H. apply app_inv_head in H.
  apply (f_equal bstr_dec) in H.
  rewrite <- (app_nil_r (cbor_bstr x)), <- (app_nil_r (cbor_bstr y)) in H. rewrite !bstr_dec_bstr in H by assumption. inv H. reflexivity.
Qed.

(* ================================================================== unprotect: what acceptance implies *)

Lemma uncompress_piv_len od u : uncompress od = Ok u ->
  match u_piv u with Some p => 1 <= blen p <= PIVSZ_MAX | None => True end.
Proof.
  unfold uncompress.
  destruct (match od with [] => (0, []) | b :: t => (b, t) end) as [firstbyte tail].
  destruct (negb (Z.land firstbyte COMPRESSION_BITS_RESERVED =? 0)); [discriminate|].
  destruct (Z.land firstbyte COMPRESSION_BITS_N >? PIVSZ_MAX) eqn:Emax; [discriminate|].
  assert (Hnn : 0 <= Z.land firstbyte COMPRESSION_BITS_N) by (apply Z.land_nonneg; right; unfold COMPRESSION_BITS_N; lia).
  destruct (negb (Z.land firstbyte COMPRESSION_BITS_N =? 0)) eqn:Ez.
  - destruct (blen tail <? Z.land firstbyte COMPRESSION_BITS_N) eqn:El; [discriminate|]. cbn [bind].
    assert (Hl : 1 <= blen (bto tail (Z.land firstbyte COMPRESSION_BITS_N)) <= PIVSZ_MAX).
    { rewrite blen_bto by lia. lia. }
    destruct (negb (Z.land firstbyte COMPRESSION_BIT_H =? 0)).
    + destruct (bfrom tail (Z.land firstbyte COMPRESSION_BITS_N)) as [|s t]; [discriminate|].
      destruct (blen (s :: t) - 1 <? s); [discriminate|]. cbn [bind]. intros H. inv H. cbn [u_piv]. exact Hl.
    + cbn [bind]. intros H. inv H. cbn [u_piv]. exact Hl.
  - cbn [bind]. destruct (negb (Z.land firstbyte COMPRESSION_BIT_H =? 0)).
    + destruct tail as [|s t]; [discriminate|].
      destruct (blen (s :: t) - 1 <? s); [discriminate|]. cbn [bind]. intros H. inv H. exact I.
    + cbn [bind]. intros H. inv H. exact I.
Qed.

(* what a successful verification establishes *)
Definition eff_kid_context (c : ctx) (u : unprot) := match u_kid_context u with Some x => Some x | None => id_context c end.
Definition eff_kid (c : ctx) (u : unprot) := match u_kid u with Some k => k | None => recipient_id c end.
Lemma unprotect_verify_inv E c pm r c' pt seqno rid' :
  unprotect_verify E c pm r = Ok (c', pt, seqno, rid') ->
  exists od u pivs gen nonce,
    get_opt OPT_OSCORE (opts pm) = Some od /\ uncompress od = Ok u /\
    eff_kid_context c u = id_context c /\ eff_kid c u = recipient_id c /\ u_group u = false /\
    match u_piv u, r with
    | None, Some r0 => pivs = rid_piv r0 /\ gen = rid_kid r0 /\ rid' = r0 /\ seqno = None
    | Some p, Some r0 => pivs = p /\ gen = recipient_id c /\ rid' = r0 /\ seqno = Some (from_bytes_big p)
    | Some p, None => pivs = p /\ gen = recipient_id c /\ rid_kid rid' = recipient_id c /\ rid_piv rid' = p /\ seqno = Some (from_bytes_big p)
    | None, None => False
    end /\
    construct_nonce (common_iv c) pivs gen (alg_iv_bytes (c_alg c)) = Ok nonce /\
    dec E (recipient_key c) nonce (build_encrypt0_structure (extract_external_aad (c_alg c) rid')) (payload pm) = Some pt.
Proof.
  unfold unprotect_verify. intros H.
  apply bind_ok_inv in H as [_ [_ H]].
  destruct (get_opt OPT_OSCORE (opts pm)) as [od|]; [|discriminate].
  apply bind_ok_inv in H as [u [Hu H]].
  fold (eff_kid_context c u) in H. fold (eff_kid c u) in H.
  destruct (opt_beqb (eff_kid_context c u) (id_context c)) eqn:Ekc; cbn [negb] in H; [|discriminate].
  destruct (beqb (eff_kid c u) (recipient_id c)) eqn:Ekid; cbn [negb] in H; [|discriminate].
  apply bind_ok_inv in H as [[[[s pivs] gen] rid0] [Hstep H]].
  destruct (u_group u) eqn:Eg; [discriminate|].
  destruct (blen (payload pm) <? alg_tag_bytes (c_alg c) + 1); [discriminate|].
  apply bind_ok_inv in H as [nonce [Hn H]].
  destruct (dec E (recipient_key c) nonce (build_encrypt0_structure (extract_external_aad (c_alg c) rid0)) (payload pm)) as [p|] eqn:Hd; [|discriminate].
  apply bind_ok_inv in H as [w' [Hw H]]. inv H.
  exists od, u, pivs, gen, nonce.
  split; [reflexivity|]. split; [exact Hu|].
  split. { unfold opt_beqb in Ekc. destruct (eff_kid_context c u), (id_context c); try discriminate; [apply list_eqb_Z_eq in Ekc; congruence|reflexivity]. }
  split. { apply list_eqb_Z_eq in Ekid. exact Ekid. }
  split; [exact Eg|].
  split; [|split; assumption].
  destruct (u_piv u) as [p|], r as [r0|]; try discriminate.
  - inv Hstep. auto.
  - destruct (recipient_replay_window c) as [w|]; [|discriminate].
    apply bind_ok_inv in Hstep as [v [_ Hstep]]. destruct (negb v); [discriminate|].
    apply bind_ok_inv in Hstep as [cs [_ Hstep]]. inv Hstep. cbn [rid_kid rid_piv]. auto.
  - inv Hstep. auto.
Qed.

(* ------------------------------------------------------------------ sizes *)
Definition small_rid (r : rid) : Prop := blen (rid_kid r) < 2 ^ 32 /\ blen (rid_piv r) < 2 ^ 32.
Definition small_alg (a : alg) : Prop := - 2 ^ 64 <= alg_value a < 2 ^ 64.
Lemma blen_head m n : blen (cbor_head m n) <= 9.
Proof. unfold cbor_head. repeat match goal with |- context [if ?b then _ else _] => destruct b end; unfold blen; cbn [length]; rewrite ?to_bytes_big_n_length; apply Z.leb_le; reflexivity. Qed.
Lemma blen_bstr x : blen (cbor_bstr x) <= 9 + blen x.
Proof. unfold cbor_bstr. rewrite blen_app. pose proof (blen_head 2 (blen x)). lia. Qed.
Lemma blen_int v : blen (cbor_int v) <= 9.
Proof. unfold cbor_int. destruct (0 <=? v); apply blen_head. Qed.
Lemma blen_ext_aad a r : small_rid r -> blen (extract_external_aad a r) < 2 ^ 64.
Proof.
  intros [Hk Hp]. unfold extract_external_aad, cbor_array. cbn [concat].
  rewrite !blen_app.
  pose proof (blen_bstr (rid_kid r)). pose proof (blen_bstr (rid_piv r)). pose proof (blen_bstr []).
  pose proof (blen_int 1). pose proof (blen_int (alg_value a)).
  pose proof (blen_head 4 (blen [cbor_int 1; cbor_head 4 (blen [cbor_int (alg_value a)]) ++ cbor_int (alg_value a) ++ []; cbor_bstr (rid_kid r); cbor_bstr (rid_piv r); cbor_bstr []])).
  pose proof (blen_head 4 (blen [cbor_int (alg_value a)])).
  change (blen (@nil Z)) with 0 in *.
  change (2 ^ 32) with 4294967296 in *. change (2 ^ 64) with 18446744073709551616.
  lia.
Qed.

(* ------------------------------------------------------------------ tampering, foreign keys, foreign requests *)
(* Whatever unprotect accepts is an honest encryption under the recipient key, the nonce and the AAD the recipient computed *)
Theorem unprotect_accepts_only_honest E c pm r c' pt seqno rid' : ideal E ->
  unprotect_verify E c pm r = Ok (c', pt, seqno, rid') ->
  exists nonce, payload pm = enc E (recipient_key c) nonce (build_encrypt0_structure (extract_external_aad (c_alg c) rid')) pt.
Proof.
  intros (_ & Hs & _) H. apply unprotect_verify_inv in H as (od & u & pivs & gen & nonce & _ & _ & _ & _ & _ & _ & _ & Hd).
  exists nonce. apply Hs. exact Hd.
Qed.

(* If the ciphertext is the one a sender produced with protect, then acceptance implies: the recipient key is the sender's key,
   the algorithm and the request identifiers (kid, Partial IV) bound into the AAD are the sender's, the plaintext is the sender's
   message, and both sides used the same nonce. *)
Theorem accepted_implies_unchanged E cS m rS kc cS' rS' pmS ridS cR pm rR cR' pt seqno ridR : ideal E ->
  small_alg (c_alg cS) -> small_alg (c_alg cR) -> small_rid ridS -> small_rid ridR ->
  protect E cS m rS kc = (cS', rS', Ok (pmS, ridS)) ->
  unprotect_verify E cR pm rR = Ok (cR', pt, seqno, ridR) ->
  payload pm = payload pmS ->
  recipient_key cR = sender_key cS /\
  alg_value (c_alg cR) = alg_value (c_alg cS) /\ rid_kid ridR = rid_kid ridS /\ rid_piv ridR = rid_piv ridS /\
  plaintext_of (code m) (inner_opts m) (payload m) = Ok pt.
Proof.
  intros HI As Ar Ss Sr P U Hp.
  pose proof HI as (_ & _ & Hinj).
  apply (unprotect_accepts_only_honest _ _ _ _ _ _ _ _ HI) in U as [nR HR].
  apply protect_inv in P as (om & ptS & ns & nS & pvS & upS & _ & Sp & _ & _ & F).
  apply split_message_inv in Sp as (oc & _ & T & _).
  apply protect_finish_inv in F as (od & _ & _ & HS & _).
  rewrite Hp, HS in HR. apply Hinj in HR as (Hk & Hn & Ha & Hpt).
  apply encrypt0_structure_injective in Ha; [|apply blen_ext_aad; assumption|apply blen_ext_aad; assumption].
  destruct Ss, Sr.
  apply external_aad_injective in Ha; try assumption; try lia.
  destruct Ha as (A1 & A2 & A3). subst ptS. repeat split; congruence.
Qed.

(* ================================================================== error classes *)

(* ------------------------------------------------------------------ unprotect raises protection errors only *)
Lemma from_bytes_big_acc_nonneg b acc : bytes_ok b = true -> 0 <= acc -> 0 <= from_bytes_big_acc acc b.
Proof.
  revert acc. induction b as [|x b IH]; intros acc H Ha; cbn [from_bytes_big_acc]; [exact Ha|].
  rewrite bytes_ok_cons in H. apply andb_prop in H as [Hx Hb]. unfold byte_ok in Hx. apply IH; [exact Hb|lia].
Qed.
Lemma from_bytes_big_nonneg b : bytes_ok b = true -> 0 <= from_bytes_big b.
Proof. intros H. apply from_bytes_big_acc_nonneg; [exact H|lia]. Qed.
Lemma uncompress_piv_ok od u : bytes_ok od = true -> uncompress od = Ok u ->
  match u_piv u with Some p => bytes_ok p = true | None => True end.
Proof.
  intros Hb. unfold uncompress.
  assert (Ht : bytes_ok (snd (match od with [] => (0, []) | b :: t => (b, t) end)) = true).
  { destruct od; [reflexivity|]. rewrite bytes_ok_cons in Hb. apply andb_prop in Hb as [_ Hb]. exact Hb. }
  destruct (match od with [] => (0, []) | b :: t => (b, t) end) as [firstbyte tail]. cbn [snd] in Ht.
  destruct (negb (Z.land firstbyte COMPRESSION_BITS_RESERVED =? 0)); [discriminate|].
  destruct (Z.land firstbyte COMPRESSION_BITS_N >? PIVSZ_MAX); [discriminate|].
  assert (Hp : bytes_ok (bto tail (Z.land firstbyte COMPRESSION_BITS_N)) = true) by (apply bytes_ok_firstn; exact Ht).
  destruct (negb (Z.land firstbyte COMPRESSION_BITS_N =? 0)).
  - destruct (blen tail <? Z.land firstbyte COMPRESSION_BITS_N); [discriminate|]. cbn [bind].
    destruct (negb (Z.land firstbyte COMPRESSION_BIT_H =? 0)).
    + destruct (bfrom tail (Z.land firstbyte COMPRESSION_BITS_N)) as [|s t]; [discriminate|].
      destruct (blen (s :: t) - 1 <? s); [discriminate|]. cbn [bind]. intros H. inv H. exact Hp.
    + cbn [bind]. intros H. inv H. exact Hp.
  - cbn [bind]. destruct (negb (Z.land firstbyte COMPRESSION_BIT_H =? 0)).
    + destruct tail as [|s t]; [discriminate|].
      destruct (blen (s :: t) - 1 <? s); [discriminate|]. cbn [bind]. intros H. inv H. exact I.
    + cbn [bind]. intros H. inv H. exact I.
Qed.

(* ids and Partial IVs admissible for the algorithm (RFC 8613 3.3: ids at most iv_bytes - 6 bytes), common IV long enough,
   replay window well-formed (C12's invariant) *)
Definition admissible_ctx (c : ctx) : Prop :=
  blen (recipient_id c) <= alg_iv_bytes (c_alg c) - NONCE_ID_OVERHEAD /\ blen (sender_id c) <= alg_iv_bytes (c_alg c) - NONCE_ID_OVERHEAD /\
  alg_iv_bytes (c_alg c) <= blen (common_iv c) /\ alg_iv_bytes (c_alg c) <= 255 + NONCE_ID_OVERHEAD /\
  match recipient_replay_window c with Some w => Proofs.C12.Inv w | None => True end.
Definition admissible_rid (c : ctx) (r : rid) : Prop :=
  blen (rid_kid r) <= alg_iv_bytes (c_alg c) - NONCE_ID_OVERHEAD /\ blen (rid_piv r) <= NONCE_PIV_BYTES.
(* what the callers guarantee (oscore_sitewrapper.py:72, transports/oscore.py): requests have outer code POST or FETCH and no
   request_id; responses come with the request's identifiers *)
Definition call_ok (c : ctx) (pm : msg) (r : option rid) : Prop :=
  match r with
  | Some r0 => is_response (code pm) = true /\ admissible_rid c r0
  | None => code pm = CODE_POST \/ code pm = CODE_FETCH
  end.

Theorem unprotect_verify_error_class E c pm r e :
  admissible_ctx c -> call_ok c pm r -> Forall (fun o => bytes_ok (snd o) = true) (opts pm) ->
  unprotect_verify E c pm r = Raise e ->
  e = NotAProtectedMessage \/ e = DecodeError \/ e = ProtectionInvalid \/ e = ReplayError.
Proof.
  intros (Ar & As & Aiv & Aiv2 & Aw) Hcall Hbytes. unfold unprotect_verify.
  assert (Hassert : Bool.eqb (match r with Some _ => true | None => false end) (is_response (code pm)) = true).
  { destruct r as [r0|]; cbn in Hcall. { destruct Hcall as [-> _]. reflexivity. } destruct Hcall as [-> | ->]; reflexivity. }
  rewrite Hassert. cbn [massert bind].
  destruct (get_opt OPT_OSCORE (opts pm)) as [od|] eqn:Hod; [|intros H; inv H; auto].
  assert (Hodb : bytes_ok od = true).
  { unfold get_opt in Hod. destruct (find (fun o => fst o =? OPT_OSCORE) (opts pm)) as [o|] eqn:Hf; [|discriminate]. inv Hod.
    apply find_some in Hf as [Hin _]. rewrite Forall_forall in Hbytes. apply Hbytes. exact Hin. }
  destruct (uncompress_total od) as [[u Hu]|Hu]; rewrite Hu; cbn [bind]; [|intros H; inv H; auto].
  pose proof (uncompress_piv_len od u Hu) as Hplen. pose proof (uncompress_piv_ok od u Hodb Hu) as Hpok.
  destruct (negb (opt_beqb _ (id_context c))); [intros H; inv H; auto|].
  destruct (negb (beqb _ (recipient_id c))); [intros H; inv H; auto|].
  (* the step that picks Partial IV, its generator and the request identifiers *)
  match goal with |- bind ?s _ = _ -> _ => destruct s as [[[[seqno pivs] gen] rid0]|e0] eqn:Hstep end; cbn [bind].
  2:{ intros H. inv H. destruct (u_piv u) as [p|], r as [r0|]; try discriminate.
      - destruct (recipient_replay_window c) as [w|]; [|inv Hstep; auto].
        rewrite Proofs.C12.is_valid_eq in Hstep. cbn [bind] in Hstep.
        destruct (negb (Proofs.C12.is_valid_b w (from_bytes_big p))); [inv Hstep; auto|].
        cbn in Hcall. destruct Hcall as [Hc | Hc]; rewrite Hc in Hstep; discriminate.
      - inv Hstep. auto. }
  assert (Hbounds : blen gen <= alg_iv_bytes (c_alg c) - NONCE_ID_OVERHEAD /\ blen pivs <= NONCE_PIV_BYTES /\
                    match r, seqno, recipient_replay_window c with
                    | None, Some n, Some w => exists w1, strike_out w n = Ok (w1, tt)
                    | _, _, _ => True end).
  { destruct (u_piv u) as [p|], r as [r0|]; try discriminate.
    - inv Hstep. cbn in Hcall. unfold PIVSZ_MAX, NONCE_PIV_BYTES in *. split; [exact Ar|]. split; [lia|]. exact I.
    - destruct (recipient_replay_window c) as [w|] eqn:Hw; [|discriminate].
      assert (Hn : 0 <= from_bytes_big p) by (apply from_bytes_big_nonneg; exact Hpok).
      rewrite (Proofs.C12.is_valid_spec w _ Aw Hn) in Hstep. cbn [bind] in Hstep.
      destruct (Verif.Model.C12.seen w (from_bytes_big p)) eqn:Hseen; cbn [negb] in Hstep; [discriminate|].
      apply bind_ok_inv in Hstep as [cs [_ Hstep]]. inv Hstep.
      unfold PIVSZ_MAX, NONCE_PIV_BYTES in *. split; [exact Ar|]. split; [lia|].
      destruct (Proofs.C12.strike_out_spec w _ Aw Hn) as [[Hs _]|[_ [w' [Hs _]]]]; [congruence|]. exists w'. exact Hs.
    - inv Hstep. cbn in Hcall. destruct Hcall as [_ [H1 H2]]. split; [exact H1|]. split; [exact H2|]. exact I. }
  destruct Hbounds as (Bg & Bp & Bs).
  destruct (u_group u) eqn:Hg; [intros H; inv H; auto|].
  destruct (blen (payload pm) <? alg_tag_bytes (c_alg c) + 1); [intros H; inv H; auto|].
  rewrite construct_nonce_ok by assumption. cbn [bind].
  destruct (dec E (recipient_key c) _ _ (payload pm)) as [pt|]; [|intros H; inv H; auto].
  destruct r as [r0|]; [cbn [bind]; discriminate|].
  destruct seqno as [n|]; [|cbn [bind]; discriminate].
  destruct (recipient_replay_window c) as [w|]; [|cbn [bind]; discriminate].
  destruct Bs as [w1 Hs]. rewrite Hs. cbn [bind]. discriminate.
Qed.

(* after successful verification only malformed plaintext — produced by a holder of the key — can make unprotect fail *)
Lemma read_ext_not_fuel v raw : read_extended_field_value v raw <> Raise OutOfFuel.
Proof.
  unfold read_extended_field_value, bget.
  repeat match goal with |- context [if ?c then _ else _] => destruct c end; cbn [bind]; discriminate.
Qed.
Lemma read_ext_mono v raw0 v' raw' : read_extended_field_value v raw0 = Ok (v', raw') -> (length raw' <= length raw0)%nat.
Proof.
  unfold read_extended_field_value, bget.
  repeat match goal with |- context [if ?c then _ else _] => destruct c end; cbn [bind]; try discriminate;
    intros H; inv H; unfold bfrom; rewrite ?skipn_length; lia.
Qed.
Lemma decode_options_fuel fuel num raw : (length raw <= fuel)%nat -> decode_options fuel num raw <> Raise OutOfFuel.
Proof.
  revert num raw. induction fuel as [|f IH]; intros num raw Hl.
  - destruct raw; [cbn; discriminate|cbn in Hl; lia].
  - destruct raw as [|b rest]; [cbn; discriminate|]. cbn [decode_options].
    destruct (b =? 255); [discriminate|].
    destruct (read_extended_field_value (Z.shiftr (Z.land b 240) 4) rest) as [[d raw1]|e1] eqn:E1; cbn [bind].
    2:{ intros H. inv H. exact (read_ext_not_fuel _ _ E1). }
    destruct (read_extended_field_value (Z.land b 15) raw1) as [[l raw2]|e2] eqn:E2; cbn [bind].
    2:{ intros H. inv H. exact (read_ext_not_fuel _ _ E2). }
    destruct (blen raw2 <? l); [discriminate|].
    apply read_ext_mono in E1. apply read_ext_mono in E2.
    assert (Hl' : (length (bfrom raw2 l) <= f)%nat). { unfold bfrom. rewrite skipn_length. cbn [length] in Hl. lia. }
    specialize (IH (num + d) (bfrom raw2 l) Hl').
    destruct (decode_options f (num + d) (bfrom raw2 l)) as [[os pl]|e3]; cbn [bind]; [discriminate|]. congruence.
Qed.

(* after successful verification only a malformed plaintext — which only a holder of the key can have encrypted — makes unprotect fail *)
Theorem unprotect_finish_error_class pm pt seqno e : unprotect_finish pm pt seqno = Raise e -> e = IndexError \/ e = UnparsableMessage.
Proof.
  unfold unprotect_finish, bget. destruct ((0 <? 0) || (blen pt <=? 0)); cbn [bind]; [intros H; inv H; auto|].
  pose proof (decode_options_fuel (length pt) 0 (bfrom pt 1)) as Hf.
  destruct (decode_options (length pt) 0 (bfrom pt 1)) as [[os pl]|e0] eqn:Hd; cbn [bind]; [discriminate|].
  intros H. inv H. right.
  assert (Hne : e <> OutOfFuel). { intros ->. apply Hf; [unfold bfrom; rewrite skipn_length; lia|reflexivity]. }
  clear Hf. revert Hd Hne. generalize (length pt) 0 (bfrom pt 1). intros fuel. induction fuel as [|f IH]; intros num raw.
  - destruct raw as [|b rest]; cbn [decode_options]; [discriminate|]. destruct (b =? 255); [discriminate|]. intros H; inv H. congruence.
  - destruct raw as [|b rest]; cbn [decode_options]; [discriminate|]. destruct (b =? 255); [discriminate|].
    assert (Hr : forall v raw0 e1, read_extended_field_value v raw0 = Raise e1 -> e1 = UnparsableMessage).
    { intros v raw0 e1. unfold read_extended_field_value, bget.
      repeat match goal with |- context [if ?c then _ else _] => destruct c eqn:? end; cbn [bind]; try discriminate; try (intros H; inv H; reflexivity).
      intros H. exfalso. lia. }
    destruct (read_extended_field_value (Z.shiftr (Z.land b 240) 4) rest) as [[d raw1]|e1] eqn:E1; cbn [bind].
    2:{ intros H _. inv H. eapply Hr; eassumption. }
    destruct (read_extended_field_value (Z.land b 15) raw1) as [[l raw2]|e2] eqn:E2; cbn [bind].
    2:{ intros H _. inv H. eapply Hr; eassumption. }
    destruct (blen raw2 <? l); [intros H _; inv H; reflexivity|].
    destruct (decode_options f (num + d) (bfrom raw2 l)) as [[os pl]|e3] eqn:E3; cbn [bind]; [discriminate|].
    intros H Hne. inv H. eapply IH; eassumption.
Qed.

(* ================================================================== outer shape; option compression *)

(* the outer message: fixed codes, and no option besides Uri-Host, Observe and OSCORE *)
Theorem outer_shape E c m r kc c' r' pm rid' :
  protect E c m r kc = (c', r', Ok (pm, rid')) ->
  Forall (fun o => fst o = OPT_URI_HOST \/ fst o = OPT_OBSERVE \/ fst o = OPT_OSCORE) (opts pm) /\
  (forall o, In o (opts pm) -> fst o = OPT_URI_HOST -> is_request (code m) = true /\ get_opt OPT_URI_HOST (opts m) = Some (snd o)) /\
  (if is_request (code m) then code pm = CODE_POST \/ code pm = CODE_FETCH
   else exists r0, r = Some r0 /\ code pm = snd (code_style r0)).
Proof.
  intros P. apply protect_inv in P as (om & pt & ns & n & pv & up & _ & S & _ & _ & F).
  apply split_message_inv in S as (oc & C & _ & ->).
  apply protect_finish_inv in F as (od & Hc & Ho & _ & _). cbn [code opts] in *. rewrite Hc, Ho. clear Hc Ho.
  split; [|split].
  - unfold outer_opts_of, add_oscore.
    destruct (is_request (code m)); destruct (get_opt OPT_URI_HOST (opts m)); destruct (is_response (code m)); destruct (observe_value (opts m));
      cbn; repeat (apply Forall_cons || apply Forall_nil); cbn; auto.
  - intros o Hin Hf. unfold outer_opts_of, add_oscore in Hin.
    destruct (is_request (code m)); destruct (get_opt OPT_URI_HOST (opts m)); destruct (is_response (code m)); destruct (observe_value (opts m));
      cbn in Hin; repeat (destruct Hin as [Hin|Hin]; [subst o; cbn in Hf; try discriminate; auto|]); try contradiction.
  - unfold outer_code_of in C. destruct (is_request (code m)).
    + inv C. destruct (get_opt OPT_OBSERVE (opts m)); auto.
    + destruct r as [r0|]; [|discriminate]. inv C. eauto.
Qed.

(* ------------------------------------------------------------------ _compress / _uncompress round trip *)
Definition unprot_ok (u : unprot) : Prop :=
  match u_piv u with Some p => 1 <= blen p <= PIVSZ_MAX | None => True end /\
  match u_kid_context u with Some kc => blen kc <= KID_CONTEXT_MAX | None => True end.
Definition flags (n : Z) (k h g : bool) : Z :=
  let f1 := if k then Z.lor n COMPRESSION_BIT_K else n in
  let f2 := if h then Z.lor f1 COMPRESSION_BIT_H else f1 in
  if g then Z.lor f2 COMPRESSION_BIT_GROUP else f2.
Lemma flags_decode n (k h g : bool) : 0 <= n <= 5 ->
  Z.land (flags n k h g) COMPRESSION_BITS_RESERVED = 0 /\ Z.land (flags n k h g) COMPRESSION_BITS_N = n /\
  (Z.land (flags n k h g) COMPRESSION_BIT_H =? 0) = negb h /\ (Z.land (flags n k h g) COMPRESSION_BIT_K =? 0) = negb k /\
  (Z.land (flags n k h g) COMPRESSION_BIT_GROUP =? 0) = negb g /\
  (flags n k h g =? 0) = (n =? 0) && negb k && negb h && negb g.
Proof.
  intros Hn. assert (H : n = 0 \/ n = 1 \/ n = 2 \/ n = 3 \/ n = 4 \/ n = 5) by lia.
  destruct H as [->|[->|[->|[->|[->| ->]]]]]; destruct k, h, g; cbv; repeat split; reflexivity.
Qed.

(* uncompress inverts compress on every header bag protect can produce (Partial IV of 1..5 bytes, kid context up to 255 bytes) *)
Theorem compress_uncompress u od : unprot_ok u -> compress u = Ok od -> uncompress od = Ok u.
Proof.
  intros [Hp Hc]. unfold compress.
  set (piv := match u_piv u with Some p => p | None => [] end).
  assert (Hpl : 0 <= blen piv <= 5).
  { subst piv. destruct (u_piv u); unfold PIVSZ_MAX in *; [lia|cbn; lia]. }
  replace (blen piv >? COMPRESSION_BITS_N) with false by (unfold COMPRESSION_BITS_N; lia).
  destruct u as [upiv ukid ukc ug]. cbn [u_piv u_kid u_kid_context u_group] in *.
  set (k := match ukid with Some _ => true | None => false end).
  set (h := match ukc with Some _ => true | None => false end).
  set (kid_data := match ukid with Some x => x | None => [] end).
  set (skc := match ukc with Some kc => blen kc :: kc | None => [] end).
  assert (Hcomp : forall od0,
     (let '(firstbyte, kid_data0) := match ukid with Some k0 => (Z.lor (blen piv) COMPRESSION_BIT_K, k0) | None => (blen piv, []) end in
      r <- match ukc with
           | Some kc => if blen kc >? KID_CONTEXT_MAX then Raise ValueError else Ok (Z.lor firstbyte COMPRESSION_BIT_H, blen kc :: kc)
           | None => Ok (firstbyte, []) end ;;
      let '(firstbyte0, s_kid_context) := r in
      let firstbyte1 := if ug then Z.lor firstbyte0 COMPRESSION_BIT_GROUP else firstbyte0 in
      Ok (if firstbyte1 =? 0 then [] else firstbyte1 :: piv ++ s_kid_context ++ kid_data0)) = Ok od0 ->
     od0 = if flags (blen piv) k h ug =? 0 then [] else flags (blen piv) k h ug :: piv ++ skc ++ kid_data).
  { intros od0. subst k h kid_data skc. unfold flags.
    destruct ukid, ukc; cbn [bind]; try (destruct (blen l0 >? KID_CONTEXT_MAX); [discriminate|]); try (destruct (blen l >? KID_CONTEXT_MAX); [discriminate|]);
      cbn [bind]; intros H; inv H; reflexivity. }
  intros H. apply Hcomp in H. clear Hcomp. subst od.
  destruct (flags_decode (blen piv) k h ug Hpl) as (F1 & F2 & F3 & F4 & F5 & F6).
  destruct (flags (blen piv) k h ug =? 0) eqn:Ez.
  - (* nothing present: the empty option *)
    symmetry in F6. apply andb_prop in F6 as [F6 Eg]. apply andb_prop in F6 as [F6 Eh]. apply andb_prop in F6 as [En Ek].
    subst k h. destruct ukid; [discriminate|]. destruct ukc; [discriminate|]. destruct ug; [discriminate|].
    destruct upiv as [p|]; [subst piv; cbn in En; unfold PIVSZ_MAX in *; lia|]. reflexivity.
  - unfold uncompress. rewrite F1, F2, F3, F4, F5. cbn [Z.eqb negb].
    replace (blen piv >? PIVSZ_MAX) with false by (unfold PIVSZ_MAX; lia).
    destruct upiv as [p|].
    + subst piv. replace (negb (blen p =? 0)) with true by lia.
      replace (blen (p ++ skc ++ kid_data) <? blen p) with false by (rewrite blen_app; pose proof (blen_nonneg (skc ++ kid_data)); lia).
      cbn [bind]. rewrite bto_app, bfrom_app.
      subst h skc k kid_data. destruct ukc as [kc|]; cbn [negb].
      * cbn [app]. replace (blen (blen kc :: kc ++ match ukid with Some x => x | None => [] end) - 1 <? blen kc) with false
          by (rewrite blen_cons, blen_app; pose proof (blen_nonneg match ukid with Some x => x | None => [] end); lia).
        cbn [bind]. rewrite bto_app, bfrom_app. destruct ukid, ug; reflexivity.
      * cbn [bind app]. destruct ukid, ug; reflexivity.
    + subst piv. cbn [blen length Z.of_nat Z.eqb negb app bind].
      subst h skc k kid_data. destruct ukc as [kc|]; cbn [negb].
      * cbn [app]. replace (blen (blen kc :: kc ++ match ukid with Some x => x | None => [] end) - 1 <? blen kc) with false
          by (rewrite blen_cons, blen_app; pose proof (blen_nonneg match ukid with Some x => x | None => [] end); lia).
        cbn [bind]. rewrite bto_app, bfrom_app. destruct ukid, ug; reflexivity.
      * cbn [bind app]. destruct ukid, ug; reflexivity.
Qed.

(* ================================================================== inner message codec *)

(* ------------------------------------------------------------------ inner message codec round trip *)
Lemma ext_roundtrip v d ext rest : write_extended_field_value v = Ok (d, ext) ->
  read_extended_field_value d (ext ++ rest) = Ok (v, rest) /\ 0 <= d <= 14.
Proof.
  unfold write_extended_field_value.
  destruct ((v >=? 0) && (v <? 13)) eqn:E1.
  { intros H. injection H as <- <-. unfold read_extended_field_value. rewrite E1. split; [reflexivity|lia]. }
  destruct ((v >=? 13) && (v <? 269)) eqn:E2.
  { unfold to_bytes_big. replace ((v - 13 <? 0) || (2 ^ (8 * 1) <=? v - 13)) with false by (change (2 ^ (8 * 1)) with 256; lia).
    cbn [bind]. intros H. injection H as <- <-. unfold read_extended_field_value.
    change ((13 >=? 0) && (13 <? 13)) with false. change (13 =? 13) with true. cbv iota.
    cbn [app].
    replace (blen (((v - 13) mod 256) :: rest) <? 1) with false by (rewrite blen_cons; pose proof (blen_nonneg rest); lia).
    rewrite bget_cons0. cbn [bind]. split; [|lia]. apply f_equal. apply f_equal2; [lia|reflexivity]. }
  destruct ((v >=? 269) && (v <? 65805)) eqn:E3; [|intros H; discriminate H].
  unfold to_bytes_big. replace ((v - 269 <? 0) || (2 ^ (8 * 2) <=? v - 269)) with false by (change (2 ^ (8 * 2)) with 65536; lia).
  cbn [bind]. intros H. injection H as <- <-. unfold read_extended_field_value.
  change ((14 >=? 0) && (14 <? 13)) with false. change (14 =? 13) with false. change (14 =? 14) with true. cbv iota.
  replace (blen ([((v - 269) / 256) mod 256; (v - 269) mod 256] ++ rest) <? 2) with false
    by (rewrite blen_app; change (blen [((v - 269) / 256) mod 256; (v - 269) mod 256]) with 2; pose proof (blen_nonneg rest); lia).
  rewrite bto_app_n, bfrom_app_n by reflexivity.
  unfold from_bytes_big. cbn [from_bytes_big_acc]. split; [|lia]. apply f_equal. apply f_equal2; [lia|reflexivity].
Qed.

Definition nib_ok (d l : Z) : bool :=
  let b := Z.shiftl (Z.land d 15) 4 + Z.land l 15 in
  negb (b =? 255) && (Z.shiftr (Z.land b 240) 4 =? d) && (Z.land b 15 =? l).
Definition range15 : list Z := map Z.of_nat (seq 0 15).
Lemma nib_all : forallb (fun d => forallb (fun l => nib_ok d l) range15) range15 = true.
Proof. vm_compute. reflexivity. Qed.
Lemma in_range15 d : 0 <= d <= 14 -> In d range15.
Proof. intros H. unfold range15. apply in_map_iff. exists (Z.to_nat d). split; [lia|]. apply in_seq. lia. Qed.
Lemma nibbles d l : 0 <= d <= 14 -> 0 <= l <= 14 ->
  let b := Z.shiftl (Z.land d 15) 4 + Z.land l 15 in
  (b =? 255) = false /\ Z.shiftr (Z.land b 240) 4 = d /\ Z.land b 15 = l.
Proof.
  intros Hd Hl. pose proof nib_all as H. rewrite forallb_forall in H. specialize (H d (in_range15 d Hd)).
  rewrite forallb_forall in H. specialize (H l (in_range15 l Hl)). unfold nib_ok in H. cbv zeta in *.
  apply andb_prop in H as [H H3]. apply andb_prop in H as [H1 H2].
  repeat split; [destruct (_ =? 255); [discriminate|reflexivity]|lia|lia].
Qed.

Definition opt_byte (delta length : Z) : Z := Z.shiftl (Z.land delta 15) 4 + Z.land length 15.
Lemma encode_options_cons prev num v rest : encode_options prev ((num, v) :: rest) =
  ('(delta, extended_delta) <- write_extended_field_value (num - prev) ;;
   '(length, extended_length) <- write_extended_field_value (blen v) ;;
   r <- encode_options num rest ;;
   Ok (opt_byte delta length :: extended_delta ++ extended_length ++ v ++ r)).
Proof. reflexivity. Qed.
Lemma decode_options_cons f num b rest : decode_options (S f) num (b :: rest) =
  if b =? 255 then Ok ([], rest) else
  '(delta, rawdata1) <- read_extended_field_value (Z.shiftr (Z.land b 240) 4) rest ;;
  '(length, rawdata2) <- read_extended_field_value (Z.land b 15) rawdata1 ;;
  if blen rawdata2 <? length then Raise UnparsableMessage else
  r <- decode_options f (num + delta) (bfrom rawdata2 length) ;;
  Ok ((num + delta, bto rawdata2 length) :: fst r, snd r).
Proof. reflexivity. Qed.
Definition payload_tail (pl : list Z) : list Z := match pl with [] => [] | _ => 255 :: pl end.
Theorem options_roundtrip os : forall prev e pl fuel,
  encode_options prev os = Ok e -> (length os <= fuel)%nat ->
  decode_options fuel prev (e ++ payload_tail pl) = Ok (os, pl).
Proof.
  induction os as [|[num v] rest IH]; intros prev e pl fuel He Hf.
  - cbn in He. inv He. cbn [app]. destruct pl as [|x pl]; destruct fuel; cbn; reflexivity.
  - rewrite encode_options_cons in He.
    apply bind_ok_inv in He as [[d dext] [Hd He]]. apply bind_ok_inv in He as [[l lext] [Hl He]].
    apply bind_ok_inv in He as [r [Hr He]]. injection He as <-.
    destruct fuel as [|f]; [cbn in Hf; lia|].
    destruct (ext_roundtrip _ _ _ (lext ++ v ++ r ++ payload_tail pl) Hd) as [Rd Bd].
    destruct (ext_roundtrip _ _ _ (v ++ r ++ payload_tail pl) Hl) as [Rl Bl].
    destruct (nibbles d l Bd Bl) as (N1 & N2 & N3). cbv zeta in N1, N2, N3. fold (opt_byte d l) in N1, N2, N3.
    cbn [app]. rewrite decode_options_cons. rewrite N1, N2, N3.
    rewrite <- !app_assoc. rewrite Rd. cbn [bind]. rewrite Rl. cbn [bind].
    replace (blen (v ++ r ++ payload_tail pl) <? blen v) with false by (rewrite blen_app; pose proof (blen_nonneg (r ++ payload_tail pl)); lia).
    rewrite bto_app, bfrom_app.
    replace (prev + (num - prev)) with num by lia.
    rewrite (IH num r pl f Hr) by (cbn [length] in Hf; lia). reflexivity.
Qed.
Lemma encode_options_length os : forall prev e, encode_options prev os = Ok e -> (length os <= length e)%nat.
Proof.
  induction os as [|[num v] rest IH]; intros prev e He; [cbn; lia|].
  rewrite encode_options_cons in He.
  apply bind_ok_inv in He as [[d dext] [Hd He]]. apply bind_ok_inv in He as [[l lext] [Hl He]].
  apply bind_ok_inv in He as [r [Hr He]]. injection He as <-. apply IH in Hr. cbn [length]. rewrite !app_length. lia.
Qed.

(* parsing the plaintext of a message gives back code, inner options and payload *)
Theorem plaintext_roundtrip c os pl pt pm seqno : plaintext_of c os pl = Ok pt ->
  exists um, unprotect_finish pm pt seqno = Ok um /\ u_code um = c /\ u_opts um = del_opt OPT_OBSERVE os /\ u_payload um = pl /\
    u_observe um =
      (let outer_observe := observe_value (opts pm) in
       if is_request c then match outer_observe with Some 0 => observe_value os | _ => None end
       else match outer_observe with Some _ => Some (match seqno with None => -1 | Some n => n end) | None => observe_value os end).
Proof.
  unfold plaintext_of. destruct ((c <? 0) || (255 <? c)); [discriminate|].
  intros H. apply bind_ok_inv in H as [e [He H]]. inv H.
  fold (payload_tail pl). unfold unprotect_finish.
  rewrite bget_cons0. cbn [bind]. change (bfrom (c :: e ++ payload_tail pl) 1) with (e ++ payload_tail pl).
  rewrite (options_roundtrip os 0 e pl) by (try exact He; apply encode_options_length in He; cbn [length]; rewrite app_length; lia).
  cbn [bind]. eexists. split; [reflexivity|]. cbn [u_code u_opts u_payload u_observe]. repeat split; reflexivity.
Qed.

(* ================================================================== round trip *)

(* ------------------------------------------------------------------ small facts used by the round trip *)
Lemma find_filter_app {A} (p q : A -> bool) os x t : p x = true -> (forall y, q y = true -> p y = false) ->
  find p (filter q os ++ x :: t) = Some x.
Proof.
  intros Hx Hq. induction os as [|y os IH]; cbn [filter app find]; [rewrite Hx; reflexivity|].
  destruct (q y) eqn:E; [|exact IH]. cbn [app find]. rewrite (Hq y E). exact IH.
Qed.
Lemma get_opt_add_oscore os od : get_opt OPT_OSCORE (add_oscore os od) = Some od.
Proof.
  unfold get_opt, add_oscore. cbn [app]. rewrite find_filter_app; [reflexivity|cbn; reflexivity|].
  intros y Hy. cbn in *. unfold OPT_OSCORE in *. lia.
Qed.

Lemma lstrip0_pad p : zeros (blen p - blen (lstrip0 p)) ++ lstrip0 p = p.
Proof.
  induction p as [|x p IH]; [reflexivity|]. cbn [lstrip0].
  destruct x; try (replace (blen (_ :: p) - blen (_ :: p)) with 0 by lia; reflexivity).
  rewrite blen_cons. assert (Hle : blen (lstrip0 p) <= blen p).
  { clear IH. induction p as [|y p IHp]; [cbn; lia|]. cbn [lstrip0]. destruct y; rewrite ?blen_cons; try lia. }
  pose proof (blen_nonneg (lstrip0 p)).
  unfold zeros in *. replace (Z.to_nat (1 + blen p - blen (lstrip0 p))) with (S (Z.to_nat (blen p - blen (lstrip0 p)))) by lia.
  cbn [repeat app]. rewrite IH. reflexivity.
Qed.
Lemma lstrip0_nil p : lstrip0 p = [] -> p = zeros (blen p).
Proof. intros H. pose proof (lstrip0_pad p) as P. rewrite H in P. rewrite app_nil_r in P. change (blen (@nil Z)) with 0 in P. rewrite Z.sub_0_r in P. symmetry. exact P. Qed.
Lemma shorten_piv_pad p : blen p = NONCE_PIV_BYTES -> zeros (NONCE_PIV_BYTES - blen (shorten_piv p)) ++ shorten_piv p = p.
Proof.
  intros Hl. unfold shorten_piv. destruct (lstrip0 p) as [|x s] eqn:E.
  - apply lstrip0_nil in E. rewrite E, Hl. reflexivity.
  - rewrite <- E. rewrite <- Hl. apply lstrip0_pad.
Qed.
Lemma shorten_piv_len p : blen p = NONCE_PIV_BYTES -> 1 <= blen (shorten_piv p) <= NONCE_PIV_BYTES.
Proof.
  intros Hl. pose proof (shorten_piv_pad p Hl) as P. apply (f_equal blen) in P. rewrite blen_app, blen_zeros in P.
  unfold shorten_piv in *. destruct (lstrip0 p) as [|x s]; [cbn; unfold NONCE_PIV_BYTES; lia|].
  rewrite blen_cons in *. pose proof (blen_nonneg s). lia.
Qed.
Lemma lstrip0_ok p : bytes_ok p = true -> bytes_ok (lstrip0 p) = true.
Proof. induction p as [|x p IH]; [reflexivity|]. intros H. cbn [lstrip0]. destruct x; try exact H. apply IH. rewrite bytes_ok_cons in H. apply andb_prop in H as [_ H]. exact H. Qed.
Lemma shorten_piv_ok p : bytes_ok p = true -> bytes_ok (shorten_piv p) = true.
Proof. intros H. unfold shorten_piv. pose proof (lstrip0_ok p H). destruct (lstrip0 p); [reflexivity|assumption]. Qed.
Lemma construct_nonce_short civ p id iv : blen p = NONCE_PIV_BYTES ->
  construct_nonce civ (shorten_piv p) id iv = construct_nonce civ p id iv.
Proof.
  intros Hl. unfold construct_nonce, nonce_components. rewrite (shorten_piv_pad p Hl).
  replace (NONCE_PIV_BYTES - blen p) with 0 by lia. reflexivity.
Qed.

(* what protect does for a request *)
Lemma protect_request_inv E c m kc c' r' pm rid' : is_request (code m) = true ->
  protect E c m None kc = (c', r', Ok (pm, rid')) ->
  exists full nonce pt od,
    blen full = NONCE_PIV_BYTES /\ bytes_ok full = true /\
    construct_nonce (common_iv c) full (sender_id c) (alg_iv_bytes (c_alg c)) = Ok nonce /\
    plaintext_of (code m) (inner_opts m) (payload m) = Ok pt /\
    rid_kid rid' = sender_id c /\ rid_piv rid' = shorten_piv full /\
    compress {| u_piv := Some (shorten_piv full); u_kid := Some (sender_id c);
                u_kid_context := match kc with KcDefault => id_context c | KcOff => None | KcBytes b => Some b end; u_group := false |} = Ok od /\
    (code pm = CODE_POST \/ code pm = CODE_FETCH) /\ opts pm = add_oscore (outer_opts_of m) od /\
    payload pm = enc E (sender_key c) nonce (build_encrypt0_structure (extract_external_aad (c_alg c) rid')) pt.
Proof.
  intros Hreq P. apply protect_inv in P as (om & pt & ns & n & pv & up & _ & S & N & -> & F).
  apply split_message_inv in S as (oc & C & T & ->).
  unfold outer_code_of in C. rewrite Hreq in C.
  assert (Hoc : oc = CODE_POST \/ oc = CODE_FETCH) by (inv C; destruct (get_opt OPT_OBSERVE (opts m)); auto). clear C.
  unfold protect_nonce in N.
  destruct (new_sequence_number c) as [[c1 seqno]|e] eqn:Hseq; [|inv N].
  inv N. rename H2 into N. apply bind_ok_inv in N as [[n0 pv0] [B N]]. inv N.
  unfold build_new_nonce in B. apply bind_ok_inv in B as [full [Hfull B]]. apply bind_ok_inv in B as [nn [Hn B]]. inv B.
  unfold to_bytes_big in Hfull. destruct ((seqno <? 0) || (2 ^ (8 * PIV_FULL_BYTES) <=? seqno)); [discriminate|]. inv Hfull.
  unfold protect_finish in F. rewrite Hreq in F. cbn [code] in F.
  apply bind_ok_inv in F as [[rid0 u0] [Hh F]]. apply bind_ok_inv in Hh as [cs [_ Hh]]. inv Hh.
  apply bind_ok_inv in F as [od [Hc F]]. inv F. cbn [code opts payload rid_kid rid_piv].
  exists (to_bytes_big_n (Z.to_nat PIV_FULL_BYTES) seqno), n, pt, od.
  split; [rewrite blen_tbn; reflexivity|]. split; [apply to_bytes_big_n_ok|].
  repeat split; auto.
Qed.

Definition matched (cA cB : ctx) : Prop :=
  recipient_key cB = sender_key cA /\ recipient_id cB = sender_id cA /\ common_iv cB = common_iv cA /\
  c_alg cB = c_alg cA /\ id_context cB = id_context cA.

(* a protected request, given to the matching context while its Partial IV is fresh, yields the original code,
   class-E options and payload *)
Theorem request_roundtrip E cA cB m cA' r' pm ridA w : ideal E -> matched cA cB ->
  is_request (code m) = true ->
  protect E cA m None KcDefault = (cA', r', Ok (pm, ridA)) ->
  recipient_replay_window cB = Some w -> Proofs.C12.Inv w ->
  Verif.Model.C12.seen w (from_bytes_big (rid_piv ridA)) = false ->
  alg_tag_bytes (c_alg cB) + 1 <= blen (payload pm) ->
  exists cB' um ridB,
    unprotect E cB pm None = (cB', Ok (um, ridB)) /\
    u_code um = code m /\ u_opts um = del_opt OPT_OBSERVE (inner_opts m) /\ u_payload um = payload m /\
    u_observe um = match observe_value (opts pm) with Some 0 => observe_value (inner_opts m) | _ => None end /\
    rid_kid ridB = rid_kid ridA /\ rid_piv ridB = rid_piv ridA /\ can_reuse_nonce ridB = true /\
    exists w', recipient_replay_window cB' = Some w' /\ Verif.Model.C12.seen w' (from_bytes_big (rid_piv ridA)) = true.
Proof.
  intros (Hde & _ & _) (Mk & Mid & Mciv & Malg & Mctx) Hreq P Hw Hinv Hfresh Hlen.
  apply (protect_request_inv _ _ _ _ _ _ _ _ Hreq) in P as (full & nonce & pt & od & Lf & Bf & Hn & Hpt & Rk & Rp & Hc & Hcode & Hopts & Hpay).
  assert (Hplen : 1 <= blen (shorten_piv full) <= NONCE_PIV_BYTES) by (apply shorten_piv_len; exact Lf).
  assert (Hu : uncompress od = Ok {| u_piv := Some (shorten_piv full); u_kid := Some (sender_id cA); u_kid_context := id_context cA; u_group := false |}).
  { apply compress_uncompress; [|exact Hc]. split; cbn [u_piv u_kid_context].
    - unfold PIVSZ_MAX, NONCE_PIV_BYTES in *. lia.
    - unfold compress in Hc. cbn [u_piv u_kid u_kid_context u_group] in Hc.
      destruct (blen (shorten_piv full) >? COMPRESSION_BITS_N); [discriminate|].
      destruct (id_context cA) as [kc|]; [|exact I]. cbn [bind] in Hc.
      destruct (blen kc >? KID_CONTEXT_MAX) eqn:Ek; [discriminate|]. lia. }
  assert (Hseq : 0 <= from_bytes_big (shorten_piv full)) by (apply from_bytes_big_nonneg, shorten_piv_ok; exact Bf).
  rewrite Rp in Hfresh.
  destruct (Proofs.C12.strike_out_spec w _ Hinv Hseq) as [[Hs _]|[_ [w' [Hs [_ [_ [_ [Hseen' _]]]]]]]]; [congruence|].
  unfold unprotect, unprotect_verify.
  assert (Hnr : is_response (code pm) = false) by (destruct Hcode as [-> | ->]; reflexivity).
  rewrite Hnr. cbn [Bool.eqb massert bind].
  rewrite Hopts, get_opt_add_oscore, Hu. cbn [bind u_piv u_kid u_kid_context u_group].
  rewrite Mctx. replace (opt_beqb (match id_context cA with Some x => Some x | None => id_context cA end) (id_context cA)) with true
    by (destruct (id_context cA); cbn; [rewrite beqb_refl|]; reflexivity).
  rewrite Mid, beqb_refl. cbn [negb]. rewrite Hw.
  rewrite (Proofs.C12.is_valid_spec w _ Hinv Hseq), Hfresh. cbn [bind negb].
  assert (Hcs : exists cs, code_style_from_request (code pm) = Ok cs) by (unfold code_style_from_request; destruct Hcode as [-> | ->]; cbn; eauto).
  destruct Hcs as [cs Hcs]. rewrite Hcs. cbn [bind].
  replace (blen (payload pm) <? alg_tag_bytes (c_alg cB) + 1) with false by lia.
  rewrite Mciv, Malg, construct_nonce_short, Hn by exact Lf. cbn [bind].
  rewrite Mk, Hpay.
  replace (extract_external_aad (c_alg cA) {| rid_kid := sender_id cA; rid_piv := shorten_piv full; can_reuse_nonce := true; code_style := cs |})
    with (extract_external_aad (c_alg cA) ridA) by (unfold extract_external_aad; cbn [rid_kid rid_piv]; rewrite Rk, Rp; reflexivity).
  rewrite Hde. rewrite Hs. cbn [bind].
  destruct (plaintext_roundtrip _ _ _ _ pm (Some (from_bytes_big (shorten_piv full))) Hpt) as (um & Hfin & U1 & U2 & U3 & U4).
  rewrite Hfin. cbn [bind].
  eexists _, _, _. split; [reflexivity|]. cbn [rid_kid rid_piv can_reuse_nonce].
  rewrite Hreq in U4. cbv zeta in U4.
  split; [exact U1|]. split; [exact U2|]. split; [exact U3|]. split; [rewrite <- Hopts; exact U4|].
  split; [congruence|]. split; [congruence|]. split; [reflexivity|].
  exists w'. cbn [recipient_replay_window set_window]. split; [reflexivity|]. rewrite Rp. exact Hseen'.
Qed.

Lemma uncompress_nil : uncompress [] = Ok {| u_piv := None; u_kid := None; u_kid_context := None; u_group := false |}.
Proof. reflexivity. Qed.
(* the first response to a request (the request's nonce is reused, the OSCORE option is empty), unprotected by the requester with the
   identifiers of that request: original code, options and payload *)
Theorem response_roundtrip E cS cC m rS rC cS' r' pm ridS : ideal E ->
  recipient_key cC = sender_key cS -> common_iv cC = common_iv cS -> c_alg cC = c_alg cS ->
  is_response (code m) = true -> responses_send_kid cS = false ->
  can_reuse_nonce rS = true -> rid_kid rC = rid_kid rS -> rid_piv rC = rid_piv rS ->
  (snd (code_style rS) = CODE_CHANGED \/ snd (code_style rS) = CODE_CONTENT) ->
  protect E cS m (Some rS) KcDefault = (cS', r', Ok (pm, ridS)) ->
  alg_tag_bytes (c_alg cC) + 1 <= blen (payload pm) ->
  exists um,
    unprotect E cC pm (Some rC) = (cC, Ok (um, rC)) /\
    u_code um = code m /\ u_opts um = del_opt OPT_OBSERVE (opts m) /\ u_payload um = payload m /\
    u_observe um = observe_value (opts m) /\
    opts pm = [(OPT_OSCORE, [])] /\ can_reuse_nonce ridS = false.
Proof.
  intros (Hde & _ & _) Mk Mciv Malg Hresp Hsk Hreuse Rk Rp Hstyle P Hlen.
  assert (Hnreq : is_request (code m) = false).
  { unfold is_response, is_request in *. destruct (1 <=? code m) eqn:E1, (code m <? 32) eqn:E2, (64 <=? code m) eqn:E3; cbn in *; try reflexivity; try discriminate; lia. }
  apply protect_inv in P as (om & pt & ns & n & pv & up & _ & S & N & -> & F).
  apply split_message_inv in S as (oc & C & T & ->).
  unfold outer_code_of in C. rewrite Hnreq in C. injection C as <-.
  unfold protect_nonce, get_reusable_kid_and_piv in N. rewrite Hreuse in N. injection N as <- <- N.
  apply bind_ok_inv in N as [nn [Hn N]]. injection N as <- <- <-.
  unfold protect_finish in F. rewrite Hnreq, Hsk in F. cbn [bind] in F.
  unfold compress in F. cbn [u_piv u_kid u_kid_context u_group blen length Z.of_nat] in F.
  change (0 >? COMPRESSION_BITS_N) with false in F. cbn [bind Z.eqb app] in F. injection F as <- <-.
  unfold outer_opts_of. rewrite Hnreq, Hresp. cbn [app code opts payload].
  change (add_oscore [] []) with [(OPT_OSCORE, @nil Z)].
  unfold inner_opts in T. rewrite Hnreq in T.
  destruct (plaintext_roundtrip _ _ _ _ {| code := snd (code_style rS); opts := [(OPT_OSCORE, [])]; payload := enc E (sender_key cS) nn
              (build_encrypt0_structure (extract_external_aad (c_alg cS) {| rid_kid := rid_kid rS; rid_piv := rid_piv rS; can_reuse_nonce := false; code_style := code_style rS |})) pt |} None T)
    as (um & Hfin & U1 & U2 & U3 & U4).
  exists um. unfold unprotect, unprotect_verify. cbn [code opts payload] in *.
  assert (Hr : is_response (snd (code_style rS)) = true) by (destruct Hstyle as [-> | ->]; reflexivity).
  rewrite Hr. cbn [Bool.eqb massert bind].
  unfold get_opt. cbn [find fst snd]. change (OPT_OSCORE =? OPT_OSCORE) with true. cbv iota. cbn [snd].
  rewrite uncompress_nil.
  cbn [bind u_piv u_kid u_kid_context u_group].
  replace (opt_beqb (id_context cC) (id_context cC)) with true by (destruct (id_context cC); cbn; [rewrite beqb_refl|]; reflexivity).
  rewrite beqb_refl. cbn [negb bind].
  cbn [payload] in Hlen. replace (blen (enc E (sender_key cS) nn _ pt) <? alg_tag_bytes (c_alg cC) + 1) with false by lia.
  rewrite Mciv, Malg, Rk, Rp, Hn. cbn [bind]. rewrite Mk.
  replace (extract_external_aad (c_alg cS) rC) with (extract_external_aad (c_alg cS) {| rid_kid := rid_kid rS; rid_piv := rid_piv rS; can_reuse_nonce := false; code_style := code_style rS |})
    by (unfold extract_external_aad; cbn [rid_kid rid_piv]; rewrite Rk, Rp; reflexivity).
  rewrite Hde. cbn [bind]. rewrite Hfin. cbn [bind].
  replace (set_window cC (recipient_replay_window cC)) with cC by (destruct cC; reflexivity).
  split; [reflexivity|]. split; [exact U1|]. split; [exact U2|]. split; [exact U3|].
  split; [|split; reflexivity].
  rewrite U4. rewrite Hnreq. reflexivity.
Qed.

(* ================================================================== round 2: all responses, binding, option malleability *)

Lemma not_request_of_response c : is_response c = true -> is_request c = false.
Proof. unfold is_response, is_request. destruct (1 <=? c) eqn:E1, (c <? 32) eqn:E2, (64 <=? c) eqn:E3; cbn; intros; try reflexivity; try discriminate; lia. Qed.

(* the Partial IV protect puts into the option when it draws sequence number [s] *)
Definition piv_of_seq (s : Z) : list Z := shorten_piv (to_bytes_big_n (Z.to_nat PIV_FULL_BYTES) s).

(* what protect does for a response *)
Lemma protect_response_inv E c m rS kc c' r' pm ridS : is_response (code m) = true ->
  protect E c m (Some rS) kc = (c', r', Ok (pm, ridS)) ->
  exists pivs gen nonce upiv pt od,
    ridS = {| rid_kid := rid_kid rS; rid_piv := rid_piv rS; can_reuse_nonce := false; code_style := code_style rS |} /\
    r' = Some ridS /\
    ((can_reuse_nonce rS = true /\ upiv = None /\ pivs = rid_piv rS /\ gen = rid_kid rS /\ c' = c) \/
     (can_reuse_nonce rS = false /\ upiv = Some (piv_of_seq (sender_sequence_number c)) /\
      pivs = to_bytes_big_n (Z.to_nat PIV_FULL_BYTES) (sender_sequence_number c) /\ gen = sender_id c /\
      c' = set_seq c (sender_sequence_number c + 1) /\ sender_sequence_number c < MAX_SEQNO)) /\
    construct_nonce (common_iv c) pivs gen (alg_iv_bytes (c_alg c)) = Ok nonce /\
    plaintext_of (code m) (opts m) (payload m) = Ok pt /\
    compress {| u_piv := upiv; u_kid := if responses_send_kid c then Some (sender_id c) else None; u_kid_context := None; u_group := false |} = Ok od /\
    code pm = snd (code_style rS) /\ opts pm = [(OPT_OSCORE, od)] /\
    payload pm = enc E (sender_key c) nonce (build_encrypt0_structure (extract_external_aad (c_alg c) ridS)) pt.
Proof.
  intros Hresp P. pose proof (not_request_of_response _ Hresp) as Hnreq.
  apply protect_inv in P as (om & pt & ns & n & pv & up & _ & S & N & -> & F).
  apply split_message_inv in S as (oc & C & T & ->).
  unfold outer_code_of in C. rewrite Hnreq in C. injection C as <-.
  unfold inner_opts in T. rewrite Hnreq in T.
  unfold protect_finish in F. rewrite Hnreq in F.
  unfold outer_opts_of in F. rewrite Hnreq, Hresp in F. cbn [app code opts] in F.
  unfold protect_nonce, get_reusable_kid_and_piv in N.
  destruct (can_reuse_nonce rS) eqn:Hreuse.
  - injection N as <- <- N. apply bind_ok_inv in N as [nn [Hn N]]. injection N as <- <- <-.
    cbn [bind] in F. apply bind_ok_inv in F as [od [Hc F]]. injection F as <- <-.
    exists (rid_piv rS), (rid_kid rS), nn, None, pt, od. cbn [code opts payload].
    split; [reflexivity|]. split; [reflexivity|]. split; [left; auto|].
    split; [exact Hn|]. split; [exact T|]. split; [exact Hc|]. split; [reflexivity|]. split; reflexivity.
  - unfold new_sequence_number in N.
    destruct (sender_sequence_number c >=? MAX_SEQNO) eqn:Hmax; [inv N|].
    injection N as <- <- N. apply bind_ok_inv in N as [[n0 pv0] [B N]]. injection N as <- <- <-.
    unfold build_new_nonce in B. apply bind_ok_inv in B as [full [Hfull B]]. apply bind_ok_inv in B as [nn [Hn B]]. injection B as <- <-.
    unfold to_bytes_big in Hfull. destruct ((sender_sequence_number c <? 0) || (2 ^ (8 * PIV_FULL_BYTES) <=? sender_sequence_number c)); [discriminate|].
    injection Hfull as <-.
    cbn [bind] in F. apply bind_ok_inv in F as [od [Hc F]]. injection F as <- <-.
    exists (to_bytes_big_n (Z.to_nat PIV_FULL_BYTES) (sender_sequence_number c)), (sender_id c), nn, (Some (piv_of_seq (sender_sequence_number c))), pt, od.
    cbn [code opts payload].
    split; [destruct rS; cbn in *; subst; reflexivity|]. split; [destruct rS; cbn in *; subst; reflexivity|].
    split. { right. repeat split; try reflexivity. lia. }
    split; [exact Hn|]. split; [exact T|]. split; [exact Hc|]. split; [reflexivity|]. split; [reflexivity|].
    destruct rS; cbn in *; subst; reflexivity.
Qed.

Lemma set_obs_single od oobs : set_opt OPT_OBSERVE oobs [(OPT_OSCORE, od)] =
  match oobs with Some v => [(OPT_OBSERVE, v); (OPT_OSCORE, od)] | None => [(OPT_OSCORE, od)] end.
Proof. destruct oobs; reflexivity. Qed.
Lemma get_oscore_obs od oobs : get_opt OPT_OSCORE (match oobs with Some v => [(OPT_OBSERVE, v); (OPT_OSCORE, od)] | None => [(OPT_OSCORE, od)] end) = Some od.
Proof. destruct oobs; reflexivity. Qed.
Lemma observe_value_obs od oobs : observe_value (match oobs with Some v => [(OPT_OBSERVE, v); (OPT_OSCORE, od)] | None => [(OPT_OSCORE, od)] end) =
  match oobs with Some v => Some (from_bytes_big v) | None => None end.
Proof. destruct oobs; reflexivity. Qed.

(* Every response — the first one (reused nonce) or one with an own Partial IV (notification), with or without the kid —
   unprotected by the requester with the identifiers of the request it answers, whatever outer Observe an intermediary or the
   server stack put on it: original code, options and payload; Observe per RFC 8613 4.1.3.5.2 (outer Observe present: the
   response's own sequence number, or -1 when it has none; absent: the inner value). *)
Theorem response_roundtrip_any E cS cC m rS rC kc cS' r' pm ridS oobs : ideal E ->
  recipient_key cC = sender_key cS -> recipient_id cC = sender_id cS -> common_iv cC = common_iv cS -> c_alg cC = c_alg cS ->
  is_response (code m) = true -> rid_kid rC = rid_kid rS -> rid_piv rC = rid_piv rS ->
  (snd (code_style rS) = CODE_CHANGED \/ snd (code_style rS) = CODE_CONTENT) ->
  protect E cS m (Some rS) kc = (cS', r', Ok (pm, ridS)) ->
  alg_tag_bytes (c_alg cC) + 1 <= blen (payload pm) ->
  exists um,
    unprotect E cC {| code := code pm; opts := set_opt OPT_OBSERVE oobs (opts pm); payload := payload pm |} (Some rC) = (cC, Ok (um, rC)) /\
    u_code um = code m /\ u_opts um = del_opt OPT_OBSERVE (opts m) /\ u_payload um = payload m /\
    u_observe um = match oobs with
                   | None => observe_value (opts m)
                   | Some _ => Some (if can_reuse_nonce rS then -1 else from_bytes_big (piv_of_seq (sender_sequence_number cS)))
                   end /\
    rid_kid ridS = rid_kid rS /\ rid_piv ridS = rid_piv rS.
Proof.
  intros (Hde & _ & _) Mk Mid Mciv Malg Hresp Rk Rp Hstyle P Hlen.
  pose proof (not_request_of_response _ Hresp) as Hnreq.
  apply (protect_response_inv _ _ _ _ _ _ _ _ _ Hresp) in P as (pivs & gen & nonce & upiv & pt & od & HridS & _ & Hcase & Hn & Hpt & Hc & Hcode & Hopts & Hpay).
  set (pm' := {| code := code pm; opts := set_opt OPT_OBSERVE oobs (opts pm); payload := payload pm |}).
  assert (Hfull : blen (to_bytes_big_n (Z.to_nat PIV_FULL_BYTES) (sender_sequence_number cS)) = NONCE_PIV_BYTES) by (rewrite blen_tbn; reflexivity).
  assert (Hu : uncompress od = Ok {| u_piv := upiv; u_kid := if responses_send_kid cS then Some (sender_id cS) else None; u_kid_context := None; u_group := false |}).
  { apply compress_uncompress; [|exact Hc]. split; cbn [u_piv u_kid_context]; [|exact I].
    destruct Hcase as [(_ & -> & _)|(_ & -> & _)]; [exact I|].
    pose proof (shorten_piv_len _ Hfull). unfold piv_of_seq, PIVSZ_MAX, NONCE_PIV_BYTES in *. lia. }
  destruct (plaintext_roundtrip _ _ _ _ pm' (match upiv with Some p => Some (from_bytes_big p) | None => None end) Hpt) as (um & Hfin & U1 & U2 & U3 & U4).
  exists um.
  assert (Hr : is_response (code pm) = true) by (rewrite Hcode; destruct Hstyle as [-> | ->]; reflexivity).
  unfold unprotect, unprotect_verify. cbn [code opts payload pm'] in *. rewrite Hr. cbn [Bool.eqb massert bind].
  rewrite Hopts, set_obs_single, get_oscore_obs, Hu. cbn [bind u_piv u_kid u_kid_context u_group].
  replace (opt_beqb (id_context cC) (id_context cC)) with true by (destruct (id_context cC); cbn; [rewrite beqb_refl|]; reflexivity).
  replace (beqb (match (if responses_send_kid cS then Some (sender_id cS) else None) with Some k => k | None => recipient_id cC end) (recipient_id cC)) with true
    by (destruct (responses_send_kid cS); rewrite <- ?Mid, beqb_refl; reflexivity).
  cbn [negb].
  assert (Haad : extract_external_aad (c_alg cS) rC = extract_external_aad (c_alg cS) ridS)
    by (rewrite HridS; unfold extract_external_aad; cbn [rid_kid rid_piv]; rewrite Rk, Rp; reflexivity).
  replace (blen (payload pm) <? alg_tag_bytes (c_alg cC) + 1) with false by lia.
  rewrite Hopts, set_obs_single, observe_value_obs in U4. rewrite Hnreq in U4. cbv zeta in U4.
  destruct Hcase as [(Hreuse & -> & -> & -> & ->)|(Hreuse & -> & -> & -> & -> & _)]; cbn [bind].
  - rewrite Mciv, Malg, Rk, Rp, Hn. cbn [bind]. rewrite Mk, Haad, Hpay, Hde. cbn [bind]. rewrite Hfin. cbn [bind].
    replace (set_window cC (recipient_replay_window cC)) with cC by (destruct cC; reflexivity).
    split; [reflexivity|]. split; [exact U1|]. split; [exact U2|]. split; [exact U3|].
    split; [|rewrite HridS; split; reflexivity].
    rewrite U4, Hreuse. destruct oobs; reflexivity.
  - rewrite Mciv, Malg, Mid. unfold piv_of_seq. rewrite construct_nonce_short by exact Hfull. rewrite Hn. cbn [bind].
    rewrite Mk, Haad, Hpay, Hde. cbn [bind]. fold (piv_of_seq (sender_sequence_number cS)). rewrite Hfin. cbn [bind].
    replace (set_window cC (recipient_replay_window cC)) with cC by (destruct cC; reflexivity).
    split; [reflexivity|]. split; [exact U1|]. split; [exact U2|]. split; [exact U3|].
    split; [|rewrite HridS; split; reflexivity].
    rewrite U4, Hreuse. destruct oobs; reflexivity.
Qed.

(* a response with an own Partial IV (notification, or any response after the request's nonce was used): protect draws a fresh
   sequence number, the OSCORE option carries it in shortest form, the nonce is built from that Partial IV and the responder's id,
   the AAD carries the REQUEST's kid and Partial IV; the requester gets code, options and payload back, and Observe = the
   notification's sequence number when the outer Observe is present *)
Theorem notification_roundtrip E cS cC m rS rC kc cS' r' pm ridS oobs : ideal E ->
  recipient_key cC = sender_key cS -> recipient_id cC = sender_id cS -> common_iv cC = common_iv cS -> c_alg cC = c_alg cS ->
  is_response (code m) = true -> can_reuse_nonce rS = false -> rid_kid rC = rid_kid rS -> rid_piv rC = rid_piv rS ->
  (snd (code_style rS) = CODE_CHANGED \/ snd (code_style rS) = CODE_CONTENT) ->
  protect E cS m (Some rS) kc = (cS', r', Ok (pm, ridS)) ->
  alg_tag_bytes (c_alg cC) + 1 <= blen (payload pm) ->
  let seq := sender_sequence_number cS in
  (exists um,
    unprotect E cC {| code := code pm; opts := set_opt OPT_OBSERVE oobs (opts pm); payload := payload pm |} (Some rC) = (cC, Ok (um, rC)) /\
    u_code um = code m /\ u_opts um = del_opt OPT_OBSERVE (opts m) /\ u_payload um = payload m /\
    u_observe um = match oobs with None => observe_value (opts m) | Some _ => Some (from_bytes_big (piv_of_seq seq)) end) /\
  seq < MAX_SEQNO /\ sender_sequence_number cS' = seq + 1 /\
  (exists od, opts pm = [(OPT_OSCORE, od)] /\
     uncompress od = Ok {| u_piv := Some (piv_of_seq seq); u_kid := if responses_send_kid cS then Some (sender_id cS) else None;
                           u_kid_context := None; u_group := false |}) /\
  (exists nonce pt,
     construct_nonce (common_iv cS) (to_bytes_big_n (Z.to_nat PIV_FULL_BYTES) seq) (sender_id cS) (alg_iv_bytes (c_alg cS)) = Ok nonce /\
     payload pm = enc E (sender_key cS) nonce
       (build_encrypt0_structure (extract_external_aad (c_alg cS)
          {| rid_kid := rid_kid rS; rid_piv := rid_piv rS; can_reuse_nonce := false; code_style := code_style rS |})) pt).
Proof.
  intros HI Mk Mid Mciv Malg Hresp Hreuse Rk Rp Hstyle P Hlen seq. subst seq.
  destruct (response_roundtrip_any E cS cC m rS rC kc cS' r' pm ridS oobs HI Mk Mid Mciv Malg Hresp Rk Rp Hstyle P Hlen)
    as (um & H1 & H2 & H3 & H4 & H5 & _).
  rewrite Hreuse in H5.
  apply (protect_response_inv _ _ _ _ _ _ _ _ _ Hresp) in P as (pivs & gen & nonce & upiv & pt & od & HridS & _ & Hcase & Hn & Hpt & Hc & Hcode & Hopts & Hpay).
  destruct Hcase as [(Hx & _)|(_ & -> & -> & -> & -> & Hmax)]; [congruence|].
  split; [exists um; repeat split; assumption|].
  split; [exact Hmax|]. split; [reflexivity|].
  split.
  { exists od. split; [exact Hopts|]. apply compress_uncompress; [|exact Hc]. split; cbn [u_piv u_kid_context]; [|exact I].
    assert (Hfull : blen (to_bytes_big_n (Z.to_nat PIV_FULL_BYTES) (sender_sequence_number cS)) = NONCE_PIV_BYTES) by (rewrite blen_tbn; reflexivity).
    pose proof (shorten_piv_len _ Hfull). unfold piv_of_seq, PIVSZ_MAX, NONCE_PIV_BYTES in *. lia. }
  exists nonce, pt. split; [exact Hn|]. rewrite <- HridS. exact Hpay.
Qed.

(* a protected response — first or with its own Partial IV — that is accepted under the request identifiers (k1, p1) was produced
   for (k1, p1): it cannot be replayed against another request *)
Theorem response_not_replayable_against_other_request E cS m rS kc cS' rS' pmS ridS cR pm rR cR' pt seqno ridR : ideal E ->
  small_alg (c_alg cS) -> small_alg (c_alg cR) -> small_rid rS -> small_rid rR ->
  is_response (code m) = true ->
  protect E cS m (Some rS) kc = (cS', rS', Ok (pmS, ridS)) ->
  unprotect_verify E cR pm (Some rR) = Ok (cR', pt, seqno, ridR) ->
  payload pm = payload pmS ->
  rid_kid rR = rid_kid rS /\ rid_piv rR = rid_piv rS.
Proof.
  intros HI As Ar Ss Sr Hresp P U Hp.
  pose proof P as P0. apply (protect_response_inv _ _ _ _ _ _ _ _ _ Hresp) in P0 as (_ & _ & _ & _ & _ & _ & HridS & _).
  pose proof U as U0. apply unprotect_verify_inv in U0 as (od & u & pivs & gen & nonce & _ & _ & _ & _ & _ & Hm & _).
  assert (HridR : ridR = rR) by (destruct (u_piv u); destruct Hm as (_ & _ & Hm & _); exact Hm).
  assert (Ss' : small_rid ridS) by (rewrite HridS; exact Ss).
  assert (Sr' : small_rid ridR) by (rewrite HridR; exact Sr).
  destruct (accepted_implies_unchanged E cS m (Some rS) kc cS' rS' pmS ridS cR pm (Some rR) cR' pt seqno ridR HI As Ar Ss' Sr' P U Hp) as (_ & _ & Hk & Hpv & _).
  rewrite HridR, HridS in Hk, Hpv. cbn [rid_kid rid_piv] in Hk, Hpv. split; assumption.
Qed.

(* What acceptance of a sender's request ciphertext says about the OSCORE option of the accepted message — with the limits made
   explicit: the Partial IV field is the sender's byte for byte (it is in the AAD); KID and ID context are bound only through their
   EFFECTIVE values (the field, or the recipient's own id / id context when the field is absent), because the OSCORE option itself is
   not part of the AAD (RFC 8613 5.4).  Removing those fields, or bytes after the last field, is therefore not detected: see the
   _refuted witnesses in Props/C11.v and the open known findings C11:accepted-option-change:*. *)
Theorem request_option_change_detected E cS m kc cS' rS' pmS ridS cR pm cR' pt seqno ridR od' u' : ideal E ->
  small_alg (c_alg cS) -> small_alg (c_alg cR) -> small_rid ridS -> small_rid ridR ->
  is_request (code m) = true ->
  protect E cS m None kc = (cS', rS', Ok (pmS, ridS)) ->
  unprotect_verify E cR pm None = Ok (cR', pt, seqno, ridR) ->
  payload pm = payload pmS ->
  get_opt OPT_OSCORE (opts pm) = Some od' -> uncompress od' = Ok u' ->
  u_piv u' = Some (rid_piv ridS) /\ eff_kid cR u' = sender_id cS /\ eff_kid_context cR u' = id_context cR /\ u_group u' = false.
Proof.
  intros HI As Ar Ss Sr Hreq P U Hp Hod Hu.
  destruct (accepted_implies_unchanged E cS m None kc cS' rS' pmS ridS cR pm None cR' pt seqno ridR HI As Ar Ss Sr P U Hp) as (_ & _ & Hk & Hpv & _).
  apply (protect_request_inv _ _ _ _ _ _ _ _ Hreq) in P as (full & nonce & pt0 & od & _ & _ & _ & _ & Rk & _).
  apply unprotect_verify_inv in U as (od0 & u & pivs & gen & nn & Hod0 & Hu0 & Hctx & Hkid & Hg & Hm & _).
  rewrite Hod in Hod0. injection Hod0 as <-. rewrite Hu in Hu0. injection Hu0 as <-.
  destruct (u_piv u') as [p|]; [|contradiction].
  destruct Hm as (_ & _ & Hrk & Hrp & _).
  split; [congruence|]. split; [congruence|]. split; assumption.
Qed.

(* ================================================================== round 5: clause-audit gaps *)

(* As the code is, no request carrying Proxy-Uri can be protected at all (open finding): protect raises IncompleteUrlError before any
   state changes.  So the round-trip and outer-shape theorems say nothing about proxied requests — their hypothesis protect = Ok is
   unsatisfiable for them. *)
Theorem proxy_uri_request_refuted E c m kc v : is_request (code m) = true -> get_opt OPT_PROXY_URI (opts m) = Some v ->
  protect E c m None kc = (c, None, Raise IncompleteUrlError).
Proof.
  intros Hreq Hp. unfold protect. rewrite Hreq. cbn [Bool.eqb massert bind].
  unfold split_message. rewrite Hreq, Hp. reflexivity.
Qed.

Definition kc_sent (c : ctx) (kc : kc_arg) : option (list Z) :=
  match kc with KcDefault => id_context c | KcOff => None | KcBytes b => Some b end.
Definition matched_keys (cA cB : ctx) : Prop :=
  recipient_key cB = sender_key cA /\ recipient_id cB = sender_id cA /\ common_iv cB = common_iv cA /\ c_alg cB = c_alg cA.
Theorem request_roundtrip_kc E cA cB m kc cA' r' pm ridA w : ideal E -> matched_keys cA cB ->
  match kc_sent cA kc with Some x => id_context cB = Some x | None => True end ->
  is_request (code m) = true ->
  protect E cA m None kc = (cA', r', Ok (pm, ridA)) ->
  recipient_replay_window cB = Some w -> Proofs.C12.Inv w ->
  Verif.Model.C12.seen w (from_bytes_big (rid_piv ridA)) = false ->
  alg_tag_bytes (c_alg cB) + 1 <= blen (payload pm) ->
  exists cB' um ridB,
    unprotect E cB pm None = (cB', Ok (um, ridB)) /\
    u_code um = code m /\ u_opts um = del_opt OPT_OBSERVE (inner_opts m) /\ u_payload um = payload m /\
    u_observe um = match observe_value (opts pm) with Some 0 => observe_value (inner_opts m) | _ => None end /\
    rid_kid ridB = rid_kid ridA /\ rid_piv ridB = rid_piv ridA /\ can_reuse_nonce ridB = true /\
    exists w', recipient_replay_window cB' = Some w' /\ Verif.Model.C12.seen w' (from_bytes_big (rid_piv ridA)) = true.
Proof.
  intros (Hde & _ & _) (Mk & Mid & Mciv & Malg) Mctx Hreq P Hw Hinv Hfresh Hlen.
  apply (protect_request_inv _ _ _ _ _ _ _ _ Hreq) in P as (full & nonce & pt & od & Lf & Bf & Hn & Hpt & Rk & Rp & Hc & Hcode & Hopts & Hpay).
  assert (Hplen : 1 <= blen (shorten_piv full) <= NONCE_PIV_BYTES) by (apply shorten_piv_len; exact Lf).
  assert (Hu : uncompress od = Ok {| u_piv := Some (shorten_piv full); u_kid := Some (sender_id cA); u_kid_context := kc_sent cA kc; u_group := false |}).
  { apply compress_uncompress; [|exact Hc]. split; cbn [u_piv u_kid_context].
    - unfold PIVSZ_MAX, NONCE_PIV_BYTES in *. lia.
    - unfold compress in Hc. cbn [u_piv u_kid u_kid_context u_group] in Hc.
      destruct (blen (shorten_piv full) >? COMPRESSION_BITS_N); [discriminate|].
      fold (kc_sent cA kc) in Hc. destruct (kc_sent cA kc) as [kc0|]; [|exact I]. cbn [bind] in Hc.
      destruct (blen kc0 >? KID_CONTEXT_MAX) eqn:Ek; [discriminate|]. lia. }
  assert (Hseq : 0 <= from_bytes_big (shorten_piv full)) by (apply from_bytes_big_nonneg, shorten_piv_ok; exact Bf).
  rewrite Rp in Hfresh.
  destruct (Proofs.C12.strike_out_spec w _ Hinv Hseq) as [[Hs _]|[_ [w' [Hs [_ [_ [_ [Hseen' _]]]]]]]]; [congruence|].
  unfold unprotect, unprotect_verify.
  assert (Hnr : is_response (code pm) = false) by (destruct Hcode as [-> | ->]; reflexivity).
  rewrite Hnr. cbn [Bool.eqb massert bind].
  rewrite Hopts, get_opt_add_oscore, Hu. cbn [bind u_piv u_kid u_kid_context u_group].
  replace (opt_beqb (match kc_sent cA kc with Some x => Some x | None => id_context cB end) (id_context cB)) with true
    by (destruct (kc_sent cA kc); [rewrite Mctx|]; destruct (id_context cB); cbn; rewrite ?beqb_refl; reflexivity).
  rewrite Mid, beqb_refl. cbn [negb]. rewrite Hw.
  rewrite (Proofs.C12.is_valid_spec w _ Hinv Hseq), Hfresh. cbn [bind negb].
  assert (Hcs : exists cs, code_style_from_request (code pm) = Ok cs) by (unfold code_style_from_request; destruct Hcode as [-> | ->]; cbn; eauto).
  destruct Hcs as [cs Hcs]. rewrite Hcs. cbn [bind].
  replace (blen (payload pm) <? alg_tag_bytes (c_alg cB) + 1) with false by lia.
  rewrite Mciv, Malg, construct_nonce_short, Hn by exact Lf. cbn [bind].
  rewrite Mk, Hpay.
  replace (extract_external_aad (c_alg cA) {| rid_kid := sender_id cA; rid_piv := shorten_piv full; can_reuse_nonce := true; code_style := cs |})
    with (extract_external_aad (c_alg cA) ridA) by (unfold extract_external_aad; cbn [rid_kid rid_piv]; rewrite Rk, Rp; reflexivity).
  rewrite Hde. rewrite Hs. cbn [bind].
  destruct (plaintext_roundtrip _ _ _ _ pm (Some (from_bytes_big (shorten_piv full))) Hpt) as (um & Hfin & U1 & U2 & U3 & U4).
  rewrite Hfin. cbn [bind].
  eexists _, _, _. split; [reflexivity|]. cbn [rid_kid rid_piv can_reuse_nonce].
  rewrite Hreq in U4. cbv zeta in U4.
  split; [exact U1|]. split; [exact U2|]. split; [exact U3|]. split; [rewrite <- Hopts; exact U4|].
  split; [congruence|]. split; [congruence|]. split; [reflexivity|].
  exists w'. cbn [recipient_replay_window set_window]. split; [reflexivity|]. rewrite Rp. exact Hseen'.
Qed.

(* The own Partial IV of a response (which is not in the AAD) is bound by the nonce: if a message carrying the ciphertext of a sender's
   own-PIV response is accepted by a context with the same common IV and algorithm, then its OSCORE option carries a Partial IV, that
   Partial IV is numerically the sender's sequence number (equal after left-padding to 5 bytes — the encoding itself is NOT bound, see
   C11_response_piv_kid_change_refuted), and the recipient's recipient id is the sender's sender id. *)
Theorem response_own_piv_bound E cS m rS kc cS' rS' pmS ridS cR pm rR cR' pt seqno ridR od u : ideal E ->
  common_iv cR = common_iv cS -> c_alg cR = c_alg cS ->
  blen (sender_id cS) <= alg_iv_bytes (c_alg cS) - NONCE_ID_OVERHEAD -> blen (recipient_id cR) <= alg_iv_bytes (c_alg cS) - NONCE_ID_OVERHEAD ->
  admissible_rid cR rR -> rid_kid rR <> sender_id cS ->
  is_response (code m) = true -> can_reuse_nonce rS = false ->
  protect E cS m (Some rS) kc = (cS', rS', Ok (pmS, ridS)) ->
  unprotect_verify E cR pm (Some rR) = Ok (cR', pt, seqno, ridR) -> payload pm = payload pmS ->
  get_opt OPT_OSCORE (opts pm) = Some od -> uncompress od = Ok u ->
  exists p, u_piv u = Some p /\ recipient_id cR = sender_id cS /\
    zeros (NONCE_PIV_BYTES - blen p) ++ p = to_bytes_big_n (Z.to_nat PIV_FULL_BYTES) (sender_sequence_number cS) /\
    seqno = Some (from_bytes_big p).
Proof.
  intros HI Mciv Malg Bs Br [Bk Bp] Hne Hresp Hreuse P U Hp Hod Hu.
  pose proof HI as (_ & Hsound & Hinj).
  apply (protect_response_inv _ _ _ _ _ _ _ _ _ Hresp) in P as (pivs & gen & nonceS & upiv & pt0 & od0 & _ & _ & Hcase & HnS & _ & _ & _ & _ & HpayS).
  destruct Hcase as [(Hx & _)|(_ & _ & -> & -> & _ & _)]; [congruence|].
  apply unprotect_verify_inv in U as (od1 & u1 & pivsR & genR & nonceR & Hod1 & Hu1 & _ & _ & _ & Hm & HnR & Hd).
  rewrite Hod in Hod1. injection Hod1 as <-. rewrite Hu in Hu1. injection Hu1 as <-.
  apply Hsound in Hd. rewrite Hp, HpayS in Hd. apply Hinj in Hd as (_ & Hnonce & _ & _). subst nonceR.
  rewrite Mciv, Malg in HnR.
  assert (Hfull : blen (to_bytes_big_n (Z.to_nat PIV_FULL_BYTES) (sender_sequence_number cS)) = NONCE_PIV_BYTES) by (rewrite blen_tbn; reflexivity).
  pose proof (uncompress_piv_len od u Hu) as Hplen.
  rewrite Malg in Bk.
  destruct (u_piv u) as [p|].
  - destruct Hm as (-> & -> & _ & ->).
    assert (H1 : blen (to_bytes_big_n (Z.to_nat PIV_FULL_BYTES) (sender_sequence_number cS)) <= NONCE_PIV_BYTES) by lia.
    assert (H2 : blen p <= NONCE_PIV_BYTES) by (unfold PIVSZ_MAX, NONCE_PIV_BYTES in *; lia).
    destruct (nonce_injective _ _ _ _ _ _ _ Bs Br H1 H2 HnS HnR) as [Hid Hpad].
    exists p. split; [reflexivity|]. split; [congruence|]. split; [|reflexivity].
    rewrite <- Hpad. replace (NONCE_PIV_BYTES - blen (to_bytes_big_n (Z.to_nat PIV_FULL_BYTES) (sender_sequence_number cS))) with 0 by lia. reflexivity.
  - destruct Hm as (-> & -> & _ & _).
    assert (H1 : blen (to_bytes_big_n (Z.to_nat PIV_FULL_BYTES) (sender_sequence_number cS)) <= NONCE_PIV_BYTES) by lia.
    destruct (nonce_injective _ _ _ _ _ _ _ Bs Bk H1 Bp HnS HnR) as [Hid _]. congruence.
Qed.

(* The identifiers unprotect hands on for a request offer the request's nonce for reuse (can_reuse_nonce) only after the Partial IV was
   found valid in an initialised replay window, and that number is struck out by the same call — so they are offered at most once per
   number.  (This model has echo_recovery = None; with echo_recovery set the code hands on can_reuse_nonce = False whenever the replay
   check failed or was unavailable, oscore.py:1300-1305 — driven by the oracle-only *_echo streams here and modelled in C12.) *)
Theorem request_ids_reusable_only_if_validated E c pm c' pt seqno rid' :
  unprotect_verify E c pm None = Ok (c', pt, seqno, rid') ->
  exists w n w', recipient_replay_window c = Some w /\ seqno = Some n /\ is_valid w n = Ok true /\
    strike_out w n = Ok (w', tt) /\ recipient_replay_window c' = Some w' /\ can_reuse_nonce rid' = true.
Proof.
  unfold unprotect_verify. intros H.
  apply bind_ok_inv in H as [_ [_ H]].
  destruct (get_opt OPT_OSCORE (opts pm)) as [od|]; [|discriminate].
  apply bind_ok_inv in H as [u [Hu H]].
  destruct (negb (opt_beqb _ (id_context c))); [discriminate|].
  destruct (negb (beqb _ (recipient_id c))); [discriminate|].
  apply bind_ok_inv in H as [[[[s pivs] gen] rid0] [Hstep H]].
  destruct (u_group u); [discriminate|].
  destruct (blen (payload pm) <? alg_tag_bytes (c_alg c) + 1); [discriminate|].
  apply bind_ok_inv in H as [nonce [Hn H]].
  destruct (dec E (recipient_key c) nonce _ (payload pm)) as [p|]; [|discriminate].
  apply bind_ok_inv in H as [w' [Hw H]]. injection H as <- <- <- <-.
  destruct (u_piv u) as [piv|]; [|discriminate].
  destruct (recipient_replay_window c) as [w|] eqn:Ew; [|discriminate].
  apply bind_ok_inv in Hstep as [v [Hv Hstep]]. destruct v; cbn [negb] in Hstep; [|discriminate].
  apply bind_ok_inv in Hstep as [cs [_ Hstep]]. injection Hstep as <- <- <- <-.
  apply bind_ok_inv in Hw as [[w1 []] [Hs Hw]]. injection Hw as <-.
  exists w, (from_bytes_big piv), w1. cbn [recipient_replay_window set_window can_reuse_nonce]. repeat split; try assumption; reflexivity.
Qed.
