(* C06 — lifetime of reassembly and rendering state at SERVER level: the TimeoutDict ghost-time invariant
   (Proofs/C06TimeoutDict.v) is carried through Block1Spool.feed_and_take, Block2Cache.extract_or_insert,
   Resource._render_to_pipe and every event history of the multi-resource server.
   The ghost maps [last1_step] / [last2_step] say which server operations count as a USE of an entry. *)
From Verif Require Import Lib.Py Lib.PyLemmas Lib.Tactics Model.C06 Proofs.C06TimeoutDict Proofs.C06.
Open Scope Z_scope.

Notation ginv T := (td_ginv key_eqb T).
Notation kupd := (upd key_eqb).
Notation kclr := (clr key_eqb).
Notation khas := (has key_eqb).

Lemma ginv_ext {V} T now l l' (d : td key V) : (forall k, l k = l' k) -> ginv T now l d -> ginv T now l' d.
Proof.
  intros E I. unfold td_ginv in *. destruct (td_timer d) as [[due rec]|].
  - destruct I as (B & H2 & H3). split; [exact B|]. split.
    + intros k Hk. destruct (H2 k Hk) as (a & L & R). exists a. rewrite <- E. split; assumption.
    + intros k a L. rewrite <- E in L. exact (H3 k a L).
  - destruct I as (E0 & H2). split; [exact E0|]. intros k a L. rewrite <- E in L. exact (H2 k a L).
Qed.
Lemma kupd_idem l k t k' : kupd (kupd l k t) k t k' = kupd l k t k'.
Proof. unfold upd. destruct (key_eqb k' k); reflexivity. Qed.
Lemma kclr_upd l k t k' : kclr (kupd l k t) k k' = kclr l k k'.
Proof. unfold clr, upd. destruct (key_eqb k' k); reflexivity. Qed.
Lemma ginv_pop_after_use {V} T now l (d : td key V) k : ginv T now (kupd l k now) d -> ginv T now (kclr l k) (td_pop key_eqb k d).
Proof. intros G. apply (ginv_ext T now (kclr (kupd l k now) k)); [apply kclr_upd|]. apply (td_ginv_pop key_eqb key_eqb_eq). exact G. Qed.
Lemma khas_kget {V} k (d : td key V) : khas k d = true <-> kget k d <> None.
Proof. unfold has, kget. destruct (alist_get key_eqb k (td_items d)); split; congruence. Qed.
Lemma khas_some {V} k (d : td key V) v : kget k d = Some v -> khas k d = true.
Proof. intros H. apply khas_kget. congruence. Qed.

(* a successful lookup / the tail of an assignment: the entry is marked as used now *)
Lemma ginv_accessed {V} T now l (d : td key V) k : 0 < T -> ginv T now l d -> khas k d = true ->
  ginv T now (kupd l k now) (td_accessed T now k d).
Proof. intros Tp I H. apply (td_ginv_access key_eqb key_eqb_eq T Tp now l d d k I); [reflexivity|exact H|reflexivity]. Qed.
Lemma ginv_accessed_again {V} T now l (d : td key V) k : 0 < T -> ginv T now (kupd l k now) d -> khas k d = true ->
  ginv T now (kupd l k now) (td_accessed T now k d).
Proof. intros Tp I H. apply (ginv_ext T now (kupd (kupd l k now) k now)); [apply kupd_idem|]. apply ginv_accessed; assumption. Qed.

(* ------------------------------------------------------------------------------------------
   WHICH SERVER OPERATIONS COUNT AS A USE.
   Block1Spool: a block 0 of key k with M=1 (the assembly is (re)started); any continuation (NUM>0) of k that finds an
   assembly and is appended with M=1 (2.31) or REJECTED with 4.00 (length) or 4.08 (gap / overlap): the lookup has
   refreshed the timeout before the block is examined.  A block with M=0 that completes the assembly hands it to the
   handler and REMOVES it from the spool (the ghost forgets the key).  A continuation that finds nothing (KeyError) is
   not a use, nor is a request without Block1. *)
Definition last1_step (now : Z) (l : key -> option Z) (sp : spool) (req : msg) : key -> option Z :=
  match m_block1 req with
  | None => l
  | Some b =>
    let k := extract_block_key req in
    if b_num b =? 0 then (if b_more b then kupd l k now else kclr l k)
    else match kget k sp with
         | Some asm => if size_ok b req && (b_start b =? blen (m_payload asm)) && negb (b_more b) then kclr l k else kupd l k now
         | None => l
         end
  end.
(* Block2Cache (for a request that got past the spool): a rendering request (block 0 / no Block2) whose rendering
   needs chunking stores it: use; one that is answered whole EVICTS the entry of its key (no rendering is kept, the
   ghost forgets the key).  A later block (NUM>0) that finds a rendering is a use (also when it is answered
   4.00 out of bounds); one that finds nothing is not. *)
Definition last2_step (now : Z) (l : key -> option Z) (ca : cache) (req1 : msg) (rendering : resp) : key -> option Z :=
  let k := extract_block_key req1 in
  if is_first req1 then (if needs_chunking req1 rendering then kupd l k now else kclr l k)
  else match kget k ca with Some _ => kupd l k now | None => l end.
Definition last2_stage (T now : Z) (l : key -> option Z) (sp : spool) (ca : cache) (req : msg) (rendering : resp) : key -> option Z :=
  match feed_and_take T now sp req with
  | (_, ROk req1) => last2_step now l ca req1 rendering
  | (_, RRaise _) => l                 (* 2.31 / 4.08 / 4.00 from the spool: the cache is not touched *)
  end.

Lemma feed_and_take_ginv T now g l sp req : 0 < T -> spool_inv g sp -> ginv T now l sp ->
  ginv T now (last1_step now l sp req) (fst (feed_and_take T now sp req)).
Proof.
  intros Tp I G. unfold last1_step. destruct (m_block1 req) as [b|] eqn:Hb.
  2:{ rewrite fat_none by exact Hb. exact G. }
  set (k := extract_block_key req).
  destruct (Z.eq_dec (b_num b) 0) as [Hn|Hn].
  - pose proof (fat_first T now sp req b Hb Hn) as E. cbn zeta in E. fold k in E. rewrite E, Hn. cbn [Z.eqb].
    assert (G1 : ginv T now (kupd l k now) (td_setitem key_eqb T now k req sp)).
    { apply (td_ginv_setitem key_eqb key_eqb_eq T Tp). exact G. }
    destruct (b_more b); cbn [fst]; [exact G1|]. apply ginv_pop_after_use. exact G1.
  - replace (b_num b =? 0) with false by lia. destruct (kget k sp) as [asm|] eqn:Hg.
    2:{ rewrite (fat_unknown T now sp req b Hb Hn Hg). exact G. }
    destruct (I k asm Hg) as (bs & _ & _ & _ & Ra).
    destruct (fat_known T now sp req b asm Hb Hn Hg Ra) as (F1 & F2 & F3). fold k in F1, F2, F3.
    assert (G1 : ginv T now (kupd l k now) (td_accessed T now k sp)).
    { apply ginv_accessed; [exact Tp|exact G|]. exact (khas_some k sp asm Hg). }
    destruct (size_ok b req) eqn:S; [|rewrite (F1 eq_refl); exact G1]. cbn [andb].
    destruct (Z.eq_dec (b_start b) (blen (m_payload asm))) as [St|St].
    2:{ rewrite (F2 eq_refl St). replace (b_start b =? blen (m_payload asm)) with false by lia. exact G1. }
    rewrite (F3 eq_refl St). replace (b_start b =? blen (m_payload asm)) with true by lia. cbn [andb].
    assert (G2 : ginv T now (kupd l k now) (td_mutate key_eqb k (appended asm req b) (td_accessed T now k sp))).
    { apply (td_ginv_mutate key_eqb key_eqb_eq); [exact G1|]. apply (khas_some k _ asm). rewrite kget_accessed. exact Hg. }
    destruct (b_more b); cbn [fst negb]; [exact G2|]. apply ginv_pop_after_use. exact G2.
Qed.

Lemma is_first_hyp req1 : is_first req1 = true -> match m_block2 req1 with Some b2 => b_num b2 = 0 | None => True end.
Proof. unfold is_first. destruct (m_block2 req1) as [b2|]; [lia|trivial]. Qed.

Lemma extract_or_insert_ginv T now l ca req1 rendering : 0 < T -> ginv T now l ca ->
  ginv T now (last2_step now l ca req1 rendering) (fst (fst (extract_or_insert T now ca req1 rendering))).
Proof.
  intros Tp G. unfold last2_step. set (k := extract_block_key req1). destruct (is_first req1) eqn:F.
  - pose proof (eoi_first T now ca req1 rendering (is_first_hyp req1 F)) as E. cbn zeta in E. fold k in E. rewrite E.
    destruct (needs_chunking req1 rendering); cbn [fst].
    + apply (td_ginv_setitem key_eqb key_eqb_eq T Tp). exact G.
    + apply (td_ginv_pop key_eqb key_eqb_eq). exact G.
  - unfold is_first in F. destruct (m_block2 req1) as [b2|] eqn:Hb; [|discriminate].
    assert (Hn : b_num b2 <> 0) by lia.
    pose proof (eoi_later T now ca req1 b2 rendering Hb Hn) as E. cbn zeta in E. fold k in E.
    destruct (kget k ca) as [Rn|] eqn:Hg; rewrite E; cbn [fst]; [|exact G].
    apply (ginv_ext T now (kupd (kupd l k now) k now)); [apply kupd_idem|].
    apply (td_ginv_setitem key_eqb key_eqb_eq T Tp). apply ginv_accessed; [exact Tp|exact G|exact (khas_some k ca Rn Hg)].
Qed.

Lemma render_to_pipe_ginv T now g l1 l2 s req rendering : 0 < T ->
  spool_inv g (block1 s) -> ginv T now l1 (block1 s) -> ginv T now l2 (block2 s) ->
  let s' := fst (fst (render_to_pipe T now s req rendering)) in
  ginv T now (last1_step now l1 (block1 s) req) (block1 s') /\
  ginv T now (last2_stage T now l2 (block1 s) (block2 s) req rendering) (block2 s').
Proof.
  intros Tp I G1 G2. cbn zeta. unfold render_to_pipe, last2_stage.
  pose proof (feed_and_take_ginv T now g l1 (block1 s) req Tp I G1) as F.
  destruct (feed_and_take T now (block1 s) req) as [sp [req1|e]]; cbn [fst] in F.
  - pose proof (extract_or_insert_ginv T now l2 (block2 s) req1 rendering Tp G2) as E.
    destruct (extract_or_insert T now (block2 s) req1 rendering) as [[ca calls] [res|e]]; cbn [fst block1 block2] in *; split; assumption.
  - cbn [fst block1 block2]. split; assumption.
Qed.

(* ------------------------------------------------------------------------------------------
   the whole server *)
Record lghost := { l_asm : nat -> key -> option Z; l_rend : nat -> key -> option Z }.
Definition lghost_init : lghost := {| l_asm := fun _ _ => None; l_rend := fun _ _ => None |}.
Definition step_last (T : Z) (sv : server) (lg : lghost) (e : event) : lghost :=
  match e with
  | Advance _ => lg                               (* idle time is not a use *)
  | Request i req rendering =>
    if (i <? length (resources sv))%nat then
      let s := nth i (resources sv) rstate_empty in
      {| l_asm := fset (l_asm lg) i (last1_step (now sv) (l_asm lg i) (block1 s) req);
         l_rend := fset (l_rend lg) i (last2_stage T (now sv) (l_rend lg i) (block1 s) (block2 s) req rendering) |}
    else lg                                       (* no such resource: no state is touched *)
  end.
Definition life_inv (T : Z) (lg : lghost) (sv : server) : Prop :=
  forall i, ginv T (now sv) (l_asm lg i) (block1 (nth i (resources sv) rstate_empty)) /\
            ginv T (now sv) (l_rend lg i) (block2 (nth i (resources sv) rstate_empty)).
Definition nonneg_event (e : event) : Prop := match e with Advance dt => 0 <= dt | Request _ _ _ => True end.

Lemma life_inv_init T n : life_inv T lghost_init (server_init n).
Proof.
  intros i. cbn.
  assert (E : nth i (repeat rstate_empty n) rstate_empty = rstate_empty).
  { revert i; induction n as [|n IH]; intros [|i]; cbn; auto. }
  rewrite E. split; apply td_ginv_empty.
Qed.

Lemma step_now_request T sv i req rendering : now (fst (step T sv (Request i req rendering))) = now sv.
Proof. cbn [step]. destruct (render_to_pipe T (now sv) (nth i (resources sv) rstate_empty) req rendering) as [[s' calls] res]. reflexivity. Qed.
Lemma step_resources_request T sv i req rendering :
  resources (fst (step T sv (Request i req rendering))) =
  set_nth i (fst (fst (render_to_pipe T (now sv) (nth i (resources sv) rstate_empty) req rendering))) (resources sv).
Proof. cbn [step]. destruct (render_to_pipe T (now sv) (nth i (resources sv) rstate_empty) req rendering) as [[s' calls] res]. reflexivity. Qed.

Lemma step_life T sv gh lg e : 0 < T -> nonneg_event e -> server_inv gh sv -> life_inv T lg sv ->
  life_inv T (step_last T sv lg e) (fst (step T sv e)).
Proof.
  intros Tp Ne Is L. destruct e as [i req rendering|dt].
  - intros j. rewrite step_now_request, step_resources_request, nth_set_nth. cbn [step_last].
    destruct (i <? length (resources sv))%nat eqn:Lt.
    + destruct (Nat.eqb j i) eqn:Eji; cbn [andb l_asm l_rend].
      * apply Nat.eqb_eq in Eji; subst j. rewrite !fset_same.
        destruct (Is i) as (I1 & _). destruct (L i) as (G1 & G2).
        exact (render_to_pipe_ginv T (now sv) (g_asm gh i) (l_asm lg i) (l_rend lg i) _ req rendering Tp I1 G1 G2).
      * assert (N : j <> i) by (intros ->; rewrite Nat.eqb_refl in Eji; discriminate).
        rewrite !fset_other by exact N. exact (L j).
    + rewrite andb_false_r. exact (L j).
  - cbn [nonneg_event] in Ne. intros j. cbn [step fst step_last now resources].
    rewrite nth_map_default by reflexivity. destruct (L j) as (G1 & G2). unfold rstate_advance; cbn [block1 block2]. split.
    + apply (td_ginv_advance key_eqb key_eqb_eq T Tp (now sv)); [exact G1|lia].
    + apply (td_ginv_advance key_eqb key_eqb_eq T Tp (now sv)); [exact G2|lia].
Qed.

Fixpoint run_last (T : Z) (sv : server) (lg : lghost) (es : list event) : lghost :=
  match es with
  | [] => lg
  | e :: r => run_last T (fst (step T sv e)) (step_last T sv lg e) r
  end.
Lemma run_life T es : 0 < T -> forall sv gh lg, Forall wf_event es -> Forall nonneg_event es -> server_inv gh sv -> life_inv T lg sv ->
  server_inv (run_ghost T sv gh es) (fst (run T sv es)) /\ life_inv T (run_last T sv lg es) (fst (run T sv es)).
Proof.
  intros Tp. induction es as [|e es IH]; intros sv gh lg F N I L; [split; assumption|].
  inversion F as [|? ? We Fr]; subst. inversion N as [|? ? Ne Nr]; subst. cbn [run run_ghost run_last].
  destruct (step_inv T sv gh e We I) as [I' _].
  pose proof (step_life T sv gh lg e Tp Ne I L) as L'.
  destruct (step T sv e) as [sv1 o] eqn:S. cbn [fst] in *.
  specialize (IH sv1 (step_ghost T sv gh e) (step_last T sv lg e) Fr Nr I' L').
  destruct (run T sv1 es) as [sv2 os]. exact IH.
Qed.

Definition reachable_life (T : Z) (sv : server) (gh : ghost) (lg : lghost) : Prop :=
  exists n es, Forall wf_event es /\ Forall nonneg_event es /\
    sv = fst (run T (server_init n) es) /\ gh = run_ghost T (server_init n) ghost_init es /\
    lg = run_last T (server_init n) lghost_init es.
Lemma reachable_life_inv T sv gh lg : 0 < T -> reachable_life T sv gh lg -> server_inv gh sv /\ life_inv T lg sv.
Proof.
  intros Tp (n & es & F & N & -> & -> & ->). apply run_life; try assumption; [apply server_inv_init|apply life_inv_init].
Qed.

(* ------------------------------------------------------------------------------------------
   the bounds on the state of every reachable server *)
Lemma ginv_bounds {V} T now l (d : td key V) : ginv T now l d -> forall k,
  (forall a, l k = Some a -> now < a + T -> kget k d <> None) /\
  (kget k d <> None -> exists a, l k = Some a /\ a <= now /\ now < a + 2 * T) /\
  (l k = None -> kget k d = None) /\
  (forall a, l k = Some a -> a + 2 * T <= now -> kget k d = None).
Proof.
  intros G k.
  assert (U : kget k d <> None -> exists a, l k = Some a /\ a <= now /\ now < a + 2 * T).
  { intros H. apply khas_kget in H. destruct (td_ginv_upper key_eqb key_eqb_eq T now l d k G H) as (a & La & B). exists a. split; [exact La|lia]. }
  split; [|split; [exact U|split]].
  - intros a La Lt. apply khas_kget. exact (td_ginv_lower key_eqb key_eqb_eq T now l d k a G La Lt).
  - intros Ln. destruct (kget k d) eqn:E; [|reflexivity]. destruct U as (a & La & _); congruence.
  - intros a La Ge. destruct (kget k d) eqn:E; [|reflexivity]. destruct U as (a' & La' & _ & Lt); [congruence|]. rewrite La in La'. injection La' as <-. lia.
Qed.

Lemma server_state_lifetime_lemma T sv gh lg : 0 < T -> reachable_life T sv gh lg -> forall i k,
  let s := nth i (resources sv) rstate_empty in
  ((forall a, l_asm lg i k = Some a -> now sv < a + T -> kget k (block1 s) <> None) /\
   (kget k (block1 s) <> None -> exists a, l_asm lg i k = Some a /\ a <= now sv /\ now sv < a + 2 * T) /\
   (l_asm lg i k = None -> kget k (block1 s) = None) /\
   (forall a, l_asm lg i k = Some a -> a + 2 * T <= now sv -> kget k (block1 s) = None)) /\
  ((forall a, l_rend lg i k = Some a -> now sv < a + T -> kget k (block2 s) <> None) /\
   (kget k (block2 s) <> None -> exists a, l_rend lg i k = Some a /\ a <= now sv /\ now sv < a + 2 * T) /\
   (l_rend lg i k = None -> kget k (block2 s) = None) /\
   (forall a, l_rend lg i k = Some a -> a + 2 * T <= now sv -> kget k (block2 s) = None)).
Proof.
  intros Tp R i k. destruct (reachable_life_inv T sv gh lg Tp R) as (_ & L). destruct (L i) as (G1 & G2).
  split; [exact (ginv_bounds T (now sv) _ _ G1 k)|exact (ginv_bounds T (now sv) _ _ G2 k)].
Qed.

(* ------------------------------------------------------------------------------------------
   observable consequences *)
(* a continuation (NUM>0) of key k on a resource state whose spool satisfies the invariants *)
Lemma continuation_expiry_lemma T now g l s req rendering b :
  spool_inv g (block1 s) -> ginv T now l (block1 s) -> m_block1 req = Some b -> b_num b <> 0 ->
  let k := extract_block_key req in
  (* used less than T ago: the assembly is there, and the spool answers 4.08 only for a gap / overlap *)
  (forall a, l k = Some a -> now < a + T ->
     exists asm, kget k (block1 s) = Some asm /\
       (forall sp', feed_and_take T now (block1 s) req = (sp', RRaise EIncomplete) ->
          size_ok b req = true /\ b_start b <> blen (m_payload asm)) /\
       (b_more b = true -> snd (render_to_pipe T now s req rendering) = incomplete_resp ->
          size_ok b req = true /\ b_start b <> blen (m_payload asm))) /\
  (* never used, or last used 2T or more ago: 4.08, the handler is not invoked, nothing changes *)
  (l k = None \/ (exists a, l k = Some a /\ a + 2 * T <= now) ->
     render_to_pipe T now s req rendering = (s, [], incomplete_resp)).
Proof.
  intros I G Hb Hn k. destruct (ginv_bounds T now l (block1 s) G k) as (B1 & _ & B3 & B4). split.
  - intros a La Lt. specialize (B1 a La Lt). destruct (kget k (block1 s)) as [asm|] eqn:Hg; [|congruence].
    exists asm. split; [reflexivity|].
    destruct (I k asm Hg) as (bs & _ & _ & _ & Ra).
    destruct (fat_known T now (block1 s) req b asm Hb Hn Hg Ra) as (F1 & F2 & F3). fold k in F1, F2, F3.
    pose proof (block1_responses_lemma T now g s req rendering b Hb I) as Tb. cbn zeta in Tb. fold k in Tb.
    split.
    + intros sp' E. destruct (size_ok b req) eqn:S; [|rewrite (F1 eq_refl) in E; discriminate].
      split; [reflexivity|]. intros St. rewrite (F3 eq_refl St) in E. destruct (b_more b); discriminate.
    + intros Hm E. destruct (render_to_pipe T now s req rendering) as [[s' calls] res]. cbn [snd] in E. subst res.
      destruct Tb as (_ & _ & Tk & _). destruct (Tk asm Hn Hg) as (T1 & T2 & T3).
      destruct (size_ok b req) eqn:S; [|destruct (T1 eq_refl) as (_ & Er & _); discriminate].
      split; [reflexivity|]. intros St. destruct (T3 eq_refl St Hm) as (_ & Er & _). discriminate.
  - intros D. assert (Hg : kget k (block1 s) = None).
    { destruct D as [Ln|(a & La & Ge)]; [exact (B3 Ln)|exact (B4 a La Ge)]. }
    pose proof (block1_responses_lemma T now g s req rendering b Hb I) as Tb. cbn zeta in Tb. fold k in Tb.
    destruct (render_to_pipe T now s req rendering) as [[s' calls] res].
    destruct Tb as (_ & T2 & _). destruct (T2 Hn Hg) as (-> & -> & ->). reflexivity.
Qed.

(* a later block (NUM>0) of a response *)
Lemma later_block_expiry_lemma T now gr l s req rendering b2 :
  cache_inv gr (block2 s) -> ginv T now l (block2 s) -> m_block1 req = None -> m_block2 req = Some b2 -> b_num b2 <> 0 ->
  let k := extract_block_key req in
  (forall a, l k = Some a -> now < a + T ->
     exists Rn, kget k (block2 s) = Some Rn /\ gr k = Some Rn /\
       snd (render_to_pipe T now s req rendering) =
         (if b2_start (b_szx b2) (b_num b2) >=? blen (p_payload Rn) then bad_request_resp txt_out_of_bounds
          else slice_resp Rn (b_num b2) (b_szx b2) (m_mps req)) /\
       snd (render_to_pipe T now s req rendering) <> incomplete_resp) /\
  (l k = None \/ (exists a, l k = Some a /\ a + 2 * T <= now) ->
     render_to_pipe T now s req rendering = (s, [], incomplete_resp)).
Proof.
  intros I G H1 H2 Hn k. destruct (ginv_bounds T now l (block2 s) G k) as (B1 & _ & B3 & B4).
  pose proof (block2_exact_slice_lemma T now gr s req rendering b2 H1 H2 Hn I) as E. cbn zeta in E. fold k in E.
  destruct (render_to_pipe T now s req rendering) as [[s' calls] res]. destruct E as (Ec & _ & E). cbn [snd]. split.
  - intros a La Lt. specialize (B1 a La Lt). destruct (kget k (block2 s)) as [Rn|]; [|congruence].
    destruct E as (Gk & _ & Er). exists Rn. split; [reflexivity|]. split; [exact Gk|]. split; [exact Er|].
    rewrite Er. destruct (b2_start (b_szx b2) (b_num b2) >=? blen (p_payload Rn)); discriminate.
  - intros D. assert (Hg : kget k (block2 s) = None).
    { destruct D as [Ln|(a & La & Ge)]; [exact (B3 Ln)|exact (B4 a La Ge)]. }
    rewrite Hg in E. destruct E as (-> & ->). rewrite Ec. reflexivity.
Qed.
