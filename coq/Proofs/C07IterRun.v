(* C07 — round 5, audit gap 2: what the async iterator yields in a run of the requester model (Model/C07.run), for EVERY op list:
   message items, then at most one end (clean stop or exception), then nothing.  (The subsequence statement relating the yielded
   ids to an observer's deliveries over a run is not proved; see notes/C07.md, Round 5.) *)
From Verif Require Import Lib.Py Lib.Tactics Gen.protocol_is_recent Model.C07 Proofs.C07Serial Proofs.C07.
Open Scope Z_scope.

Definition it1 (o : out) : list out := match o with OIt _ => [o] | OItStop => [o] | OItExn _ => [o] | _ => [] end.
Definition itf (l : list out) : list out := flat_map it1 l.
Lemma itf_app a b : itf (a ++ b) = itf a ++ itf b. Proof. apply flat_map_app. Qed.

Definition is_end (l : list out) : Prop := l = [OItStop] \/ exists e, l = [OItExn e].
(* shape of the iterator outputs of a piece of a run that starts with the iteration not over *)
Definition shape (fin' : bool) (l : list out) : Prop :=
  exists ids tail, l = map OIt ids ++ tail /\ (tail = [] \/ (is_end tail /\ fin' = true)).

Definition flags (it : iter) : bool * bool := (it_started it, it_finished it).

Lemma push_flags it x : flags (push it x) = flags it.
Proof. unfold push, flags. destruct (it_finished it) eqn:E; [rewrite E; reflexivity|]. destruct (it_w it); reflexivity. Qed.

Lemma deliver_callbacks_it ls id : forall it, itf (snd (deliver_callbacks ls id it)) = [] /\ flags (fst (deliver_callbacks ls id it)) = flags it.
Proof.
  induction ls as [|[k|] ls IH]; intros it; cbn [deliver_callbacks]; auto.
  - specialize (IH it). destruct (deliver_callbacks ls id it) as [it' o]. cbn in *. exact IH.
  - destruct (IH (push it (IMsg id))) as [A B]. rewrite push_flags in B. auto.
Qed.
Lemma deliver_errbacks_it ls e : forall it, itf (snd (deliver_errbacks ls e it)) = [] /\ flags (fst (deliver_errbacks ls e it)) = flags it.
Proof.
  induction ls as [|[k|] ls IH]; intros it; cbn [deliver_errbacks]; auto.
  - specialize (IH it). destruct (deliver_errbacks ls e it) as [it' o]. cbn in *. exact IH.
  - destruct (IH (push it (IErr e))) as [A B]. rewrite push_flags in B. auto.
Qed.

Lemma apply_actions_it : forall acts s, itf (aa_outs s acts) = [] /\ flags (s_iter (aa_sys s acts)) = flags (s_iter s).
Proof.
  unfold aa_sys, aa_outs. induction acts as [|a acts IH]; intros s; [cbn; auto|].
  destruct a; cbn [apply_actions].
  - specialize (IH (set_parts s (s_ended s) RespDone (s_obs s) (s_iter s))). destruct (apply_actions _ acts) as [[s2 o2] r2]. cbn [fst snd] in *. exact IH.
  - specialize (IH (set_parts s (s_ended s) RespDone (s_obs s) (s_iter s))). destruct (apply_actions _ acts) as [[s2 o2] r2]. cbn [fst snd] in *. exact IH.
  - unfold callback. pose proof (deliver_callbacks_it (callbacks (s_obs s)) id (s_iter s)) as [N F].
    destruct (deliver_callbacks _ id _) as [it' outs]. cbn [fst snd] in N, F.
    match goal with |- context [apply_actions ?S acts] => specialize (IH S) end.
    destruct (apply_actions _ acts) as [[s2 o2] r2]. cbn [fst snd] in *. rewrite itf_app, N. destruct IH as [I1 I2]. cbn in I2. rewrite I1, I2. auto.
  - unfold error. pose proof (deliver_errbacks_it (errbacks (s_obs s)) e (s_iter s)) as [N F].
    destruct (deliver_errbacks _ e _) as [it' outs]. cbn [fst snd] in N, F.
    match goal with |- context [apply_actions ?S acts] => specialize (IH S) end.
    destruct (apply_actions _ acts) as [[s2 o2] r2]. cbn [fst snd] in *. rewrite itf_app, N. destruct IH as [I1 I2]. cbn in I2. rewrite I1, I2. auto.
  - destruct (s_ended s).
    + specialize (IH s). destruct (apply_actions s acts) as [[s2 o2] r2]. cbn [fst snd] in *. exact IH.
    + specialize (IH (set_parts s true (s_resp s) (s_obs s) (s_iter s))). destruct (apply_actions _ acts) as [[s2 o2] r2]. cbn [fst snd] in *. exact IH.
  - cbn. auto.
Qed.

(* pipe events never make the iterator yield: yields happen only when the loop runs the consumer *)
Lemma add_event_it s now ev : itf (snd (add_event s now ev)) = [] /\ flags (s_iter (fst (add_event s now ev))) = flags (s_iter s).
Proof.
  unfold add_event. destruct (s_ended s); [cbn; auto|].
  destruct (s_runner s) as [|v1 t1|]; [| |cbn; auto].
  all: match goal with |- context [Request_run ?a ?b ?c ?d ?n ?e] => destruct (Request_run a b c d n e) as [r' acts] end.
  all: pose proof (apply_actions_it acts (set_runner s r')) as [N F]; unfold aa_sys, aa_outs in *;
       destruct (apply_actions (set_runner s r') acts) as [[s1 outs] raised]; cbn [fst snd] in *.
  all: destruct raised; [auto|]; destruct (ev_is_last ev && negb (s_ended s1)); cbn [fst snd]; rewrite ?itf_app, ?N; auto.
Qed.

Lemma yield_it x : itf [yield x] = [yield x].
Proof. destruct x as [id|e]; [reflexivity|]. destruct e; reflexivity. Qed.
Lemma yield_msg x : is_err x = false -> exists id, yield x = OIt id.
Proof. destruct x as [id|e]; [intros _; exists id; reflexivity|discriminate]. Qed.
Lemma yield_err x : is_err x = true -> is_end [yield x].
Proof. destruct x as [|e]; [discriminate|]. intros _. unfold is_end. destruct e; cbn; eauto. Qed.

(* one wake-up of the consumer *)
Lemma anext_drain_it it :
  (it_finished it = true -> snd (anext_drain it) = [] /\ fst (anext_drain it) = it)
  /\ (it_finished it = false -> shape (it_finished (fst (anext_drain it))) (itf (snd (anext_drain it))))
  /\ (it_started it = true -> it_started (fst (anext_drain it)) = true)
  /\ (it_started it = false -> anext_drain it = (it, [])).
Proof.
  unfold anext_drain. split; [|split; [|split]].
  - intros F. rewrite F, orb_true_r. split; reflexivity.
  - intros F. rewrite F, orb_false_r. destruct (negb (it_started it)); [exists [], []; cbn; auto|].
    destruct (it_w it) as [x|]; [|exists [], []; cbn; auto].
    destruct (is_err x) eqn:Ex.
    + cbn [fst snd]. rewrite yield_it. exists [], [yield x]. cbn. split; auto. right. split; [apply yield_err; exact Ex|reflexivity].
    + destruct (yield_msg x Ex) as [id Hx]. destruct (it_s it) as [y|]; cbn [fst snd].
      * change [yield x; yield y] with ([yield x] ++ [yield y]). rewrite itf_app, !yield_it, Hx.
        destruct (is_err y) eqn:Ey.
        -- exists [id], [yield y]. split; [reflexivity|]. right. split; [apply yield_err; exact Ey|reflexivity].
        -- destruct (yield_msg y Ey) as [id2 Hy]. rewrite Hy. exists [id; id2], []. auto.
      * rewrite yield_it, Hx. exists [id], []. auto.
  - intros S. destruct (negb (it_started it) || it_finished it); [exact S|]. destruct (it_w it) as [x|]; [|exact S].
    destruct (is_err x); [reflexivity|]. destruct (it_s it); reflexivity.
  - intros S. rewrite S. reflexivity.
Qed.

(* per op: if the iteration is over nothing is yielded any more; otherwise message items, then at most one end *)
Definition fin (s : sys) : bool := it_finished (s_iter s).
Definition wf (s : sys) : Prop := it_finished (s_iter s) = true -> it_started (s_iter s) = true.

Lemma drain_it s : wf s ->
  (fin s = true -> itf (snd (drain s)) = [] /\ fin (fst (drain s)) = true)
  /\ (fin s = false -> shape (fin (fst (drain s))) (itf (snd (drain s))))
  /\ wf (fst (drain s)).
Proof.
  intros W. unfold drain, fin, wf in *. destruct (anext_drain_it (s_iter s)) as (A & B & C & D).
  destruct (anext_drain (s_iter s)) as [it' outs] eqn:E. cbn [fst snd s_iter set_parts] in *. split; [|split].
  - intros H. destruct (A H) as [A1 A2]. subst. split; [reflexivity|exact H].
  - exact B.
  - intros F. destruct (it_started (s_iter s)) eqn:S; [apply C; reflexivity|]. specialize (D eq_refl). inversion D; subst. rewrite F in W. discriminate (W eq_refl).
Qed.

Lemma step_it s o : wf s ->
  (fin s = true -> itf (snd (step s o)) = [] /\ fin (fst (step s o)) = true)
  /\ (fin s = false -> shape (fin (fst (step s o))) (itf (snd (step s o))))
  /\ wf (fst (step s o)).
Proof.
  intros W. destruct o as [now ev| | |k| |]; cbn [step].
  - destruct (add_event_it s now ev) as [N F]. unfold fin, wf, flags in *. inversion F as [[F1 F2]]. rewrite N, F1, F2.
    repeat split; auto. intros _. exists [], []. auto.
  - destruct (negb (s_has_obs s)); [|destruct (cancelled (s_obs s))]; cbn [fst snd]; unfold fin, wf in *; cbn;
      (repeat split; auto; intros _; exists [], []; auto).
  - destruct (s_resp s).
    + match goal with |- context [drain ?S] => assert (W1 : wf S) by exact W; destruct (drain_it S W1) as (A & B & C); destruct (drain S) as [s2 o2] end.
      cbn [fst snd] in *. unfold fin in *. cbn [s_iter set_runner set_parts] in *.
      assert (E : itf (ORespCancelled :: (if s_ended s then [] else [OEnd]) ++ o2) = itf o2) by (destruct (s_ended s); reflexivity).
      rewrite E. auto.
    + apply drain_it; exact W.
    + apply drain_it; exact W.
  - destruct (negb (s_has_obs s)); [unfold fin, wf in *; cbn; repeat split; auto; intros _; exists [], []; auto|].
    unfold register_callback, register_errback.
    destruct (cancelled (s_obs s)) eqn:Ec; [rewrite Ec|destruct (latest_response (s_obs s))]; cbn; unfold fin, wf in *; cbn;
      (repeat split; auto; intros _; exists [], []; auto).
  - destruct (negb (s_has_obs s) || it_started (s_iter s)) eqn:Eg; [apply drain_it; exact W|].
    apply orb_false_iff in Eg as [_ Es].
    assert (Ef : fin s = false). { unfold fin, wf in *. destruct (it_finished (s_iter s)); auto. rewrite W in Es by reflexivity. discriminate. }
    unfold register_callback, register_errback.
    destruct (cancelled (s_obs s)) eqn:Ec.
    + rewrite Ec. destruct (cancellation_reason (s_obs s)) as [e|].
      * cbn [fst snd app].
        match goal with |- context [drain ?S] => assert (W1 : wf S) by (unfold wf; cbn; auto); destruct (drain_it S W1) as (A & B & C); destruct (drain S) as [s2 o2] end.
        cbn [fst snd] in *. split; [rewrite Ef; discriminate|]. split; [|exact C]. intros _. apply B. reflexivity.
      * cbn [fst snd app].
        match goal with |- context [drain ?S] => assert (W1 : wf S) by (unfold wf; cbn; auto); destruct (drain_it S W1) as (A & B & C); destruct (drain S) as [s2 o2] end.
        cbn [fst snd] in *. split; [rewrite Ef; discriminate|]. split; [|exact C]. intros _.
        destruct (A eq_refl) as [A1 A2]. change (itf (OItExn TypeError :: o2)) with (OItExn TypeError :: itf o2). rewrite A1, A2.
        exists [], [OItExn TypeError]. split; [reflexivity|]. right. split; [right; eauto|reflexivity].
    + destruct (latest_response (s_obs s)) as [l|]; cbn [fst snd app cancelled];
        match goal with |- context [drain ?S] => assert (W1 : wf S) by (unfold wf; cbn; auto); destruct (drain_it S W1) as (A & B & C); destruct (drain S) as [s2 o2] end;
        cbn [fst snd] in *; (split; [rewrite Ef; discriminate|]); (split; [|exact C]); intros _; apply B; reflexivity.
  - apply drain_it; exact W.
Qed.

Lemma shape_weaken f l : shape f l -> exists ids tail, l = map OIt ids ++ tail /\ (tail = [] \/ is_end tail).
Proof. intros (ids & tail & E & [T|[T _]]); exists ids, tail; auto. Qed.

Lemma run_it : forall ops s, wf s ->
  (fin s = true -> itf (concat (run s ops)) = [])
  /\ (fin s = false -> exists ids tail, itf (concat (run s ops)) = map OIt ids ++ tail /\ (tail = [] \/ is_end tail)).
Proof.
  induction ops as [|o ops IH]; intros s W; [cbn; split; auto; intros _; exists [], []; auto|].
  cbn [run]. destruct (step_it s o W) as (A & B & C). destruct (step s o) as [s' outs]. cbn [fst snd concat] in *.
  destruct (IH s' C) as [I1 I2]. rewrite itf_app. split.
  - intros F. destruct (A F) as [A1 A2]. rewrite A1, (I1 A2). reflexivity.
  - intros F. destruct (B F) as (ids & tail & E & T). rewrite E. destruct T as [->|[T Fe]].
    + rewrite app_nil_r. destruct (fin s') eqn:Fs.
      * rewrite (I1 eq_refl), app_nil_r. exists ids, []. rewrite app_nil_r. auto.
      * destruct (I2 eq_refl) as (ids2 & tail2 & E2 & T2). rewrite E2. exists (ids ++ ids2), tail2. rewrite map_app, app_assoc. auto.
    + rewrite (I1 Fe), app_nil_r. exists ids, tail. auto.
Qed.

Theorem iterator_on_run_ends_once : forall has_obs reset ops, exists ids tail,
  itf (concat (run (sys0 has_obs reset) ops)) = map OIt ids ++ tail
  /\ (tail = [] \/ tail = [OItStop] \/ exists e, tail = [OItExn e]).
Proof.
  intros has_obs reset ops. destruct (run_it ops (sys0 has_obs reset)) as [_ H]. { unfold wf. cbn. discriminate. }
  destruct (H eq_refl) as (ids & tail & E & T). exists ids, tail. split; [exact E|]. destruct T as [T|[T|T]]; auto.
Qed.
