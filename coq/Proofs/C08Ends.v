(* C08 — each cause listed by the property ends the registration (it leaves incoming_requests; by the bookkeeping theorem its
   cancellation callback has then run exactly once and the observer count is back). Reset: only for confirmable notifications
   (F15); witnesses for F15 and F16. *)
From Verif Require Import Lib.Py Lib.Tactics Model.C08 Proofs.C08 Proofs.C08Silent.
Open Scope Z_scope.

Definition live (g : Z) (s : state) : Prop := In g (map g_gid (s_regs s)).

Lemma not_live_stop s g : ~ live g (stop s g).
Proof. unfold live, stop. destruct (find_reg s g) eqn:E.
  - fsimpl. unfold remove_reg. fsimpl. rewrite map_gid_filter. intros H. apply In_rm in H. tauto.
  - apply find_reg_None. exact E. Qed.
Lemma okreg_stop s g : g < s_gidctr s -> okreg g (stop s g).
Proof. intros H. split; [apply not_live_stop|]. unfold stop. destruct (find_reg s g); exact H. Qed.
Lemma stop_regs_incl s x g : In g (map g_gid (s_regs (stop s x))) -> In g (map g_gid (s_regs s)).
Proof. unfold stop. destruct (find_reg s x); [|tauto]. unfold remove_reg. fsimpl. rewrite map_gid_filter. intros H. apply In_rm in H. tauto. Qed.
Lemma stop_gidctr s x : s_gidctr (stop s x) = s_gidctr s.
Proof. unfold stop. destruct (find_reg s x); reflexivity. Qed.
Lemma okreg_fold_stop l : forall s g, In g l -> g < s_gidctr s -> okreg g (fold_left stop l s).
Proof. induction l as [|x l IH]; intros s g Hi Hg; [destruct Hi|]. cbn [fold_left]. destruct Hi as [->|Hi].
  - apply (q_ok (fun _ => True) g (stop s g)). apply Q_fold_stop. apply okreg_stop. exact Hg.
  - apply IH; [exact Hi | rewrite stop_gidctr; exact Hg]. Qed.

(* a new request from the same endpoint on the same token *)
Lemma ends_on_same_token s r con mid tok obs g0 :
  find_key s r tok = Some g0 -> s_down s = false -> in_recent s r mid = None -> 0 <= g_gid g0 < s_gidctr s ->
  ~ live (g_gid g0) (step s (ERequest r con mid tok obs)).
Proof.
  intros Hk Hd Hr Hg. cbn [step]. rewrite Hd, Hr.
  match goal with |- ~ live _ (flush_cancels (process_request ?x _ _ _ _)) => set (s2 := x) end.
  assert (Hk2 : find_key s2 r tok = Some g0) by (subst s2; destruct con; exact Hk).
  assert (Hc2 : s_gidctr s2 = s_gidctr s) by (subst s2; destruct con; reflexivity).
  unfold process_request. rewrite Hk2.
  set (s3 := flush_cancels (stop s2 (g_gid g0))).
  assert (O3 : okreg (g_gid g0) s3).
  { apply (q_ok (fun _ => True) _ (stop s2 (g_gid g0))). apply Q_flush. apply okreg_stop. rewrite Hc2. lia. }
  assert (O4 : okreg (g_gid g0) (match obs with Some 0 => accept s3 r tok con | _ => plain s3 r tok con end)).
  { destruct obs as [[| |]|]; try (apply (q_ok (fun _ => True) _ s3); apply Q_plain; [exact O3 | lia]).
    apply (q_ok (fun _ => True) _ s3). apply Q_accept. exact O3. }
  apply (q_ok (fun _ => True) _ _ _ (Q_flush _ _ _ O4)).
Qed.

(* the observer answers a confirmable notification (one that has an exchange) with Reset *)
Lemma ends_on_rst_con s r mid x :
  find (fun x => (x_remote x =? r) && (x_mid x =? mid)) (s_exch s) = Some x -> s_down s = false -> 0 <= x_gid x < s_gidctr s ->
  ~ live (x_gid x) (step s (ERst r mid)).
Proof.
  intros Hx Hd Hg. cbn [step]. rewrite Hd. unfold remove_exchange. rewrite Hx.
  match goal with |- ~ live _ (flush_cancels (continue_backlog ?y _)) => set (s2 := y) end.
  assert (O2 : okreg (x_gid x) s2) by (subst s2; apply okreg_stop; unfold cancel_timers; fsimpl; lia).
  pose proof (Q_continue_backlog (x_gid x) s2 r O2) as Q3.
  apply (q_ok (fun _ => True) _ _ _ (Q_flush _ _ _ (q_ok _ _ _ _ Q3))).
Qed.

(* a transport error is reported for the observer's endpoint *)
Lemma ends_on_transport_error s r g0 :
  In g0 (s_regs s) -> g_remote g0 = r -> s_down s = false -> 0 <= g_gid g0 < s_gidctr s ->
  ~ live (g_gid g0) (step s (ETransportError r)).
Proof.
  intros Hi Hr Hd Hg. cbn [step]. unfold dispatch_error. rewrite Hd.
  assert (O1 : okreg (g_gid g0) (stop_remote s r)).
  { apply okreg_fold_stop; [|lia]. apply in_map. apply filter_In. split; [exact Hi | lia]. }
  match goal with |- ~ live _ (flush_cancels (purge_backlog ?y _)) => set (s2 := y) end.
  assert (O2 : okreg (g_gid g0) s2) by exact O1.
  apply (q_ok (fun _ => True) _ _ _ (Q_flush _ _ _ (q_ok _ _ _ _ (Q_purge_backlog (fun _ => True) _ s2 r O2)))).
Qed.

(* a confirmable notification times out (the retransmission timer fires with the counter at MAX_RETRANSMIT) *)
Lemma ends_on_timeout s m t g0 :
  In g0 (s_regs s) -> g_remote g0 = m_remote m -> 0 <= g_gid g0 < s_gidctr s ->
  ~ live (g_gid g0) (flush_cancels (fire s (KRetrans m t MAX_RETRANSMIT))).
Proof.
  intros Hi Hr Hg. cbn [fire]. unfold retransmit. rewrite Z.ltb_irrefl.
  match goal with |- ~ live _ (flush_cancels (stop_remote ?y _)) => set (s2 := y) end.
  assert (O1 : okreg (g_gid g0) (stop_remote s2 (m_remote m))).
  { apply okreg_fold_stop; [|subst s2; unfold purge_backlog; fsimpl; lia]. apply in_map. apply filter_In. split; [exact Hi | lia]. }
  apply (q_ok (fun _ => True) _ _ _ (Q_flush _ _ _ O1)).
Qed.

(* the context shuts down: no registration survives *)
Lemma fold_stop_all l : forall s, (forall g, In g (s_regs s) -> In (g_gid g) l) -> s_regs (fold_left stop l s) = [].
Proof.
  induction l as [|x l IH]; intros s H; cbn [fold_left].
  - destruct (s_regs s) as [|g rs]; [reflexivity|]. destruct (H g (or_introl eq_refl)).
  - apply IH. intros g Hg. unfold stop in Hg. destruct (find_reg s x) eqn:E.
    + unfold remove_reg in Hg. fsimpl. apply filter_In in Hg as [Hg1 Hg2]. destruct (H g Hg1) as [Hx|Hx]; [lia | exact Hx].
    + destruct (H g Hg) as [Hx|Hx]; [|exact Hx]. exfalso. apply find_reg_None in E. apply E. subst x. apply in_map. exact Hg.
Qed.
Lemma ends_on_shutdown s : s_down s = false -> s_regs (step s EShutdown) = [].
Proof.
  intros Hd. cbn [step]. rewrite Hd.
  assert (E : s_regs (fold_left stop (map g_gid (s_regs s)) s) = []) by (apply fold_stop_all; intros g Hg; apply in_map; exact Hg).
  assert (G : forall l s0, s_regs (fold_left cancel_cb l s0) = s_regs s0).
  { induction l as [|c l IHl]; intros s0; cbn [fold_left]; [reflexivity|]. rewrite IHl. reflexivity. }
  unfold flush_cancels. fsimpl. rewrite G. unfold cancel_timers. fsimpl. exact E.
Qed.

(* a notification that is unsuccessful or marked last, or a render that raises, ends the registration from inside the task *)
Lemma ends_on_final cont s g0 res :
  0 <= g_gid g0 < s_gidctr s ->
  match res with RResp code _ _ => g_late g0 || negb (successful code) = true | RRaise _ _ _ => True end ->
  ~ live (g_gid g0) (after_response cont s g0 res).
Proof.
  intros Hg Hres. unfold after_response. destruct res as [code pk pv|code pk pv].
  - rewrite Hres. unfold live, cancel_cb, remove_reg. fsimpl. rewrite map_gid_filter. intros H. apply In_rm in H. tauto.
  - unfold live, remove_reg. fsimpl. rewrite map_gid_filter. intros H. apply In_rm in H. tauto.
Qed.
Lemma ends_on_first_unsuccessful s g0 res :
  match res with RResp code _ _ => successful code = false | RRaise _ _ _ => True end ->
  ~ live (g_gid g0) (first_render_done s g0 res).
Proof.
  intros Hres. unfold first_render_done. destruct res as [code pk pv|code pk pv].
  - rewrite Hres. cbn [negb]. unfold live, cancel_cb, remove_reg. fsimpl. rewrite map_gid_filter. intros H. apply In_rm in H. tauto.
  - unfold live, remove_reg. fsimpl. rewrite map_gid_filter. intros H. apply In_rm in H. tauto.
Qed.

(* ------------------------------------------------------------------ witnesses *)
Definition notif (g : Z) (h : list output) : list (Z * Z) :=       (* (mid, Observe) of first transmissions for g, oldest first *)
  rev (flat_map (fun o => match o with OSend m false => if m_gid m =? g then [(m_mid m, match m_observe m with Some n => n | None => -1 end)] else [] | _ => [] end) h).

(* F15: NON registration; the Reset answering notification mid 1 is ignored: the registration stays and notification 2 follows *)
Definition f15_events := [ERequest 1 false 1 1 (Some 0); ETrigger [] [(TRender, false)]; ERst 1 1; ETrigger [] [(TRender, false)]].
Lemma rst_on_non_refuted :
  let s := run (init 0) f15_events in
  live 0 s /\ s_observers s = [0] /\ count_cancel 0 (s_hist s) = 0%nat /\ notif 0 (s_hist s) = [(0, 0); (1, 1); (2, 2)].
Proof. vm_compute. repeat split; try reflexivity. left. reflexivity. Qed.
(* the same exchange with a CON registration ends it *)
Lemma rst_on_con_example :
  let s := run (init 0) [ERequest 1 true 1 1 (Some 0); ETrigger [] [(TRender, false)]; ERst 1 0; ETrigger [] [(TRender, false)]] in
  ~ live 0 s /\ s_observers s = [] /\ count_cancel 0 (s_hist s) = 1%nat /\ notif 0 (s_hist s) = [(1, 0); (0, 1)].
Proof. vm_compute. repeat split; try reflexivity. intros []. Qed.

(* F16: CON registration, two triggers (the second notification waits in the backlog), Reset for the first: the registration
   ends, the cancellation callback runs — and the queued notification (mid 1, Observe 2) is transmitted all the same *)
Definition f16_events := [ERequest 1 true 1 1 (Some 0); ETrigger [] [(TRender, false)]; ETrigger [] [(TRender, false)]; ERst 1 0].
Lemma silent_on_wire_refuted :
  let s1 := run (init 0) (firstn 3 f16_events) in let s2 := run (init 0) f16_events in
  live 0 s1 /\ ~ live 0 s2 /\ count_cancel 0 (s_hist s2) = 1%nat /\
  notif 0 (s_hist s1) = [(1, 0); (0, 1)] /\ notif 0 (s_hist s2) = [(1, 0); (0, 1); (1, 2)].
Proof. vm_compute. repeat split; try reflexivity. left; reflexivity. intros []. Qed.
