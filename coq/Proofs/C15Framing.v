(* C15 — proofs about the length coding of RFC 8323 3.2 (translated kernels of tcp.py). *)
From Verif Require Import Lib.Py Lib.Tactics Lib.PyLemmas Gen.tcp_framing.
Open Scope Z_scope.

(* ---------------------------------------------------------------- finite enumeration helper *)
Lemma forall_range (P : Z -> bool) (n : nat) :
  forallb P (map Z.of_nat (seq 0 n)) = true -> forall z, 0 <= z < Z.of_nat n -> P z = true.
Proof.
  intros H z Hz. rewrite forallb_forall in H. apply H.
  rewrite in_map_iff. exists (Z.to_nat z). split; [lia|]. apply in_seq. lia.
Qed.

Lemma nibbles_split : forall hi lo, 0 <= hi < 16 -> 0 <= lo < 16 ->
  Z.shiftr (Z.lor (Z.shiftl hi 4) lo) 4 = hi /\ Z.land (Z.lor (Z.shiftl hi 4) lo) 15 = lo /\
  0 <= Z.lor (Z.shiftl hi 4) lo < 256.
Proof.
  intros hi lo Hh Hl.
  pose (P := fun hi => forallb (fun lo => (Z.shiftr (Z.lor (Z.shiftl hi 4) lo) 4 =? hi) &&
     (Z.land (Z.lor (Z.shiftl hi 4) lo) 15 =? lo) && (0 <=? Z.lor (Z.shiftl hi 4) lo) && (Z.lor (Z.shiftl hi 4) lo <? 256))
     (map Z.of_nat (seq 0 16))).
  assert (HP : P hi = true) by (apply (forall_range P 16); [vm_compute; reflexivity | lia]).
  unfold P in HP. pose proof (forall_range _ 16 HP lo ltac:(lia)) as H. cbv beta in H. lia.
Qed.

(* ---------------------------------------------------------------- RFC 8323 3.2 as a table *)
(* Len nibble and Extended Length bytes for a given length of options + payload *)
Definition rfc8323_len (n : Z) : Z * bytes :=
  if n <? 13 then (n, [])
  else if n <? 269 then (13, [n - 13])
  else if n <? 65805 then (14, [(n - 269) / 256 mod 256; (n - 269) mod 256])
  else (15, [(n - 65805) / 256 / 256 / 256 mod 256; (n - 65805) / 256 / 256 mod 256; (n - 65805) / 256 mod 256; (n - 65805) mod 256]).

Lemma tb4 v : to_bytes_big_n 4 v = [v / 256 / 256 / 256 mod 256; v / 256 / 256 mod 256; v / 256 mod 256; v mod 256].
Proof. reflexivity. Qed.

Lemma encode_length_rfc8323 : forall n, 0 <= n < 65805 + 2 ^ 32 -> encode_length n = Ok (rfc8323_len n).
Proof.
  intros n Hn. unfold encode_length, rfc8323_len, to_bytes_big.
  change (2 ^ (8 * 1)) with 256. change (2 ^ (8 * 2)) with 65536. change (2 ^ (8 * 4)) with 4294967296.
  change (2 ^ 32) with 4294967296 in Hn.
  destruct (n <? 13) eqn:H1; [reflexivity|].
  destruct (n <? 269) eqn:H2.
  { replace ((n - 13 <? 0) || (256 <=? n - 13)) with false by lia. cbn [bind].
    change (Z.to_nat 1) with 1%nat. rewrite tb1. replace ((n - 13) mod 256) with (n - 13) by lia. reflexivity. }
  destruct (n <? 65805) eqn:H3.
  { replace ((n - 269 <? 0) || (65536 <=? n - 269)) with false by lia. cbn [bind].
    change (Z.to_nat 2) with 2%nat. rewrite tb2. reflexivity. }
  replace ((n - 65805 <? 0) || (4294967296 <=? n - 65805)) with false by lia. cbn [bind].
  change (Z.to_nat 4) with 4%nat. rewrite tb4. reflexivity.
Qed.

Lemma encode_length_overflow : forall n, 65805 + 2 ^ 32 <= n -> encode_length n = Raise OverflowError.
Proof.
  intros n Hn. unfold encode_length, to_bytes_big. change (2 ^ (8 * 4)) with 4294967296. change (2 ^ 32) with 4294967296 in Hn.
  replace (n <? 13) with false by lia. replace (n <? 269) with false by lia. replace (n <? 65805) with false by lia.
  replace ((n - 65805 <? 0) || (4294967296 <=? n - 65805)) with true by lia. reflexivity.
Qed.

Lemma rfc8323_len_bounds n : 0 <= n < 65805 + 2 ^ 32 ->
  0 <= fst (rfc8323_len n) < 16 /\ bytes_ok (snd (rfc8323_len n)) = true.
Proof.
  intros Hn. unfold rfc8323_len. change (2 ^ 32) with 4294967296 in Hn.
  destruct (n <? 13) eqn:H1; [cbn; split; [lia|reflexivity]|].
  destruct (n <? 269) eqn:H2. { cbn [fst snd bytes_ok forallb]. unfold byte_ok. split; lia. }
  destruct (n <? 65805) eqn:H3; cbn [fst snd bytes_ok forallb]; unfold byte_ok; split; lia.
Qed.

(* ---------------------------------------------------------------- _extract_message_size, cleaned up *)
Definition header (data : bytes) : option (Z * Z * Z) :=
  match data with
  | [] => None
  | b0 :: r =>
    let len := Z.shiftr b0 4 in
    let tkl := Z.land b0 15 in
    if len <? 13 then Some (2, tkl, len)
    else if len =? 13 then
      match r with e0 :: _ => Some (3, tkl, e0 + 13) | _ => None end
    else if len =? 14 then
      match r with e0 :: e1 :: _ => Some (4, tkl, e0 * 256 + e1 + 269) | _ => None end
    else
      match r with e0 :: e1 :: e2 :: e3 :: _ => Some (6, tkl, ((e0 * 256 + e1) * 256 + e2) * 256 + e3 + 65805) | _ => None end
  end.

Lemma extract_message_size_spec : forall data, extract_message_size data = Ok (header data).
Proof.
  intros data. unfold extract_message_size, header.
  destruct data as [|b0 r]; [reflexivity|].
  replace (negb (negb (blen (b0 :: r) =? 0))) with false
    by (rewrite blen_cons; pose proof (blen_nonneg r); lia).
  rewrite bget_cons0. cbn [bind].
  destruct (Z.shiftr b0 4 >=? 13) eqn:H13.
  2:{ replace (Z.shiftr b0 4 <? 13) with true by lia. reflexivity. }
  replace (Z.shiftr b0 4 <? 13) with false by lia.
  destruct (Z.shiftr b0 4 =? 13) eqn:E13.
  { cbn [bind]. destruct r as [|e0 r].
    - reflexivity.
    - replace (blen (b0 :: e0 :: r) <? 1 + 1) with false
        by (rewrite !blen_cons; pose proof (blen_nonneg r); lia).
      cbn. repeat f_equal. }
  destruct (Z.shiftr b0 4 =? 14) eqn:E14.
  { cbn [bind]. destruct r as [|e0 [|e1 r]]; try reflexivity.
    replace (blen (b0 :: e0 :: e1 :: r) <? 2 + 1) with false
        by (rewrite !blen_cons; pose proof (blen_nonneg r); lia).
    cbn. repeat f_equal. }
  cbn [bind]. destruct r as [|e0 [|e1 [|e2 [|e3 r]]]]; try reflexivity.
  replace (blen (b0 :: e0 :: e1 :: e2 :: e3 :: r) <? 4 + 1) with false
        by (rewrite !blen_cons; pose proof (blen_nonneg r); lia).
  cbn. repeat f_equal.
Qed.

Lemma byte_nibbles b : Z.shiftr b 4 = b / 16 /\ Z.land b 15 = b mod 16.
Proof.
  split. - rewrite Z.shiftr_div_pow2 by lia. reflexivity.
  - change 15 with (Z.ones 4). rewrite Z.land_ones by lia. reflexivity.
Qed.

(* a complete header stays the same header when more bytes arrive *)
Lemma header_app : forall s t h, header s = Some h -> header (s ++ t) = Some h.
Proof.
  intros s t h H. destruct s as [|b0 r]; [discriminate|].
  cbn [app]. unfold header in *.
  destruct (Z.shiftr b0 4 <? 13); [exact H|].
  destruct (Z.shiftr b0 4 =? 13). { destruct r as [|e0 r]; [discriminate|exact H]. }
  destruct (Z.shiftr b0 4 =? 14). { destruct r as [|e0 [|e1 r]]; try discriminate; exact H. }
  destruct r as [|e0 [|e1 [|e2 [|e3 r]]]]; try discriminate; exact H.
Qed.

Lemma header_bounds : forall s a t l, bytes_ok s = true -> header s = Some (a, t, l) ->
  2 <= a <= 6 /\ 0 <= t < 16 /\ 0 <= l /\ a - 1 <= blen s.
Proof.
  intros s a t l Hok H. destruct s as [|b0 r]; [discriminate|].
  unfold header in H. rewrite bytes_ok_cons in Hok. apply andb_prop in Hok as [Hb0 Hr].
  destruct (byte_nibbles b0) as [Hs Hl]. rewrite Hs, Hl in H. unfold byte_ok in Hb0.
  pose proof (blen_nonneg r) as Hr0.
  destruct (b0 / 16 <? 13) eqn:E1.
  { inv H. rewrite blen_cons. lia. }
  destruct (b0 / 16 =? 13) eqn:E2.
  { destruct r as [|e0 r]; [discriminate|]. inv H.
    rewrite bytes_ok_cons in Hr. apply andb_prop in Hr as [He0 _]. unfold byte_ok in He0.
    rewrite !blen_cons. pose proof (blen_nonneg r). lia. }
  destruct (b0 / 16 =? 14) eqn:E3.
  { destruct r as [|e0 [|e1 r]]; try discriminate. inv H.
    rewrite !bytes_ok_cons in Hr. apply andb_prop in Hr as [He0 Hr]. apply andb_prop in Hr as [He1 _].
    unfold byte_ok in *. rewrite !blen_cons. pose proof (blen_nonneg r). lia. }
  destruct r as [|e0 [|e1 [|e2 [|e3 r]]]]; try discriminate. inv H.
  rewrite !bytes_ok_cons in Hr. apply andb_prop in Hr as [He0 Hr]. apply andb_prop in Hr as [He1 Hr].
  apply andb_prop in Hr as [He2 Hr]. apply andb_prop in Hr as [He3 _].
  unfold byte_ok in *. rewrite !blen_cons. pose proof (blen_nonneg r). nia.
Qed.

(* reading back what _encode_length wrote: the length field survives at every boundary *)
Lemma length_roundtrip : forall n tkl rest, 0 <= n < 65805 + 2 ^ 32 -> 0 <= tkl < 16 ->
  header ((Z.lor (Z.shiftl (fst (rfc8323_len n)) 4) tkl :: snd (rfc8323_len n)) ++ rest)
  = Some (2 + blen (snd (rfc8323_len n)), tkl, n).
Proof.
  intros n tkl rest Hn Ht.
  destruct (rfc8323_len_bounds n Hn) as [Hnib _].
  destruct (nibbles_split (fst (rfc8323_len n)) tkl Hnib Ht) as (Hhi & Hlo & _).
  unfold header. cbn [app]. rewrite Hhi, Hlo. clear Hhi Hlo Hnib.
  change (2 ^ 32) with 4294967296 in Hn.
  unfold rfc8323_len.
  destruct (n <? 13) eqn:H1.
  { cbn [fst snd]. rewrite H1. reflexivity. }
  destruct (n <? 269) eqn:H2.
  { cbn [fst snd app]. cbn. repeat f_equal. lia. }
  destruct (n <? 65805) eqn:H3.
  { cbn [fst snd app]. cbn. do 2 f_equal. lia. }
  cbn [fst snd app]. cbn. do 2 f_equal. lia.
Qed.
