(* C19 — proofs over the FileServer model (Model/C19.v): a small Hoare logic over the effect monad, instantiated
   (1) with "every effect path is under the root / nothing outside the root changes" and
   (2) with "the file system is unchanged / only reading effects";
   then error responses leave the file system equivalent, block-wise reads reassemble the file, and histories. *)
From Verif Require Import Lib.Py Lib.PyLemmas Lib.Tactics Model.C19Path Gen.fileserver Model.C19 Proofs.C19Path.
Open Scope Z_scope.

(* ------------------------------------------------------------------ keys and association lists *)
Lemma parts_eqb_eq a b : parts_eqb a b = true <-> a = b.
Proof. unfold parts_eqb. revert b; induction a as [|x a IH]; intros [|y b]; cbn; split; try congruence; try discriminate.
  - intros H. apply andb_prop in H as [H1 H2]. apply str_eqb_eq in H1. apply IH in H2. congruence.
  - intros H. injection H as -> ->. rewrite str_eqb_refl. apply IH. reflexivity. Qed.
Lemma parts_eqb_refl a : parts_eqb a a = true. Proof. apply parts_eqb_eq. reflexivity. Qed.
Lemma parts_eqb_neq a b : a <> b -> parts_eqb a b = false.
Proof. intros H. destruct (parts_eqb a b) eqn:E; [|reflexivity]. apply parts_eqb_eq in E. contradiction. Qed.

Lemma alookup_aremove_same fs k : alookup (aremove fs k) k = None.
Proof. induction fs as [|[k' n] r IH]; [reflexivity|]. cbn. destruct (parts_eqb k' k) eqn:E; [exact IH|]. cbn. rewrite E. exact IH. Qed.
Lemma alookup_aremove_other fs k k' : k <> k' -> alookup (aremove fs k) k' = alookup fs k'.
Proof. intros H. induction fs as [|[k2 n] r IH]; [reflexivity|]. cbn. destruct (parts_eqb k2 k) eqn:E.
  - apply parts_eqb_eq in E. subst k2. rewrite (parts_eqb_neq _ _ H). exact IH.
  - cbn. rewrite IH. reflexivity. Qed.
Lemma lookup_aremove_other fs k k' : k <> k' -> lookup (aremove fs k) k' = lookup fs k'.
Proof. intros H. destruct k'; [reflexivity|]. apply alookup_aremove_other. exact H. Qed.
Lemma lookup_aset_other fs k n k' : k <> k' -> lookup (aset fs k n) k' = lookup fs k'.
Proof. intros H. destruct k' as [|x k']; [reflexivity|]. unfold lookup, aset. cbn [alookup].
  rewrite (parts_eqb_neq _ _ H). apply alookup_aremove_other. exact H. Qed.
Lemma lookup_aset_same fs k n : k <> [] -> lookup (aset fs k n) k = Some n.
Proof. intros H. destruct k; [contradiction|]. unfold lookup, aset. cbn [alookup]. rewrite parts_eqb_refl. reflexivity. Qed.
Lemma alookup_none_aremove fs k : alookup fs k = None -> aremove fs k = fs.
Proof. induction fs as [|[k' n] r IH]; [reflexivity|]. cbn. destruct (parts_eqb k' k); [discriminate|]. intros H. rewrite (IH H). reflexivity. Qed.

Lemma walk_key fs rest : forall cur k, walk fs cur rest = inr k -> k = cur ++ rest.
Proof. induction rest as [|p r IH]; intros cur k H; cbn in H.
  - injection H as <-. rewrite app_nil_r. reflexivity.
  - destruct (lookup fs cur) as [[c|]|]; try discriminate. destruct (255 <? utf8_len p); [discriminate|].
    apply IH in H. rewrite H, <- app_assoc. reflexivity. Qed.
Lemma resolve_key fs p k : resolve fs p = inr k -> k = parts p.
Proof. unfold resolve. destruct (has_nul p); [discriminate|]. intros H. apply walk_key in H. exact H. Qed.

(* ------------------------------------------------------------------ Hoare triples over FM *)
Section Triple.
  Variable I : state -> state -> Prop.       (* relation between the state before and after *)
  Variable E : effect -> Prop.               (* what every emitted effect satisfies *)
  Hypothesis I_refl : forall s, I s s.
  Hypothesis I_trans : forall a b c, I a b -> I b c -> I a c.

  Definition triple {A} (m : FM A) (Q : A -> Prop) : Prop :=
    forall st, match m st with
               | ((st', effs), r) => I st st' /\ Forall E effs /\ match r with inr a => Q a | inl _ => True end
               end.
  Lemma triple_ret {A} (a : A) (Q : A -> Prop) : Q a -> triple (ret a) Q.
  Proof. intros H st. cbn. auto. Qed.
  Lemma triple_raise {A} e (Q : A -> Prop) : triple (raise e) Q.
  Proof. intros st. cbn. auto. Qed.
  Lemma triple_bind {A B} (m : FM A) (f : A -> FM B) Q Q' :
    triple m Q -> (forall a, Q a -> triple (f a) Q') -> triple (bindF m f) Q'.
  Proof. intros Hm Hf st. unfold bindF. specialize (Hm st). destruct (m st) as [[st1 e1] [x|a]].
    - destruct Hm as [H1 [H2 _]]. auto.
    - destruct Hm as [H1 [H2 H3]]. specialize (Hf a H3 st1). destruct (f a st1) as [[st2 e2] r].
      destruct Hf as [H4 [H5 H6]]. split; [eapply I_trans; eauto|]. split; [apply Forall_app; auto|exact H6]. Qed.
  Lemma triple_weaken {A} (m : FM A) (Q Q' : A -> Prop) : triple m Q -> (forall a, Q a -> Q' a) -> triple m Q'.
  Proof. intros Hm H st. specialize (Hm st). destruct (m st) as [[st1 e1] [x|a]]; intuition. Qed.
  Lemma triple_obs {A} (m : FM A) Q :
    (forall st, match m st with ((st', effs), r) => st_fs st' = st_fs st /\ Forall E effs /\ match r with inr a => Q a | inl _ => True end end) ->
    (forall s s', st_fs s' = st_fs s -> I s s') -> triple m Q.
  Proof. intros H HI st. specialize (H st). destruct (m st) as [[st1 e1] r]. destruct H as [H1 [H2 H3]]. auto. Qed.
End Triple.

(* ------------------------------------------------------------------ instance 1: confinement and frame *)
(* a path is acceptable when it is under the root as the server names it, or under the absolutised root (aroot = the working
   directory's parts followed by the root's parts: what os.path.abspath makes of tempfile's directory when the root is relative) *)
Definition okp (root aroot : ppath) (p : ppath) : Prop := under root p = true \/ under aroot p = true.
Definition conf (root aroot : ppath) (e : effect) : Prop :=
  match e with
  | EStat p | EOpenRead p | EListDir p | EOpenDirW p | ECreate p | EUnlink p => okp root aroot p
  | ERename a b => okp root aroot a /\ okp root aroot b
  end.
Definition below (rp k : list (list Z)) : Prop := exists rest, k = rp ++ rest.
(* nothing outside the root changes *)
Definition frame (rp : list (list Z)) (fs fs' : fsys) : Prop := forall k, ~ below rp k -> lookup fs' k = lookup fs k.
(* ... and every observed path (key of _observations) stays under the root *)
Definition obs_under (root : ppath) (s : state) : Prop := Forall (fun e => under root (fst e) = true) (st_obs s).
Definition Iframe (root : ppath) (s s' : state) : Prop :=
  frame (parts root) (st_fs s) (st_fs s') /\ (obs_under root s -> obs_under root s').
Lemma frame_refl rp fs : frame rp fs fs. Proof. intros k _. reflexivity. Qed.
Lemma frame_trans rp a b c : frame rp a b -> frame rp b c -> frame rp a c.
Proof. intros H1 H2 k Hk. rewrite (H2 k Hk). apply H1. exact Hk. Qed.
Lemma Iframe_refl root s : Iframe root s s. Proof. split; [apply frame_refl|auto]. Qed.
Lemma Iframe_trans root a b c : Iframe root a b -> Iframe root b c -> Iframe root a c.
Proof. intros [H1 H2] [H3 H4]. split; [eapply frame_trans; eassumption|auto]. Qed.
Lemma Iframe_same root s s' : st_fs s' = st_fs s -> st_obs s' = st_obs s -> Iframe root s s'.
Proof. unfold Iframe, obs_under. intros -> ->. split; [apply frame_refl|auto]. Qed.
Lemma Iframe_fs root st fs' : frame (parts root) (st_fs st) fs' -> Iframe root st (with_fs st fs').
Proof. intros H. split; [exact H|auto]. Qed.
Lemma obs_mark_under root o p : Forall (fun e : ppath * bool => under root (fst e) = true) o -> Forall (fun e => under root (fst e) = true) (obs_mark o p).
Proof. induction 1 as [|[q b] r Hq Hr IH]; cbn; [constructor|]. destruct (ppath_eqb q p); constructor; auto. Qed.

Lemma In_removelast {A} (x : A) l : In x (removelast l) -> In x l.
Proof. induction l as [|a l IH]; [auto|]. destruct l as [|b r]; [cbn; tauto|].
  change (removelast (a :: b :: r)) with (a :: removelast (b :: r)). intros [H|H]; [left; exact H|right; apply IH; exact H]. Qed.

Lemma under_below root p : under root p = true -> below (parts root) (parts p).
Proof. intros H. apply under_inv in H as [_ [rest [H _]]]. exists rest. exact H. Qed.

Section Conf.
  Variable root aroot : ppath.
  Notation T := (triple (Iframe root) (conf root aroot)).
  Let Ir := Iframe_refl root.
  Let It := Iframe_trans root.

  Lemma conf_stat p : under root p = true -> T (stat p) (fun _ => True).
  Proof. intros H st. cbn. split; [apply Ir|]. split; [repeat constructor; exact H|exact I]. Qed.
  Lemma conf_open_read p : under root p = true -> T (open_read p) (fun _ => True).
  Proof. intros H st. cbn. split; [apply Ir|]. split; [repeat constructor; exact H|exact I]. Qed.
  Lemma conf_open_dir_w p : under root p = true -> T (open_dir_w p) (fun _ => True).
  Proof. intros H st. cbn. split; [apply Ir|]. split; [repeat constructor; exact H|exact I]. Qed.

  Lemma children_no_dotdot fs k : Forall (fun n => n <> DOTDOT) (children fs k).
  Proof. unfold children. apply Forall_forall. intros n Hn. apply in_flat_map in Hn as [e [_ Hn]].
    destruct (strip_prefix k (fst e)) as [[|x [|y r]]|]; try contradiction.
    destruct (str_eqb x DOT || str_eqb x DOTDOT) eqn:E; [contradiction|]. destruct Hn as [<-|[]].
    apply orb_false_elim in E as [_ E]. apply str_eqb_neq in E. exact E. Qed.
  Lemma conf_listdir p : under root p = true ->
    T (listdir p) (fun r => match r with inr names => Forall (fun n => n <> DOTDOT) names | inl _ => True end).
  Proof. intros H st. cbn. split; [apply Ir|]. split; [repeat constructor; exact H|].
    unfold fs_listdir. destruct (resolve (st_fs st) p); [exact I|]. destruct (lookup (st_fs st) l) as [[c|]|]; try exact I.
    apply children_no_dotdot. Qed.

  Lemma conf_create shown p c : okp root aroot shown -> under root p = true -> T (create shown p c) (fun _ => True).
  Proof. intros Hs H st. unfold create, fs_create. destruct (resolve (st_fs st) p) as [e|k] eqn:Er.
    - split; [apply Ir|]. split; [constructor; [exact Hs|constructor]|exact I].
    - destruct (lookup (st_fs st) k).
      + split; [apply Ir|]. split; [constructor; [exact Hs|constructor]|exact I].
      + split; [|split; [constructor; [exact Hs|constructor]|exact I]].
        apply Iframe_fs. intros k' Hk'. apply lookup_aset_other. intros ->. apply Hk'. apply resolve_key in Er. subst. apply under_below. exact H. Qed.
  Lemma conf_unlink shown p : okp root aroot shown -> under root p = true -> T (unlink shown p) (fun _ => True).
  Proof. intros Hs H st. unfold unlink, fs_unlink. destruct (resolve (st_fs st) p) as [e|k] eqn:Er.
    - split; [apply Ir|]. split; [constructor; [exact Hs|constructor]|exact I].
    - destruct (lookup (st_fs st) k) as [[c|]|].
      + split; [|split; [constructor; [exact Hs|constructor]|exact I]].
        apply Iframe_fs. intros k' Hk'. apply lookup_aremove_other. intros ->. apply Hk'. apply resolve_key in Er. subst. apply under_below. exact H.
      + split; [apply Ir|]. split; [constructor; [exact Hs|constructor]|exact I].
      + split; [apply Ir|]. split; [constructor; [exact Hs|constructor]|exact I]. Qed.
  Lemma conf_rename shown a b : okp root aroot shown -> under root a = true -> under root b = true -> T (rename shown a b) (fun _ => True).
  Proof. intros Hs Ha Hb st. unfold rename, fs_rename.
    assert (Forall (conf root aroot) [ERename shown b]) as Hc by (constructor; [split; [exact Hs|left; exact Hb]|constructor]).
    destruct (resolve (st_fs st) a) as [e|ka] eqn:Ea; [split; [apply Ir|split; [exact Hc|exact I]]|].
    destruct (lookup (st_fs st) ka) as [na|]; [|split; [apply Ir|split; [exact Hc|exact I]]].
    destruct (resolve (st_fs st) b) as [e|kb] eqn:Eb; [split; [apply Ir|split; [exact Hc|exact I]]|].
    apply resolve_key in Ea. apply resolve_key in Eb. subst ka kb.
    assert (frame (parts root) (st_fs st) (aset (aremove (st_fs st) (parts a)) (parts b) na)) as Hf.
    { intros k' Hk'. rewrite lookup_aset_other, lookup_aremove_other; [reflexivity| |];
        intros Heq; apply Hk'; rewrite <- Heq; apply under_below; assumption. }
    destruct (lookup (st_fs st) (parts b)) as [[c|]|]; (split; [first [apply Iframe_fs; exact Hf|apply Ir]|split; [exact Hc|exact I]]). Qed.

  (* paths derived from a confined path *)
  Lemma under_child p n : under root p = true -> n <> DOTDOT -> under root (child p n) = true.
  Proof. intros H Hn. apply under_inv in H as [Ha [rest [Hp Hd]]]. unfold under, child. cbn [anchor parts].
    rewrite Hp, <- app_assoc, strip_prefix_app. replace (anchor p =? anchor root) with true by lia. cbn [andb].
    rewrite existsb_app. cbn [existsb]. apply str_eqb_neq in Hn.
    replace (str_eqb DOTDOT n) with false by (symmetry; apply str_eqb_neq; apply str_eqb_neq in Hn; congruence).
    rewrite !orb_false_r. destruct (existsb (str_eqb DOTDOT) rest) eqn:E; [|reflexivity].
    exfalso. apply existsb_exists in E as [x [Hx E]]. apply str_eqb_eq in E. subst x. exact (Hd Hx). Qed.
  Lemma under_parent p rest : under root p = true -> parts p = parts root ++ rest -> rest <> [] -> under root (parent p) = true.
  Proof. intros H Hp Hne. apply under_inv in H as [Ha [rest' [Hp' Hd]]].
    assert (rest' = rest) by (rewrite Hp in Hp'; apply app_inv_head in Hp'; congruence). subst rest'.
    unfold under, parent. cbn [anchor parts]. replace (anchor p =? anchor root) with true by lia. cbn [andb].
    rewrite Hp, removelast_app by exact Hne. rewrite strip_prefix_app.
    destruct (existsb (str_eqb DOTDOT) (removelast rest)) eqn:E; [|reflexivity].
    exfalso. apply existsb_exists in E as [x [Hx E]]. apply str_eqb_eq in E. subst x. apply Hd.
    apply In_removelast. exact Hx. Qed.
End Conf.

(* ------------------------------------------------------------------ instance 2: the file system is not modified *)
Definition reading (e : effect) : Prop := match e with EStat _ | EOpenRead _ | EListDir _ => True | _ => False end.
Definition Isame (s s' : state) : Prop := st_fs s' = st_fs s.
Lemma Isame_refl s : Isame s s. Proof. reflexivity. Qed.
Lemma Isame_trans a b c : Isame a b -> Isame b c -> Isame a c. Proof. unfold Isame. congruence. Qed.
Notation R := (triple Isame reading).
Lemma ro_stat p : R (stat p) (fun _ => True).
Proof. intros st. cbn. split; [reflexivity|]. split; [repeat constructor|exact I]. Qed.
Lemma ro_open_read p : R (open_read p) (fun _ => True).
Proof. intros st. cbn. split; [reflexivity|]. split; [repeat constructor|exact I]. Qed.
Lemma ro_listdir p : R (listdir p) (fun _ => True).
Proof. intros st. cbn. split; [reflexivity|]. split; [repeat constructor|exact I]. Qed.

(* ------------------------------------------------------------------ confinement of every render method *)
Lemma filter_last_nonempty l : nonempty_list l = true -> last_is_empty l = false -> filter nonempty l <> [].
Proof.
  unfold last_is_empty. induction l as [|a l IH]; [discriminate|]. intros _ H.
  destruct l as [|b r].
  - cbn in H. cbn. unfold nonempty. rewrite H. discriminate.
  - change (last (a :: b :: r) [0]) with (last (b :: r) [0]) in H. specialize (IH eq_refl H).
    cbn [filter]. destruct (nonempty a); [discriminate|exact IH]. Qed.

(* the Block1 spool touches neither the file system nor any path; it releases the request with the same method and Uri-Path *)
Lemma feed_and_take_spec req st :
  match feed_and_take req st with
  | ((st', effs), r) => st_fs st' = st_fs st /\ effs = [] /\
      match r with inr req' => opt_uri_path req' = opt_uri_path req /\ code req' = code req | inl _ => True end
  end.
Proof.
  unfold feed_and_take. destruct (opt_block1 req) as [[[num more] szx]|]; [|cbn; auto].
  destruct (num =? 0).
  - destruct more; cbn; auto.
  - destruct (spool_find (st_spool st) (block_key req)) as [acc|]; [|cbn; auto].
    destruct (block1_invalid more szx (payload req)); [cbn; auto|]. destruct (blk_start num szx =? blen acc); [|cbn; auto].
    destruct more; cbn; auto.
Qed.

Lemma feed_and_take_obs req st : st_obs (fst (fst (feed_and_take req st))) = st_obs st.
Proof.
  unfold feed_and_take. destruct (opt_block1 req) as [[[num more] szx]|]; [|reflexivity].
  destruct (num =? 0).
  - destruct more; reflexivity.
  - destruct (spool_find (st_spool st) (block_key req)) as [acc|]; [|reflexivity].
    destruct (block1_invalid more szx (payload req)); [reflexivity|]. destruct (blk_start num szx =? blen acc); [|reflexivity].
    destruct more; reflexivity.
Qed.

Section ServerConf.
  Variable self : fileserver.
  Hypothesis Hroot : root_ok (fs_root self).
  Hypothesis Htmp : fs_tmpname self <> DOTDOT.
  Let rootp := load_parts (fs_root self).
  Let arootp := abspath self rootp.
  Notation T := (triple (Iframe rootp) (conf rootp arootp)).
  Let Ir := Iframe_refl rootp.
  Let It := Iframe_trans rootp.
  Definition Qpath (req : request) (lp : ppath) : Prop :=
    under rootp lp = true /\ parts lp = parts rootp ++ filter nonempty (opt_uri_path req).

  Lemma under_abspath d : under rootp d = true -> under arootp (abspath self d) = true.
  Proof. intros H. apply under_inv in H as [Ha [rest [Hp Hd]]]. unfold arootp, abspath. rewrite Ha.
    destruct (anchor rootp =? 0).
    - unfold under. cbn [anchor parts]. rewrite Hp, app_assoc, strip_prefix_app. cbn [Z.eqb andb].
      destruct (existsb (str_eqb DOTDOT) rest) eqn:E; [|reflexivity].
      exfalso. apply existsb_exists in E as [x [Hx E]]. apply str_eqb_eq in E. subst x. exact (Hd Hx).
    - unfold under. rewrite Ha, Z.eqb_refl, Hp, strip_prefix_app. cbn [andb].
      destruct (existsb (str_eqb DOTDOT) rest) eqn:E; [|reflexivity].
      exfalso. apply existsb_exists in E as [x [Hx E]]. apply str_eqb_eq in E. subst x. exact (Hd Hx). Qed.

  Lemma conf_lift req : T (lift_path (request_to_localpath self req)) (Qpath req).
  Proof. intros st. destruct (request_to_localpath self req) as [p|e] eqn:E; cbn.
    - split; [apply Ir|]. split; [constructor|]. destruct (request_to_localpath_confined _ _ _ Hroot E) as [H1 H2].
      split; [exact H2|]. rewrite H1. reflexivity.
    - split; [apply Ir|]. split; [constructor|exact I]. Qed.
  Lemma conf_obs_register p : under rootp p = true -> T (obs_register p) (fun _ => True).
  Proof. intros Hp st. unfold obs_register. destruct (obs_find (st_obs st) p); cbn.
    - split; [apply Ir|split; [constructor|exact I]].
    - split; [|split; [constructor|exact I]]. split; [apply frame_refl|]. unfold obs_under. cbn [st_obs]. intros H.
      apply Forall_app. split; [exact H|repeat constructor; exact Hp]. Qed.
  Lemma conf_obs_stat p : under rootp p = true -> T (obs_stat p) (fun _ => True).
  Proof. intros H st. unfold obs_stat. destruct (obs_find (st_obs st) p) as [[|]|]; cbn.
    - split; [apply Ir|split; [constructor|exact I]].
    - split; [|split; [constructor; [left; exact H|constructor]|exact I]]. split; [apply frame_refl|]. unfold obs_under. cbn [st_obs]. apply obs_mark_under.
    - split; [apply Ir|split; [constructor|exact I]]. Qed.
  Lemma conf_add_observation req : T (add_observation self req) (fun _ => True).
  Proof. unfold add_observation. eapply (triple_bind _ _ It); [apply conf_lift|]. intros p [Hp _]. apply conf_obs_register. exact Hp. Qed.

  Lemma conf_stat_children p names : under rootp p = true -> Forall (fun n => n <> DOTDOT) names ->
    T (stat_children p names) (fun _ => True).
  Proof. intros Hp. induction 1 as [|n r Hn Hr IH]; cbn [stat_children].
    - apply (triple_ret _ _ Ir). exact I.
    - eapply (triple_bind _ _ It); [apply conf_stat; apply under_child; assumption|]. intros s _.
      eapply (triple_bind _ _ It); [exact IH|]. intros rest _. apply (triple_ret _ _ Ir). exact I. Qed.
  Lemma conf_render_get_dir req p : under rootp p = true -> T (render_get_dir self req p) (fun _ => True).
  Proof. intros Hp. unfold render_get_dir. destruct (_ && _); [apply (triple_raise _ _ Ir)|].
    eapply (triple_bind _ _ It); [apply conf_listdir; exact Hp|]. intros [e|names] Hn; [apply (triple_raise _ _ Ir)|].
    eapply (triple_bind _ _ It); [apply conf_stat_children; assumption|]. intros entries _.
    destruct (forallb _ _); [apply (triple_ret _ _ Ir); exact I|apply (triple_raise _ _ Ir)]. Qed.
  Lemma conf_render_get_file req p : under rootp p = true -> T (render_get_file self req p) (fun _ => True).
  Proof. intros Hp. unfold render_get_file. destruct (_ && _); [apply (triple_raise _ _ Ir)|].
    destruct (match opt_block2 req with Some b => b | None => (0, false, 6) end) as [[num m] szx].
    eapply (triple_bind _ _ It); [apply conf_open_read; exact Hp|]. intros [e|content] _; [apply (triple_raise _ _ Ir)|].
    eapply (triple_bind _ _ It); [apply conf_obs_stat; exact Hp|]. intros _ _. apply (triple_ret _ _ Ir). exact I. Qed.
  Lemma conf_render_get req : T (render_get self req) (fun _ => True).
  Proof. unfold render_get. destruct (parts_eqb _ _); [apply (triple_ret _ _ Ir); exact I|].
    eapply (triple_bind _ _ It); [apply conf_lift|]. intros p [Hp _].
    eapply (triple_bind _ _ It); [apply conf_stat; exact Hp|]. intros [[]|n] _; try apply (triple_raise _ _ Ir).
    destruct (_ && _); [apply (triple_ret _ _ Ir); exact I|]. destruct n.
    - eapply (triple_bind _ _ It); [apply conf_render_get_file; exact Hp|]. intros r _. apply (triple_ret _ _ Ir). exact I.
    - eapply (triple_bind _ _ It); [apply conf_render_get_dir; exact Hp|]. intros r _. apply (triple_ret _ _ Ir). exact I. Qed.

  Lemma conf_check_if_match req p x : under rootp p = true -> T (check_if_match self req p x) (fun _ => True).
  Proof. intros Hp. unfold check_if_match. destruct (_ && _); [|apply (triple_ret _ _ Ir); exact I].
    eapply (triple_bind _ _ It); [apply conf_stat; exact Hp|]. intros [[]|n] _; try apply (triple_raise _ _ Ir).
    destruct (_ && _); [apply (triple_ret _ _ Ir); exact I|apply (triple_raise _ _ Ir)]. Qed.
  Lemma conf_put_preconditions req p : under rootp p = true -> T (put_preconditions self req p) (fun _ => True).
  Proof. intros Hp. unfold put_preconditions. eapply (triple_bind _ _ It) with (Q := fun _ => True).
    - destruct (opt_if_none_match req); [|apply (triple_ret _ _ Ir); exact I].
      eapply (triple_bind _ _ It); [apply conf_stat; exact Hp|]. intros [[]|n] _; first [apply (triple_raise _ _ Ir)|apply (triple_ret _ _ Ir); exact I].
    - intros _ _. apply conf_check_if_match. exact Hp. Qed.
  Lemma conf_store_file req p rest : under rootp p = true -> parts p = parts rootp ++ rest -> rest <> [] ->
    T (store_file self req p) (fun _ => True).
  Proof. intros Hp Hparts Hne. unfold store_file.
    assert (under rootp (parent p) = true) as Hpar by (eapply under_parent; eassumption).
    assert (under rootp (child (parent p) (fs_tmpname self)) = true) as Htmpu by (apply under_child; assumption).
    assert (okp rootp arootp (child (abspath self (parent p)) (fs_tmpname self))) as Hshown
      by (right; apply under_child; [apply under_abspath; exact Hpar|exact Htmp]).
    eapply (triple_bind _ _ It); [apply conf_open_dir_w; exact Hpar|]. intros [e|[]] _; [apply (triple_raise _ _ Ir)|].
    eapply (triple_bind _ _ It); [apply conf_create; [exact Hshown|exact Htmpu]|]. intros [e|[]] _; [apply (triple_raise _ _ Ir)|].
    eapply (triple_bind _ _ It) with (Q := fun _ => True);
      [destruct (fs_disk_full self && nonempty_list (payload req)); [apply (triple_ret _ _ Ir); exact I|apply conf_rename; assumption]|]. intros [e|[]] _.
    - eapply (triple_bind _ _ It); [apply conf_unlink; [exact Hshown|exact Htmpu]|]. intros _ _. apply (triple_raise _ _ Ir).
    - eapply (triple_bind _ _ It); [apply conf_stat; exact Hp|]. intros [e|n] _; [apply (triple_raise _ _ Ir)|apply (triple_ret _ _ Ir); exact I]. Qed.
  Lemma conf_render_put req : T (render_put self req) (fun _ => True).
  Proof. unfold render_put. destruct (negb (fs_write self)); [apply (triple_ret _ _ Ir); exact I|].
    destruct (negb (nonempty_list (opt_uri_path req)) || last_is_empty (opt_uri_path req)) eqn:G; [apply (triple_ret _ _ Ir); exact I|].
    apply orb_false_elim in G as [G1 G2]. apply negb_false_iff in G1.
    eapply (triple_bind _ _ It); [apply conf_lift|]. intros p [Hp Hparts].
    eapply (triple_bind _ _ It); [apply conf_put_preconditions; exact Hp|]. intros _ _.
    eapply conf_store_file; [exact Hp|exact Hparts|apply filter_last_nonempty; assumption]. Qed.
  Lemma conf_render_delete req : T (render_delete self req) (fun _ => True).
  Proof. unfold render_delete. destruct (negb (fs_write self)); [apply (triple_ret _ _ Ir); exact I|].
    destruct (_ || _); [apply (triple_ret _ _ Ir); exact I|].
    eapply (triple_bind _ _ It); [apply conf_lift|]. intros p [Hp _].
    eapply (triple_bind _ _ It); [apply conf_check_if_match; exact Hp|]. intros _ _.
    eapply (triple_bind _ _ It); [apply conf_unlink; [left; exact Hp|exact Hp]|]. intros [[]|[]] _; first [apply (triple_raise _ _ Ir)|apply (triple_ret _ _ Ir); exact I]. Qed.
  Lemma conf_render req : T (render self req) (fun _ => True).
  Proof. unfold render. destruct (code req =? 1); [apply conf_render_get|]. destruct (code req =? 3); [apply conf_render_put|].
    destruct (code req =? 4); [apply conf_render_delete|apply (triple_raise _ _ Ir)]. Qed.
  Lemma conf_feed_and_take req : T (feed_and_take req) (fun _ => True).
  Proof. intros st. pose proof (feed_and_take_spec req st) as H. destruct (feed_and_take req st) as [[st' effs] r] eqn:E.
    pose proof (feed_and_take_obs req st) as Ho. rewrite E in Ho. cbn [fst] in Ho.
    destruct H as [H1 [-> _]]. split; [apply Iframe_same; [exact H1|exact Ho]|]. split; [constructor|destruct r; exact I]. Qed.
  Lemma conf_render_to_pipe req : T (render_to_pipe self req) (fun _ => True).
  Proof. unfold render_to_pipe.
    assert (T (if needs_blockwise_assembly req then (req' <-- feed_and_take req ;;; render self req') else render self req) (fun _ => True)) as Hn.
    { destruct (needs_blockwise_assembly req); [|apply conf_render].
      eapply (triple_bind _ _ It); [apply conf_feed_and_take|]. intros req' _. apply conf_render. }
    destruct (opt_observe req) as [[|?|?]|]; try exact Hn.
    eapply (triple_bind _ _ It); [apply conf_add_observation|]. intros _ _. apply conf_render. Qed.

  (* every request: all effects under the root, nothing outside the root changes, observed paths stay under the root *)
  Lemma serve_confined req st :
    match serve self req st with (st', effs, _) => Forall (conf rootp arootp) effs /\ Iframe rootp st st' end.
  Proof. unfold serve. pose proof (conf_render_to_pipe req st) as H.
    destruct (render_to_pipe self req st) as [[st' effs] [e|r]]; destruct H as [H1 [H2 _]]; split; assumption. Qed.
  Lemma render_confined req st :
    match render self req st with ((st', effs), _) => Forall (conf rootp arootp) effs /\ Iframe rootp st st' end.
  Proof. pose proof (conf_render req st) as H. destruct (render self req st) as [[st' effs] r]. destruct H as [H1 [H2 _]]. split; assumption. Qed.
End ServerConf.

Definition all_effects (o : list (list effect * response)) : list effect := flat_map fst o.
Section Histories.
  Variable self : fileserver.
  Hypothesis Hroot : root_ok (fs_root self).
  Hypothesis Htmp : fs_tmpname self <> DOTDOT.
  Let rootp := load_parts (fs_root self).
  Let arootp := abspath self rootp.
  Lemma fetch_all_confined fuel req szx : forall n st,
    match fetch_all fuel self req szx n st with (st', o) => Forall (conf rootp arootp) (all_effects o) /\ Iframe rootp st st' end.
  Proof. induction fuel as [|f IH]; intros n st; cbn [fetch_all];
    pose proof (serve_confined self Hroot Htmp (with_block2 req (Some (n, false, szx))) st) as H;
    destruct (serve self (with_block2 req (Some (n, false, szx))) st) as [[st1 effs] r]; destruct H as [H1 H2].
    - destruct (has_more r); cbn; rewrite app_nil_r; split; assumption.
    - destruct (has_more r); [|cbn; rewrite app_nil_r; split; assumption].
      specialize (IH (n + 1) st1). destruct (fetch_all f self req szx (n + 1) st1) as [st2 rs]. destruct IH as [H3 H4].
      split; [cbn; apply Forall_app; split; assumption|eapply Iframe_trans; eassumption]. Qed.
  Lemma refresh_confined fs o : Forall (fun e : ppath * bool => under rootp (fst e) = true) o -> Forall (conf rootp arootp) (refresh_list fs o).
  Proof. induction 1 as [|[p b] r Hp Hr IH]; cbn [refresh_list]; [constructor|]. destruct b; [|exact IH].
    constructor; [left; exact Hp|]. destruct (fs_stat fs p); [constructor|exact IH]. Qed.
  Lemma rerender_confined rs : forall st,
    match rerender self rs st with (st', effs) => Forall (conf rootp arootp) effs /\ Iframe rootp st st' end.
  Proof. induction rs as [|r rest IH]; intros st; cbn [rerender]; [split; [constructor|apply Iframe_refl]|].
    pose proof (render_confined self Hroot Htmp r st) as H. destruct (render self r st) as [[st1 e1] x]. destruct H as [H1 H2].
    specialize (IH st1). destruct (rerender self rest st1) as [st2 e2]. destruct IH as [H3 H4].
    split; [apply Forall_app; split; assumption|eapply Iframe_trans; eassumption]. Qed.
  Lemma step_confined st i : obs_under rootp st ->
    match step self st i with (st', o) => Forall (conf rootp arootp) (all_effects o) /\ Iframe rootp st st' end.
  Proof. intros Hobs. destruct i as [r|r szx|r|rs]; cbn [step].
    - pose proof (serve_confined self Hroot Htmp r st) as H. destruct (serve self r st) as [[st1 effs] resp]. destruct H. cbn. rewrite app_nil_r. split; assumption.
    - apply fetch_all_confined.
    - pose proof (serve_confined (with_full self) Hroot Htmp r st) as H. destruct (serve (with_full self) r st) as [[st1 effs] resp]. destruct H. cbn. rewrite app_nil_r. split; assumption.
    - pose proof (rerender_confined rs st) as H. destruct (rerender self rs st) as [st1 e1]. destruct H as [H1 H2].
      cbn. rewrite app_nil_r. split; [apply Forall_app; split; [apply refresh_confined; exact Hobs|exact H1]|exact H2]. Qed.
  (* every history, from every state whose observed paths are under the root (in particular the initial state) *)
  Lemma run_confined items : forall st, obs_under rootp st ->
    match run self st items with
    | (st', os) => Forall (fun o => Forall (conf rootp arootp) (all_effects o)) os /\ frame (parts rootp) (st_fs st) (st_fs st') /\ obs_under rootp st'
    end.
  Proof. induction items as [|i r IH]; intros st Hobs; cbn [run].
    - split; [constructor|split; [apply frame_refl|exact Hobs]].
    - pose proof (step_confined st i Hobs) as H. destruct (step self st i) as [st1 o]. destruct H as [H1 [H2 H2o]].
      specialize (IH st1 (H2o Hobs)). destruct (run self st1 r) as [st2 os]. destruct IH as [H3 [H4 H5]].
      split; [constructor; assumption|split; [eapply frame_trans; eassumption|exact H5]]. Qed.
End Histories.

(* ------------------------------------------------------------------ reading requests and servers without write permission *)
Section ServerRO.
  Variable self : fileserver.
  Let Ir := Isame_refl.
  Let It := Isame_trans.

  Lemma ro_lift req : R (lift_path (request_to_localpath self req)) (fun _ => True).
  Proof. intros st. destruct (request_to_localpath self req); cbn; (split; [reflexivity|split; [constructor|exact I]]). Qed.
  Lemma ro_obs_register p : R (obs_register p) (fun _ => True).
  Proof. intros st. unfold obs_register. destruct (obs_find (st_obs st) p); cbn; (split; [reflexivity|split; [constructor|exact I]]). Qed.
  Lemma ro_obs_stat p : R (obs_stat p) (fun _ => True).
  Proof. intros st. unfold obs_stat. destruct (obs_find (st_obs st) p) as [[|]|]; cbn; (split; [reflexivity|split; [repeat constructor|exact I]]). Qed.
  Lemma ro_add_observation req : R (add_observation self req) (fun _ => True).
  Proof. unfold add_observation. eapply (triple_bind _ _ It); [apply ro_lift|]. intros p _. apply ro_obs_register. Qed.
  Lemma ro_stat_children p names : R (stat_children p names) (fun _ => True).
  Proof. induction names as [|n r IH]; cbn [stat_children].
    - apply (triple_ret _ _ Ir). exact I.
    - eapply (triple_bind _ _ It); [apply ro_stat|]. intros s _.
      eapply (triple_bind _ _ It); [exact IH|]. intros rest _. apply (triple_ret _ _ Ir). exact I. Qed.
  Lemma ro_render_get_dir req p : R (render_get_dir self req p) (fun _ => True).
  Proof. unfold render_get_dir. destruct (_ && _); [apply (triple_raise _ _ Ir)|].
    eapply (triple_bind _ _ It); [apply ro_listdir|]. intros [e|names] _; [apply (triple_raise _ _ Ir)|].
    eapply (triple_bind _ _ It); [apply ro_stat_children|]. intros entries _.
    destruct (forallb _ _); [apply (triple_ret _ _ Ir); exact I|apply (triple_raise _ _ Ir)]. Qed.
  Lemma ro_render_get_file req p : R (render_get_file self req p) (fun _ => True).
  Proof. unfold render_get_file. destruct (_ && _); [apply (triple_raise _ _ Ir)|].
    destruct (match opt_block2 req with Some b => b | None => (0, false, 6) end) as [[num m] szx].
    eapply (triple_bind _ _ It); [apply ro_open_read|]. intros [e|content] _; [apply (triple_raise _ _ Ir)|].
    eapply (triple_bind _ _ It); [apply ro_obs_stat|]. intros _ _. apply (triple_ret _ _ Ir). exact I. Qed.
  Lemma ro_render_get req : R (render_get self req) (fun _ => True).
  Proof. unfold render_get. destruct (parts_eqb _ _); [apply (triple_ret _ _ Ir); exact I|].
    eapply (triple_bind _ _ It); [apply ro_lift|]. intros p _.
    eapply (triple_bind _ _ It); [apply ro_stat|]. intros [[]|n] _; try apply (triple_raise _ _ Ir).
    destruct (_ && _); [apply (triple_ret _ _ Ir); exact I|]. destruct n.
    - eapply (triple_bind _ _ It); [apply ro_render_get_file|]. intros r _. apply (triple_ret _ _ Ir). exact I.
    - eapply (triple_bind _ _ It); [apply ro_render_get_dir|]. intros r _. apply (triple_ret _ _ Ir). exact I. Qed.
  Lemma ro_check_if_match req p x : R (check_if_match self req p x) (fun _ => True).
  Proof. unfold check_if_match. destruct (_ && _); [|apply (triple_ret _ _ Ir); exact I].
    eapply (triple_bind _ _ It); [apply ro_stat|]. intros [[]|n] _; try apply (triple_raise _ _ Ir).
    destruct (_ && _); [apply (triple_ret _ _ Ir); exact I|apply (triple_raise _ _ Ir)]. Qed.
  Lemma ro_put_preconditions req p : R (put_preconditions self req p) (fun _ => True).
  Proof. unfold put_preconditions. eapply (triple_bind _ _ It) with (Q := fun _ => True).
    - destruct (opt_if_none_match req); [|apply (triple_ret _ _ Ir); exact I].
      eapply (triple_bind _ _ It); [apply ro_stat|]. intros [[]|n] _; first [apply (triple_raise _ _ Ir)|apply (triple_ret _ _ Ir); exact I].
    - intros _ _. apply ro_check_if_match. Qed.

  Definition read_only_request (req : request) : Prop := fs_write self = false \/ (code req <> 3 /\ code req <> 4).
  Lemma ro_render req : read_only_request req -> R (render self req) (fun _ => True).
  Proof. intros H. unfold render. destruct (code req =? 1) eqn:E1; [apply ro_render_get|].
    destruct (code req =? 3) eqn:E3.
    - destruct H as [H|[H _]]; [|lia]. unfold render_put. rewrite H. apply (triple_ret _ _ Ir). exact I.
    - destruct (code req =? 4) eqn:E4; [|apply (triple_raise _ _ Ir)].
      destruct H as [H|[_ H]]; [|lia]. unfold render_delete. rewrite H. apply (triple_ret _ _ Ir). exact I. Qed.
  Lemma ro_feed_and_take req : R (feed_and_take req) (fun req' => opt_uri_path req' = opt_uri_path req /\ code req' = code req).
  Proof. intros st. pose proof (feed_and_take_spec req st) as H. destruct (feed_and_take req st) as [[st' effs] r].
    destruct H as [H1 [-> H3]]. split; [exact H1|]. split; [constructor|exact H3]. Qed.
  Lemma ro_render_to_pipe req : read_only_request req -> R (render_to_pipe self req) (fun _ => True).
  Proof. intros H. unfold render_to_pipe.
    assert (R (if needs_blockwise_assembly req then (req' <-- feed_and_take req ;;; render self req') else render self req) (fun _ => True)) as Hn.
    { destruct (needs_blockwise_assembly req); [|apply ro_render; exact H].
      eapply (triple_bind _ _ It); [apply ro_feed_and_take|]. intros req' [_ Hc]. apply ro_render. unfold read_only_request in *. rewrite Hc. exact H. }
    destruct (opt_observe req) as [[|?|?]|]; try exact Hn.
    eapply (triple_bind _ _ It); [apply ro_add_observation|]. intros _ _. apply ro_render. exact H. Qed.
  Lemma serve_readonly req st : read_only_request req ->
    match serve self req st with (st', effs, _) => st_fs st' = st_fs st /\ Forall reading effs end.
  Proof. intros Hr. unfold serve. pose proof (ro_render_to_pipe req Hr st) as H.
    destruct (render_to_pipe self req st) as [[st' effs] [e|r]]; destruct H as [H1 [H2 _]]; split; assumption. Qed.
End ServerRO.

(* ------------------------------------------------------------------ error responses have no net effect *)
Definition fs_equiv (a b : fsys) : Prop := forall k, lookup a k = lookup b k.
Lemma fs_equiv_refl a : fs_equiv a a. Proof. intros k. reflexivity. Qed.
(* final state and result of a computation, forgetting the effects *)
Definition out {A} (m : FM A) (st : state) : state * (exnk + A) := (fst (fst (m st)), snd (m st)).
Lemma out_bind {A B} (m : FM A) (f : A -> FM B) st :
  out (bindF m f) st = match out m st with (st1, inl x) => (st1, inl x) | (st1, inr a) => out (f a) st1 end.
Proof. unfold out, bindF. destruct (m st) as [[st1 e1] [x|a]]; cbn; [reflexivity|]. destruct (f a st1) as [[st2 e2] r]. reflexivity. Qed.
Definition errsafe_at (st : state) (m : FM response) : Prop :=
  match out m st with
  | (st', inl _) => fs_equiv (st_fs st') (st_fs st)
  | (st', inr r) => 128 <= rcode r -> fs_equiv (st_fs st') (st_fs st)
  end.
Lemma out_ret {A} (a : A) st : out (ret a) st = (st, inr a). Proof. reflexivity. Qed.
Lemma out_raise {A} e st : out (@raise A e) st = (st, inl e). Proof. reflexivity. Qed.
Lemma out_stat p st : out (stat p) st = (st, inr (fs_stat (st_fs st) p)). Proof. reflexivity. Qed.
Lemma out_open_dir_w p st : out (open_dir_w p) st = (st, inr (if has_nul p then inl EINVAL else inr tt)). Proof. reflexivity. Qed.
Lemma out_create shown p c st : out (create shown p c) st =
  match fs_create (st_fs st) p c with inl e => (st, inr (inl e)) | inr fs' => (with_fs st fs', inr (inr tt)) end.
Proof. unfold out, create. destruct (fs_create (st_fs st) p c); reflexivity. Qed.
Lemma out_rename shown a b st : out (rename shown a b) st =
  match fs_rename (st_fs st) a b with inl e => (st, inr (inl e)) | inr fs' => (with_fs st fs', inr (inr tt)) end.
Proof. unfold out, rename. destruct (fs_rename (st_fs st) a b); reflexivity. Qed.
Lemma out_unlink shown p st : out (unlink shown p) st =
  match fs_unlink (st_fs st) p with inl e => (st, inr (inl e)) | inr fs' => (with_fs st fs', inr (inr tt)) end.
Proof. unfold out, unlink. destruct (fs_unlink (st_fs st) p); reflexivity. Qed.

Lemma walk_congr fs fs' rest : forall cur,
  (forall q, (length q < length (cur ++ rest))%nat -> lookup fs' q = lookup fs q) -> walk fs' cur rest = walk fs cur rest.
Proof. induction rest as [|p r IH]; intros cur H; cbn [walk]; [reflexivity|].
  rewrite H by (rewrite app_length; cbn; lia).
  destruct (lookup fs cur) as [[c|]|]; try reflexivity. destruct (255 <? utf8_len p); [reflexivity|].
  apply IH. intros q Hq. apply H. rewrite <- app_assoc in Hq. exact Hq. Qed.
Lemma resolve_congr fs fs' p :
  (forall q, (length q < length (parts p))%nat -> lookup fs' q = lookup fs q) -> resolve fs' p = resolve fs p.
Proof. intros H. unfold resolve. destruct (has_nul p); [reflexivity|]. apply walk_congr. exact H. Qed.
Lemma length_removelast_snoc {A} (l : list A) x : l <> [] -> length (removelast l ++ [x]) = length l.
Proof. intros H. rewrite (app_removelast_last x H) at 2. rewrite !app_length. reflexivity. Qed.
Lemma lookup_aremove_same fs k : k <> [] -> lookup (aremove fs k) k = None.
Proof. intros H. destruct k; [contradiction|]. apply alookup_aremove_same. Qed.

Lemma store_file_errsafe self req p st :
  parts p <> [] ->
  lookup (st_fs st) (parts (child (parent p) (fs_tmpname self))) = None ->
  errsafe_at st (store_file self req p).
Proof.
  intros Hne Hfresh. unfold errsafe_at, store_file.
  set (full := fs_disk_full self && nonempty_list (payload req)). set (body := if full then [] else payload req).
  set (tmp := child (parent p) (fs_tmpname self)) in *.
  assert (parts tmp <> []) as Htne by (unfold tmp, child; cbn [parts]; intros H; apply app_eq_nil in H as [_ H]; discriminate).
  assert (length (parts tmp) = length (parts p)) as Hlen by (unfold tmp, child, parent; cbn [parts]; apply length_removelast_snoc; exact Hne).
  rewrite out_bind, out_open_dir_w.
  destruct (has_nul (parent p)); cbv beta iota; [rewrite out_raise; apply fs_equiv_refl|].
  rewrite out_bind, out_create. unfold fs_create.
  destruct (resolve (st_fs st) tmp) as [e|kt] eqn:Ert; cbv beta iota; [rewrite out_raise; apply fs_equiv_refl|].
  pose proof (resolve_key _ _ _ Ert) as Hkt. subst kt. rewrite Hfresh. cbv beta iota.
  set (fs1 := aset (st_fs st) (parts tmp) (NFile body)).
  assert (forall q, q <> parts tmp -> lookup fs1 q = lookup (st_fs st) q) as H1 by (intros q Hq; apply lookup_aset_other; congruence).
  assert (lookup fs1 (parts tmp) = Some (NFile body)) as H1t by (apply lookup_aset_same; exact Htne).
  assert (resolve fs1 tmp = inr (parts tmp)) as Ert1.
  { rewrite <- Ert. apply resolve_congr. intros q Hq. apply H1. intros ->. lia. }
  assert (fs_equiv (aremove fs1 (parts tmp)) (st_fs st)) as Hundo.
  { intros k. destruct (list_eq_dec (list_eq_dec Z.eq_dec) k (parts tmp)) as [->|Hk].
    - rewrite lookup_aremove_same by exact Htne. rewrite Hfresh. reflexivity.
    - rewrite lookup_aremove_other by congruence. apply H1. exact Hk. }
  assert (forall shown e, out (unlink shown tmp ;;; @raise response (XOSError e)) (with_fs st fs1) = (with_fs st (aremove fs1 (parts tmp)), inl (XOSError e))) as Hunl.
  { intros shown e. rewrite out_bind, out_unlink. cbn [st_fs with_fs]. unfold fs_unlink. rewrite Ert1, H1t. cbv beta iota. rewrite out_raise. reflexivity. }
  rewrite out_bind. destruct full.
  { (* the write fails: the except clause removes the temporary file *) rewrite out_ret. cbv beta iota. rewrite Hunl. exact Hundo. }
  rewrite out_rename. cbn [st_fs with_fs]. unfold fs_rename. rewrite Ert1, H1t.
  destruct (resolve fs1 p) as [e|kp] eqn:Erp; cbv beta iota.
  - rewrite Hunl. exact Hundo.
  - pose proof (resolve_key _ _ _ Erp) as Hkp. subst kp.
    assert (forall na, let fs2 := aset (aremove fs1 (parts tmp)) (parts p) na in
            out (s <-- stat p ;;; match s with inl e => raise (XOSError e) | inr _ => ret {| rcode := 68; rbody := BEmpty; retag := fs_etag_enabled self |} end)
                (with_fs (with_fs st fs1) fs2) = (with_fs (with_fs st fs1) fs2, inr {| rcode := 68; rbody := BEmpty; retag := fs_etag_enabled self |})) as Hst.
    { intros na fs2. rewrite out_bind, out_stat. cbn [st_fs with_fs]. unfold fs_stat.
      assert (resolve fs2 p = inr (parts p)) as ->.
      { rewrite <- Erp. apply resolve_congr. intros q Hq. unfold fs2.
        rewrite lookup_aset_other by (intros Heq; rewrite <- Heq in Hq; lia). apply lookup_aremove_other. intros Heq. rewrite <- Heq in Hq. lia. }
      unfold fs2. rewrite lookup_aset_same by exact Hne. cbv beta iota. rewrite out_ret. reflexivity. }
    destruct (lookup fs1 (parts p)) as [[c|]|] eqn:Elp; cbv beta iota.
    + rewrite Hst. intros Hc. cbn in Hc. lia.
    + rewrite Hunl. exact Hundo.
    + rewrite Hst. intros Hc. cbn in Hc. lia.
Qed.

Lemma errsafe_ro st (m : FM response) Q : R m Q -> errsafe_at st m.
Proof. intros H. unfold errsafe_at, out. specialize (H st). destruct (m st) as [[st1 e1] [x|r]]; destruct H as [H _]; cbn; unfold Isame in H; rewrite H; intros; apply fs_equiv_refl. Qed.
Lemma errsafe_bind_ro {A} st (m : FM A) (f : A -> FM response) Q :
  R m Q -> (forall a st1, Q a -> st_fs st1 = st_fs st -> errsafe_at st1 (f a)) -> errsafe_at st (bindF m f).
Proof. intros Hm Hf. unfold errsafe_at. rewrite out_bind. unfold out at 1. specialize (Hm st).
  destruct (m st) as [[st1 e1] [x|a]]; destruct Hm as [H [_ HQ]]; unfold Isame in H; cbn [fst snd].
  - rewrite H. apply fs_equiv_refl.
  - specialize (Hf a st1 HQ H). unfold errsafe_at in Hf. rewrite <- H. exact Hf. Qed.

Section ErrSafe.
  Variable self : fileserver.
  Hypothesis Hroot : root_ok (fs_root self).
  (* the temporary name chosen by tempfile does not exist yet (tempfile retries until that is the case) *)
  Definition tmp_fresh (req : request) (fs : fsys) : Prop :=
    forall p, request_to_localpath self req = Ok p ->
      lookup fs (parts (child (parent (load_parts p)) (fs_tmpname self))) = None.

  Lemma errsafe_render_put req st : tmp_fresh req (st_fs st) -> errsafe_at st (render_put self req).
  Proof. intros Hf. unfold render_put.
    destruct (negb (fs_write self)); [unfold errsafe_at; rewrite out_ret; intros; apply fs_equiv_refl|].
    destruct (negb (nonempty_list (opt_uri_path req)) || last_is_empty (opt_uri_path req)) eqn:G; [unfold errsafe_at; rewrite out_ret; intros; apply fs_equiv_refl|].
    apply orb_false_elim in G as [G1 G2]. apply negb_false_iff in G1.
    unfold errsafe_at. rewrite out_bind. unfold lift_path.
    destruct (request_to_localpath self req) as [p|e] eqn:E; [|rewrite out_raise; apply fs_equiv_refl].
    rewrite out_ret. change (errsafe_at st (put_preconditions self req (load_parts p) ;;; store_file self req (load_parts p))).
    eapply errsafe_bind_ro; [apply ro_put_preconditions|]. intros _ st1 _ H1. apply store_file_errsafe.
    - destruct (request_to_localpath_confined _ _ _ Hroot E) as [Hp _]. rewrite Hp. cbn [parts].
      intros H. apply app_eq_nil in H as [_ H]. exact (filter_last_nonempty _ G1 G2 H).
    - rewrite H1. apply Hf. exact E. Qed.
  Lemma errsafe_render_delete req st : errsafe_at st (render_delete self req).
  Proof. unfold render_delete.
    destruct (negb (fs_write self)); [unfold errsafe_at; rewrite out_ret; intros; apply fs_equiv_refl|].
    destruct (_ || _); [unfold errsafe_at; rewrite out_ret; intros; apply fs_equiv_refl|].
    eapply errsafe_bind_ro; [apply ro_lift|]. intros p st1 _ H1.
    eapply errsafe_bind_ro; [apply ro_check_if_match|]. intros _ st2 _ H2.
    unfold errsafe_at. rewrite out_bind, out_unlink. destruct (fs_unlink (st_fs st2) p) as [[]|fs']; cbv beta iota;
      try (rewrite out_raise; apply fs_equiv_refl). rewrite out_ret. intros Hc. cbn in Hc. lia. Qed.
  Lemma errsafe_render req st : tmp_fresh req (st_fs st) -> errsafe_at st (render self req).
  Proof. intros Hf. unfold render. destruct (code req =? 1); [eapply errsafe_ro; apply ro_render_get|].
    destruct (code req =? 3); [apply errsafe_render_put; exact Hf|].
    destruct (code req =? 4); [apply errsafe_render_delete|]. unfold errsafe_at. rewrite out_raise. apply fs_equiv_refl. Qed.
  Lemma rtl_ext a b : opt_uri_path a = opt_uri_path b -> request_to_localpath self a = request_to_localpath self b.
  Proof. intros H. unfold request_to_localpath. rewrite H. reflexivity. Qed.
  Lemma errsafe_render_to_pipe req st : tmp_fresh req (st_fs st) -> errsafe_at st (render_to_pipe self req).
  Proof. intros Hf. unfold render_to_pipe.
    assert (errsafe_at st (if needs_blockwise_assembly req then (req' <-- feed_and_take req ;;; render self req') else render self req)) as Hn.
    { destruct (needs_blockwise_assembly req); [|apply errsafe_render; exact Hf].
      eapply errsafe_bind_ro; [apply ro_feed_and_take|]. intros req' st1 [Hu _] H1. apply errsafe_render.
      intros p Hp. rewrite H1. apply Hf. rewrite <- Hp. symmetry. apply rtl_ext. exact Hu. }
    destruct (opt_observe req) as [[|?|?]|]; try exact Hn.
    eapply errsafe_bind_ro; [apply ro_add_observation|]. intros _ st1 _ H1. apply errsafe_render. rewrite H1. exact Hf. Qed.
  (* a request answered with an error code (4.xx / 5.xx) leaves every file-system entry as it was *)
  Lemma serve_error_no_effect req st : tmp_fresh req (st_fs st) ->
    match serve self req st with (st', _, r) => 128 <= rcode r -> fs_equiv (st_fs st') (st_fs st) end.
  Proof. intros Hf. pose proof (errsafe_render_to_pipe req st Hf) as H. unfold errsafe_at, out in H. unfold serve.
    destruct (render_to_pipe self req st) as [[st' effs] [e|r]]; cbn [fst snd] in H; [intros _; exact H|exact H]. Qed.
End ErrSafe.

(* ------------------------------------------------------------------ block-wise reads *)
Lemma blk_size_pos szx : 0 <= szx -> 16 <= blk_size szx.
Proof. intros H. unfold blk_size. change 16 with (2 ^ 4). apply Z.pow_le_mono_r; lia. Qed.

(* the payload and the M bit of block [n] of content [c] *)
Definition block_payload (c : list Z) (n szx : Z) : list Z := bto (bto (bfrom c (blk_start n szx)) (blk_size szx + 1)) (blk_size szx).
Definition block_more (c : list Z) (n szx : Z) : bool := blen (bto (bfrom c (blk_start n szx)) (blk_size szx + 1)) >? blk_size szx.

Lemma block_payload_spec c n szx : 0 <= szx -> block_payload c n szx = bto (bfrom c (blk_start n szx)) (blk_size szx).
Proof. intros H. pose proof (blk_size_pos szx H). unfold block_payload, bto. rewrite firstn_firstn. f_equal. lia. Qed.
Lemma block_more_spec c n szx : 0 <= szx -> block_more c n szx = (blen (bfrom c (blk_start n szx)) >? blk_size szx).
Proof. intros H. pose proof (blk_size_pos szx H). unfold block_more, bto, blen. rewrite firstn_length.
  destruct (Z.of_nat (length (bfrom c (blk_start n szx))) >? blk_size szx) eqn:E; lia. Qed.
Lemma skipn_skipn_add {A} b : forall a (l : list A), skipn a (skipn b l) = skipn (b + a) l.
Proof. induction b as [|b IH]; intros a l; [reflexivity|]. destruct l as [|x l]; [cbn; apply skipn_nil|]. cbn. apply IH. Qed.
Lemma bfrom_next (c : list Z) n szx : 0 <= szx -> 0 <= n ->
  bfrom c (blk_start (n + 1) szx) = bfrom (bfrom c (blk_start n szx)) (blk_size szx).
Proof. intros H Hn. pose proof (blk_size_pos szx H). unfold bfrom, blk_start. rewrite skipn_skipn_add. f_equal.
  rewrite <- Z2Nat.inj_add by nia. f_equal. lia. Qed.
Lemma block_split c n szx : 0 <= szx -> 0 <= n -> block_more c n szx = true ->
  bfrom c (blk_start n szx) = block_payload c n szx ++ bfrom c (blk_start (n + 1) szx).
Proof. intros H Hn _. rewrite block_payload_spec, bfrom_next by assumption. symmetry. apply firstn_skipn. Qed.
Lemma block_last c n szx : 0 <= szx -> block_more c n szx = false -> block_payload c n szx = bfrom c (blk_start n szx).
Proof. intros H Hm. rewrite block_more_spec in Hm by assumption. rewrite block_payload_spec by assumption.
  unfold bto. apply firstn_all2. unfold blen in Hm. lia. Qed.

Lemma read_at_spec (c : list Z) s k : read_at c s k = bto (bfrom c s) k.
Proof. unfold read_at. destruct (blen c <=? s) eqn:E; [|reflexivity]. unfold bfrom, bto, blen in *.
  rewrite skipn_all2 by lia. symmetry. apply firstn_nil. Qed.
Lemma out_obs_stat p st : exists st1, out (obs_stat p) st = (st1, inr tt) /\ st_fs st1 = st_fs st.
Proof. unfold out, obs_stat. destruct (obs_find (st_obs st) p) as [[|]|]; eexists; split; reflexivity. Qed.
Lemma out_open_read p st : out (open_read p) st = (st, inr (fs_read (st_fs st) p)). Proof. reflexivity. Qed.

Section Blockwise.
  Variable self : fileserver.
  Variable req : request.
  Variable p : list (list Z).
  Variable c : list Z.
  (* a GET without Observe and ETag options for a path that designates a regular file with content c *)
  Hypothesis Hcode : code req = 1.
  Hypothesis Hobs : opt_observe req = None.
  Hypothesis Hetags : existsb is_cur (opt_etags req) = false.     (* no ETag option carries the file's current ETag (that would be answered 2.03 Valid without a body) *)
  Hypothesis Hwkc : parts_eqb (opt_uri_path req) WKC = false.
  Hypothesis Hnba : needs_blockwise_assembly req = false.        (* i.e. a non-empty Uri-Path that does not end in "" and is not .well-known/core *)
  Lemma Hlast : nonempty_list (opt_uri_path req) && last_is_empty (opt_uri_path req) = false.
  Proof. unfold needs_blockwise_assembly in Hnba. apply orb_false_elim in Hnba as [H _]. apply orb_false_elim in H as [_ H]. rewrite H. apply andb_false_r. Qed.
  Hypothesis Hpath : request_to_localpath self req = Ok p.

  Definition block_response (n szx : Z) : response :=
    {| rcode := 69;
       rbody := BFile (block_payload c n szx) (if (n =? 0) && negb (block_more c n szx) then None else Some (n, block_more c n szx, szx));
       retag := fs_etag_enabled self && (nonempty_list (opt_etags req) || match (if (n =? 0) && negb (block_more c n szx) then None else Some (n, block_more c n szx, szx)) with Some _ => true | None => false end) |}.

  Lemma serve_block n szx st : fs_stat (st_fs st) (load_parts p) = inr (NFile c) ->
    exists st1 effs, serve self (with_block2 req (Some (n, false, szx))) st = (st1, effs, block_response n szx) /\ st_fs st1 = st_fs st.
  Proof.
    intros Hst.
    assert (exists st1, out (render_to_pipe self (with_block2 req (Some (n, false, szx)))) st = (st1, inr (block_response n szx)) /\ st_fs st1 = st_fs st) as [st1 [H1 H2]].
    { unfold render_to_pipe. cbn [opt_observe with_block2]. rewrite Hobs.
      change (needs_blockwise_assembly (with_block2 req (Some (n, false, szx)))) with (needs_blockwise_assembly req). rewrite Hnba.
      unfold render. cbn [code with_block2]. rewrite Hcode. cbn [Z.eqb Pos.eqb].
      unfold render_get. cbn [opt_uri_path with_block2]. rewrite Hwkc.
      assert (request_to_localpath self (with_block2 req (Some (n, false, szx))) = Ok p) as -> by exact Hpath.
      rewrite out_bind. unfold lift_path. rewrite out_ret, out_bind, out_stat, Hst. cbv beta iota.
      cbn [opt_etags with_block2]. rewrite Hetags, andb_false_r.
      rewrite out_bind. unfold render_get_file. cbn [opt_uri_path with_block2 opt_block2]. rewrite Hlast.
      rewrite out_bind, out_open_read. unfold fs_read. rewrite Hst. cbv beta iota.
      rewrite out_bind. destruct (out_obs_stat (load_parts p) st) as [st1 [Ho Hs]]. rewrite Ho. cbv beta iota.
      rewrite out_ret, out_ret. exists st1. split; [|exact Hs]. unfold block_response, block_payload, block_more. rewrite !read_at_spec. cbn [rbody rcode]. reflexivity. }
    unfold serve. unfold out in H1. destruct (render_to_pipe self (with_block2 req (Some (n, false, szx))) st) as [[st' effs] r].
    cbn [fst snd] in H1. injection H1 as -> ->. exists st1, effs. split; [reflexivity|exact H2]. Qed.

  Lemma has_more_block n szx : has_more (block_response n szx) = block_more c n szx.
  Proof. unfold has_more, block_response. cbn [rbody]. destruct (block_more c n szx); [rewrite andb_false_r|]; [reflexivity|]. destruct (n =? 0); reflexivity. Qed.

  (* fetching block after block until the M bit is clear yields exactly the rest of the file from block n on *)
  Lemma fetch_all_exact szx : 0 <= szx -> forall fuel n st, 0 <= n ->
    fs_stat (st_fs st) (load_parts p) = inr (NFile c) -> (length (bfrom c (blk_start n szx)) <= fuel)%nat ->
    match fetch_all fuel self req szx n st with
    | (st', outs) => concat (map (fun o => payload_of (snd o)) outs) = bfrom c (blk_start n szx)
                     /\ Forall (fun o => rcode (snd o) = 69) outs /\ st_fs st' = st_fs st
    end.
  Proof.
    intros Hszx. induction fuel as [|f IH]; intros n st Hn Hst Hlen; cbn [fetch_all];
      destruct (serve_block n szx st Hst) as [st1 [effs [Hs H1]]]; rewrite Hs, has_more_block.
    - destruct (block_more c n szx) eqn:Em.
      + exfalso. rewrite block_more_spec in Em by assumption. pose proof (blk_size_pos szx Hszx). unfold blen in Em. lia.
      + cbn. rewrite app_nil_r. split; [apply block_last; assumption|]. split; [repeat constructor|exact H1].
    - destruct (block_more c n szx) eqn:Em.
      + assert (fs_stat (st_fs st1) (load_parts p) = inr (NFile c)) as Hst1 by (rewrite H1; exact Hst).
        assert ((length (bfrom c (blk_start (n + 1) szx)) <= f)%nat) as Hlen1.
        { rewrite bfrom_next by assumption. unfold bfrom at 1. rewrite skipn_length. pose proof (blk_size_pos szx Hszx). lia. }
        specialize (IH (n + 1) st1 ltac:(lia) Hst1 Hlen1). destruct (fetch_all f self req szx (n + 1) st1) as [st2 rs].
        destruct IH as [I1 [I2 I3]]. cbn [map concat snd payload_of block_response rbody]. rewrite I1.
        split; [symmetry; apply block_split; assumption|]. split; [constructor; [reflexivity|exact I2]|congruence].
      + cbn. rewrite app_nil_r. split; [apply block_last; assumption|]. split; [repeat constructor|exact H1].
  Qed.
End Blockwise.

(* ------------------------------------------------------------------ Block1: what the spool hands to render_put *)
Lemma feed_last req st num szx acc :
  opt_block1 req = Some (num, false, szx) -> num <> 0 ->
  spool_find (st_spool st) (block_key req) = Some acc -> blk_start num szx = blen acc ->
  block1_invalid false szx (payload req) = false ->          (* the final block does not exceed its block size *)
  exists st', feed_and_take req st = ((st', []), inr (with_payload req (acc ++ payload req))) /\ st_fs st' = st_fs st
              /\ st_spool st' = spool_remove (st_spool st) (block_key req).
Proof. intros H1 Hn Hs Ho Hv. unfold feed_and_take. rewrite H1, Hs, Hv. replace (num =? 0) with false by lia.
  rewrite Ho, Z.eqb_refl. eexists. split; [reflexivity|split; reflexivity]. Qed.
Lemma feed_gap req st num more szx acc :
  opt_block1 req = Some (num, more, szx) -> num <> 0 ->
  spool_find (st_spool st) (block_key req) = Some acc -> blk_start num szx <> blen acc ->
  exists e, feed_and_take req st = ((st, []), inl e) /\ (e = XIncomplete \/ e = XBadRequest).
Proof. intros H1 Hn Hs Ho. unfold feed_and_take. rewrite H1, Hs. replace (num =? 0) with false by lia.
  destruct (block1_invalid more szx (payload req)); [eexists; split; [reflexivity|right; reflexivity]|].
  replace (blk_start num szx =? blen acc) with false by lia. eexists; split; [reflexivity|left; reflexivity]. Qed.
Lemma feed_oversize req st num more szx acc :
  opt_block1 req = Some (num, more, szx) -> num <> 0 -> spool_find (st_spool st) (block_key req) = Some acc ->
  block1_invalid more szx (payload req) = true -> feed_and_take req st = ((st, []), inl XBadRequest).
Proof. intros H1 Hn Hs Hv. unfold feed_and_take. rewrite H1, Hs, Hv. replace (num =? 0) with false by lia. reflexivity. Qed.
Lemma feed_unknown req st num more szx :
  opt_block1 req = Some (num, more, szx) -> num <> 0 -> spool_find (st_spool st) (block_key req) = None ->
  feed_and_take req st = ((st, []), inl XIncomplete).
Proof. intros H1 Hn Hs. unfold feed_and_take. rewrite H1, Hs. replace (num =? 0) with false by lia. reflexivity. Qed.

(* ------------------------------------------------------------------ round 5: requests that would lead outside are answered with an error, without any call *)
Definition quiet {A} (m : FM A) (Q : A -> Prop) : Prop :=
  forall st, match m st with
             | ((st', effs), r) => st_fs st' = st_fs st /\ effs = [] /\ match r with inr a => Q a | inl e => e <> XContinue end
             end.
Lemma quiet_ret {A} (a : A) (Q : A -> Prop) : Q a -> quiet (ret a) Q.
Proof. intros H st. cbn. auto. Qed.
Lemma quiet_raise {A} e (Q : A -> Prop) : e <> XContinue -> quiet (raise e) Q.
Proof. intros H st. cbn. auto. Qed.
Lemma quiet_bind {A B} (m : FM A) (f : A -> FM B) Q Q' : quiet m Q -> (forall a, Q a -> quiet (f a) Q') -> quiet (bindF m f) Q'.
Proof. intros Hm Hf st. unfold bindF. specialize (Hm st). destruct (m st) as [[st1 e1] [x|a]].
  - exact Hm.
  - destruct Hm as [H1 [-> H3]]. specialize (Hf a H3 st1). destruct (f a st1) as [[st2 e2] r]. destruct Hf as [H4 [-> H6]].
    split; [congruence|]. split; [reflexivity|exact H6]. Qed.

Definition hostile (p : list Z) : Prop := ~ noslash p \/ p = DOT \/ p = DOTDOT.
Definition errcode (r : response) : Prop := 128 <= rcode r.
Section Escaping.
  Variable self : fileserver.
  Lemma rtl_hostile req p : In p (opt_uri_path req) -> hostile p -> forall Q, quiet (lift_path (request_to_localpath self req)) Q.
  Proof. intros Hin Hh Q. rewrite (request_to_localpath_rejects self req p Hin Hh). apply quiet_raise. discriminate. Qed.
  Lemma hostile_not_wkc path p : In p path -> hostile p -> parts_eqb path WKC = false.
  Proof. intros Hin Hh. destruct (parts_eqb path WKC) eqn:E; [|reflexivity]. apply parts_eqb_eq in E. subst path. exfalso.
    destruct Hin as [<-|[<-|[]]]; destruct Hh as [H|[H|H]]; try discriminate; apply H; repeat constructor; discriminate. Qed.
  Lemma quiet_render req p : In p (opt_uri_path req) -> hostile p -> quiet (render self req) errcode.
  Proof. intros Hin Hh. unfold render. destruct (code req =? 1).
    - unfold render_get. rewrite (hostile_not_wkc _ _ Hin Hh). eapply quiet_bind; [apply (rtl_hostile req p Hin Hh (fun _ => False))|]. intros a [].
    - destruct (code req =? 3).
      + unfold render_put. destruct (negb (fs_write self)); [apply quiet_ret; unfold errcode; cbn; lia|].
        destruct (_ || _); [apply quiet_ret; unfold errcode; cbn; lia|].
        eapply quiet_bind; [apply (rtl_hostile req p Hin Hh (fun _ => False))|]. intros a [].
      + destruct (code req =? 4); [|apply quiet_raise; discriminate].
        unfold render_delete. destruct (negb (fs_write self)); [apply quiet_ret; unfold errcode; cbn; lia|].
        destruct (_ || _); [apply quiet_ret; unfold errcode; cbn; lia|].
        eapply quiet_bind; [apply (rtl_hostile req p Hin Hh (fun _ => False))|]. intros a []. Qed.
  Lemma quiet_feed req : (forall n m s, opt_block1 req = Some (n, m, s) -> m = false) ->
    quiet (feed_and_take req) (fun req' => opt_uri_path req' = opt_uri_path req).
  Proof. intros Hm st. unfold feed_and_take. destruct (opt_block1 req) as [[[num more] szx]|] eqn:E; [|cbn; auto].
    rewrite (Hm _ _ _ eq_refl). destruct (num =? 0); [cbn; auto|].
    destruct (spool_find (st_spool st) (block_key req)) as [acc|]; [|cbn; repeat split; discriminate].
    destruct (block1_invalid false szx (payload req)); [cbn; repeat split; discriminate|].
    destruct (blk_start num szx =? blen acc); cbn; repeat split; try discriminate. Qed.
  Lemma exn_code_error e : e <> XContinue -> 128 <= exn_code e.
  Proof. destruct e; cbn; try lia. intros H. contradiction. Qed.
  (* a request with a component that would lead outside the root ("..", ".", anything with a slash) is answered with an
     error code whatever the method, the options and the state, and not a single file-system call is made for it *)
  Lemma escaping_request_error req st p : In p (opt_uri_path req) -> hostile p ->
    (forall n m s, opt_block1 req = Some (n, m, s) -> m = false) ->
    match serve self req st with (st', effs, r) => 128 <= rcode r /\ effs = [] /\ st_fs st' = st_fs st end.
  Proof.
    intros Hin Hh Hb.
    assert (quiet (render_to_pipe self req) errcode) as Hq.
    { unfold render_to_pipe.
      assert (quiet (if needs_blockwise_assembly req then (req' <-- feed_and_take req ;;; render self req') else render self req) errcode) as Hn.
      { destruct (needs_blockwise_assembly req); [|apply (quiet_render req p Hin Hh)].
        eapply quiet_bind; [apply quiet_feed; exact Hb|]. intros req' Hu. apply (quiet_render req' p); [rewrite Hu; exact Hin|exact Hh]. }
      destruct (opt_observe req) as [[|?|?]|]; try exact Hn.
      unfold add_observation. eapply quiet_bind with (Q := fun _ => False); [|intros a []].
      eapply quiet_bind; [apply (rtl_hostile req p Hin Hh (fun _ => False))|]. intros a []. }
    unfold serve. specialize (Hq st). destruct (render_to_pipe self req st) as [[st' effs] [e|r]]; destruct Hq as [H1 [H2 H3]].
    - split; [cbn; apply exn_code_error; exact H3|]. split; assumption.
    - split; [exact H3|]. split; assumption.
  Qed.
End Escaping.
