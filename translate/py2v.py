"""Fail-closed Python-ast -> Gallina translator for the pure kernels of aiocoap (tie T, DESIGN.md section 3).

Every construct outside the supported subset raises Unsupported: the calling check then reports that the
translation is no longer possible (a broken obligation) and goes to the violation search.
Python int -> Z, bool -> bool, bytes -> list Z, every function lives in the exception monad M of Lib/Py.v.
"""
import ast, os, sys, re

class Unsupported(Exception): pass

COQ_TYPES = {"int": "Z", "bool": "bool", "bytes": "(list Z)", "unit": "unit"}
def coq_type(t):
    if t in COQ_TYPES: return COQ_TYPES[t]
    if t.startswith("opt:"): return "(option %s)" % coq_type(t[4:])
    if t.startswith("tuple:"): return "(" + " * ".join(coq_type(x) for x in split_tuple(t)) + ")"
    if t.startswith("rec:"): return t[4:]
    raise Unsupported("type " + t)
def split_tuple(t):
    assert t.startswith("tuple:")
    parts, depth, cur = [], 0, ""
    for ch in t[6:]:
        if ch == "<": depth += 1
        if ch == ">": depth -= 1
        if ch == "," and depth == 0: parts.append(cur); cur = ""
        else: cur += ch
    parts.append(cur)
    return [p.strip("<>") if p.startswith("<") else p for p in parts]
def tuple_type(ts): return "tuple:" + ",".join(("<%s>" % t) if t.startswith("tuple:") else t for t in ts)

INT_BINOPS = {ast.Add: "({l} + {r})", ast.Sub: "({l} - {r})", ast.Mult: "({l} * {r})", ast.FloorDiv: "({l} / {r})",
              ast.Mod: "({l} mod {r})", ast.LShift: "(Z.shiftl {l} {r})", ast.RShift: "(Z.shiftr {l} {r})",
              ast.BitAnd: "(Z.land {l} {r})", ast.BitOr: "(Z.lor {l} {r})", ast.BitXor: "(Z.lxor {l} {r})", ast.Pow: "({l} ^ {r})"}
CMP = {ast.Lt: "<?", ast.LtE: "<=?", ast.Gt: ">?", ast.GtE: ">=?", ast.Eq: "=?"}

class FuncSpec:
    def __init__(self, name, args, ret, coq_name=None, method=False):
        self.name, self.args, self.ret, self.method = name, args, ret, method
        self.coq_name = coq_name or name.lstrip("_")
        self.mutates = False

class Tr:
    def __init__(self, job, spec, funcs):
        self.job, self.spec, self.funcs = job, spec, funcs
        self.env = dict(spec.args); self.n = 0
        self.record = job.get("record")          # (coq record name, [(py field, type)])
        self.exceptions = job.get("exceptions", {})
    def fresh(self): self.n += 1; return "t%d" % self.n
    def field_coq(self, f): return "%s_%s" % (self.record[0], f.lstrip("_"))
    def field_type(self, f):
        for n, t in self.record[1]:
            if n == f: return t
        raise Unsupported("unknown field self.%s" % f)
    # ---------------------------------------------------------------- expressions
    def expr(self, e):
        """-> (binds, term, type); binds are (name, monadic term) evaluated left to right before term"""
        if isinstance(e, ast.Constant):
            v = e.value
            if isinstance(v, bool): return [], "true" if v else "false", "bool"
            if isinstance(v, int): return [], "(%d)" % v, "int"
            if isinstance(v, bytes): return [], "[" + "; ".join(str(b) for b in v) + "]", "bytes"
            if v is None: return [], "None", "none"
            raise Unsupported("constant %r" % (v,))
        if isinstance(e, ast.Name):
            if e.id not in self.env:
                if e.id in self.job.get("constants", []): return [], e.id, "int"
                raise Unsupported("unknown name " + e.id)
            return [], e.id, self.env[e.id]
        if isinstance(e, ast.Attribute) and isinstance(e.value, ast.Name) and e.value.id == "self" and self.record:
            return [], "(%s self)" % self.field_coq(e.attr), self.field_type(e.attr)
        if isinstance(e, ast.UnaryOp):
            b, v, t = self.expr(e.operand)
            if isinstance(e.op, ast.Not):
                return b, "(negb %s)" % self.truth(v, t), "bool"
            if isinstance(e.op, ast.USub) and t == "int": return b, "(- %s)" % v, "int"
            raise Unsupported(ast.dump(e))
        if isinstance(e, ast.BinOp):
            b1, l, tl = self.expr(e.left); b2, r, tr = self.expr(e.right)
            if tl == tr == "int" and type(e.op) in INT_BINOPS:
                if isinstance(e.op, ast.Pow) and not isinstance(e.right, ast.Constant): raise Unsupported("non-constant exponent")
                return b1 + b2, INT_BINOPS[type(e.op)].format(l=l, r=r), "int"
            if tl == tr == "bytes" and isinstance(e.op, ast.Add): return b1 + b2, "(%s ++ %s)" % (l, r), "bytes"
            raise Unsupported("binop %s on %s,%s" % (type(e.op).__name__, tl, tr))
        if isinstance(e, ast.Compare):
            binds, terms = [], []
            b, cur, t = self.expr(e.left); binds += b
            for op, rhs in zip(e.ops, e.comparators):
                b, r, tr = self.expr(rhs)
                if b and terms: raise Unsupported("effectful operand in comparison chain")
                binds += b
                if isinstance(op, (ast.Is, ast.IsNot)) and tr == "none" and t.startswith("opt:"):
                    term = "match %s with None => true | Some _ => false end" % cur
                    terms.append("(%s)" % term if isinstance(op, ast.Is) else "(negb (%s))" % term)
                elif t == tr == "int" and type(op) in CMP: terms.append("(%s %s %s)" % (cur, CMP[type(op)], r))
                elif t == tr == "int" and isinstance(op, ast.NotEq): terms.append("(negb (%s =? %s))" % (cur, r))
                elif t == tr == "bytes" and isinstance(op, ast.Eq): terms.append("(beqb %s %s)" % (cur, r))
                elif t == tr == "bytes" and isinstance(op, ast.NotEq): terms.append("(negb (beqb %s %s))" % (cur, r))
                else: raise Unsupported("compare %s on %s,%s" % (type(op).__name__, t, tr))
                cur, t = r, tr
            return binds, terms[0] if len(terms) == 1 else "(" + " && ".join(terms) + ")", "bool"
        if isinstance(e, ast.BoolOp):
            parts = [self.expr(v) for v in e.values]
            if any(b for b, _, _ in parts[1:]): raise Unsupported("effectful operand after short-circuit")
            sym = " && " if isinstance(e.op, ast.And) else " || "
            return parts[0][0], "(" + sym.join(self.truth(p[1], p[2]) for p in parts) + ")", "bool"
        if isinstance(e, ast.IfExp):
            bc, c, tc = self.expr(e.test); b1, x, t1 = self.expr(e.body); b2, y, t2 = self.expr(e.orelse)
            if b1 or b2: raise Unsupported("effectful branch of conditional expression")
            if t1 != t2: raise Unsupported("conditional expression of types %s/%s" % (t1, t2))
            return bc, "(if %s then %s else %s)" % (self.truth(c, tc), x, y), t1
        if isinstance(e, ast.Tuple):
            parts = [self.expr(v) for v in e.elts]
            return sum((p[0] for p in parts), []), "(" + ", ".join(p[1] for p in parts) + ")", tuple_type([p[2] for p in parts])
        if isinstance(e, ast.Subscript):
            b, v, t = self.expr(e.value)
            if t != "bytes": raise Unsupported("subscript on " + t)
            if isinstance(e.slice, ast.Slice):
                if e.slice.step is not None: raise Unsupported("slice step")
                lo = hi = None; bl = bh = []
                if e.slice.lower is not None:
                    bl, lo, tlo = self.expr(e.slice.lower)
                    if tlo != "int" or self.maybe_negative(e.slice.lower): raise Unsupported("slice bound")
                if e.slice.upper is not None:
                    bh, hi, thi = self.expr(e.slice.upper)
                    if thi != "int" or self.maybe_negative(e.slice.upper): raise Unsupported("slice bound")
                if lo is not None and hi is None: return b + bl, "(bfrom %s %s)" % (v, lo), "bytes"
                if lo is None and hi is not None: return b + bh, "(bto %s %s)" % (v, hi), "bytes"
                if lo is not None and hi is not None: return b + bl + bh, "(bslice %s %s %s)" % (v, lo, hi), "bytes"
                return b, v, "bytes"
            b2, i, ti = self.expr(e.slice)
            if ti != "int" or self.maybe_negative(e.slice): raise Unsupported("index")
            x = self.fresh()
            return b + b2 + [(x, "bget %s %s" % (v, i))], x, "int"
        if isinstance(e, ast.Call): return self.call(e)
        raise Unsupported(ast.dump(e)[:200])
    def maybe_negative(self, e):
        return isinstance(e, ast.UnaryOp) and isinstance(e.op, ast.USub)
    def truth(self, v, t):
        if t == "bool": return v
        if t == "bytes": return "(negb (blen %s =? 0))" % v
        if t == "int": return "(negb (%s =? 0))" % v
        raise Unsupported("truth value of " + t)
    def call(self, e):
        f = e.func
        if e.keywords: raise Unsupported("keyword arguments")
        if isinstance(f, ast.Name) and f.id in ("min", "max") and len(e.args) == 2:
            b1, x, t1 = self.expr(e.args[0]); b2, y, t2 = self.expr(e.args[1])
            if t1 != "int" or t2 != "int": raise Unsupported("%s of %s,%s" % (f.id, t1, t2))
            return b1 + b2, "(Z.%s %s %s)" % (f.id, x, y), "int"
        if isinstance(f, ast.Name) and f.id == "len" and len(e.args) == 1:
            b, v, t = self.expr(e.args[0])
            if t != "bytes": raise Unsupported("len of " + t)
            return b, "(blen %s)" % v, "int"
        if isinstance(f, ast.Name) and f.id == "bytes" and len(e.args) == 1 and isinstance(e.args[0], (ast.Tuple, ast.List)):
            parts = [self.expr(x) for x in e.args[0].elts]
            if any(p[2] != "int" for p in parts): raise Unsupported("bytes() of non-ints")
            x = self.fresh()
            return sum((p[0] for p in parts), []) + [(x, "bytes_of_ints [%s]" % "; ".join(p[1] for p in parts))], x, "bytes"
        if (isinstance(f, ast.Attribute) and isinstance(f.value, ast.Name) and f.value.id == "int" and f.attr == "from_bytes"
                and len(e.args) == 2 and isinstance(e.args[1], ast.Constant) and e.args[1].value == "big"):
            b, v, t = self.expr(e.args[0])
            if t != "bytes": raise Unsupported("from_bytes of " + t)
            return b, "(from_bytes_big %s)" % v, "int"
        if (isinstance(f, ast.Attribute) and f.attr == "to_bytes" and len(e.args) == 2
                and isinstance(e.args[1], ast.Constant) and e.args[1].value == "big"):
            b, v, t = self.expr(f.value); b2, n, tn = self.expr(e.args[0])
            if t != "int" or tn != "int": raise Unsupported("to_bytes types")
            x = self.fresh()
            return b + b2 + [(x, "to_bytes_big %s %s" % (v, n))], x, "bytes"
        if isinstance(f, ast.Attribute) and f.attr == "bit_length" and not e.args:
            b, v, t = self.expr(f.value)
            if t != "int": raise Unsupported("bit_length of " + t)
            return b, "(bit_length %s)" % v, "int"
        # calls to other translated functions of the same job
        target = None
        if isinstance(f, ast.Name) and f.id in self.funcs and not self.funcs[f.id].method: target = self.funcs[f.id]
        if isinstance(f, ast.Attribute) and isinstance(f.value, ast.Name) and f.value.id == "self" and f.attr in self.funcs and self.funcs[f.attr].method:
            target = self.funcs[f.attr]
        if target is not None:
            if len(e.args) != len(target.args): raise Unsupported("arity of call to " + target.name)
            binds, terms = [], []
            for a, (an, at) in zip(e.args, target.args.items()):
                b, v, t = self.expr(a)
                if t != at: raise Unsupported("argument type %s for %s.%s:%s" % (t, target.name, an, at))
                binds += b; terms.append(v)
            if target.mutates: raise Unsupported("call to mutating method inside expression")
            x = self.fresh()
            callee = target.coq_name + self.cb_args() + (" self" if target.method else "")
            return binds + [(x, "%s %s" % (callee, " ".join(terms)))], x, target.ret
        raise Unsupported("call " + ast.dump(f)[:120])
    def cb_args(self):
        return "".join(" cb_%s" % c.lstrip("_") for c in self.job.get("callbacks", []))
    # ---------------------------------------------------------------- statements
    def wrap(self, binds, body):
        for x, m in reversed(binds): body = "%s <- %s ;; %s" % (x, m, body)
        return body
    def is_dropped(self, s):
        if isinstance(s, ast.Expr) and isinstance(s.value, ast.Constant) and isinstance(s.value.value, str): return True
        if isinstance(s, ast.Expr) and isinstance(s.value, ast.Call):
            src = ast.unparse(s.value.func)
            return any(src == d or src.startswith(d + ".") for d in self.job.get("drop_calls", []))
        return isinstance(s, ast.Pass)
    def terminates(self, body):
        body = [s for s in body if not self.is_dropped(s)]
        if not body: return False
        last = body[-1]
        if isinstance(last, (ast.Return, ast.Raise)): return True
        return isinstance(last, ast.If) and bool(last.orelse) and self.terminates(last.body) and self.terminates(last.orelse)
    def assigned(self, body):
        out = []
        def add(n):
            if n not in out: out.append(n)
        for s in body:
            if isinstance(s, (ast.Assign, ast.AugAssign)):
                targets = s.targets if isinstance(s, ast.Assign) else [s.target]
                for t in targets:
                    for n in (t.elts if isinstance(t, ast.Tuple) else [t]):
                        if isinstance(n, ast.Name): add(n.id)
                        elif isinstance(n, ast.Attribute) and isinstance(n.value, ast.Name) and n.value.id == "self": add("self")
                        else: raise Unsupported("assignment target " + ast.dump(n)[:80])
            elif isinstance(s, ast.If):
                for n in self.assigned(s.body) + self.assigned(s.orelse): add(n)
            elif isinstance(s, ast.Try):
                for n in self.assigned(s.body): add(n)
            elif (isinstance(s, ast.Expr) and isinstance(s.value, ast.Call) and isinstance(s.value.func, ast.Attribute)
                  and isinstance(s.value.func.value, ast.Name) and s.value.func.value.id == "self"):
                m = s.value.func.attr
                if m in self.job.get("callbacks", []) or (m in self.funcs and self.funcs[m].mutates): add("self")
        return out
    def ret_ok(self, value_term):
        if self.spec.mutates: return "Ok (self, %s)" % value_term
        return "Ok %s" % value_term
    def block(self, stmts, ind, fall=None):
        """fall: None (falling off the end = `return None`) or a term to produce when control falls through"""
        pad = "  " * ind
        stmts = [s for s in stmts if not self.is_dropped(s)]
        if not stmts:
            if fall is not None: return pad + fall
            if self.spec.ret == "unit": return pad + self.ret_ok("tt")
            if self.spec.ret.startswith("opt:"): return pad + self.ret_ok("None")
            raise Unsupported("fall-through in function returning " + self.spec.ret)
        s, rest = stmts[0], stmts[1:]
        if (isinstance(s, ast.Expr) and isinstance(s.value, ast.Call) and isinstance(s.value.func, ast.Attribute)
                and isinstance(s.value.func.value, ast.Name) and s.value.func.value.id == "self" and self.record and not s.value.keywords):
            name = s.value.func.attr
            if name in self.job.get("callbacks", []):
                # an effectful method outside the translated subset (I/O): a function parameter of type rec -> M rec
                if s.value.args: raise Unsupported("arguments to callback " + name)
                if not self.spec.mutates: raise Unsupported("callback in a function that is not state-passing")
                return pad + "self <- cb_%s self ;;\n%s" % (name.lstrip("_"), self.block(rest, ind, fall))
            if name in self.funcs and self.funcs[name].method:
                target = self.funcs[name]
                if len(s.value.args) != len(target.args): raise Unsupported("arity of call to " + name)
                binds, terms = [], []
                for a, (an, at) in zip(s.value.args, target.args.items()):
                    b, v, t = self.expr(a)
                    if t != at: raise Unsupported("argument type for " + name)
                    binds += b; terms.append(v)
                call = "%s%s self%s" % (target.coq_name, self.cb_args(), "".join(" " + t for t in terms))
                if target.mutates:
                    if not self.spec.mutates: raise Unsupported("mutating call in a function that is not state-passing")
                    return pad + self.wrap(binds, "'(self, _) <- %s ;;\n%s" % (call, self.block(rest, ind, fall)))
                return pad + self.wrap(binds, "_ <- %s ;;\n%s" % (call, self.block(rest, ind, fall)))
        if isinstance(s, ast.Try):
            # `try: BODY except BaseException: <assignments to self.x / locals>; raise` without else/finally. In the exception monad M a
            # Raise carries no state, so restoring in-memory attributes before re-raising is not observable in the generated function: the
            # body is translated in place, the handler is only checked for this exact shape (anything else fails closed).
            if s.orelse or s.finalbody or len(s.handlers) != 1: raise Unsupported("try with else/finally/several handlers")
            h = s.handlers[0]
            if not (isinstance(h.type, ast.Name) and h.type.id == "BaseException" and h.name is None): raise Unsupported("except clause other than `except BaseException:`")
            hb = [x for x in h.body if not self.is_dropped(x)]
            if not hb or not (isinstance(hb[-1], ast.Raise) and hb[-1].exc is None and hb[-1].cause is None): raise Unsupported("handler does not end in a bare raise")
            for x in hb[:-1]:
                if not isinstance(x, ast.Assign) or any(isinstance(n, ast.Call) for n in ast.walk(x)): raise Unsupported("handler statement other than a call-free assignment")
            if self.terminates(s.body): raise Unsupported("return/raise as last statement of a try body")
            return self.block(list(s.body) + rest, ind, fall)
        if isinstance(s, ast.Return):
            if rest: raise Unsupported("statements after return")
            if fall is not None and not fall.startswith("Ok (inr "): raise Unsupported("return inside a joined branch")
            ret_ok = self.ret_ok if fall is None else (lambda v: "Ok (inl %s)" % (("(self, %s)" % v) if self.spec.mutates else v))
            if s.value is None or (isinstance(s.value, ast.Constant) and s.value.value is None):
                if self.spec.ret == "unit": return pad + ret_ok("tt")
                if self.spec.ret.startswith("opt:"): return pad + ret_ok("None")
                raise Unsupported("return None from " + self.spec.ret)
            b, v, t = self.expr(s.value)
            if self.spec.ret.startswith("opt:") and t == self.spec.ret[4:]: v, t = "(Some %s)" % v, self.spec.ret
            if t != self.spec.ret: raise Unsupported("return type %s, declared %s" % (t, self.spec.ret))
            return pad + self.wrap(b, ret_ok(v))
        if isinstance(s, ast.Raise):
            exc = s.exc.func if isinstance(s.exc, ast.Call) else s.exc
            name = ast.unparse(exc).split(".")[-1]
            name = self.exceptions.get(name, name)
            return pad + "Raise %s" % name
        if isinstance(s, ast.Assert):
            b, c, t = self.expr(s.test)
            return pad + self.wrap(b, "_ <- massert %s ;;\n%s" % (self.truth(c, t), self.block(rest, ind, fall)))
        if isinstance(s, (ast.Assign, ast.AugAssign)):
            if isinstance(s, ast.Assign):
                if len(s.targets) != 1: raise Unsupported("chained assignment")
                target = s.targets[0]; b, v, t = self.expr(s.value)
            else:
                target = s.target
                b, v, t = self.expr(ast.BinOp(left=self.as_load(target), op=s.op, right=s.value))
            if isinstance(target, ast.Name):
                if target.id in self.env and self.env[target.id] != t: raise Unsupported("variable %s changes type %s -> %s" % (target.id, self.env[target.id], t))
                self.env[target.id] = t
                return pad + self.wrap(b, "let %s := %s in\n%s" % (target.id, v, self.block(rest, ind, fall)))
            if isinstance(target, ast.Tuple) and all(isinstance(x, ast.Name) for x in target.elts):
                if not t.startswith("tuple:"): raise Unsupported("unpacking " + t)
                ts = split_tuple(t)
                if len(ts) != len(target.elts): raise Unsupported("unpacking arity")
                for x, tx in zip(target.elts, ts): self.env[x.id] = tx
                return pad + self.wrap(b, "let '(%s) := %s in\n%s" % (", ".join(x.id for x in target.elts), v, self.block(rest, ind, fall)))
            if isinstance(target, ast.Attribute) and isinstance(target.value, ast.Name) and target.value.id == "self" and self.record:
                if self.field_type(target.attr) != t: raise Unsupported("field type")
                fields = "; ".join("%s := %s" % (self.field_coq(n), v if n == target.attr else "%s self" % self.field_coq(n)) for n, _ in self.record[1])
                return pad + self.wrap(b, "let self := {| %s |} in\n%s" % (fields, self.block(rest, ind, fall)))
            raise Unsupported("assignment target " + ast.dump(target)[:80])
        if isinstance(s, ast.If):
            b, c, t = self.expr(s.test); c = self.truth(c, t)
            env0 = dict(self.env)
            if self.terminates(s.body) and (not s.orelse or self.terminates(s.orelse) or not rest):
                thn = self.block(s.body, ind + 1, fall); self.env = dict(env0)
                els = self.block(list(s.orelse) + (rest if not self.terminates(s.orelse) else []), ind + 1, fall) if (s.orelse or rest or True) else None
                if s.orelse and self.terminates(s.orelse) and rest: raise Unsupported("dead code after if/else")
                return pad + self.wrap(b, "if %s then\n%s\n%selse\n%s" % (c, thn, pad, els))
            if not rest and fall is None and s.orelse and not self.terminates(s.body) and not self.terminates(s.orelse) and False:
                pass
            # join point: both branches may fall through to `rest`
            vs = [v for v in self.assigned(s.body + s.orelse)
                  if v == "self" or v in env0 or (v in self.assigned(s.body) and v in self.assigned(s.orelse))]
            if not vs: raise Unsupported("if without effect")
            tup = "(%s)" % ", ".join(vs) if len(vs) > 1 else vs[0]
            has_ret = any(isinstance(n, ast.Return) for st in s.body + s.orelse for n in ast.walk(st))
            if has_ret and fall is not None: raise Unsupported("return inside nested joined branches")
            fall_term = ("Ok (inr %s)" if has_ret else "Ok %s") % tup
            thn = self.block(s.body, ind + 1, fall_term); env1 = dict(self.env); self.env = dict(env0)
            els = self.block(s.orelse, ind + 1, fall_term); env2 = dict(self.env)
            for v in vs:
                if v == "self": continue
                t1, t2 = env1.get(v), env2.get(v)
                if t1 is None or t2 is None or t1 != t2: raise Unsupported("variable %s not defined with one type on both paths" % v)
            self.env = dict(env0)
            for v in vs:
                if v != "self": self.env[v] = env1[v]
            pat = "'(%s)" % ", ".join(vs) if len(vs) > 1 else vs[0]
            if has_ret:
                return pad + self.wrap(b, "j <- (if %s then\n%s\n%selse\n%s) ;;\n%smatch j with inl r => Ok r | inr %s =>\n%s\n%send" % (
                    c, thn, pad, els, pad, pat.lstrip("'"), self.block(rest, ind + 1, fall), pad))
            return pad + self.wrap(b, "%s <- (if %s then\n%s\n%selse\n%s) ;;\n%s" % (pat, c, thn, pad, els, self.block(rest, ind, fall)))
        raise Unsupported(type(s).__name__ + ": " + ast.unparse(s)[:100])
    def as_load(self, t):
        t = ast.parse(ast.unparse(t), mode="eval").body
        return t

def find_function(tree, cls, name):
    body = tree.body
    if cls:
        for n in body:
            if isinstance(n, ast.ClassDef) and n.name == cls: body = n.body; break
        else: raise Unsupported("class %s not found" % cls)
    for n in body:
        if isinstance(n, (ast.FunctionDef, ast.AsyncFunctionDef)) and n.name == name: return n
    raise Unsupported("function %s%s not found" % (cls + "." if cls else "", name))

def calls_self_methods(fn):
    out = set()
    for n in ast.walk(fn):
        if isinstance(n, ast.Call) and isinstance(n.func, ast.Attribute) and isinstance(n.func.value, ast.Name) and n.func.value.id == "self":
            out.add(n.func.attr)
    return out

def module_constants(tree, names):
    """evaluate module-level integer constants (literals and + - * ** of them)"""
    vals = {}
    def ev(e):
        if isinstance(e, ast.Constant) and isinstance(e.value, int) and not isinstance(e.value, bool): return e.value
        if isinstance(e, ast.Name) and e.id in vals: return vals[e.id]
        if isinstance(e, ast.BinOp) and isinstance(e.op, (ast.Add, ast.Sub, ast.Mult, ast.Pow)):
            l, r = ev(e.left), ev(e.right)
            return {ast.Add: l + r, ast.Sub: l - r, ast.Mult: l * r}.get(type(e.op)) if not isinstance(e.op, ast.Pow) else l ** r
        raise Unsupported("constant expression " + ast.dump(e)[:80])
    for n in tree.body:
        if isinstance(n, ast.Assign) and len(n.targets) == 1 and isinstance(n.targets[0], ast.Name) and n.targets[0].id in names:
            vals[n.targets[0].id] = ev(n.value)
    for name in names:
        if name not in vals: raise Unsupported("module constant %s not found" % name)
    return vals

def mutates_self(fn):
    for n in ast.walk(fn):
        if isinstance(n, (ast.Assign, ast.AugAssign)):
            for t in (n.targets if isinstance(n, ast.Assign) else [n.target]):
                for x in ast.walk(t):
                    if isinstance(x, ast.Attribute) and isinstance(x.value, ast.Name) and x.value.id == "self": return True
    return False

def translate_job(name, job, repo):
    path = os.path.join(repo, job["file"])
    tree = ast.parse(open(path).read())
    default_cls = job.get("cls")
    callbacks = job.get("callbacks", [])
    specs, classes = {}, {}
    for entry in job["funcs"]:
        fname, args, ret = entry[:3]
        classes[fname] = entry[3] if len(entry) > 3 else default_cls
        specs[fname] = FuncSpec(fname, args, ret, coq_name=job.get("rename", {}).get(fname), method=bool(classes[fname]))
    out = ["(* GENERATED by translate/py2v.py from %s%s — do not edit; regenerated on every check *)" % (job["file"], " class " + default_cls if default_cls else ""),
           "From Verif Require Import Lib.Py.", "Open Scope Z_scope.", ""]
    for cname, val in module_constants(tree, job.get("constants", [])).items():
        out.append("Definition %s : Z := %d." % (cname, val))
    if job.get("constants"): out.append("")
    if job.get("record"):
        rname, fields = job["record"]
        out.append("Record %s := { %s }." % (rname, "; ".join("%s_%s : %s" % (rname, f.lstrip("_"), coq_type(t)) for f, t in fields)))
        out.append("")
    fns = {fname: find_function(tree, classes[fname], fname) for fname in specs}
    # which functions pass state: those assigning self.x, calling a callback, or calling such a function (fixpoint)
    changed = True
    for fname, fn in fns.items():
        specs[fname].mutates = bool(classes[fname]) and (mutates_self(fn) or bool(calls_self_methods(fn) & set(callbacks)))
    while changed:
        changed = False
        for fname, fn in fns.items():
            if classes[fname] and not specs[fname].mutates and any(m in specs and specs[m].mutates for m in calls_self_methods(fn)):
                specs[fname].mutates = True; changed = True
    for entry in job["funcs"]:
        fname, args, ret = entry[:3]
        fn = fns[fname]; spec = specs[fname]; cls = classes[fname]
        pyargs = [a.arg for a in fn.args.args]
        if cls:
            if not pyargs or pyargs[0] != "self": raise Unsupported("method without self: " + fname)
            pyargs = pyargs[1:]
        if pyargs != list(args) or fn.args.vararg or fn.args.kwarg or fn.args.kwonlyargs or fn.args.defaults:
            raise Unsupported("signature of %s changed: %s" % (fname, pyargs))
        tr = Tr(job, spec, specs)
        body = tr.block(fn.body, 1)
        sig = "".join(" (%s : %s)" % (a, coq_type(t)) for a, t in args.items())
        if cls:
            rec = job["record"][0]
            sig = "".join(" (cb_%s : %s -> M %s)" % (c.lstrip("_"), rec, rec) for c in callbacks) + " (self : %s)" % rec + sig
        rt = coq_type(ret)
        if spec.mutates: rt = "(%s * %s)" % (job["record"][0], rt)
        out.append("Definition %s%s : M %s :=\n%s.\n" % (spec.coq_name, sig, rt, body))
    return "\n".join(out)

def run_job(name, repo):
    sys.path.insert(0, os.path.dirname(os.path.abspath(__file__)))
    import jobs
    if name not in jobs.JOBS: raise Unsupported("no such job " + name)
    job = jobs.JOBS[name]
    if "custom" in job: return job["custom"](repo)
    return translate_job(name, job, repo)

if __name__ == "__main__":
    print(run_job(sys.argv[1], sys.argv[2] if len(sys.argv) > 2 else "/repo"))
