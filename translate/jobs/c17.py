"""Translator job for C17 (tie T): regenerates coq/Gen/resource_site.v from the CURRENT aiocoap/resource.py
(Site._find_child_and_pathstripped_message, Site.add_resource, Site.remove_resource, _expand_upa) and
aiocoap/numbers/uri_path_abbrev.py (_map, as data).

py2v.py's subset is integers/bytes; routing works on tuples of str, dicts and ad-hoc message attributes, so
this job carries its own small, fail-closed statement translator for exactly that vocabulary (primitives are
the definitions of coq/Model/C17Base.v).  Anything it does not know raises Unsupported -> the check reports
"translation no longer possible".  The translation is structural (statement by statement, expression by
expression): an edited comparison, slice, statement order or dropped statement changes the generated
definition, and the proofs in coq/Proofs/C17*.v are re-checked against what the code says now.
"""
import ast, os


class Unsupported(Exception):
    pass


COQT = {"site": "(site Res Sub)", "msg": "msg", "path": "(list string)", "child": "(child Res Sub)", "str": "string",
        "R": "Res", "S": "Sub", "bool": "bool", "optZ": "(option Z)", "childmsg": "(child Res Sub * msg)"}
EXN = {"KeyError": "KeyError", "ValueError": "ValueError", "BadOption": "BadOption", "IndexError": "IndexError",
       "NotFound": "NotFound", "TypeError": "TypeError"}


def u(n):
    return ast.unparse(n)[:120]


class Tr:
    def __init__(self, spec):
        self.spec = spec
        self.env = dict(spec["args"])
        self.n = 0

    def fresh(self):
        self.n += 1
        return "t%d" % self.n

    # ------------------------------------------------------------ recognisers
    def is_self_dict(self, e):
        """self._resources / self._subsites -> ('resources', 'R') / ('subsites', 'S')"""
        if isinstance(e, ast.Attribute) and isinstance(e.value, ast.Name) and e.value.id == "self" and self.env.get("self") == "site":
            if e.attr == "_resources": return ("resources", "R")
            if e.attr == "_subsites": return ("subsites", "S")
        return None

    def is_opt(self, e, field):
        """NAME.opt.<field> with NAME : msg -> NAME"""
        if (isinstance(e, ast.Attribute) and e.attr == field and isinstance(e.value, ast.Attribute) and e.value.attr == "opt"
                and isinstance(e.value.value, ast.Name) and self.env.get(e.value.value.id) == "msg"):
            return e.value.value.id
        return None

    # ------------------------------------------------------------ expressions -> (binds, term, type)
    def expr(self, e):
        if isinstance(e, ast.Constant):
            if isinstance(e.value, str):
                if any(ord(c) > 126 or ord(c) < 32 for c in e.value): raise Unsupported("string constant " + repr(e.value))
                return [], '"%s"%%string' % e.value.replace('"', '""'), "str"
            if e.value is None: return [], "None", "none"
            if e.value is True or e.value is False: return [], "true" if e.value else "false", "bool"
            raise Unsupported("constant " + u(e))
        if isinstance(e, ast.Name):
            if e.id not in self.env: raise Unsupported("unknown name " + e.id)
            return [], e.id, self.env[e.id]
        if isinstance(e, (ast.Tuple, ast.List)) and isinstance(e.ctx, ast.Load):
            parts = [self.expr(x) for x in e.elts]
            if any(t != "str" for _, _, t in parts): raise Unsupported("sequence literal of non-str: " + u(e))
            return sum((b for b, _, _ in parts), []), "[" + "; ".join(v for _, v, _ in parts) + "]", "path"
        m = self.is_opt(e, "uri_path")
        if m: return [], "(uri_path %s)" % m, "path"
        m = self.is_opt(e, "uri_path_abbrev")
        if m: return [], "(uri_path_abbrev %s)" % m, "optZ"
        if isinstance(e, ast.UnaryOp) and isinstance(e.op, ast.Not):
            b, v, t = self.expr(e.operand)
            return b, "(negb %s)" % self.truth(v, t), "bool"
        if isinstance(e, ast.Compare) and len(e.ops) == 1:
            op, rhs = e.ops[0], e.comparators[0]
            d = self.is_self_dict(rhs)
            if isinstance(op, (ast.In, ast.NotIn)) and d:
                b, v, t = self.expr(e.left)
                if t != "path": raise Unsupported("dict key of type " + t)
                term = "(dict_contains %s (%s self))" % (v, d[0])
                return b, term if isinstance(op, ast.In) else "(negb %s)" % term, "bool"
            b1, l, tl = self.expr(e.left); b2, r, tr = self.expr(rhs)
            if isinstance(op, (ast.Eq, ast.NotEq)) and tl == tr == "path":
                term = "(path_eqb %s %s)" % (l, r)
                return b1 + b2, term if isinstance(op, ast.Eq) else "(negb %s)" % term, "bool"
            if isinstance(op, (ast.Is, ast.IsNot)) and tr == "none" and tl == "optZ":
                term = "(match %s with None => true | Some _ => false end)" % l
                return b1, term if isinstance(op, ast.Is) else "(negb %s)" % term, "bool"
            raise Unsupported("comparison " + u(e))
        if isinstance(e, ast.BoolOp):
            parts = [self.expr(v) for v in e.values]
            if any(b for b, _, _ in parts[1:]): raise Unsupported("effectful operand after short-circuit: " + u(e))
            sym = " && " if isinstance(e.op, ast.And) else " || "
            return parts[0][0], "(" + sym.join(self.truth(v, t) for _, v, t in parts) + ")", "bool"
        if isinstance(e, ast.Subscript):
            d = self.is_self_dict(e.value)
            if d:
                b, k, t = self.expr(e.slice)
                if t != "path": raise Unsupported("dict key of type " + t)
                x = self.fresh()
                return b + [(x, "dict_get (%s self) %s" % (d[0], k))], x, d[1]
            if u(e.value) == "uri_path_abbrev._map":
                b, k, t = self.expr(e.slice)
                if t != "optZ": raise Unsupported("abbrev key of type " + t)
                x = self.fresh()
                return b + [(x, "match %s with Some n => zmap_get upa_map n | None => Raise KeyError end" % k)], x, "path"
            b, v, t = self.expr(e.value)
            if t != "path": raise Unsupported("subscript on " + t)
            s = e.slice
            if isinstance(s, ast.UnaryOp) and isinstance(s.op, ast.USub) and isinstance(s.operand, ast.Constant) and s.operand.value == 1:
                x = self.fresh()
                return b + [(x, "last_item %s" % v)], x, "str"
            if (isinstance(s, ast.Slice) and s.lower is None and s.step is None and isinstance(s.upper, ast.UnaryOp)
                    and isinstance(s.upper.op, ast.USub) and isinstance(s.upper.operand, ast.Constant) and s.upper.operand.value == 1):
                return b, "(but_last %s)" % v, "path"
            raise Unsupported("subscript " + u(e))
        if isinstance(e, ast.Call):
            f = e.func
            if isinstance(f, ast.Name) and f.id == "getattr" and len(e.args) == 3 and not e.keywords:
                b0, o, t0 = self.expr(e.args[0])
                if t0 == "msg" and isinstance(e.args[1], ast.Constant) and e.args[1].value == "_original_request_path":
                    b, dflt, t = self.expr(e.args[2])
                    if t != "path": raise Unsupported("getattr default of type " + t)
                    return b0 + b, "(getattr_original_request_path %s %s)" % (o, dflt), "path"
            if isinstance(f, ast.Name) and f.id == "tuple" and len(e.args) == 1 and not e.keywords:
                b, v, t = self.expr(e.args[0])
                if t == "path": return b, v, t
            if isinstance(f, ast.Name) and f.id == "isinstance" and len(e.args) == 2 and isinstance(e.args[0], ast.Name):
                t = self.env.get(e.args[0].id); cls = u(e.args[1])
                if t == "path" and cls == "str": return [], "false", "bool"     # the model's paths are sequences, never str
                if t == "child" and cls == "PathCapable":
                    return [], "(match %s with ChildSubsite _ => true | ChildResource _ => false end)" % e.args[0].id, "bool"
            if (isinstance(f, ast.Attribute) and f.attr == "copy" and isinstance(f.value, ast.Name) and self.env.get(f.value.id) == "msg"
                    and not e.args and [k.arg for k in e.keywords] == ["uri_path"]):
                b, v, t = self.expr(e.keywords[0].value)
                if t != "path": raise Unsupported("copy(uri_path=) of type " + t)
                return b, "(copy_uri_path %s %s)" % (f.value.id, v), "msg"
            raise Unsupported("call " + u(e))
        raise Unsupported("expression " + u(e))

    def truth(self, v, t):
        if t == "bool": return v
        if t == "path": return "(truthy %s)" % v
        raise Unsupported("truth value of " + t)

    @staticmethod
    def wrap(binds, body):
        for x, m in reversed(binds):
            body = "%s <- (%s) ;;\n%s" % (x, m, body)
        return body

    # ------------------------------------------------------------ statements
    def always_exits(self, stmts):
        if not stmts: return False
        s = stmts[-1]
        if isinstance(s, (ast.Return, ast.Raise)): return True
        if isinstance(s, ast.If): return self.always_exits(s.body) and self.always_exits(s.orelse)
        return False

    @staticmethod
    def has_return(stmts):
        return any(isinstance(n, ast.Return) for st in stmts for n in ast.walk(st))

    def assigned(self, stmts):
        out = []
        def add(v):
            if v not in out: out.append(v)
        for st in stmts:
            for n in ast.walk(st):
                if isinstance(n, ast.Assign):
                    for t in n.targets:
                        if isinstance(t, ast.Name): add(t.id)
                        elif isinstance(t, ast.Subscript) and self.is_self_dict(t.value): add("self")
                        elif isinstance(t, ast.Attribute):
                            x = t
                            while isinstance(x, ast.Attribute): x = x.value
                            if isinstance(x, ast.Name): add(x.id)
                elif isinstance(n, ast.Delete):
                    add("self")
                elif isinstance(n, ast.Expr) and isinstance(n.value, ast.Call) and isinstance(n.value.func, ast.Attribute) \
                        and n.value.func.attr == "insert" and isinstance(n.value.func.value, ast.Name):
                    add(n.value.func.value.id)
        return out

    def fallthrough(self):
        f = self.spec.get("fall")
        if f is None: raise Unsupported("control reaches the end of %s" % self.spec["name"])
        return "Ok %s" % f

    def set_self(self, field, val):
        other = "subsites" if field == "resources" else "resources"
        parts = {field: val, other: "%s self" % other}
        return "{| resources := %s; subsites := %s |}" % (parts["resources"], parts["subsites"])

    def block(self, stmts, fall=None):
        """Gallina term of type M <ret>; `fall` = term to continue with when control reaches the end"""
        if not stmts:
            return fall if fall is not None else self.fallthrough()
        s, rest = stmts[0], stmts[1:]
        if isinstance(s, ast.Expr) and isinstance(s.value, ast.Constant) and isinstance(s.value.value, str):
            return self.block(rest, fall)                                    # docstring
        if isinstance(s, ast.Return):
            if rest: raise Unsupported("code after return")
            return self.ret(s.value)
        if isinstance(s, ast.Raise):
            if rest: raise Unsupported("code after raise")
            exc = s.exc
            if isinstance(exc, ast.Call): exc = exc.func
            name = exc.attr if isinstance(exc, ast.Attribute) else exc.id if isinstance(exc, ast.Name) else None
            if name not in EXN: raise Unsupported("raise " + u(s))
            return "Raise %s" % EXN[name]
        if isinstance(s, ast.Assign) and len(s.targets) == 1:
            t = s.targets[0]
            if isinstance(t, ast.Name):
                b, v, ty = self.expr(s.value)
                if ty == "none": raise Unsupported("None assigned to " + t.id)
                if t.id in self.env and self.env[t.id] != ty: raise Unsupported("variable %s changes type %s -> %s" % (t.id, self.env[t.id], ty))
                self.env[t.id] = ty
                return self.wrap(b, "let %s := %s in\n%s" % (t.id, v, self.block(rest, fall)))
            if isinstance(t, ast.Attribute) and t.attr == "_original_request_path" and isinstance(t.value, ast.Name) and self.env.get(t.value.id) == "msg":
                b, v, ty = self.expr(s.value)
                if ty != "path": raise Unsupported("_original_request_path of type " + ty)
                return self.wrap(b, "let %s := set_original_request_path %s %s in\n%s" % (t.value.id, t.value.id, v, self.block(rest, fall)))
            m = self.is_opt(t, "uri_path")
            if m:
                b, v, ty = self.expr(s.value)
                if ty != "path": raise Unsupported("uri_path of type " + ty)
                return self.wrap(b, "let %s := set_uri_path %s %s in\n%s" % (m, m, v, self.block(rest, fall)))
            m = self.is_opt(t, "uri_path_abbrev")
            if m:
                b, v, ty = self.expr(s.value)
                if ty != "none": raise Unsupported("uri_path_abbrev set to " + ty)
                return self.wrap(b, "let %s := set_uri_path_abbrev %s None in\n%s" % (m, m, self.block(rest, fall)))
            if isinstance(t, ast.Subscript) and self.is_self_dict(t.value):
                field, vt = self.is_self_dict(t.value)
                bk, k, tk = self.expr(t.slice); bv, v, tv = self.expr(s.value)
                if tk != "path": raise Unsupported("dict key of type " + tk)
                cont = self.block(rest, fall)
                if tv == vt:
                    return self.wrap(bk + bv, "let self := %s in\n%s" % (self.set_self(field, "dict_set (%s self) %s %s" % (field, k, v)), cont))
                if tv == "child":
                    # Python stores any object; the model's dicts are typed, so storing is a checked downcast
                    good, bad = ("ChildSubsite", "ChildResource") if vt == "S" else ("ChildResource", "ChildSubsite")
                    return self.wrap(bk + bv, "match %s with\n| %s x => let self := %s in\n%s\n| %s _ => Raise TypeError\nend" % (
                        v, good, self.set_self(field, "dict_set (%s self) %s x" % (field, k)), cont, bad))
                raise Unsupported("storing %s into self.%s" % (tv, field))
            raise Unsupported("assignment " + u(s))
        if isinstance(s, ast.Delete) and len(s.targets) == 1 and isinstance(s.targets[0], ast.Subscript) and self.is_self_dict(s.targets[0].value):
            field, _ = self.is_self_dict(s.targets[0].value)
            bk, k, tk = self.expr(s.targets[0].slice)
            if tk != "path": raise Unsupported("dict key of type " + tk)
            x = self.fresh()
            return self.wrap(bk + [(x, "dict_del (%s self) %s" % (field, k))], "let self := %s in\n%s" % (self.set_self(field, x), self.block(rest, fall)))
        if isinstance(s, ast.Expr) and isinstance(s.value, ast.Call) and isinstance(s.value.func, ast.Attribute) and s.value.func.attr == "insert" \
                and isinstance(s.value.func.value, ast.Name) and self.env.get(s.value.func.value.id) == "path" and len(s.value.args) == 2 \
                and isinstance(s.value.args[0], ast.Constant) and s.value.args[0].value == 0:
            name = s.value.func.value.id
            b, v, ty = self.expr(s.value.args[1])
            if ty != "str": raise Unsupported("insert of " + ty)
            return self.wrap(b, "let %s := %s :: %s in\n%s" % (name, v, name, self.block(rest, fall)))
        if isinstance(s, ast.If):
            b, c, tc = self.expr(s.test); c = self.truth(c, tc)
            env0 = dict(self.env)
            if self.always_exits(s.body):
                thn = self.block(s.body, None); self.env = dict(env0)
                els = self.block(s.orelse + rest, fall)
                return self.wrap(b, "if %s then\n%s\nelse\n%s" % (c, thn, els))
            if s.orelse and self.always_exits(s.orelse):
                els = self.block(s.orelse, None); self.env = dict(env0)
                thn = self.block(s.body + rest, fall)
                return self.wrap(b, "if %s then\n%s\nelse\n%s" % (c, thn, els))
            if self.has_return(s.body + s.orelse): raise Unsupported("return inside a branch that can also fall through: " + u(s))
            vs = [v for v in self.assigned(s.body + s.orelse) if v in env0]
            if not vs: raise Unsupported("if without effect: " + u(s))
            tup = "(%s)" % ", ".join(vs) if len(vs) > 1 else vs[0]
            thn = self.block(s.body, "Ok %s" % tup); env1 = dict(self.env); self.env = dict(env0)
            els = self.block(s.orelse, "Ok %s" % tup); env2 = dict(self.env)
            for v in vs:
                if env1.get(v) != env0[v] or env2.get(v) != env0[v]: raise Unsupported("variable %s changes type in a branch" % v)
            self.env = dict(env0)
            pat = "'(%s)" % ", ".join(vs) if len(vs) > 1 else vs[0]
            return self.wrap(b, "%s <- (if %s then\n%s\nelse\n%s) ;;\n%s" % (pat, c, thn, els, self.block(rest, fall)))
        if isinstance(s, ast.While):
            if s.orelse: raise Unsupported("while/else")
            if not (isinstance(s.test, ast.Name) and self.env.get(s.test.id) == "path"): raise Unsupported("loop condition " + u(s.test))
            vs = [v for v in self.assigned(s.body) if v in self.env]
            if s.test.id not in vs: raise Unsupported("loop does not modify its condition variable")
            if "self" in vs: raise Unsupported("loop modifies self")
            env0 = dict(self.env)
            params = " ".join("(%s : %s)" % (v, COQT[self.env[v]]) for v in vs)
            body = self.block(s.body, "loop fuel %s" % " ".join(vs))
            for v in vs:
                if self.env.get(v) != env0[v]: raise Unsupported("variable %s changes type in loop" % v)
            self.env = dict(env0)
            after = self.block(rest, fall)
            return ("(fix loop (fuel : nat) %s {struct fuel} : M %s :=\nmatch fuel with\n| O => Raise OutOfFuel\n| S fuel =>\nif (truthy %s) then\n%s\nelse\n%s\nend) (S (List.length %s)) %s"
                    % (params, COQT[self.spec["ret"]], s.test.id, body, after, s.test.id, " ".join(vs)))
        if isinstance(s, ast.Try):
            if s.orelse or s.finalbody or len(s.handlers) != 1: raise Unsupported("try shape: " + u(s))
            h = s.handlers[0]
            if h.name is not None or not isinstance(h.type, ast.Name) or h.type.id != "KeyError": raise Unsupported("handler " + u(h))
            if self.has_return(s.body): raise Unsupported("return inside try")
            env0 = dict(self.env)
            vs = [v for v in self.assigned(s.body) if v in env0]
            if len(vs) != 1: raise Unsupported("try body must update exactly one variable: " + u(s))
            v = vs[0]
            body = self.block(s.body, "Ok %s" % v)
            if self.env.get(v) != env0[v]: raise Unsupported("variable changes type in try")
            self.env = dict(env0)
            handler = self.block(h.body, None) if self.always_exits(h.body) else self.block(h.body + rest, fall)
            self.env = dict(env0)
            cont = self.block(rest, fall)
            return "match (%s) with\n| Ok %s =>\n%s\n| Raise KeyError =>\n%s\n| Raise e => Raise e\nend" % (body, v, cont, handler)
        raise Unsupported(type(s).__name__ + ": " + u(s))

    def ret(self, e):
        rt = self.spec["ret"]
        if rt == "childmsg":
            if not (isinstance(e, ast.Tuple) and len(e.elts) == 2): raise Unsupported("return " + u(e))
            b1, c, tc = self.expr(e.elts[0]); b2, m, tm = self.expr(e.elts[1])
            if tm != "msg": raise Unsupported("second component of return is " + tm)
            if tc == "R": c = "ChildResource %s" % c
            elif tc == "S": c = "ChildSubsite %s" % c
            elif tc != "child": raise Unsupported("first component of return is " + tc)
            return self.wrap(b1 + b2, "Ok (%s, %s)" % (c, m))
        raise Unsupported("return in a function of type " + rt)


FUNCS = [
    dict(name="_find_child_and_pathstripped_message", cls="Site", coq="find_child_and_pathstripped_message",
         args=[("self", "site"), ("request", "msg")], ret="childmsg", fall=None),
    dict(name="add_resource", cls="Site", coq="add_resource", args=[("self", "site"), ("path", "path"), ("resource", "child")], ret="site", fall="self"),
    dict(name="remove_resource", cls="Site", coq="remove_resource", args=[("self", "site"), ("path", "path")], ret="site", fall="self"),
    dict(name="_expand_upa", cls=None, coq="expand_upa", args=[("request", "msg")], ret="msg", fall="request"),
]


def find_function(tree, cls, name):
    body = tree.body
    if cls:
        for n in body:
            if isinstance(n, ast.ClassDef) and n.name == cls: body = n.body; break
        else: raise Unsupported("class %s not found" % cls)
    for n in body:
        if isinstance(n, (ast.FunctionDef, ast.AsyncFunctionDef)) and n.name == name: return n
    raise Unsupported("function %s not found" % name)


def indent(text):
    """purely cosmetic: indent by nesting of if/match/fix"""
    out, depth = [], 1
    for line in text.split("\n"):
        st = line.strip()
        if st.startswith(("else", "end", "| ")): d = max(depth - 1, 1)
        else: d = depth
        out.append("  " * d + st)
        opens = len([1 for w in ("if ", "match ") if st.startswith(w) or (" <- (" + w) in st or st.startswith("(" + w)]) + st.count("(fix loop")
        depth += opens
        if st.startswith("end"): depth = max(depth - 1, 1)
    return "\n".join(out)


def upa_map(repo):
    tree = ast.parse(open(os.path.join(repo, "aiocoap/numbers/uri_path_abbrev.py")).read())
    for n in tree.body:
        if isinstance(n, ast.Assign) and len(n.targets) == 1 and isinstance(n.targets[0], ast.Name) and n.targets[0].id == "_map":
            d = ast.literal_eval(n.value)
            items = []
            for k, v in d.items():
                if not isinstance(k, int) or not isinstance(v, tuple) or not all(isinstance(x, str) and x.isascii() for x in v):
                    raise Unsupported("uri_path_abbrev._map entry %r" % ((k, v),))
                items.append("(%d, [%s])" % (k, "; ".join('"%s"%%string' % x.replace('"', '""') for x in v)))
            return "Definition upa_map : list (Z * list string) :=\n  [" + ";\n   ".join(items) + "]."
    raise Unsupported("uri_path_abbrev._map not found")


def generate(repo):
    tree = ast.parse(open(os.path.join(repo, "aiocoap/resource.py")).read())
    out = ["(* GENERATED by translate/jobs/c17.py from aiocoap/resource.py (class Site, _expand_upa) and aiocoap/numbers/uri_path_abbrev.py"
           " — do not edit; regenerated on every check *)",
           "From Verif Require Import Lib.Py Model.C17Base.", "Open Scope Z_scope.", "", upa_map(repo), "",
           "Section Site.", "Context {Res Sub : Type}.", ""]
    for spec in FUNCS:
        fn = find_function(tree, spec["cls"], spec["name"])
        pyargs = [a.arg for a in fn.args.args]
        if pyargs != [a for a, _ in spec["args"]] or fn.args.vararg or fn.args.kwarg or fn.args.kwonlyargs or fn.args.defaults:
            raise Unsupported("signature of %s changed: %s" % (spec["name"], pyargs))
        tr = Tr(spec)
        body = tr.block(fn.body)
        sig = " ".join("(%s : %s)" % (a, COQT[t]) for a, t in spec["args"])
        out.append("Definition %s %s : M %s :=\n%s.\n" % (spec["coq"], sig, COQT[spec["ret"]], indent(body)))
    out.append("End Site.")
    return "\n".join(out) + "\n"


JOBS = {"resource_site": dict(custom=generate)}

if __name__ == "__main__":
    import sys
    print(generate(sys.argv[1] if len(sys.argv) > 1 else "/repo"))
