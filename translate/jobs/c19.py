"""C19 translator job (tie T): FileServer.request_to_localpath of aiocoap/cli/fileserver.py -> coq/Gen/fileserver.v.

The function works on str / tuples of str / pathlib paths, which translate/py2v.py (ints and bytes) does not cover, so
this is a custom job: a small fail-closed translator from the statement/expression shapes a path-validation function
can reasonably take into Gallina over the intrinsics of coq/Model/C19Path.v (str = list of code points,
`posix_join`/`split`-based PurePosixPath model: `joinpath`, `truediv`).  Anything outside the subset raises Unsupported
(the check then reports the broken obligation and searches for a failing input with the oracle)."""
import ast, os
import py2v
from py2v import Unsupported

FILE = "aiocoap/cli/fileserver.py"


def _lit(s):
    return "[" + "; ".join(str(ord(c)) for c in s) + "]"


class _Tr:
    def __init__(self):
        self.env = {"self": "fileserver", "request": "request"}
        self.bound = set()

    # ------------------------------------------------------------ expressions -> (term, type)
    def expr(self, e):
        if isinstance(e, ast.Constant):
            if isinstance(e.value, bool): return ("true" if e.value else "false"), "bool"
            if isinstance(e.value, str): return _lit(e.value), "str"
            raise Unsupported("constant %r" % (e.value,))
        if isinstance(e, ast.Name):
            if e.id not in self.env or self.env[e.id] in ("fileserver", "request"): raise Unsupported("name " + e.id)
            return e.id, self.env[e.id]
        if isinstance(e, ast.Attribute):
            src = ast.unparse(e)
            if src == "request.opt.uri_path": return "(opt_uri_path request)", "strlist"
            if src == "self.root": return "(fs_root self)", "path"
            raise Unsupported("attribute " + src)
        if isinstance(e, (ast.Tuple, ast.List)):
            parts = [self.expr(x) for x in e.elts]
            if any(t != "str" for _, t in parts): raise Unsupported("tuple of non-str")
            return "[" + "; ".join(v for v, _ in parts) + "]", "strlist"
        if isinstance(e, ast.UnaryOp) and isinstance(e.op, ast.Not):
            v, t = self.expr(e.operand)
            return "(negb %s)" % self.truth(v, t), "bool"
        if isinstance(e, ast.BoolOp):
            parts = [self.truth(*self.expr(v)) for v in e.values]
            return "(" + (" && " if isinstance(e.op, ast.And) else " || ").join(parts) + ")", "bool"
        if isinstance(e, ast.Compare):
            if len(e.ops) != 1: raise Unsupported("comparison chain")
            l, tl = self.expr(e.left); r, tr = self.expr(e.comparators[0]); op = e.ops[0]
            neg = isinstance(op, (ast.NotIn, ast.NotEq))
            if isinstance(op, (ast.In, ast.NotIn)):
                if tl == "str" and tr == "str": term = "(str_contains %s %s)" % (l, r)
                elif tl == "str" and tr == "strlist": term = "(str_in %s %s)" % (l, r)
                else: raise Unsupported("`in` on %s, %s" % (tl, tr))
            elif isinstance(op, (ast.Eq, ast.NotEq)):
                if tl == tr == "str": term = "(str_eqb %s %s)" % (l, r)
                elif tl == tr == "strlist": term = "(parts_eqb %s %s)" % (l, r)
                else: raise Unsupported("== on %s, %s" % (tl, tr))
            else: raise Unsupported("comparison " + type(op).__name__)
            return ("(negb %s)" % term if neg else term), "bool"
        if isinstance(e, ast.BinOp) and isinstance(e.op, ast.Div):
            l, tl = self.expr(e.left); r, tr = self.expr(e.right)
            if tl == "path" and tr == "str": return "(truediv %s %s)" % (l, r), "path"
            raise Unsupported("/ on %s, %s" % (tl, tr))
        if isinstance(e, ast.BinOp) and isinstance(e.op, ast.Add):
            l, tl = self.expr(e.left); r, tr = self.expr(e.right)
            if tl == tr and tl in ("str", "strlist"): return "(%s ++ %s)" % (l, r), tl
            raise Unsupported("+ on %s, %s" % (tl, tr))
        if isinstance(e, ast.Call): return self.call(e)
        raise Unsupported(ast.dump(e)[:160])

    def truth(self, v, t):
        if t == "bool": return v
        if t == "str": return "(negb (str_empty %s))" % v
        if t == "strlist": return "(negb (match %s with [] => true | _ => false end))" % v
        raise Unsupported("truth value of " + t)

    def call(self, e):
        f = e.func
        if e.keywords: raise Unsupported("keyword arguments")
        if isinstance(f, ast.Name) and f.id in ("any", "all") and len(e.args) == 1 and isinstance(e.args[0], ast.GeneratorExp):
            g = e.args[0]
            if len(g.generators) != 1: raise Unsupported("nested generators")
            c = g.generators[0]
            if c.ifs or c.is_async or not isinstance(c.target, ast.Name): raise Unsupported("generator shape")
            it, tit = self.expr(c.iter)
            if tit != "strlist": raise Unsupported("iteration over " + tit)
            v = c.target.id
            if v in self.env: raise Unsupported("generator variable shadows " + v)
            self.env[v] = "str"
            body = self.truth(*self.expr(g.elt))
            del self.env[v]
            return "(%s (fun %s => %s) %s)" % ("existsb" if f.id == "any" else "forallb", v, body, it), "bool"
        if isinstance(f, ast.Attribute):
            recv, trecv = self.expr(f.value)
            if f.attr == "joinpath" and trecv == "path":
                if len(e.args) == 1 and isinstance(e.args[0], ast.Starred):
                    a, ta = self.expr(e.args[0].value)
                    if ta != "strlist": raise Unsupported("joinpath(*%s)" % ta)
                    return "(joinpath %s %s)" % (recv, a), "path"
                parts = [self.expr(a) for a in e.args]
                if any(isinstance(a, ast.Starred) for a in e.args) or any(t != "str" for _, t in parts): raise Unsupported("joinpath arguments")
                return "(joinpath %s [%s])" % (recv, "; ".join(v for v, _ in parts)), "path"
            if f.attr == "join" and trecv == "str" and len(e.args) == 1:
                a, ta = self.expr(e.args[0])
                if ta != "strlist": raise Unsupported("join of " + ta)
                return "(str_join %s %s)" % (recv, a), "str"
            if f.attr == "startswith" and trecv == "str" and len(e.args) == 1:
                a, ta = self.expr(e.args[0])
                if ta != "str": raise Unsupported("startswith of " + ta)
                return "(startswith %s %s)" % (a, recv), "bool"
        raise Unsupported("call " + ast.unparse(f)[:80])

    # ------------------------------------------------------------ statements
    def block(self, stmts, ind):
        pad = "  " * ind
        stmts = [s for s in stmts if not (isinstance(s, ast.Expr) and isinstance(s.value, ast.Constant) and isinstance(s.value.value, str)) and not isinstance(s, ast.Pass)]
        if not stmts: raise Unsupported("control falls off the end of request_to_localpath (returns None)")
        s, rest = stmts[0], stmts[1:]
        if isinstance(s, ast.Return):
            if rest: raise Unsupported("statements after return")
            if s.value is None: raise Unsupported("return without value")
            v, t = self.expr(s.value)
            if t != "path": raise Unsupported("returns %s, expected a path" % t)
            return pad + "Ok %s" % v
        if isinstance(s, ast.Raise):
            exc = s.exc.func if isinstance(s.exc, ast.Call) else s.exc
            name = ast.unparse(exc).split(".")[-1]
            if name != "InvalidPathError": raise Unsupported("raises " + name)
            return pad + "Raise InvalidPathError"
        if isinstance(s, ast.Assign):
            if len(s.targets) != 1 or not isinstance(s.targets[0], ast.Name): raise Unsupported("assignment target")
            n = s.targets[0].id; v, t = self.expr(s.value)
            if n in self.env and self.env[n] != t: raise Unsupported("variable %s changes type" % n)
            self.env[n] = t
            return pad + "let %s := %s in\n%s" % (n, v, self.block(rest, ind))
        if isinstance(s, ast.If):
            c = self.truth(*self.expr(s.test))
            env0 = dict(self.env)
            def ends(b):
                b = [x for x in b if not isinstance(x, ast.Pass)]
                return bool(b) and (isinstance(b[-1], (ast.Return, ast.Raise)) or (isinstance(b[-1], ast.If) and b[-1].orelse and ends(b[-1].body) and ends(b[-1].orelse)))
            if ends(s.body):
                thn = self.block(s.body, ind + 1); self.env = dict(env0)
                if s.orelse and ends(s.orelse) and rest: raise Unsupported("dead code after if/else")
                els = self.block(list(s.orelse) + rest, ind + 1)
                return pad + "if %s then\n%s\n%selse\n%s" % (c, thn, pad, els)
            raise Unsupported("if whose body falls through")
        raise Unsupported(type(s).__name__ + ": " + ast.unparse(s)[:100])


def fileserver(repo):
    tree = ast.parse(open(os.path.join(repo, FILE)).read())
    fn = py2v.find_function(tree, "FileServer", "request_to_localpath")
    if isinstance(fn, ast.AsyncFunctionDef): raise Unsupported("request_to_localpath became a coroutine")
    args = [a.arg for a in fn.args.args]
    if args != ["self", "request"] or fn.args.vararg or fn.args.kwarg or fn.args.kwonlyargs or fn.args.defaults:
        raise Unsupported("signature of request_to_localpath changed: %s" % args)
    if fn.decorator_list: raise Unsupported("decorators on request_to_localpath")
    body = _Tr().block(fn.body, 1)
    return "\n".join([
        "(* GENERATED by translate/jobs/c19.py from %s class FileServer — do not edit; regenerated on every check *)" % FILE,
        "From Verif Require Import Lib.Py Model.C19Path.", "Open Scope Z_scope.", "",
        "Definition request_to_localpath (self : fileserver) (request : request) : M (list (list Z)) :=\n%s.\n" % body])


JOBS = {"fileserver": dict(custom=fileserver)}
