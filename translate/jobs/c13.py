JOBS = {
    # FilesystemSecurityContext._replay_window_changed: the flag is cleared BEFORE the one write that replaces the persisted
    # window by "unknown"; self._store() is a function parameter (cb_store : rwc -> M rwc)
    "oscore_rwchanged": dict(
        file="aiocoap/oscore.py",
        record=("rwc", [("replay_window_persisted", "bool")]),
        callbacks=["_store"],
        funcs=[("_replay_window_changed", {}, "unit", "FilesystemSecurityContext")],
    ),
}
