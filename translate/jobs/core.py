JOBS = {
    "options_ext": dict(
        file="aiocoap/options.py",
        funcs=[("_read_extended_field_value", {"value": "int", "rawdata": "bytes"}, "tuple:int,bytes"),
               ("_write_extended_field_value", {"value": "int"}, "tuple:int,bytes")],
    ),
    "oscore_replay": dict(
        file="aiocoap/oscore.py", cls="ReplayWindow",
        record=("rw", [("_size", "int"), ("_index", "int"), ("_bitfield", "int")]),
        funcs=[("is_valid", {"number": "int"}, "bool"), ("strike_out", {"number": "int"}, "unit")],
        drop_calls=["self.strike_out_callback"],
    ),
    "tcp_framing": dict(
        file="aiocoap/transports/tcp.py",
        funcs=[("_extract_message_size", {"data": "bytes"}, "opt:tuple:int,int,int"),
               ("_encode_length", {"length": "int"}, "tuple:int,bytes")],
    ),
}

JOBS["oscore_seqno"] = dict(
    # sender sequence number kernels: CanProtect.new_sequence_number and FilesystemSecurityContext.post_seqnoincrease;
    # the file-system write `self._store()` is a function parameter (cb_store : fsc -> M fsc)
    file="aiocoap/oscore.py",
    record=("fsc", [("sender_sequence_number", "int"), ("sequence_number_persisted", "int"),
                    ("sequence_number_chunksize", "int"), ("sequence_number_chunksize_limit", "int")]),
    constants=["MAX_SEQNO"],
    callbacks=["_store"],
    exceptions={"ContextUnavailable": "ContextUnavailable"},
    funcs=[("post_seqnoincrease", {}, "unit", "FilesystemSecurityContext"),
           ("new_sequence_number", {}, "int", "CanProtect")],
)
