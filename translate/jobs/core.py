JOBS = {
    "options_ext": dict(
        file="aiocoap/options.py",
        funcs=[("_read_extended_field_value", {"value": "int", "rawdata": "bytes"}, "tuple:int,bytes"),
               ("_write_extended_field_value", {"value": "int"}, "tuple:int,bytes")],
    ),
    "oscore_replay": dict(
        file="aiocoap/oscore.py", cls="ReplayWindow",
        record=("rw", [("_size", "int"), ("_index", "int"), ("_bitfield", "int")]),
        funcs=[("is_valid", {"number": "int"}, "bool"), ("strike_out", {"number": "int"}, "unit")],
        drop_calls=["self.strike_out_callback"],
    ),
    "tcp_framing": dict(
        file="aiocoap/transports/tcp.py",
        funcs=[("_extract_message_size", {"data": "bytes"}, "opt:tuple:int,int,int"),
               ("_encode_length", {"length": "int"}, "tuple:int,bytes")],
    ),
}
