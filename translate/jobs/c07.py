"""C07 translator job: the RFC 7641 section 3.4 freshness expression of Request._run (tie T).

`is_recent = (...)` is not a function, so this custom job locates the assignment by target name inside
aiocoap/protocol.py Request._run with ast, checks the statements around it (where v2/t2 come from and that the
accepted pair replaces (v1, t1)), and emits the expression as a Gallina definition over Z.  Times are integers in
microseconds in the model; `<tuning>.OBSERVATION_RESET_TIME` (seconds) becomes the parameter `reset` (microseconds),
and the constant itself is read from numbers/constants.py.  Fail closed: any other shape raises Unsupported."""
import ast, os
import py2v
from py2v import Unsupported


def _find_class_func(tree, cls, name):
    for n in tree.body:
        if isinstance(n, ast.ClassDef) and n.name == cls:
            for f in n.body:
                if isinstance(f, (ast.FunctionDef, ast.AsyncFunctionDef)) and f.name == name:
                    return f
    raise Unsupported("%s.%s not found" % (cls, name))


class _Reset(ast.NodeTransformer):
    """<anything>.transport_tuning.OBSERVATION_RESET_TIME -> reset"""
    def __init__(self): self.hits = 0
    def visit_Attribute(self, node):
        if node.attr == "OBSERVATION_RESET_TIME":
            if not (isinstance(node.value, ast.Attribute) and node.value.attr == "transport_tuning"):
                raise Unsupported("OBSERVATION_RESET_TIME not read from a transport_tuning: " + ast.unparse(node))
            self.hits += 1
            return ast.copy_location(ast.Name(id="reset", ctx=ast.Load()), node)
        return self.generic_visit(node)


def _is_name_assign(s, target, value_src=None):
    return (isinstance(s, ast.Assign) and len(s.targets) == 1 and isinstance(s.targets[0], ast.Name)
            and s.targets[0].id == target and (value_src is None or ast.unparse(s.value) == value_src))


def freshness(repo):
    src = open(os.path.join(repo, "aiocoap/protocol.py")).read()
    fn = _find_class_func(ast.parse(src), "Request", "_run")
    # every assignment to is_recent inside _run, with the statement list that contains it
    sites = []
    for node in ast.walk(fn):
        for field in ("body", "orelse"):
            stmts = getattr(node, field, None)
            if isinstance(stmts, list):
                for i, s in enumerate(stmts):
                    if isinstance(s, ast.Assign) and any(isinstance(t, ast.Name) and t.id == "is_recent" for t in s.targets):
                        sites.append((stmts, i, s))
                    if isinstance(s, ast.AugAssign) and isinstance(s.target, ast.Name) and s.target.id == "is_recent":
                        raise Unsupported("augmented assignment to is_recent")
    consts = [s for _, _, s in sites if isinstance(s.value, ast.Constant)]
    exprs = [(st, i, s) for st, i, s in sites if not isinstance(s.value, ast.Constant)]
    if len(exprs) != 1: raise Unsupported("expected exactly one non-constant assignment to is_recent in Request._run, found %d" % len(exprs))
    if len(consts) != 1 or consts[0].value.value is not True:
        raise Unsupported("expected exactly one `is_recent = True` (terminal message) in Request._run")
    stmts, i, assign = exprs[0]
    if len(assign.targets) != 1: raise Unsupported("chained assignment to is_recent")
    # the statements before it in the same block bind v2 and t2; the one after it replaces (v1, t1) when recent
    before = stmts[:i]
    if not any(_is_name_assign(s, "v2", "next_event.message.opt.observe") for s in before):
        raise Unsupported("v2 is no longer next_event.message.opt.observe")
    if not any(_is_name_assign(s, "t2", "time.time()") for s in before):
        raise Unsupported("t2 is no longer time.time()")
    if i + 1 >= len(stmts) or not isinstance(stmts[i + 1], ast.If) or ast.unparse(stmts[i + 1].test) != "is_recent" or stmts[i + 1].orelse:
        raise Unsupported("`if is_recent:` update no longer follows the freshness test")
    upd = sorted(ast.unparse(s) for s in stmts[i + 1].body)
    if upd != ["t1 = t2", "v1 = v2"]:
        raise Unsupported("update after the freshness test is no longer {v1 = v2, t1 = t2}: %r" % (upd,))
    # where v1/t1 start
    top = [ast.unparse(s) for s in fn.body if isinstance(s, ast.Assign)]
    if "v1 = first_event.message.opt.observe" not in top or "t1 = time.time()" not in top:
        raise Unsupported("initial v1/t1 are no longer taken from the first response / time.time()")
    rt = _Reset(); value = rt.visit(assign.value); ast.fix_missing_locations(value)
    if rt.hits != 1: raise Unsupported("expected one use of OBSERVATION_RESET_TIME in the freshness test, found %d" % rt.hits)
    spec = py2v.FuncSpec("is_recent", {"v1": "int", "v2": "int", "t1": "int", "t2": "int", "reset": "int"}, "bool")
    tr = py2v.Tr({}, spec, {})
    binds, term, typ = tr.expr(value)
    if binds or typ != "bool": raise Unsupported("freshness expression is not a pure boolean expression")
    # the constant
    ctree = ast.parse(open(os.path.join(repo, "aiocoap/numbers/constants.py")).read())
    val = None
    for n in ctree.body:
        if isinstance(n, ast.ClassDef) and n.name == "TransportTuning":
            for s in n.body:
                if _is_name_assign(s, "OBSERVATION_RESET_TIME"):
                    if val is not None: raise Unsupported("OBSERVATION_RESET_TIME assigned twice")
                    if not (isinstance(s.value, ast.Constant) and type(s.value.value) is int): raise Unsupported("OBSERVATION_RESET_TIME is not an integer literal")
                    val = s.value.value
    if val is None: raise Unsupported("TransportTuning.OBSERVATION_RESET_TIME not found")
    return "\n".join([
        "(* GENERATED by translate/jobs/c07.py from aiocoap/protocol.py Request._run (`is_recent = ...`) and",
        "   aiocoap/numbers/constants.py — do not edit; regenerated on every check *)",
        "From Verif Require Import Lib.Py.", "Open Scope Z_scope.", "",
        "(* TransportTuning.OBSERVATION_RESET_TIME, seconds *)",
        "Definition OBSERVATION_RESET_TIME : Z := (%d)." % val, "",
        "(* v1/t1: Observe value and clock reading of the last accepted notification, v2/t2: of the arriving one;",
        "   clock readings and `reset` in microseconds (reset = OBSERVATION_RESET_TIME * 10^6 for the default tuning) *)",
        "Definition is_recent (v1 v2 t1 t2 reset : Z) : bool :=\n  %s.\n" % term,
    ])


JOBS = {"protocol_is_recent": dict(custom=freshness)}
