"""C11 translator job: data extraction (tie T) for the OSCORE model.

py2v.py cannot translate _compress/_uncompress/_construct_nonce as they are (dict-valued `unprotected`, `bytes * int`,
a generator expression in _xor_bytes, attribute access on a non-self object), so those are modelled by hand in
coq/Model/C11.v and tied by correspondence.  What IS taken from the source on every run are all the numbers those
functions depend on: flag masks, COSE labels, MAX_SEQNO, the Partial-IV length limit, the nonce layout constants, the
outer codes, the option numbers of the class-U options and the AEAD parameter table.  Fail-closed: any change of shape
of the inspected statements raises Unsupported."""
import ast, os

class Unsupported(Exception): pass

def _const_int(node, env):
    if isinstance(node, ast.Constant) and isinstance(node.value, int) and not isinstance(node.value, bool): return node.value
    if isinstance(node, ast.Name) and node.id in env: return env[node.id]
    if isinstance(node, ast.UnaryOp) and isinstance(node.op, ast.USub): return -_const_int(node.operand, env)
    if isinstance(node, ast.BinOp):
        l, r = _const_int(node.left, env), _const_int(node.right, env)
        if isinstance(node.op, ast.Add): return l + r
        if isinstance(node.op, ast.Sub): return l - r
        if isinstance(node.op, ast.Mult): return l * r
        if isinstance(node.op, ast.Pow) and 0 <= r <= 64: return l ** r
    raise Unsupported("not an integer constant: " + ast.unparse(node)[:60])

def _module_ints(tree, names):
    env = {}
    for n in tree.body:
        if isinstance(n, ast.Assign) and len(n.targets) == 1 and isinstance(n.targets[0], ast.Name):
            try: env[n.targets[0].id] = _const_int(n.value, env)
            except Unsupported: pass
    missing = [x for x in names if x not in env]
    if missing: raise Unsupported("constants not found: %s" % missing)
    return {k: env[k] for k in names}

def _class(tree, name):
    for n in tree.body:
        if isinstance(n, ast.ClassDef) and n.name == name: return n
    raise Unsupported("class %s not found" % name)

def _func(body, name):
    for n in body:
        if isinstance(n, ast.FunctionDef) and n.name == name: return n
    raise Unsupported("function %s not found" % name)

def _enum_ints(tree, cls, names):
    c = _class(tree, cls); env = {}
    for n in c.body:
        if isinstance(n, ast.Assign) and len(n.targets) == 1 and isinstance(n.targets[0], ast.Name):
            try: env[n.targets[0].id] = _const_int(n.value, env)
            except Unsupported: pass
    missing = [x for x in names if x not in env]
    if missing: raise Unsupported("%s members not found: %s" % (cls, missing))
    return {k: env[k] for k in names}

def _one(nodes, what):
    nodes = list(nodes)
    if len(nodes) != 1: raise Unsupported("expected exactly one %s, found %d" % (what, len(nodes)))
    return nodes[0]

def oscore_consts(repo):
    src = open(os.path.join(repo, "aiocoap/oscore.py")).read(); tree = ast.parse(src)
    names = ["MAX_SEQNO", "COSE_KID", "COSE_PIV", "COSE_KID_CONTEXT", "COSE_COUNTERSIGNATURE0", "COMPRESSION_BITS_N",
             "COMPRESSION_BIT_K", "COMPRESSION_BIT_H", "COMPRESSION_BIT_GROUP", "COMPRESSION_BITS_RESERVED"]
    consts = _module_ints(tree, names)
    # _uncompress: `if pivsz > N: raise DecodeError`
    unc = _func(_class(tree, "CanUnprotect").body, "_uncompress")
    cmp_ = _one((n for n in ast.walk(unc) if isinstance(n, ast.Compare) and isinstance(n.left, ast.Name) and n.left.id == "pivsz"
                 and len(n.ops) == 1 and isinstance(n.ops[0], ast.Gt) and isinstance(n.comparators[0], ast.Constant)), "`pivsz > N` test in _uncompress")
    consts["PIVSZ_MAX"] = _const_int(cmp_.comparators[0], {})
    # _compress: `if s > N: raise ValueError("KID Context too long")`
    comp = _func(_class(tree, "CanProtect").body, "_compress")
    cmp_ = _one((n for n in ast.walk(comp) if isinstance(n, ast.Compare) and isinstance(n.left, ast.Name) and n.left.id == "s"
                 and len(n.ops) == 1 and isinstance(n.ops[0], ast.Gt) and isinstance(n.comparators[0], ast.Constant)), "`s > N` test in _compress")
    consts["KID_CONTEXT_MAX"] = _const_int(cmp_.comparators[0], {})
    # _construct_nonce: pad_piv = b"\0" * (A - len(partial_iv_short)); pad_id = b"\0" * (alg.iv_bytes - B - len(piv_generator_id))
    cn = _func(_class(tree, "BaseSecurityContext").body, "_construct_nonce")
    found = {}
    for n in cn.body:
        if isinstance(n, ast.Assign) and isinstance(n.targets[0], ast.Name) and n.targets[0].id in ("pad_piv", "pad_id"):
            v = n.value
            if not (isinstance(v, ast.BinOp) and isinstance(v.op, ast.Mult) and isinstance(v.left, ast.Constant) and v.left.value == b"\0"):
                raise Unsupported("shape of %s in _construct_nonce" % n.targets[0].id)
            e = v.right
            if n.targets[0].id == "pad_piv":
                if not (isinstance(e, ast.BinOp) and isinstance(e.op, ast.Sub) and ast.unparse(e.right) == "len(partial_iv_short)"):
                    raise Unsupported("shape of pad_piv")
                found["NONCE_PIV_BYTES"] = _const_int(e.left, {})
            else:
                if not (isinstance(e, ast.BinOp) and isinstance(e.op, ast.Sub) and ast.unparse(e.right) == "len(piv_generator_id)"
                        and isinstance(e.left, ast.BinOp) and isinstance(e.left.op, ast.Sub) and ast.unparse(e.left.left) == "alg.iv_bytes"):
                    raise Unsupported("shape of pad_id")
                found["NONCE_ID_OVERHEAD"] = _const_int(e.left.right, {})
    if set(found) != {"NONCE_PIV_BYTES", "NONCE_ID_OVERHEAD"}: raise Unsupported("pad_piv / pad_id not found in _construct_nonce")
    order = [ast.unparse(x) for x in ast.walk(cn) if isinstance(x, ast.Assign) and ast.unparse(x.targets[0]) == "components" for x in [x.value]]
    if order != ["s + pad_id + piv_generator_id + pad_piv + partial_iv_short"]: raise Unsupported("nonce component order changed: %s" % order)
    consts.update(found)
    # _build_new_nonce: seqno.to_bytes(N, "big")
    bn = _func(_class(tree, "CanProtect").body, "_build_new_nonce")
    call = _one((n for n in ast.walk(bn) if isinstance(n, ast.Call) and isinstance(n.func, ast.Attribute) and n.func.attr == "to_bytes"), "to_bytes call in _build_new_nonce")
    consts["PIV_FULL_BYTES"] = _const_int(call.args[0], {})
    # AEAD parameter table: classes reachable from `algorithms` that derive from AeadAlgorithm
    classes = {n.name: n for n in tree.body if isinstance(n, ast.ClassDef)}
    def attr(cname, a):
        c = classes.get(cname)
        if c is None: return None
        for n in c.body:
            if isinstance(n, ast.Assign) and isinstance(n.targets[0], ast.Name) and n.targets[0].id == a: return _const_int(n.value, {})
        for b in c.bases:
            if isinstance(b, ast.Name):
                r = attr(b.id, a)
                if r is not None: return r
        return None
    def derives(cname, base):
        if cname == base: return True
        c = classes.get(cname)
        return bool(c) and any(isinstance(b, ast.Name) and derives(b.id, base) for b in c.bases)
    table = []
    algs = _one((n for n in tree.body if isinstance(n, ast.Assign) and isinstance(n.targets[0], ast.Name) and n.targets[0].id == "algorithms"), "algorithms table")
    for k, v in zip(algs.value.keys, algs.value.values):
        cname = v.func.id
        if not derives(cname, "AeadAlgorithm"): continue
        row = [attr(cname, a) for a in ("value", "key_bytes", "tag_bytes", "iv_bytes")]
        if None in row: raise Unsupported("incomplete parameters for " + cname)
        table.append((k.value, cname, row))
    if not table: raise Unsupported("no AEAD algorithms found")
    # codes and option numbers
    ctree = ast.parse(open(os.path.join(repo, "aiocoap/numbers/codes.py")).read())
    codes = _enum_ints(ctree, "Code", ["POST", "FETCH", "CHANGED", "CONTENT"])
    otree = ast.parse(open(os.path.join(repo, "aiocoap/numbers/optionnumbers.py")).read())
    optn = _enum_ints(otree, "OptionNumber", ["URI_HOST", "OBSERVE", "URI_PORT", "OSCORE", "PROXY_URI", "PROXY_SCHEME"])
    # CodeStyle pairs
    styles = {}
    for n in tree.body:
        if (isinstance(n, ast.Assign) and isinstance(n.targets[0], ast.Attribute) and ast.unparse(n.targets[0].value) == "CodeStyle"
                and isinstance(n.value, ast.Call) and ast.unparse(n.value.func) == "CodeStyle"):
            styles[n.targets[0].attr] = [a.id for a in n.value.args]
    if styles != {"FETCH_CONTENT": ["FETCH", "CONTENT"], "POST_CHANGED": ["POST", "CHANGED"]}: raise Unsupported("CodeStyle table changed: %r" % styles)
    out = ["(* GENERATED by translate/jobs/c11.py (data extraction) from aiocoap/oscore.py, numbers/codes.py, numbers/optionnumbers.py",
           "   — do not edit; regenerated on every check *)", "From Verif Require Import Lib.Py.", "Open Scope Z_scope.", ""]
    for k, v in consts.items(): out.append("Definition %s : Z := %d." % (k, v))
    for k, v in codes.items(): out.append("Definition CODE_%s : Z := %d." % (k, v))
    for k, v in optn.items(): out.append("Definition OPT_%s : Z := %d." % (k, v))
    out.append("")
    out.append("(* (value, key_bytes, tag_bytes, iv_bytes) of every AeadAlgorithm in oscore.algorithms *)")
    out.append("Definition aead_table : list (Z * Z * Z * Z) :=\n  [" + ";\n   ".join("(%d, %d, %d, %d) (* %s *)" % (tuple(r) + (nm,)) for nm, _, r in table) + "].")
    return "\n".join(out) + "\n"

JOBS = {"oscore_consts": dict(custom=oscore_consts)}
