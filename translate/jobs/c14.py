"""Translator job for C14: MessageManager._next_message_id (the 16-bit message-ID counter that numbers queued and
transmitted messages alike).  Proofs/C14mid.v shows Model/C14.next_message_id is this code and that 65536 consecutive
IDs are pairwise distinct (a queued message can never share its ID with the exchange ahead of it)."""
JOBS = {
    "c14_message_id": dict(
        file="aiocoap/messagemanager.py", cls="MessageManager",
        record=("mmids", [("message_id", "int")]),
        funcs=[("_next_message_id", {}, "int")],
    ),
}
