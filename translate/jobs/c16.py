"""C16 translator job (tie T): the pure str kernels of the URI code, regenerated from the source on every check.

py2v.py (bytes/int subset) has no str support, so this job brings its own small, fail-closed str translator
(`custom=` hook of translate/jobs/__init__.py).  It translates

  aiocoap/util/uri.py       quote_factory (its safe-set guard) and the closure `quote`
  aiocoap/util/__init__.py  quote_nonascii, hostportjoin
  and extracts the data the quoting depends on: unreserved, sub_delims (util/uri.py), the arguments of the three
  quote_factory(...) calls that define _quote_for_host / _quote_for_path / _quote_for_query, coap_schemes and the _ascii_lowercase
  table (message.py).

A Python str is a list of code points (list Z); the intrinsics live in coq/Model/C16Str.v.  Anything outside the
subset below raises Unsupported, which the framework reports as "translation ... no longer possible".
"""
import ast, os, string
from py2v import Unsupported

def zlist(s): return "[" + "; ".join(str(ord(c)) for c in s) + "]"

FMT_SPECS = ("%%", "%s", "%d", "%02X")

def parse_format(fmt):
    """'%s:%d' -> [('arg','%s'), ('lit',':'), ('arg','%d')]"""
    out, i, lit = [], 0, ""
    while i < len(fmt):
        if fmt[i] != "%": lit += fmt[i]; i += 1; continue
        for spec in FMT_SPECS:
            if fmt.startswith(spec, i):
                if spec == "%%": lit += "%"
                else:
                    if lit: out.append(("lit", lit)); lit = ""
                    out.append(("arg", spec))
                i += len(spec); break
        else:
            raise Unsupported("format specification in %r" % fmt)
    if lit: out.append(("lit", lit))
    return out


class StrTr:
    """expressions -> (term, type); types: str, bytes, int, bool, optint, charset"""
    def __init__(self, env): self.env = dict(env); self.binds = []; self.n = 0
    def fresh(self): self.n += 1; return "t%d" % self.n
    def expr(self, e):
        if isinstance(e, ast.Constant):
            if isinstance(e.value, bool): return ("true" if e.value else "false"), "bool"
            if isinstance(e.value, int): return "(%d)" % e.value, "int"
            if isinstance(e.value, str): return zlist(e.value), "str"
            raise Unsupported("constant %r" % (e.value,))
        if isinstance(e, ast.Name):
            if e.id not in self.env: raise Unsupported("unknown name " + e.id)
            return e.id, self.env[e.id]
        if isinstance(e, ast.UnaryOp) and isinstance(e.op, ast.Not):
            v, t = self.expr(e.operand)
            if t != "bool": raise Unsupported("not on " + t)
            return "(negb %s)" % v, "bool"
        if isinstance(e, ast.BoolOp):
            parts = [self.expr(v) for v in e.values]
            if any(t != "bool" for _, t in parts): raise Unsupported("and/or on non-bool")
            return "(" + (" && " if isinstance(e.op, ast.And) else " || ").join(v for v, _ in parts) + ")", "bool"
        if isinstance(e, ast.IfExp):
            c, tc = self.expr(e.test); a, ta = self.expr(e.body); b, tb = self.expr(e.orelse)
            if tc != "bool" or ta != tb: raise Unsupported("conditional expression types")
            return "(if %s then %s else %s)" % (c, a, b), ta
        if isinstance(e, ast.Compare) and len(e.ops) == 1:
            op, l, r = e.ops[0], e.left, e.comparators[0]
            if isinstance(op, ast.In):
                lv, lt = self.expr(l); rv, rt = self.expr(r)
                if lt in ("int",) and rt in ("charset", "bytes", "str"): return "(mem %s %s)" % (lv, rv), "bool"
                if lt == "str" and isinstance(l, ast.Constant) and len(l.value) == 1 and rt == "str":
                    return "(mem (%d) %s)" % (ord(l.value), rv), "bool"
                raise Unsupported("in on %s,%s" % (lt, rt))
            if isinstance(op, ast.Is) and isinstance(r, ast.Constant) and r.value is None:
                lv, lt = self.expr(l)
                if lt != "optint": raise Unsupported("is None on " + lt)
                return "(match %s with None => true | Some _ => false end)" % lv, "bool"
            lv, lt = self.expr(l); rv, rt = self.expr(r)
            cmpops = {ast.LtE: "<=?", ast.Lt: "<?", ast.GtE: ">=?", ast.Gt: ">?", ast.Eq: "=?"}
            if lt == rt == "int" and type(op) in cmpops: return "(%s %s %s)" % (lv, cmpops[type(op)], rv), "bool"
            if lt == rt == "int" and isinstance(op, ast.NotEq): return "(negb (%s =? %s))" % (lv, rv), "bool"
            raise Unsupported("comparison " + ast.unparse(e))
        if isinstance(e, ast.BinOp) and isinstance(e.op, ast.Mod) and isinstance(e.left, ast.Constant) and isinstance(e.left.value, str):
            pieces = parse_format(e.left.value)
            args = list(e.right.elts) if isinstance(e.right, ast.Tuple) else [e.right]
            if len([p for p in pieces if p[0] == "arg"]) != len(args): raise Unsupported("format arity")
            out = []
            for kind, x in pieces:
                if kind == "lit": out.append(zlist(x)); continue
                v, t = self.expr(args.pop(0))
                if x == "%s" and t == "str": out.append(v)
                elif x == "%d" and t == "int": out.append("print_dec %s" % v)
                elif x == "%02X" and t == "int": out.append("hex02X %s" % v)
                else: raise Unsupported("format %s of %s" % (x, t))
            return "(" + " ++ ".join(out) + ")", "str"
        if isinstance(e, ast.Call):
            f = e.func
            if e.keywords: raise Unsupported("keyword arguments")
            if isinstance(f, ast.Name) and f.id == "chr" and len(e.args) == 1:
                v, t = self.expr(e.args[0])
                if t != "int": raise Unsupported("chr of " + t)
                return "[%s]" % v, "str"
            if isinstance(f, ast.Attribute) and f.attr in ("startswith", "endswith") and len(e.args) == 1 and isinstance(e.args[0], ast.Constant) and isinstance(e.args[0].value, str):
                v, t = self.expr(f.value)
                if t != "str": raise Unsupported(f.attr + " on " + t)
                return "(%s %s %s)" % (f.attr, v, zlist(e.args[0].value)), "bool"
            if isinstance(f, ast.Attribute) and f.attr == "encode" and len(e.args) == 1 and isinstance(e.args[0], ast.Constant) and e.args[0].value in ("utf8", "utf-8"):
                v, t = self.expr(f.value)
                if t != "str": raise Unsupported("encode on " + t)
                x = self.fresh(); self.binds.append((x, "utf8_encode %s" % v)); return x, "bytes"
            gen = e.args[0] if len(e.args) == 1 and isinstance(e.args[0], ast.GeneratorExp) else None
            if gen is not None and len(gen.generators) == 1 and not gen.generators[0].ifs and isinstance(gen.generators[0].target, ast.Name):
                comp = gen.generators[0]
                it, tit = self.expr(comp.iter)
                if tit not in ("bytes", "charset"): raise Unsupported("iteration over " + tit)
                var = comp.target.id
                saved = self.env.get(var); self.env[var] = "int"
                body, tb = self.expr(gen.elt)
                if saved is None: del self.env[var]
                else: self.env[var] = saved
                if isinstance(f, ast.Attribute) and f.attr == "join" and isinstance(f.value, ast.Constant) and f.value.value == "":
                    if tb != "str": raise Unsupported("join of " + tb)
                    return "(flat_map (fun %s => %s) %s)" % (var, body, it), "str"
                if isinstance(f, ast.Name) and f.id == "any":
                    if tb != "bool": raise Unsupported("any of " + tb)
                    return "(existsb (fun %s => %s) %s)" % (var, body, it), "bool"
        raise Unsupported("expression " + ast.unparse(e)[:120])

    def wrap(self, body):
        for x, m in reversed(self.binds): body = "%s <- %s ;;\n  %s" % (x, m, body)
        self.binds = []
        return body

    def block(self, stmts):
        stmts = [s for s in stmts if not (isinstance(s, ast.Expr) and isinstance(s.value, ast.Constant) and isinstance(s.value.value, str))]
        if not stmts: raise Unsupported("function falls off its end")
        s, rest = stmts[0], stmts[1:]
        if isinstance(s, ast.Return):
            if rest: raise Unsupported("statements after return")
            v, t = self.expr(s.value)
            if t != "str": raise Unsupported("return of " + t)
            return self.wrap("Ok %s" % v)
        if isinstance(s, ast.Raise):
            exc = s.exc.func if isinstance(s.exc, ast.Call) else s.exc
            return "Raise %s" % ast.unparse(exc).split(".")[-1]
        if isinstance(s, ast.Assign) and len(s.targets) == 1 and isinstance(s.targets[0], ast.Name):
            v, t = self.expr(s.value)
            name = s.targets[0].id
            if name in self.env and self.env[name] != t: raise Unsupported("variable %s changes type" % name)
            self.env[name] = t
            head = self.wrap("let %s := %s in" % (name, v))
            return head + "\n  " + self.block(rest)
        if isinstance(s, ast.If):
            c, tc = self.expr(s.test)
            if tc != "bool": raise Unsupported("if on " + tc)
            if self.binds: raise Unsupported("effect in condition")
            if len(s.body) == 1 and isinstance(s.body[0], ast.Raise) and not s.orelse:
                return "if %s then %s else\n  %s" % (c, self.block(s.body), self.block(rest))
            def single_assign(body):
                if len(body) == 1 and isinstance(body[0], ast.Assign) and len(body[0].targets) == 1 and isinstance(body[0].targets[0], ast.Name):
                    return body[0].targets[0].id, body[0].value
                raise Unsupported("if branch is not a single assignment")
            n1, v1 = single_assign(s.body)
            # `x is None` test on an optional int: the else branch sees the unwrapped value
            isnone = isinstance(s.test, ast.Compare) and isinstance(s.test.ops[0], ast.Is) and isinstance(s.test.left, ast.Name)
            a, ta = self.expr(v1)
            if s.orelse:
                n2, v2 = single_assign(s.orelse)
                if n1 != n2: raise Unsupported("branches assign different variables")
                if isnone:
                    ov = s.test.left.id; self.env[ov] = "int"
                    b, tb = self.expr(v2); self.env[ov] = "optint"
                    term = "match %s with None => %s | Some %s => %s end" % (ov, a, ov, b)
                else:
                    b, tb = self.expr(v2); term = "if %s then %s else %s" % (c, a, b)
            else:
                if n1 not in self.env: raise Unsupported("conditionally defined variable " + n1)
                if isnone: raise Unsupported("is-None test without else")
                b, tb = n1, self.env[n1]; term = "if %s then %s else %s" % (c, a, b)
            if ta != tb or self.binds: raise Unsupported("if branches")
            self.env[n1] = ta
            return "let %s := %s in\n  %s" % (n1, term, self.block(rest))
        raise Unsupported(type(s).__name__ + ": " + ast.unparse(s)[:100])


def find_def(body, name):
    for n in body:
        if isinstance(n, ast.FunctionDef) and n.name == name: return n
    raise Unsupported("function %s not found" % name)

def find_assign(tree, name):
    for n in tree.body:
        if isinstance(n, ast.Assign) and len(n.targets) == 1 and isinstance(n.targets[0], ast.Name) and n.targets[0].id == name: return n.value
    raise Unsupported("module-level assignment of %s not found" % name)

def args_of(fn, expected):
    a = fn.args
    names = [x.arg for x in a.args]
    if names != expected or a.vararg or a.kwarg or a.kwonlyargs: raise Unsupported("signature of %s changed: %s" % (fn.name, names))

def const_eval(node, ns):
    """data extraction: evaluate a module-level constant expression over `string` and already extracted constants"""
    for n in ast.walk(node):
        if isinstance(n, (ast.Lambda, ast.Await, ast.Yield, ast.YieldFrom, ast.NamedExpr)): raise Unsupported("constant expression " + ast.unparse(node)[:80])
        if isinstance(n, ast.Attribute) and not (isinstance(n.value, ast.Name) and n.value.id in ("string", "str")) and n.attr != "join":
            raise Unsupported("attribute in constant expression: " + ast.unparse(n))
        if isinstance(n, ast.Call) and not (isinstance(n.func, ast.Attribute) and n.func.attr in ("join", "maketrans")): raise Unsupported("call in constant expression: " + ast.unparse(n)[:80])
    try:
        return eval(compile(ast.Expression(node), "<const>", "eval"), {"__builtins__": {}, "string": string, "str": str}, dict(ns))
    except Exception as e:
        raise Unsupported("cannot evaluate %s: %s" % (ast.unparse(node)[:80], e))


def gen_uri_kernels(repo):
    def parse(rel): return ast.parse(open(os.path.join(repo, rel)).read())
    uri, util, msg = parse("aiocoap/util/uri.py"), parse("aiocoap/util/__init__.py"), parse("aiocoap/message.py")
    ns = {}
    for name in ("unreserved", "sub_delims"):
        ns[name] = const_eval(find_assign(uri, name), ns)
        if not isinstance(ns[name], str): raise Unsupported(name + " is not a str")
    # other module-level string constants of message.py may be used by the safe-set expressions (e.g. a shared "pchar" set)
    msg_ns = dict(ns)
    for node in msg.body:
        if isinstance(node, ast.Assign) and len(node.targets) == 1 and isinstance(node.targets[0], ast.Name) and not node.targets[0].id.startswith("_quote_for_"):
            try: v = const_eval(node.value, msg_ns)
            except Unsupported: continue
            if isinstance(v, str): msg_ns[node.targets[0].id] = v
    safe = {}
    for name in ("_quote_for_host", "_quote_for_path", "_quote_for_query"):
        call = find_assign(msg, name)
        if not (isinstance(call, ast.Call) and isinstance(call.func, ast.Name) and call.func.id == "quote_factory" and len(call.args) == 1 and not call.keywords):
            raise Unsupported("%s is no longer quote_factory(<characters>)" % name)
        safe[name] = const_eval(call.args[0], msg_ns)
        if not isinstance(safe[name], str): raise Unsupported(name + " safe characters are not a str")
    schemes = const_eval(find_assign(msg, "coap_schemes"), {})
    if not (isinstance(schemes, list) and all(isinstance(x, str) for x in schemes)): raise Unsupported("coap_schemes")
    table = const_eval(find_assign(msg, "_ascii_lowercase"), {})
    if not (isinstance(table, dict) and all(isinstance(k, int) and isinstance(v, int) for k, v in table.items())): raise Unsupported("_ascii_lowercase")

    out = ["(* GENERATED by translate/jobs/c16.py from aiocoap/util/uri.py, aiocoap/util/__init__.py, aiocoap/message.py"
           " — do not edit; regenerated on every check *)",
           "From Verif Require Import Lib.Py Model.C16Str.", "Open Scope Z_scope.", ""]
    out.append("Definition unreserved : list Z := %s." % zlist(ns["unreserved"]))
    out.append("Definition sub_delims : list Z := %s." % zlist(ns["sub_delims"]))
    out.append("(* argument of quote_factory in `_quote_for_path = ...` / `_quote_for_query = ...` (message.py) *)")
    out.append("Definition quote_for_host_chars : list Z := %s." % zlist(safe["_quote_for_host"]))
    out.append("Definition quote_for_path_chars : list Z := %s." % zlist(safe["_quote_for_path"]))
    out.append("Definition quote_for_query_chars : list Z := %s." % zlist(safe["_quote_for_query"]))
    out.append("Definition coap_schemes : list (list Z) := [%s]." % "; ".join(zlist(s) for s in schemes))
    out.append("Definition ascii_lowercase : list (Z * Z) := [%s]." % "; ".join("(%d, %d)" % kv for kv in sorted(table.items())))
    out.append("")

    # quote_factory: safe_set = set(ord(x) for x in safe_characters); guard; closure quote
    qf = find_def(uri.body, "quote_factory"); args_of(qf, ["safe_characters"])
    body = [s for s in qf.body if not (isinstance(s, ast.Expr) and isinstance(s.value, ast.Constant))]
    if len(body) != 4: raise Unsupported("shape of quote_factory changed")
    if ast.unparse(body[0]) != "safe_set = set((ord(x) for x in safe_characters))": raise Unsupported("quote_factory: " + ast.unparse(body[0]))
    if not (isinstance(body[3], ast.Return) and ast.unparse(body[3].value) == "quote"): raise Unsupported("quote_factory no longer returns quote")
    tr = StrTr({"safe_set": "charset"})
    guard = tr.block([body[1], ast.Return(value=ast.Constant(value=""))])
    out.append("(* quote_factory(safe_characters): safe_set is the set of code points of safe_characters; Ok [] iff the factory accepts the set *)")
    out.append("Definition quote_factory_check (safe_set : list Z) : M (list Z) :=\n  %s.\n" % guard)
    q = body[2]
    if not (isinstance(q, ast.FunctionDef) and q.name == "quote"): raise Unsupported("closure quote not found")
    args_of(q, ["input_string"])
    tr = StrTr({"safe_set": "charset", "input_string": "str"})
    out.append("Definition quote (safe_set : list Z) (input_string : list Z) : M (list Z) :=\n  %s.\n" % tr.block(q.body))

    qn = find_def(util.body, "quote_nonascii"); args_of(qn, ["s"])
    tr = StrTr({"s": "str"})
    out.append("Definition quote_nonascii (s : list Z) : M (list Z) :=\n  %s.\n" % tr.block(qn.body))

    hj = find_def(util.body, "hostportjoin"); args_of(hj, ["host", "port"])
    if len(hj.args.defaults) != 1 or ast.unparse(hj.args.defaults[0]) != "None": raise Unsupported("hostportjoin default")
    tr = StrTr({"host": "str", "port": "optint"})
    out.append("Definition hostportjoin (host : list Z) (port : option Z) : M (list Z) :=\n  %s.\n" % tr.block(hj.body))
    return "\n".join(out)


JOBS = {"uri_kernels": dict(custom=gen_uri_kernels)}
