"""Translator job of property C02: TokenManager.next_token (aiocoap/tokenmanager.py), tie T.

The stock translator has no rule for `bytes.lstrip(b"\\0")`; this job adds exactly that rule (mapped to the
`blstrip0` function emitted at the top of the generated file) by extending the translator class, and is otherwise
the ordinary fail-closed translation: any other change of next_token's shape aborts the run."""
import ast

_PRELUDE = """(* bytes.lstrip(b"\\0") *)
Fixpoint blstrip0 (b : list Z) : list Z :=
  match b with
  | [] => []
  | x :: r => if x =? 0 then blstrip0 r else b
  end.
"""

def _next_token(repo):
    import py2v
    class Tr(py2v.Tr):
        def call(self, e):
            f = e.func
            if (isinstance(f, ast.Attribute) and f.attr == "lstrip" and not e.keywords and len(e.args) == 1
                    and isinstance(e.args[0], ast.Constant) and e.args[0].value == b"\0"):
                b, v, t = self.expr(f.value)
                if t != "bytes": raise py2v.Unsupported("lstrip on " + t)
                return b, "(blstrip0 %s)" % v, "bytes"
            return super().call(e)
    job = dict(file="aiocoap/tokenmanager.py", cls="TokenManager",
               record=("tm", [("_token", "int")]),
               funcs=[("next_token", {}, "bytes")])
    saved = py2v.Tr
    py2v.Tr = Tr
    try:
        text = py2v.translate_job("tokenmanager_next_token", job, repo)
    finally:
        py2v.Tr = saved
    marker = "Record tm :="
    i = text.index(marker)
    return text[:i] + _PRELUDE + "\n" + text[i:]

JOBS = {"tokenmanager_next_token": dict(custom=_next_token)}
