"""Translator job for C03: numbers/constants.py TransportTuning (literals as exact decimals in Q, the derived-span
properties as Q-valued functions of a tuning record) and the class table of error.py.  Fail-closed."""
import ast, os
from fractions import Fraction

class Unsupported(Exception): pass

FIELDS_SKIP = {"reliability"}                                   # not numeric, not read by the retransmission code
PROPS = ["MAX_TRANSMIT_SPAN", "MAX_TRANSMIT_WAIT", "PROCESSING_DELAY", "MAX_RTT", "EXCHANGE_LIFETIME"]
PROPS_SKIP = {"REQUEST_TIMEOUT", "MULTICAST_REQUEST_TIMEOUT"}   # deprecated, warn and are never read by the library

def qlit(fr):
    return "(%d # %d)" % (fr.numerator, fr.denominator)

def literal(node, src, modconsts):
    """numeric class attribute -> ("Z", int) | ("Q", Fraction)"""
    if isinstance(node, ast.Constant) and isinstance(node.value, bool): raise Unsupported("bool literal")
    if isinstance(node, ast.Constant) and isinstance(node.value, int): return "Z", node.value
    if isinstance(node, ast.Constant) and isinstance(node.value, float):
        text = ast.get_source_segment(src, node)
        return "Q", Fraction(text)                               # the decimal as written, exactly
    if isinstance(node, ast.Name) and node.id in modconsts: return "Z", modconsts[node.id]
    raise Unsupported("class attribute value " + ast.dump(node)[:80])

class ExprTr:
    def __init__(self, fields, props):
        self.fields, self.props = fields, props                  # name -> type
        self.locals = {}                                          # local variable (single assignment, straight-line) -> type
    def toq(self, term, t): return term if t == "Q" else "(inject_Z %s)" % term
    def expr(self, e):
        if isinstance(e, ast.Constant) and isinstance(e.value, int) and not isinstance(e.value, bool):
            return "(%d)%%Z" % e.value, "Z"
        if isinstance(e, ast.Attribute) and isinstance(e.value, ast.Name) and e.value.id == "self":
            if e.attr in self.fields: return "(tt_%s self)" % e.attr, self.fields[e.attr]
            if e.attr in self.props: return "(%s self)" % e.attr, self.props[e.attr]
            raise Unsupported("self.%s is neither a translated field nor an earlier property" % e.attr)
        if isinstance(e, ast.Name) and e.id in self.locals:
            return "v_%s" % e.id, self.locals[e.id]
        if isinstance(e, ast.BinOp):
            l, tl = self.expr(e.left); r, tr = self.expr(e.right)
            if isinstance(e.op, ast.Pow):
                if tl != "Z" or tr != "Z": raise Unsupported("power on non-integers")
                return "(Z.pow %s %s)" % (l, r), "Z"
            ops = {ast.Add: ("Z.add", "Qplus"), ast.Sub: ("Z.sub", "Qminus"), ast.Mult: ("Z.mul", "Qmult")}
            if type(e.op) not in ops: raise Unsupported("operator " + type(e.op).__name__)
            zf, qf = ops[type(e.op)]
            if tl == tr == "Z": return "(%s %s %s)" % (zf, l, r), "Z"
            return "(%s %s %s)" % (qf, self.toq(l, tl), self.toq(r, tr)), "Q"
        raise Unsupported("expression " + ast.dump(e)[:100])

def translate(repo):
    path = os.path.join(repo, "aiocoap/numbers/constants.py")
    src = open(path).read(); tree = ast.parse(src)
    modconsts = {}
    cls = None
    for n in tree.body:
        if isinstance(n, ast.Assign) and len(n.targets) == 1 and isinstance(n.targets[0], ast.Name) \
                and isinstance(n.value, ast.Constant) and isinstance(n.value.value, int) and not isinstance(n.value.value, bool):
            modconsts[n.targets[0].id] = n.value.value
        if isinstance(n, ast.ClassDef) and n.name == "TransportTuning": cls = n
    if cls is None: raise Unsupported("class TransportTuning not found")
    if [ast.unparse(b) for b in cls.bases] not in ([], ["object"]): raise Unsupported("TransportTuning has base classes")
    fields, values, props_src = {}, {}, {}
    for n in cls.body:
        if isinstance(n, ast.Expr) and isinstance(n.value, ast.Constant) and isinstance(n.value.value, str): continue
        if isinstance(n, ast.AnnAssign) and isinstance(n.target, ast.Name) and n.target.id in FIELDS_SKIP: continue
        if isinstance(n, ast.Assign) and len(n.targets) == 1 and isinstance(n.targets[0], ast.Name):
            name = n.targets[0].id
            if name in FIELDS_SKIP: continue
            t, v = literal(n.value, src, modconsts)
            if name in fields: raise Unsupported("class attribute %s assigned twice" % name)
            fields[name] = t; values[name] = v; continue
        if isinstance(n, ast.FunctionDef):
            decos = [ast.unparse(d) for d in n.decorator_list]
            if decos != ["property"]: raise Unsupported("method %s is not a plain property" % n.name)
            if n.name in PROPS_SKIP: continue
            if n.name not in PROPS: raise Unsupported("unknown property %s (add it to the job)" % n.name)
            props_src[n.name] = n; continue
        raise Unsupported("statement in TransportTuning: " + ast.unparse(n)[:80])
    for need in ("ACK_TIMEOUT", "ACK_RANDOM_FACTOR", "MAX_RETRANSMIT", "MAX_LATENCY", "EMPTY_ACK_DELAY", "OBSERVATION_RESET_TIME", "NSTART"):
        if need not in fields: raise Unsupported("class attribute %s missing" % need)
    for p in PROPS:
        if p not in props_src: raise Unsupported("property %s missing" % p)
    out = ["(* GENERATED by translate/jobs/c03.py from aiocoap/numbers/constants.py (class TransportTuning) and aiocoap/error.py"
           " — do not edit; regenerated on every check *)",
           "From Coq Require Import ZArith QArith List String.", "Import ListNotations.", "Open Scope Q_scope.", ""]
    names = list(fields)
    out.append("Record transport_tuning := { %s }." % "; ".join("tt_%s : %s" % (f, fields[f]) for f in names))
    out.append("Definition default_transport_tuning : transport_tuning :=\n  {| %s |}." % "; ".join(
        "tt_%s := %s" % (f, ("(%d)%%Z" % values[f]) if fields[f] == "Z" else qlit(values[f])) for f in names))
    out.append("")
    props = {}
    for n in cls.body:                                          # source order: a property may use earlier ones only
        if not (isinstance(n, ast.FunctionDef) and n.name in props_src): continue
        body = [s for s in n.body if not (isinstance(s, ast.Expr) and isinstance(s.value, ast.Constant) and isinstance(s.value.value, str))]
        # straight-line body: `name = expr` (each name assigned once, no side effects) ... `return expr` -> nested lets
        if not body or not isinstance(body[-1], ast.Return) or body[-1].value is None:
            raise Unsupported("property %s does not end in a return statement" % n.name)
        if [a.arg for a in n.args.args] != ["self"]: raise Unsupported("signature of " + n.name)
        tr_ = ExprTr(fields, props); lets = ""
        for s in body[:-1]:
            if not (isinstance(s, ast.Assign) and len(s.targets) == 1 and isinstance(s.targets[0], ast.Name)) or s.targets[0].id in tr_.locals:
                raise Unsupported("property %s: statement other than a single local assignment: %s" % (n.name, ast.unparse(s)[:60]))
            term, t = tr_.expr(s.value)
            lets += "let v_%s : %s := %s in " % (s.targets[0].id, t, term); tr_.locals[s.targets[0].id] = t
        term, t = tr_.expr(body[-1].value)
        out.append("Definition %s (self : transport_tuning) : %s := %s%s." % (n.name, t, lets, term))
        props[n.name] = t
    out.append("")
    # ---- error.py class table
    epath = os.path.join(repo, "aiocoap/error.py")
    etree = ast.parse(open(epath).read())
    rows = []
    for n in etree.body:
        if isinstance(n, ast.ClassDef):
            bases = []
            for b in n.bases:
                if isinstance(b, ast.Name): bases.append(b.id)
                elif isinstance(b, ast.Attribute): bases.append(b.attr)
                else: raise Unsupported("base class expression of " + n.name)
            rows.append((n.name, bases))
    if not rows: raise Unsupported("no classes in error.py")
    out.append("Open Scope string_scope.")
    out.append("Definition error_bases : list (string * list string) :=\n  [ %s ]." % ";\n    ".join(
        '("%s", [%s])' % (n, "; ".join('"%s"' % b for b in bs)) for n, bs in rows))
    out.append("")
    return "\n".join(out)

JOBS = {"c03_constants": dict(custom=translate)}
