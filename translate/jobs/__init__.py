"""Translator jobs: one module per property group under translate/jobs/, each defining JOBS = {name: spec}.
spec keys: file, [cls], [record=(coq record name, [(python field, type)])], funcs=[(python name, {arg: type}, return type)],
[drop_calls=[...]], [exceptions={python exception name: Coq exn constructor}], [rename={python name: coq name}],
or custom=<callable(repo) -> Coq source text>.  Types: int, bool, bytes, unit, opt:T, tuple:T1,T2"""
import importlib, pkgutil, os
JOBS = {}
for m in pkgutil.iter_modules([os.path.dirname(__file__)]):
    mod = importlib.import_module("jobs." + m.name)
    for k, v in getattr(mod, "JOBS", {}).items():
        assert k not in JOBS, "duplicate translator job " + k
        JOBS[k] = v
