#!/bin/bash
# Build the whole Coq development from scratch (full .vo build), offline.
set -e
cd "$(dirname "$0")"
mkdir -p build evidence
export PYTHONPATH=/repo PYTHONDONTWRITEBYTECODE=1
/venv/bin/python -B -c "import sys; sys.path.insert(0,'harness'); import fw; fw.write_coqproject()"
cd coq
coq_makefile -f _CoqProject -o Makefile > /dev/null
# -k: a file that fails to build only affects the checks whose cone contains it (each check rebuilds its own cone and reports)
timeout 3000 make -k -j16 || echo "setup: some Coq files did not build; the affected checks will report it"
