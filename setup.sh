#!/bin/bash
# Build the whole Coq development from scratch (full .vo build), offline.
set -e
cd "$(dirname "$0")"
mkdir -p build evidence
cd coq
coq_makefile -f _CoqProject -o Makefile > /dev/null
timeout 3000 make -j16
