#!/venv/bin/python
"""Apply each seeded change (seeded/<id>/patch.diff) to /repo, run the quick check of the property it breaks, undo it.
Usage: tools/run_seeded.py [id ...]   — writes seeded/RESULTS.json and prints a table. Never commits anything to /repo."""
import os, sys, json, subprocess, glob
V = os.path.dirname(os.path.dirname(os.path.abspath(__file__)))
def sh(cmd, **kw): return subprocess.run(cmd, shell=True, stdout=subprocess.PIPE, stderr=subprocess.STDOUT, text=True, **kw)
SCRATCH = None
if "--scratch" in sys.argv:
    sys.argv.remove("--scratch"); SCRATCH = "/var/tmp/aiocoap-seedrun-%d" % os.getpid()
ids = sys.argv[1:] or sorted(os.path.basename(os.path.dirname(p)) for p in glob.glob(os.path.join(V, "seeded", "*", "patch.diff")))
assert sh("git -C /repo status --porcelain --untracked-files=no").stdout.strip() == "", "/repo has local modifications"
import shutil
res_path = os.path.join(V, "seeded", "RESULTS.json")
results = json.load(open(res_path)) if os.path.exists(res_path) else {}
for sid in ids:
    d = os.path.join(V, "seeded", sid); meta = json.load(open(os.path.join(d, "meta.json")))
    props = meta.get("checks") or [meta["property"]]
    if SCRATCH:
        shutil.rmtree(SCRATCH, ignore_errors=True); sh("mkdir -p %s && rsync -a --exclude .git --exclude __pycache__ /repo/ %s/" % (SCRATCH, SCRATCH))
        r = sh("cd %s && patch -p1 -s < %s/patch.diff" % (SCRATCH, d))
    else:
        r = sh("git -C /repo apply --check %s/patch.diff && git -C /repo apply %s/patch.diff" % (d, d))
    if r.returncode != 0:
        results[sid] = {"error": "patch does not apply: " + r.stdout[-300:]}; print(sid, "PATCH DOES NOT APPLY"); continue
    try:
        out = {}
        for pid in props:
            c = sh(("AIOCOAP_REPO=%s " % SCRATCH if SCRATCH else "") + "./check %s quick" % pid, cwd=V, timeout=3600)
            viol = [l for l in c.stdout.splitlines() if l.startswith("VIOLATION")]
            out[pid] = {"exit": c.returncode, "violation_lines": viol[:3], "tail": c.stdout.strip().splitlines()[-1:] }
        results[sid] = {"property": meta["property"], "checks": out,
                        "caught": any(v["exit"] == 1 and v["violation_lines"] for v in out.values()),
                        "with_failing_input": any(v["violation_lines"] and not v["violation_lines"][0].endswith("no-failing-input-found") for v in out.values())}
    finally:
        if SCRATCH: shutil.rmtree(SCRATCH, ignore_errors=True)
        else: sh("git -C /repo checkout -- .")
    print(sid, "caught" if results[sid].get("caught") else "MISSED", "(failing input)" if results[sid].get("with_failing_input") else "", flush=True)
    json.dump(results, open(res_path, "w"), indent=1)
# restore Gen files / build state for the unchanged tree
for pid in sorted({p for s in ids for p in (json.load(open(os.path.join(V, "seeded", s, "meta.json"))).get("checks") or [json.load(open(os.path.join(V, "seeded", s, "meta.json")))["property"]])}):
    sh("VERIF_NO_EVIDENCE=1 ./check %s quick" % pid, cwd=V, timeout=3600)
