#!/venv/bin/python
"""Regenerate MANIFEST.json from the property plugins present under harness/props/."""
import os, sys, json, importlib
V = os.path.dirname(os.path.dirname(os.path.abspath(__file__)))
sys.path.insert(0, os.path.join(V, "harness")); sys.path.insert(0, "/repo")
props = [json.loads(l) for l in open(os.path.join(V, "properties.jsonl"))]
NA = json.load(open(os.path.join(V, "tools", "not_applicable.json"))) if os.path.exists(os.path.join(V, "tools", "not_applicable.json")) else {}
ACCEPTED = set(json.load(open(os.path.join(V, "tools", "accepted.json"))))
checks, na = [], []
for p in props:
    pid = p["id"]
    if not os.path.exists(os.path.join(V, "harness", "props", pid.lower() + ".py")) or pid in NA or pid not in ACCEPTED:
        na.append({"property_id": pid, "reason": NA.get(pid, "check under construction / not yet reviewed by the coordinator (see DESIGN.md section 29)")}); continue
    mod = importlib.import_module("props." + pid.lower()); P = mod.PROPERTY
    checks.append({
        "property_id": pid, "quick_cmd": "./check %s quick" % pid, "thorough_cmd": "./check %s thorough" % pid,
        "evidence_file": "evidence/%s.json" % pid, "replay_cmd_template": "./check %s --replay {path}" % pid,
        "engine": "coq-proof+correspondence",
        "level_claimed": {"category": "proof", "text": P.level_text, "design_ref": P.design_ref},
        "level_note": P.level_note, "technique": P.technique})
m = {"version": 1, "setup_cmd": "./setup.sh",
     "hooks": {"guard": "AIOCOAP_VERIF", "enable": "no source hooks are needed: the harness rebinds module globals (random, time, os, tempfile) and passes duck-typed transports from outside; AIOCOAP_VERIF is reserved and unused",
               "baseline_off_cmd": "cd /repo && /venv/bin/python -m pytest -ra -q -p no:cacheprovider --timeout=900 --continue-on-collection-errors",
               "source_commits": [], "add_only": True},
     "engines": [{"name": "coq-proof+correspondence", "path": "check", "serves_properties": [c["property_id"] for c in checks],
                  "kind_free_text": "Coq 8.16.1 theorems over executable Gallina models; models tied to /repo on every run by a fail-closed py->Gallina translator (pure kernels, coq/Gen) and by differential correspondence runs (vm_compute inside coqc vs the real aiocoap objects under a virtual-time loop / fake transports)"}],
     "checks": checks, "not_applicable": na,
     "notes": "DESIGN.md describes approach, trusted base and findings; known_findings.json lists recorded defects and fix: commits."}
json.dump(m, open(os.path.join(V, "MANIFEST.json"), "w"), indent=1)
print("checks:", [c["property_id"] for c in checks], "not_applicable:", len(na))
