#!/bin/bash
# tools/store_seed.sh <worktree> <seed-name> [stubs]  — confirm the demo (fails with the change, passes without), copy into seeded/, remove the worktree
WT=$1; NAME=$2; cd $WT || exit 1
git diff -- aiocoap | diff -q - seed/patch.diff >/dev/null || echo "WARNING: working tree differs from patch.diff"
mkdir -p /verif/seeded/$NAME && cp seed/patch.diff seed/meta.json seed/demo.py /verif/seeded/$NAME/
git diff -- aiocoap > /tmp/p-$NAME.diff
PP=$WT; [ "$3" = stubs ] && PP=$WT:/opt/oscore-stubs
PYTHONPATH=$PP timeout 300 /venv/bin/python seed/demo.py >/dev/null 2>&1; a=$?
git apply -R /tmp/p-$NAME.diff
PYTHONPATH=$PP timeout 300 /venv/bin/python seed/demo.py >/dev/null 2>&1; b=$?
echo "$NAME changed-exit=$a unchanged-exit=$b"
cd /verif; git -C /repo worktree remove --force $WT; rm -f /tmp/p-$NAME.diff
/venv/bin/python - <<PY
import json
p='/verif/seeded/$NAME/meta.json'; m=json.load(open(p))
m["confirmed_by_coordinator"]="demo re-run in the scratch worktree: exit $a with the change, exit $b without (git apply -R); test-suite result reported by the authoring agent"
m.setdefault("checks_run","tools/run_seeded.py --scratch <id>: ./check <property> quick against a scratch copy of /repo with patch.diff applied")
json.dump(m,open(p,'w'),indent=1)
PY
