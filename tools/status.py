#!/venv/bin/python
"""Print a markdown status table from evidence/*.json, plugins and known findings."""
import os, sys, json, glob, importlib
V = os.path.dirname(os.path.dirname(os.path.abspath(__file__)))
sys.path.insert(0, os.path.join(V, "harness")); sys.path.insert(0, "/repo")
kf = json.load(open(os.path.join(V, "known_findings.json")))["findings"]
kf = [f for f in kf if not f.get("mirrored_from")]   # open entries mirrored from known_findings.d are counted once, from their own file
for f in glob.glob(os.path.join(V, "known_findings.d", "*.json")): kf += json.load(open(f))["findings"]
print("| id | obligations (Qed) | property theorems | axioms | translated (tie T) | cases of the last run (through the model) | streams | fixed / open findings |")
print("|---|---|---|---|---|---|---|---|")
for p in sorted(glob.glob(os.path.join(V, "evidence", "C*.json"))):
    e = json.load(open(p)); c = e["coverage"]; pid = e["property_id"]
    fx = sum(1 for f in kf if f["property"] == pid and f["status"] == "fixed"); op = sum(1 for f in kf if f["property"] == pid and f["status"] == "open")
    th = [t for t in c.get("property_theorems", []) if not t.lower().startswith("ex")]
    print("| %s | %s | %d | %s | %s | %s (%s) | %s | %d / %d |" % (pid, c.get("obligations", c.get("obligations_in_cone")), len(c.get("property_theorems", [])),
          ", ".join(c.get("axioms", [])) or "none", ", ".join(c.get("gen_regenerated_from_source", [])) or "–", c.get("evaluations"), c.get("model_evaluations"),
          ", ".join("%s %d" % kv for kv in sorted(c.get("streams", {}).items())), fx, op))
