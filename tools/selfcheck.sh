#!/bin/bash
# Stranger's check: forbidden constructs, full clean build, every quick check on the unchanged tree.
cd "$(dirname "$0")/.."
echo "== forbidden constructs"; grep -rnE '\b(Admitted|admit|Axiom|Parameter|Conjecture)\b|Unset Guard|bypass_check|type-in-type' coq --include=*.v | grep -v '^coq/.*:\s*(\*' | head
echo "== full build"; ./setup.sh 2>&1 | tail -3
echo "== quick checks"
for p in $(/venv/bin/python -c "import json;print(' '.join(c['property_id'] for c in json.load(open('MANIFEST.json'))['checks']))"); do
  /usr/bin/time -f "%es" ./check $p quick 2>&1 | tail -2 | tr '\n' ' '; echo " exit=$?"
done
