#!/bin/bash
# tools/store_harmless.sh CXX — copy /tmp/harmless-CXX/seed into harmless/CXX-refactoring and remove the worktree
P=$1; WT=/tmp/harmless-$P; cd $WT || exit 1
git diff -- aiocoap | diff -q - seed/patch.diff >/dev/null || { echo "WARNING $P: working tree differs from patch.diff; regenerating"; git diff -- aiocoap > seed/patch.diff; }
mkdir -p /verif/harmless/$P-refactoring && cp seed/patch.diff seed/meta.json /verif/harmless/$P-refactoring/
cd /verif; git -C /repo worktree remove --force $WT; echo "stored $P ($(grep -c '^[-+][^-+]' harmless/$P-refactoring/patch.diff) changed lines)"
