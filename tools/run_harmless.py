#!/venv/bin/python
"""Apply each behaviour-preserving refactoring (harmless/<id>/patch.diff) to a scratch copy of /repo and run the quick check of its
property. Acceptable: exit 0, or exit 1 where every VIOLATION line ends with no-failing-input-found (a proof/correspondence broke on a
rewrite, no property-violating input exists). A VIOLATION with a failing input on a harmless rewrite is a false alarm to investigate.
Usage: tools/run_harmless.py [id ...] — writes harmless/RESULTS.json."""
import os, sys, json, subprocess, glob, shutil
V = os.path.dirname(os.path.dirname(os.path.abspath(__file__)))
def sh(cmd, **kw): return subprocess.run(cmd, shell=True, stdout=subprocess.PIPE, stderr=subprocess.STDOUT, text=True, **kw)
ids = sys.argv[1:] or sorted(os.path.basename(os.path.dirname(p)) for p in glob.glob(os.path.join(V, "harmless", "*", "patch.diff")))
res_path = os.path.join(V, "harmless", "RESULTS.json")
results = json.load(open(res_path)) if os.path.exists(res_path) else {}
SCRATCH = "/var/tmp/aiocoap-harmless-%d" % os.getpid()
for hid in ids:
    d = os.path.join(V, "harmless", hid); meta = json.load(open(os.path.join(d, "meta.json"))); pid = meta["property"]
    shutil.rmtree(SCRATCH, ignore_errors=True); sh("mkdir -p %s && rsync -a --exclude .git --exclude __pycache__ /repo/ %s/" % (SCRATCH, SCRATCH))
    r = sh("cd %s && patch -p1 -s < %s/patch.diff" % (SCRATCH, d))
    if r.returncode != 0:
        results[hid] = {"error": "patch does not apply: " + r.stdout[-300:]}; print(hid, "PATCH DOES NOT APPLY"); continue
    try:
        c = sh("AIOCOAP_REPO=%s ./check %s quick" % (SCRATCH, pid), cwd=V, timeout=3600)
        viol = [l for l in c.stdout.splitlines() if l.startswith("VIOLATION")]
        with_input = [l for l in viol if not l.endswith("no-failing-input-found")]
        verdict = "silent" if c.returncode == 0 and not viol else ("broken-obligation-only" if viol and not with_input else "FAILING-INPUT-REPORTED")
        results[hid] = {"property": pid, "exit": c.returncode, "violation_lines": viol[:3], "tail": c.stdout.strip().splitlines()[-1:], "verdict": verdict}
    finally:
        shutil.rmtree(SCRATCH, ignore_errors=True)
    print(hid, results[hid]["verdict"], flush=True)
    json.dump(results, open(res_path, "w"), indent=1)
