#!/bin/bash
# tools/review.sh CXX — coordinator's acceptance run for one property
cd "$(dirname "$0")/.."; P=$1; p=$(echo $P | tr A-Z a-z)
echo "== files"; ls -la coq/Model/$P*.v coq/Proofs/$P*.v coq/Props/$P.v harness/props/$p.py notes/$P.md 2>&1 | awk '{print $5, $9}'
wc -l coq/Model/$P*.v coq/Proofs/$P*.v coq/Props/$P.v harness/props/$p.py | tail -1
echo "== forbidden"; grep -nE '\b(Admitted|admit|Axiom|Parameter|Conjecture)\b|Unset Guard|bypass_check' coq/Model/$P*.v coq/Proofs/$P*.v coq/Props/$P.v
echo "== theorems"; grep -E '^(Theorem|Example|Corollary)' coq/Props/$P.v | cut -c1-150
echo "== non-exact proofs in Props"; grep -n "Proof\." coq/Props/$P.v | grep -v "exact" | head
for s in 1 2 3; do VERIF_SEED=$s ./check $P quick 2>&1 | tail -3; echo "exit=$? seed=$s"; done
git -C /repo status --short | head -3
