"""Fake addresses / message interface wired like Context._append_tokenmanaged_messagemanaged_transport (DESIGN.md 4.2)."""
import asyncio
from aiocoap import interfaces, Message
from aiocoap.protocol import Context
from aiocoap.tokenmanager import TokenManager
from aiocoap.messagemanager import MessageManager
import aiocoap.messagemanager as _mm, aiocoap.tokenmanager as _tm

class Addr(interfaces.EndpointAddress):
    def __init__(self, name, multicast=False, multicast_locally=False):
        self.name = name; self._mc = multicast; self._mcl = multicast_locally
    @property
    def is_multicast(self): return self._mc
    @property
    def is_multicast_locally(self): return self._mcl
    def __hash__(self): return hash(self.name)
    def __eq__(self, o): return isinstance(o, Addr) and self.name == o.name
    def __repr__(self): return "<%s>" % self.name
    scheme = "coap"; maximum_block_size_exp = 6; maximum_payload_size = 1124
    @property
    def hostinfo(self): return self.name
    hostinfo_local = "local"
    @property
    def uri_base(self): return "coap://" + self.name
    uri_base_local = "coap://local"
    @property
    def blockwise_key(self): return self.name
    def as_response_address(self): return self

class FakeMI(interfaces.MessageInterface):
    def __init__(self, loop): self.sent = []; self.loop = loop; self.down = False
    def send(self, m): self.sent.append((self.loop.now_us(), m.remote, m.encode()))
    async def shutdown(self): self.down = True
    async def recognize_remote(self, r): return isinstance(r, Addr)
    async def determine_remote(self, m):
        return m.remote if isinstance(getattr(m, "remote", None), Addr) else None
    def take(self):
        s, self.sent = self.sent, []; return s

class ScriptedRandom:
    """Deterministic stand-in for the `random` module used by messagemanager / tokenmanager."""
    def __init__(self, uniform_value=None, randint_value=0):
        self.uniform_value = uniform_value; self.randint_value = randint_value
    def uniform(self, a, b): return a if self.uniform_value is None else self.uniform_value
    def randint(self, a, b): return self.randint_value
    def random(self): return 0.0

def patch_random(uniform_value=None, mid0=0, token0=0):
    _mm.random = ScriptedRandom(uniform_value, mid0); _tm.random = ScriptedRandom(uniform_value, token0)

def make_stack(loop, site=None):
    """-> (context, tokenmanager, messagemanager, fake message interface)"""
    with loop.enter():
        ctx = Context(loop=loop, serversite=site)
        tman = TokenManager(ctx); mman = MessageManager(tman); mi = FakeMI(loop)
        mman.message_interface = mi; tman.token_interface = mman; ctx.request_interfaces.append(tman)
    return ctx, tman, mman, mi

def inject(loop, mman, raw, remote):
    """deliver datagram bytes from `remote`; parse errors are swallowed like the UDP transports do"""
    from aiocoap import error
    try: m = Message.decode(raw, remote)
    except error.UnparsableMessage: return False
    with loop.enter(): mman.dispatch_message(m)
    loop.drain(); return True
