"""C17 — Site routing (exact match, longest prefix for nested sites, 4.04), add/remove, original request path,
/.well-known/core listing and RFC 6690 filter queries.

Correspondence of Gen/resource_site.v (translated from resource.py) + Model/C17.v with real aiocoap.resource.Site /
WKCResource objects; the oracle is an independent declarative reference (plain Python dicts, RFC 6690 matcher)."""
import urllib.parse
import fw
from fw import gz, gbool, glist, gopt, gstr

# ----------------------------------------------------------------------------------------------- vocabulary
COMPS = ["a", "b", "c", "ab", "", ".well-known", "core", "rd", "x y", "a/b", "é", "*"]
UPA_SPEC = {0: (".well-known", "core"), 1: (".well-known", "rd"), 2: (".well-known", "edhoc"),       # draft-ietf-core-uri-path-abbrev
            301: (".well-known", "est", "crts"), 302: (".well-known", "est", "sen"), 303: (".well-known", "est", "sren"),
            304: (".well-known", "est", "skg"), 305: (".well-known", "est", "skc"), 306: (".well-known", "est", "att"),
            401: (".well-known", "brski", "es"), 402: (".well-known", "brski", "rv"), 403: (".well-known", "brski", "vs")}
ATTR_VALUES = {"ct": ["40", "0", "0 41"], "rt": ["x", "x y", "temp", "", "core.rd x"], "if": ["i1", "core.s", "i1 i2"], "obs": [None],
               "title": ["hello", "t", 'say "hi"'], "sz": ["10", "1"], "rel": ["r", "hosts item", "hosts"], "Title": ["hello"], "anchor": ["/a"], "foo": ["bar", None]}
SINGLE_VALUED = ["rel", "anchor", "rev", "media", "title", "title*", "type"]
PY_ATTRS = ["to_py", "get_context", "get_target", "attr_pairs"]
IMPLS = [None, "https://example.org/impl", "impl"]
HOST = "coap://srv"

# ----------------------------------------------------------------------------------------------- real objects
_env = {}
def env():
    if _env: return _env
    import aiocoap, aiocoap.resource as resource, aiocoap.error as error, logging
    from aiocoap.message import Direction
    from aiocoap.pipe import Pipe
    class Remote:
        scheme = "coap"; hostinfo = "peer"; hostinfo_local = "srv"; is_multicast = False; is_multicast_locally = False
        maximum_block_size_exp = 6; maximum_payload_size = 1024; blockwise_key = ("peer",)
    log = []; nba_log = []; obs_log = []; wkc_asked = []
    def describe(self, request):
        try:
            uri = request.get_request_uri()
            assert uri.startswith(HOST + "/"), uri
            segs = [urllib.parse.unquote(x) for x in uri[len(HOST):].split("?")[0].split("/")[1:]]
            qparts = [urllib.parse.unquote(x) for x in uri.split("?", 1)[1].split("&")] if "?" in uri else []
        except ValueError:
            segs = "exn:ValueError"; qparts = []
        orig = getattr(request, "_original_request_path", None)
        return {"h": self.id, "seen": list(request.opt.uri_path), "orig": None if orig is None else list(orig), "uri": segs, "q": qparts}
    def observe(self, request):
        log.append(describe(self, request))
        return aiocoap.Message(payload=str(self.id).encode())
    class Leaf(resource.Resource):
        def __init__(self, id, desc):
            super().__init__(); self.id = id; self.desc = desc
        def get_link_description(self):
            return None if self.desc is None else dict((k, v) for k, v in self.desc)
        async def render_get(self, request): return observe(self, request)
        async def needs_blockwise_assembly(self, request):
            nba_log.append(describe(self, request)); return self.id % 2 == 0
        async def add_observation(self, request, serverobservation):
            obs_log.append(describe(self, request))
    class NoDesc(Leaf):
        @property
        def get_link_description(self): raise AttributeError("no get_link_description")     # hasattr(...) is False
    class Opaque(Leaf, resource.PathCapable):
        pass
    class Wkc(resource.WKCResource):
        async def needs_blockwise_assembly(self, request):
            wkc_asked.append(1); return await super().needs_blockwise_assembly(request)
    captured = []
    orig_lftm = resource.link_format_to_message
    def capture(request, linkformat, *a, **kw):
        captured.append([[l.href, [[k, v] for k, v in l.attr_pairs]] for l in linkformat.links])
        return orig_lftm(request, linkformat, *a, **kw)
    capture.supported_ct = orig_lftm.supported_ct
    resource.link_format_to_message = capture          # module global used by WKCResource.render_get
    def drive(coro):
        try: coro.send(None)
        except StopIteration as e: return e.value
        coro.close(); raise RuntimeError("coroutine suspended")
    _env.update(aiocoap=aiocoap, resource=resource, error=error, Direction=Direction, Pipe=Pipe, Remote=Remote, log=log, Leaf=Leaf, NoDesc=NoDesc,
                Opaque=Opaque, captured=captured, drive=drive, nba_log=nba_log, obs_log=obs_log, wkc_asked=wkc_asked, Wkc=Wkc, logger=logging.getLogger("c17"))
    return _env

def make_request(E, path, abbrev=None, query=None, orig=None):
    a = E["aiocoap"]
    m = a.Message(code=a.GET, uri_path=tuple(path))
    if query is not None: m.opt.uri_query = tuple(query) if isinstance(query, list) else (query,)
    if abbrev is not None: m.opt.uri_path_abbrev = abbrev
    m.direction = E["Direction"].INCOMING; m.remote = E["Remote"](); m.mtype = a.CON; m.mid = 1; m.token = b"\x01"
    if orig is not None: m._original_request_path = tuple(orig)
    return m

def exn_name(e):
    return "exn:" + type(e).__name__

def link_payload(links):
    """RFC 6690 serialisation as the oracle expects it"""
    def one(l):
        return "<%s>" % l[0] + "".join(";" + (k if v is None else '%s="%s"' % (k, v.replace('"', '\\"'))) for k, v in l[1])
    return ",".join(one(l) for l in links)


# ----------------------------------------------------------------------------------------------- declarative reference (oracle side)
class RefSite:
    def __init__(self): self.res = {}; self.sub = {}
def ref_at(root, addr):
    s = root
    for k in addr:
        s = s.sub.get(tuple(k)) if isinstance(s, RefSite) else None
        if s is None: return None
    return s if isinstance(s, RefSite) else None
LITERAL = [True]      # True: the property's literal reading (a nested site at the EMPTY path is a proper prefix of every non-empty path);
                      # False: the code's reading (non-empty proper prefixes only, O2).  check_op judges by the literal reading and
                      # classifies a failure that the code's reading explains as C17:empty-prefix-subsite-ignored
def ref_route(site, path):
    """exact resource, else nested site at the longest proper prefix, which gets the rest ([""] -> [])"""
    path = tuple(path)
    if path in site.res: return ("res", site.res[path], ())
    cands = [k for k in range(0 if LITERAL[0] else 1, len(path)) if path[:k] in site.sub]
    if not cands: return None
    k = max(cands); child = site.sub[path[:k]]; rest = path[k:]
    if rest == ("",): rest = ()
    if not isinstance(child, RefSite): return ("opaque", child, rest)
    return ref_route(child, rest)
def has_empty_subsite(site):
    return any(p == () or (isinstance(c, RefSite) and has_empty_subsite(c)) for p, c in site.sub.items())
def ref_links(site):
    out = []
    for p, r in site.res.items():
        d = [["ct", "40"]] if r["kind"] == "wkc" else r["desc"]
        if d is not None: out.append(["/" + "/".join(p), [list(x) for x in d]])
    for p, c in site.sub.items():
        if isinstance(c, RefSite):
            out += [[("" if (LITERAL[0] and not p) else "/" + "/".join(p)) + h, d] for h, d in ref_links(c)]
    return out
def ref_copy(x):
    """the same Site object at a second place behaves like a copy as long as nobody mutates it afterwards"""
    if not isinstance(x, RefSite): return x
    c = RefSite(); c.res = dict(x.res); c.sub = {k: ref_copy(v) for k, v in x.sub.items()}
    return c
def ref_entries(site, prefix=()):
    """(request path, registered resource) for every resource in the tree, in registration order through nested sites"""
    for p, r in site.res.items():
        yield (prefix + (p if (p or not prefix) else ("",)), r)
    for p, c in site.sub.items():
        if isinstance(c, RefSite): yield from ref_entries(c, prefix + p)
def href_path(h):
    return () if h == "/" else tuple(h[1:].split("/"))
def rfc6690_match(link, k, v):
    """RFC 6690 section 4.1: exact or prefix ('*') match on href or on the named attribute (attribute names compared case-insensitively);
    the resource-params rt / if / rel / ct (spelled as in the RFC, lower case) denote space separated lists; a missing attribute or one
    without value never matches (not even '*').  Same rule as `Matches` in Proofs/C17Wkc.v."""
    prefix = v.endswith("*"); pat = v[:-1] if prefix else v
    if k == "href": vals = [link[0]]
    else:
        vals = [x for kk, x in link[1] if kk.lower() == k.lower() and x is not None]
        if k in ("rt", "if", "rel", "ct"): vals = [t for x in vals for t in x.split(" ")]
    return any((x.startswith(pat) if prefix else x == pat) for x in vals)


class C17(fw.Property):
    id = "C17"
    coq_props = "Props/C17.v"
    gen_jobs = ["resource_site"]
    model_imports = ["Verif.Lib.Py", "Verif.Model.C17Base", "Verif.Gen.resource_site", "Verif.Model.C17"]
    quick_budget = 200
    thorough_budget = 12000
    design_ref = "DESIGN.md section 21"
    technique = ("Coq refinement proof of the lookup code translated from resource.py to a declarative Route relation (induction over the nested-site tree), "
                 "proofs about add/remove and the link listing; differential correspondence of the hand-written tree/WKC model with real Site/WKCResource objects")
    level_text = ("Theorems (closed under the global context) over Site._find_child_and_pathstripped_message / add_resource / remove_resource / _expand_upa regenerated "
                  "from resource.py on every run, and over a hand-written model of nested sites, render dispatch, get_resources_as_linkheader and the WKCResource filter: "
                  "routing = exact resource, else nested site at the longest non-empty proper prefix with the remaining components, else 4.04, for every tree and path; the "
                  "handler's message carries the original path at every depth; add/remove are effective at once and frame everything else; the listing is exactly the "
                  "non-hidden resources with full hrefs; a single filter query returns exactly the RFC 6690 subset, unconditionally (the four filter defects this check found "
                  "were fixed in /repo commit f691489; their oracle signatures stay armed).")
    level_note = ("Trusted: Coq kernel + vm_compute; the custom translator translate/jobs/c17.py + Model/C17Base.v prelude (validated by the flat_site stream); the hand model "
                  "Model/C17.v (validated by site_history / wkc_filter streams). Not modelled: several filter queries at once (O1), aliasing of one Site object at two places, "
                  "non-ASCII attribute names in filter queries (str.lower), Accept other than link-format, multicast no-response, observation/blockwise paths through the site.")
    rule = ("streams: site_history = random nested registration trees (shared prefixes, empty components, root resources, 3 levels, resources shadowing sub-sites, opaque PathCapable "
            "children, hidden resources, WKC resources) built by add/remove op sequences on real resource.Site objects, interleaved with GET requests through Site.render and "
            "Site.render_to_pipe (paths derived from / near registered ones, Uri-Path-Abbrev), needs_blockwise_assembly / add_observation dispatch (locate), probe ops (list the root, request every listed href), "
            "alias ops (same Site at a second place), list ops and /.well-known/core with zero or one filter; wkc_filter = a populated "
            "site and single filter queries derived from the registered attributes (exact, prefix, '*', empty, unknown, case variants, Python attribute names); flat_site = op "
            "lists on one Site calling _find_child_and_pathstripped_message/add_resource/remove_resource/_expand_upa directly vs the translated code. Non-trivial = a request "
            "routed through a nested site and a 4.04 in the same history, or a filter selecting a proper non-empty subset, or a flat lookup hitting a sub-site; distinct by full input.")
    trusted_base = ["custom translator translate/jobs/c17.py + Model/C17Base.v prelude (validated by the flat_site stream on every run)",
                    "hand-written Model/C17.v (validated by the site_history and wkc_filter streams)",
                    "harness: handler resources, link_format_to_message capture, URI segment split of get_request_uri()"]
    assumptions = ["model and theorems: a Site object registered at two places is not mutated afterwards (value tree); the oracle-only stream shared_site covers mutation after sharing; a Site is never registered inside itself", "several filter criteria in one request are a conjunction (fixed in /repo f7c02cb; the oracle rule C17:filter-several-criteria stays armed)",
                   "a sub-site registered at the empty path: the oracle judges by the literal 'longest proper prefix' (open finding C17:empty-prefix-subsite-ignored); the refinement theorems to the literal RouteSpec assume no such site (no_empty_subsite)",
                   "only the path and query parts of get_request_uri() are compared (fake remote 'srv'); a single empty Uri-Query option vanishing in urlunparse is left to C16"]

    # =========================================================================================== generation
    def _rand_path(self, rng, maxlen=3):
        return [rng.choice(COMPS[:7] if rng.random() < 0.8 else COMPS) for _ in range(rng.choice([0, 1, 1, 1, 2, 2, 3][:maxlen * 2 + 1]))]

    def _rand_desc(self, rng):
        r = rng.random()
        if r < 0.12: return None
        keys = [k for k in ATTR_VALUES if rng.random() < (0.35 if k in ("rt", "ct", "if", "obs", "title") else 0.1)]
        return [[k, rng.choice(ATTR_VALUES[k])] for k in keys]

    def _rand_thing(self, rng, ids):
        r = rng.random()
        if r < 0.55:
            ids[0] += 1
            d = self._rand_desc(rng)
            return {"kind": "res", "id": ids[0], "desc": d, "nodesc": d == [] and rng.random() < 0.5}
        if r < 0.80: return {"kind": "site"}
        if r < 0.90:
            ids[0] += 1; return {"kind": "opaque", "id": ids[0]}
        return {"kind": "wkc", "impl": rng.choice(IMPLS)}

    def _near(self, rng, p):
        p = list(p); r = rng.random()
        if r < 0.45: return p
        if r < 0.55: return p + [rng.choice(COMPS)]
        if r < 0.63: return p + [""]
        if r < 0.71: return p[:-1]
        if r < 0.78 and p: i = rng.randrange(len(p)); return p[:i] + [rng.choice(COMPS)] + p[i + 1:]
        if r < 0.84: i = rng.randint(0, len(p)); return p[:i] + [""] + p[i:]
        if r < 0.90: return p + self._rand_path(rng)
        if r < 0.95 and p: return p[:rng.randint(0, len(p))]
        return self._rand_path(rng)

    def _filter_query(self, rng, links):
        """one Uri-Query string derived from the attributes that are actually there"""
        pool = [(k, v) for _, attrs in links for k, v in attrs]
        r = rng.random()
        if r < 0.07: return rng.choice(["obs", "rt", "", "x"])                      # no '='
        if r < 0.22 and links:
            h = rng.choice(links)[0]
            return "href=" + rng.choice([h, h + "*", h[:max(1, len(h) // 2)] + "*", h[:-1], "/*", "*", ""])
        if r < 0.30: return rng.choice(PY_ATTRS + ["rev", "media", "type"]) + "=" + rng.choice(["x", "x*", "*", ""])
        if pool and r < 0.85:
            k, v = rng.choice(pool)
            if rng.random() < 0.06: k = k.upper() if rng.random() < 0.5 else k.capitalize()
            v = v or ""
            toks = v.split(" ")
            pat = rng.choice([v, v, rng.choice(toks), rng.choice(toks) + "*", v[:1] + "*", v[:1], "*", "", v + "*", "zz", "zz*", v + "z"])
            return k + "=" + pat
        return rng.choice(["rt", "if", "ct", "obs", "title", "rel", "foo", "sz", "anchor", ""]) + "=" + rng.choice(["x", "x*", "*", "", "i1", "40", "h", "impl-info", "i*", "=", "a=b"])

    def _shadow_paths(self, node, prefix=()):
        """full request paths of everything registered (generator-side bookkeeping only)"""
        out = []
        for p in node["res"]: out.append(list(prefix + p))
        for p, c in node["sub"].items():
            out.append(list(prefix + p))
            if c is not None: out += self._shadow_paths(c, prefix + p)
        return out
    def _shadow_sites(self, node, addr=(), mutable=False):
        """addresses of the Site objects; mutable=True leaves out sites that are registered at two places (frozen: the value model
        follows an aliased Site only while nobody mutates it)"""
        out = [] if (mutable and node.get("frozen")) else [list(addr)]
        for p, c in node["sub"].items():
            if c is not None: out += self._shadow_sites(c, addr + (list(p),), mutable)
        return out
    def _freeze(self, node):
        node["frozen"] = True
        for c in node["sub"].values():
            if c is not None: self._freeze(c)
    def _shadow_at(self, node, addr):
        for k in addr: node = node["sub"][tuple(k)]
        return node

    def gen_history(self, rng, share=False):
        shadow = {"res": {}, "sub": {}}; ops = []; ids = [0]
        n = rng.randint(6, 26)
        if rng.random() < 0.5:
            ops.append({"op": "add", "addr": [], "path": [".well-known", "core"], "thing": {"kind": "wkc", "impl": rng.choice(IMPLS)}})
            shadow["res"][(".well-known", "core")] = True
        for i in range(n):
            r = rng.random()
            build = i < n * 0.45
            if r < (0.75 if build else 0.25):
                sites = self._shadow_sites(shadow, mutable=True)
                addr = rng.choice(sites) if rng.random() < 0.6 else sites[-1] if rng.random() < 0.5 else []
                node = self._shadow_at(shadow, addr)
                existing = list(node["res"]) + list(node["sub"])
                if existing and rng.random() < 0.55:
                    base = list(rng.choice(existing)); q = rng.random()
                    path = base if q < 0.3 else base + [rng.choice(COMPS[:6])] if q < 0.65 else base[:-1] if q < 0.8 else base[:-1] + [rng.choice(COMPS[:6])]
                else:
                    path = self._rand_path(rng)
                thing = self._rand_thing(rng, ids)
                if len(addr) >= 3 and thing["kind"] == "site": thing = {"kind": "opaque", "id": ids[0] + 100}
                ops.append({"op": "add", "addr": addr, "path": path, "thing": thing})
                if thing["kind"] == "site": node["sub"][tuple(path)] = {"res": {}, "sub": {}}
                elif thing["kind"] == "opaque": node["sub"][tuple(path)] = None
                else: node["res"][tuple(path)] = True
            elif r < (0.80 if build else 0.40):
                sites = self._shadow_sites(shadow, mutable=True); addr = rng.choice(sites); node = self._shadow_at(shadow, addr)
                existing = list(node["res"]) + list(node["sub"])
                path = list(rng.choice(existing)) if existing and rng.random() < 0.85 else self._rand_path(rng)
                ops.append({"op": "remove", "addr": addr, "path": path})
                if tuple(path) in node["sub"]: del node["sub"][tuple(path)]
                elif tuple(path) in node["res"]: del node["res"][tuple(path)]
            elif (r >= 0.93 and r < 0.955) or (share and r >= 0.85 and r < 0.93):
                # the same Site object at a second place (not inside itself; frozen afterwards)
                srcs = [a for a in self._shadow_sites(shadow) if a]
                if not srcs: continue
                src = rng.choice(srcs)
                node = self._shadow_at(shadow, src)
                if share:
                    # shared_site stream: the shared Site stays mutable; only never register a Site inside itself (by object identity)
                    inside = set()
                    def collect(n):
                        if n is None or id(n) in inside: return
                        inside.add(id(n))
                        for c in n["sub"].values(): collect(c)
                    collect(node)
                    dsts = [a for a in self._shadow_sites(shadow) if id(self._shadow_at(shadow, a)) not in inside]
                else:
                    dsts = [a for a in self._shadow_sites(shadow, mutable=True) if a[:len(src)] != src]
                if not dsts: continue
                dst = rng.choice(dsts); path = self._rand_path(rng) if rng.random() < 0.7 else list(src[-1])
                ops.append({"op": "alias", "src": src, "dst": dst, "path": path})
                if not share: self._freeze(node)
                self._shadow_at(shadow, dst)["sub"][tuple(path)] = node
            elif r < 0.93:
                full = self._shadow_paths(shadow)
                path = self._near(rng, rng.choice(full)) if full and rng.random() < 0.92 else self._rand_path(rng)
                q = rng.random()
                if q < 0.14:
                    ops.append({"op": "locate", "observe": q < 0.07, "path": path}); continue
                if q < 0.19:
                    ops.append({"op": "probe"}); continue
                pipe = rng.random() < 0.5; abbrev = None; query = None
                if pipe and rng.random() < 0.12:
                    abbrev = rng.choice([0, 0, 1, 2, 301, 403, 7, 99]); path = [] if rng.random() < 0.8 else path
                if rng.random() < 0.12: query = rng.choice(["a=b", "x", ["a=b", "c"], "k=v&w", "rt=x", ["e=é", "*"], "=", ["", "a"]])   # (a single empty option vanishes in urlunparse: C16's business)
                if path[:2] == [".well-known", "core"] or abbrev == 0:
                    if rng.random() < 0.5: query = rng.choice(["rt=x", "rt=x*", "ct=40", "href=/a*", "obs", "if=i1", "title=hello", "rt=*", "sz=10", "foo=bar"])
                    if isinstance(query, str) and rng.random() < 0.2: query = [query, rng.choice(["if=i1", "href=/*", "rt=x*", "ct=40", "title=h*", "obs", "rel=r"])]
                ops.append({"op": "request", "pipe": pipe, "path": path, "abbrev": abbrev, "query": query})
            else:
                ops.append({"op": "list", "addr": rng.choice(self._shadow_sites(shadow))})
        return {"ops": ops}

    def gen_filter(self, rng):
        ops = [{"op": "add", "addr": [], "path": [".well-known", "core"], "thing": {"kind": "wkc", "impl": rng.choice(IMPLS)}}]
        ids = [0]; links = [["/.well-known/core", [["ct", "40"]]]]
        def res():
            ids[0] += 1
            keys = [k for k in ATTR_VALUES if rng.random() < (0.45 if k in ("rt", "ct", "if", "obs", "title") else 0.12)]
            d = [[k, rng.choice(ATTR_VALUES[k])] for k in keys]
            return {"kind": "res", "id": ids[0], "desc": d if rng.random() < 0.92 else None, "nodesc": False}
        used = set()
        for _ in range(rng.randint(2, 6)):
            p = [rng.choice(["a", "b", "c", "ab", "s1", "s2"])] + ([rng.choice(["a", "b", ""])] if rng.random() < 0.3 else [])
            if tuple(p) in used: continue
            used.add(tuple(p)); t = res()
            ops.append({"op": "add", "addr": [], "path": p, "thing": t})
            if t["desc"] is not None: links.append(["/" + "/".join(p), t["desc"]])
        if rng.random() < 0.7:
            ops.append({"op": "add", "addr": [], "path": ["sub"], "thing": {"kind": "site"}})
            for p in ([], ["x"], ["y", "z"]):
                if rng.random() < 0.6:
                    t = res(); ops.append({"op": "add", "addr": [["sub"]], "path": p, "thing": t})
                    if t["desc"] is not None: links.append(["/sub/" + "/".join(p), t["desc"]])
        for _ in range(rng.randint(3, 8)):
            q = self._filter_query(rng, links)
            if rng.random() < 0.2:                                              # several criteria at once (2-3 Uri-Query options, any order of kinds)
                q = [q] + [self._filter_query(rng, links) for _ in range(rng.choice([1, 1, 2]))]
                if rng.random() < 0.5: q = [x for x in q if not x.startswith("__")]
            ops.append({"op": "request", "pipe": rng.random() < 0.3, "path": [".well-known", "core"], "abbrev": None, "query": q})
        return {"ops": ops}

    def gen_flat(self, rng):
        ops = []; keys = []; n = 0
        for _ in range(rng.randint(3, 18)):
            r = rng.random()
            if r < 0.4:
                base = list(rng.choice(keys)) if keys and rng.random() < 0.5 else self._rand_path(rng)
                q = rng.random()
                p = base if q < 0.4 else base + [rng.choice(COMPS[:6])] if q < 0.7 else base[:-1]
                n += 1; keys.append(p)
                ops.append({"op": "add", "path": p, "sub": rng.random() < 0.5, "id": n})
            elif r < 0.5:
                ops.append({"op": "remove", "path": list(rng.choice(keys)) if keys and rng.random() < 0.8 else self._rand_path(rng)})
            elif r < 0.93:
                p = self._near(rng, rng.choice(keys)) if keys and rng.random() < 0.9 else self._rand_path(rng)
                if rng.random() < 0.5 and keys: p = p + self._near(rng, rng.choice(keys))[:2]
                orig = None if rng.random() < 0.7 else self._rand_path(rng) + p
                ops.append({"op": "lookup", "path": p, "orig": orig})
            else:
                ops.append({"op": "expand", "path": [] if rng.random() < 0.7 else self._rand_path(rng), "abbrev": rng.choice([None, 0, 1, 2, 305, 401, 5, 300, 404, 65535])})
        return {"ops": ops}

    def gen_cases(self, tier, rng, n):
        for k in range(n):
            m = k % 10
            if m < 5: yield "site_history", self.gen_history(rng)
            elif m < 8: yield "wkc_filter", self.gen_filter(rng)
            elif m == 9 and (k // 10) % 2 == 0: yield "shared_site", self.gen_history(rng, share=True)
            else: yield "flat_site", self.gen_flat(rng)
        if tier == "thorough":
            # exhaustive small scope (validation of the tie, not a proof): every request path of length <= 3 over {a, b, ""}
            # against every placement of one resource and one nested site (with a root and an "a" resource) on paths of length <= 2
            import itertools
            al = ["a", "b", ""]
            paths2 = [list(p) for L in range(0, 3) for p in itertools.product(al, repeat=L)]
            paths3 = [list(p) for L in range(0, 4) for p in itertools.product(al, repeat=L)]
            for rp in paths2:
                for sp in paths2:
                    ops = [{"op": "add", "addr": [], "path": rp, "thing": {"kind": "res", "id": 1, "desc": [], "nodesc": False}},
                           {"op": "add", "addr": [], "path": sp, "thing": {"kind": "site"}}]
                    if sp:
                        ops += [{"op": "add", "addr": [sp], "path": [], "thing": {"kind": "res", "id": 2, "desc": [], "nodesc": False}},
                                {"op": "add", "addr": [sp], "path": ["a"], "thing": {"kind": "res", "id": 3, "desc": [], "nodesc": False}}]
                    ops += [{"op": "request", "pipe": False, "path": q, "abbrev": None, "query": None} for q in paths3]
                    yield "site_history", {"ops": ops}

    # =========================================================================================== implementation
    def _thing(self, E, root, t):
        if t["kind"] == "res": return (E["NoDesc"] if t.get("nodesc") else E["Leaf"])(t["id"], t["desc"])
        if t["kind"] == "site": return E["resource"].Site()
        if t["kind"] == "opaque": return E["Opaque"](t["id"], [])
        return E["Wkc"](root.get_resources_as_linkheader, impl_info=t["impl"])

    def _site_at(self, E, root, addr):
        s = root
        for k in addr:
            s = s._subsites.get(tuple(k)) if isinstance(s, E["resource"].Site) else None
            if s is None: return None
        return s if isinstance(s, E["resource"].Site) else None

    def impl(self, stream, inp):
        E = env()
        if stream == "flat_site": return self.impl_flat(E, inp)
        resource, error = E["resource"], E["error"]
        root = resource.Site(); out = []
        for o in inp["ops"]:
            if o["op"] in ("add", "remove", "list"):
                s = self._site_at(E, root, o["addr"])
                if s is None: out.append("noaddr"); continue
                try:
                    if o["op"] == "add": s.add_resource(list(o["path"]), self._thing(E, root, o["thing"])); out.append("done")
                    elif o["op"] == "remove": s.remove_resource(list(o["path"])); out.append("done")
                    else:
                        ls = [[l.href, [[k, v] for k, v in l.attr_pairs]] for l in s.get_resources_as_linkheader().links]
                        out.append({"links": ls, "payload": str(s.get_resources_as_linkheader())})
                except Exception as e: out.append(exn_name(e))
                continue
            if o["op"] == "alias":
                src = self._site_at(E, root, o["src"]); dst = self._site_at(E, root, o["dst"])
                if src is None or dst is None: out.append("noaddr"); continue
                dst.add_resource(list(o["path"]), src); out.append("done"); continue
            if o["op"] == "probe":
                hits = []
                for l in root.get_resources_as_linkheader().links:
                    if not l.href.startswith("/"): continue
                    path = [] if l.href == "/" else l.href[1:].split("/")
                    E["log"].clear(); E["captured"].clear(); E["nba_log"].clear(); E["wkc_asked"].clear()
                    try:
                        E["drive"](root.render(make_request(E, path)))
                        hits.append([l.href, E["log"][0]["h"] if E["log"] else "wkc"])
                    except E["error"].NotFound: hits.append([l.href, None])
                out.append({"probe": hits}); continue
            if o["op"] == "locate":
                req = make_request(E, o["path"])
                E["nba_log"].clear(); E["obs_log"].clear(); E["wkc_asked"].clear(); E["log"].clear()
                try:
                    if o["observe"]:
                        ret = E["drive"](root.add_observation(req, object())); lg = E["obs_log"]
                        assert ret is None
                    else:
                        ret = E["drive"](root.needs_blockwise_assembly(req)); lg = E["nba_log"]
                except Exception as e:
                    out.append(exn_name(e)); continue
                assert not E["log"] and len(lg) <= 1, "locate ran a render handler or two children"
                if lg:
                    assert o["observe"] or ret == (lg[0]["h"] % 2 == 0), "needs_blockwise_assembly did not return the child's answer"
                    out.append(dict(lg[0]))
                elif E["wkc_asked"]: out.append("wkc")
                else:
                    out.append("default" if (o["observe"] or ret is True) else "default-not-true")
                continue
            req = make_request(E, o["path"], o["abbrev"], o["query"])
            E["log"].clear(); E["captured"].clear(); E["nba_log"].clear(); E["wkc_asked"].clear()
            try:
                if o["pipe"]:
                    pipe = E["Pipe"](req, E["logger"]); events = []
                    pipe.on_event(lambda ev: events.append(ev) or True)
                    E["drive"](root.render_to_pipe(pipe))
                    assert len(events) == 1 and events[0].is_last and events[0].exception is None, "pipe events %r" % (events,)
                    resp = events[0].message
                else:
                    resp = E["drive"](root.render(req))
            except Exception as e:
                out.append(exn_name(e)); continue
            if E["log"]:
                assert len(E["log"]) == 1 and not E["captured"], "more than one handler ran"
                assert resp.payload == str(E["log"][0]["h"]).encode(), "response is not the handler's"
                out.append(dict(E["log"][0]))
            else:
                assert len(E["captured"]) == 1, "neither handler nor WKC ran"
                out.append({"links": E["captured"][0], "payload": resp.payload.decode("utf8")})
        return {"results": out}

    def impl_flat(self, E, inp):
        s = E["resource"].Site(); out = []
        class R:                                        # plain resource stand-in
            def __init__(self, id): self.id = id
        class P(E["resource"].PathCapable):
            def __init__(self, id): self.id = id
        for o in inp["ops"]:
            try:
                if o["op"] == "add": s.add_resource(list(o["path"]), (P if o["sub"] else R)(o["id"])); out.append("done")
                elif o["op"] == "remove": s.remove_resource(list(o["path"])); out.append("done")
                elif o["op"] == "lookup":
                    req = make_request(E, o["path"], orig=o["orig"])
                    c, m = s._find_child_and_pathstripped_message(req)
                    out.append({"child": ["sub" if isinstance(c, P) else "res", c.id], "path": list(m.opt.uri_path), "abbrev": m.opt.uri_path_abbrev,
                                "orig": list(m._original_request_path) if hasattr(m, "_original_request_path") else None})
                else:
                    req = make_request(E, o["path"], abbrev=o["abbrev"])
                    E["resource"]._expand_upa(req)
                    out.append({"path": list(req.opt.uri_path), "abbrev": req.opt.uri_path_abbrev, "orig": None})
            except Exception as e: out.append(exn_name(e))
        return {"results": out, "resources": [[list(k), v.id] for k, v in s._resources.items()], "subsites": [[list(k), v.id] for k, v in s._subsites.items()]}

    # =========================================================================================== model
    @staticmethod
    def gpath(p): return glist([gstr(x) for x in p])
    def gdesc(self, d):
        return gopt(d, lambda d: glist(["(%s, %s)" % (gstr(k), gopt(v, gstr)) for k, v in d]))
    def gthing(self, t):
        if t["kind"] == "res": return "(TRes (RHandler %s %s))" % (gz(t["id"]), self.gdesc(t["desc"]))
        if t["kind"] == "wkc": return "(TRes (RWkc %s))" % gopt(t["impl"], gstr)
        if t["kind"] == "site": return "TSite"
        return "(TOpaque %s)" % gz(t["id"])
    def gmsg(self, p, abbrev=None, orig=None):
        return "{| uri_path := %s; uri_path_abbrev := %s; original_request_path := %s |}" % (self.gpath(p), gopt(abbrev, gz), gopt(orig, self.gpath))

    def model(self, stream, inp):
        if stream == "shared_site": return None           # one Site object at several places AND mutated afterwards: oracle-only (the model is a value tree)
        if stream == "flat_site":
            ops = []
            for o in inp["ops"]:
                if o["op"] == "add": ops.append("FAdd %s (%s %s)" % (self.gpath(o["path"]), "ChildSubsite" if o["sub"] else "ChildResource", gz(o["id"])))
                elif o["op"] == "remove": ops.append("FRemove %s" % self.gpath(o["path"]))
                elif o["op"] == "lookup": ops.append("FLookup %s" % self.gmsg(o["path"], None, o["orig"]))
                else: ops.append("FExpand %s" % self.gmsg(o["path"], o["abbrev"], None))
            return "let r := frun {| resources := []; subsites := [] |} %s in (snd r, resources (fst r), subsites (fst r))" % glist(ops)
        ops = []
        for o in inp["ops"]:
            if o["op"] == "add": ops.append("OAdd %s %s %s" % (glist([self.gpath(k) for k in o["addr"]]), self.gpath(o["path"]), self.gthing(o["thing"])))
            elif o["op"] == "remove": ops.append("ORemove %s %s" % (glist([self.gpath(k) for k in o["addr"]]), self.gpath(o["path"])))
            elif o["op"] == "list": ops.append("OList %s" % glist([self.gpath(k) for k in o["addr"]]))
            elif o["op"] == "alias": ops.append("OAlias %s %s %s" % (glist([self.gpath(k) for k in o["src"]]), glist([self.gpath(k) for k in o["dst"]]), self.gpath(o["path"])))
            elif o["op"] == "probe": ops.append("OProbe")
            elif o["op"] == "locate": ops.append("OLocate %s %s" % (gbool(o["observe"]), self.gmsg(o["path"])))
            else:
                q = o["query"]; qs = [] if q is None else [q] if isinstance(q, str) else list(q)
                ops.append("ORequest %s %s %s" % (gbool(o["pipe"]), self.gmsg(o["path"], o["abbrev"]), glist([gstr(x) for x in qs])))
        return "snd (run (NSite [] []) %s)" % glist(ops)

    @staticmethod
    def _exn(e):
        e = fw.plain(e)
        if isinstance(e, dict) and e["c"] == "OtherError": return "exn:BadOption" if e["a"][0] == 402 else "exn:Other%d" % e["a"][0]
        return "exn:" + e
    @staticmethod
    def _opt(x, f=lambda y: y):
        if isinstance(x, fw.Ctor) and x.name == "None": return None
        assert isinstance(x, fw.Ctor) and x.name == "Some", x
        return f(x.args[0])
    def _links(self, ls):
        return [[h, [[k, self._opt(v)] for k, v in attrs]] for h, attrs in ls]

    def decode(self, stream, inp, p):
        if stream == "flat_site":
            res, rs, ss = p
            def msg(m): return {"path": list(m["uri_path"]), "abbrev": self._opt(m["uri_path_abbrev"]), "orig": self._opt(m["original_request_path"], list)}
            out = []
            for x in res:
                if x.name == "FDone": out.append("done")
                elif x.name == "FExn": out.append(self._exn(x.args[0]))
                elif x.name == "FMsg": out.append(msg(x.args[0]))
                else:
                    c = x.args[0]; d = msg(x.args[1])
                    out.append({"child": ["sub" if c.name == "ChildSubsite" else "res", c.args[0]], **d})
            return {"results": out, "resources": [[list(k), v] for k, v in rs], "subsites": [[list(k), v] for k, v in ss]}
        out = []
        def queries(o):
            # the query part of the reconstructed URI is not modelled; the expected value is simply the request's own Uri-Query options
            q = o.get("query") if o["op"] == "request" else None
            return [] if q is None else [q] if isinstance(q, str) else list(q)
        for o, x in zip(inp["ops"], p):
            if x.name == "RDone": out.append("done")
            elif x.name == "RNoAddr": out.append("noaddr")
            elif x.name == "RExn": out.append(self._exn(x.args[0]))
            elif x.name == "RDefault": out.append("default")
            elif x.name == "RWkcLeaf": out.append("wkc")
            elif x.name == "RProbe":
                def hit(v):
                    v = self._opt(v, lambda y: y)
                    if v is None: return None
                    v = self._opt(v); return "wkc" if v is None else v
                out.append({"probe": [[h, hit(v)] for h, v in x.args[0]]})
            elif x.name == "RHandled":
                id_, seen, orig, uri = x.args
                out.append({"h": id_, "seen": list(seen), "orig": self._opt(orig, list), "uri": list(uri.args[0]) if uri.name == "Ok" else self._exn(uri.args[0]), "q": queries(o)})
            else:
                out.append({"links": self._links(x.args[0]), "payload": x.args[1]})
        return {"results": out}

    # =========================================================================================== oracle
    def oracle(self, stream, inp, res):
        if "harness_exception" in res: return ("C17:crash:" + res["where"], "implementation raised %s: %s" % (res["harness_exception"], res.get("text")))
        if stream == "flat_site": return self.oracle_flat(inp, res)
        # every op is judged; a violation that is not a listed known finding takes precedence over one that is
        known = self._known_signatures(); first_known = None
        root = RefSite(); removed = set(); self._sharing = (stream == "shared_site")
        for idx, (o, r) in enumerate(zip(inp["ops"], res["results"])):
            v = self.check_op(root, removed, idx, o, r)
            if v is None: continue
            if v[0] in known: first_known = first_known or v
            else: return v
        return first_known

    _known = None; _sharing = False
    def _known_signatures(self):
        if self._known is None:
            C17._known = {f["signature"] for f in fw.load_known_findings() if f.get("property") == "C17" and f.get("status") == "open"}
        return self._known

    def check_op(self, root, removed, idx, o, r):
        """judge one op by the literal reading of the property; read-only ops that fail only because a nested site at the empty path is
        ignored (the code's reading explains the behaviour) get the finding's signature"""
        LITERAL[0] = True
        try:
            v = self._check_op(root, removed, idx, o, r)
            if v is None or o["op"] in ("add", "remove", "alias") or not has_empty_subsite(root): return v
            LITERAL[0] = False
            v2 = self._check_op(root, removed, idx, o, r)
            if v2 is None: return ("C17:empty-prefix-subsite-ignored", "a nested site registered at the empty path is not consulted / is listed with a doubled slash: " + v[1])
            return v2
        finally:
            LITERAL[0] = True

    def _check_op(self, root, removed, idx, o, r):
        if True:
            where = "op %d %s" % (idx, fw.jdump(o)[:160])
            if o["op"] in ("add", "remove", "list"):
                s = ref_at(root, o["addr"])
                if s is None:
                    if r != "noaddr": return ("C17:harness-address", "%s: reference has no site at the address but the harness found one" % where)
                    return None
                if r == "noaddr": return ("C17:harness-address", "%s: harness found no site" % where)
                p = tuple(o["path"]) if "path" in o else None
                if o["op"] == "add":
                    if r != "done": return ("C17:add-failed", "%s -> %s" % (where, r))
                    t = o["thing"]
                    old = (s.res if t["kind"] in ("res", "wkc") else s.sub).get(p)
                    if isinstance(old, dict) and "id" in old: removed.add(old["id"])       # replaced by the new registration
                    if t["kind"] == "site": s.sub[p] = RefSite()
                    elif t["kind"] == "opaque": s.sub[p] = dict(t)
                    else: s.res[p] = dict(t)
                elif o["op"] == "remove":
                    if p in s.sub:
                        gone = s.sub.pop(p)
                    elif p in s.res:
                        gone = s.res.pop(p)
                    else:
                        if r != "exn:KeyError": return ("C17:remove-unregistered", "%s: nothing registered there, result %s" % (where, r))
                        return None
                    if r != "done": return ("C17:remove-failed", "%s -> %s" % (where, r))
                    if isinstance(gone, dict) and "id" in gone: removed.add(gone["id"])
                else:
                    v = self.check_listing(where, r, ref_links(s), None, None)
                    if v: return v
                return None
            if o["op"] == "alias":
                src = ref_at(root, o["src"]); dst = ref_at(root, o["dst"])
                if src is None or dst is None:
                    return None if r == "noaddr" else ("C17:harness-address", "%s: reference has no such sites, result %s" % (where, r))
                if r != "done": return ("C17:add-failed", "%s -> %s" % (where, r))
                dst.sub[tuple(o["path"])] = src if self._sharing else ref_copy(src)      # shared_site stream: the very same object
                return None
            if o["op"] == "probe":
                if not (isinstance(r, dict) and "probe" in r): return ("C17:listing-exception", "%s -> %s" % (where, fw.jdump(r)[:200]))
                want_hrefs = [h for h, _ in ref_links(root) if h.startswith("/")]
                if [h for h, _ in r["probe"]] != want_hrefs:
                    return ("C17:listing-order-or-multiplicity", "%s: listed hrefs %r, registered (in registration order, each once) %r" % (where, [h for h, _ in r["probe"]], want_hrefs))
                for h, hit in r["probe"]:
                    exp = ref_route(root, href_path(h))
                    e = None if exp is None else ("wkc" if exp[1].get("kind") == "wkc" else exp[1]["id"])
                    if hit != e: return ("C17:listed-href-routes-elsewhere", "%s: requesting listed href %r ran %r, the routing rule says %r" % (where, h, hit, e))
                hits = dict((h, x) for h, x in r["probe"])
                for path, thing in ref_entries(root):
                    d = [["ct", "40"]] if thing["kind"] == "wkc" else thing["desc"]
                    exp = ref_route(root, path)
                    if d is None or exp is None or exp[1] is not thing or any("/" in c for c in path) or path == ("",): continue
                    h = "/" + "/".join(path)
                    if h not in hits: return ("C17:routable-resource-not-listed", "%s: %r is served at %r but %r is not listed" % (where, thing, path, h))
                return None
            if o["op"] == "locate":
                path = tuple(o["path"]); exp = ref_route(root, path); what = "add_observation" if o["observe"] else "needs_blockwise_assembly"
                if isinstance(r, str) and r.startswith("exn:"): return ("C17:routing-exception:" + r[4:], "%s: %s raised %s" % (where, what, r))
                if r == "default-not-true": return ("C17:needs_blockwise_assembly-default-wrong", "%s: no child found, but the answer is not True" % where)
                if exp is None or (exp[1].get("kind") == "wkc" and o["observe"]):
                    return None if r == "default" else ("C17:%s-dispatch-differs-from-render" % what, "%s: render would give 4.04 / not observable, %s reached %s" % (where, what, fw.jdump(r)[:200]))
                if exp[1].get("kind") == "wkc":
                    return None if r == "wkc" else ("C17:%s-dispatch-differs-from-render" % what, "%s: render reaches the WKC resource, %s gave %s" % (where, what, fw.jdump(r)[:200]))
                if not (isinstance(r, dict) and r.get("h") == exp[1]["id"] and tuple(r["seen"]) == tuple(exp[2])):
                    return ("C17:%s-dispatch-differs-from-render" % what, "%s: render reaches %s with remaining path %r, %s gave %s" % (where, exp[1]["id"], exp[2], what, fw.jdump(r)[:200]))
                if r["orig"] is None or tuple(r["orig"]) != path or r["uri"] != (list(path) or [""]):
                    return ("C17:original-path-lost", "%s: %s child sees original path %r / uri %r, request path %r" % (where, what, r["orig"], r["uri"], path))
                return None
            # ---- request
            path = tuple(o["path"])
            if o["abbrev"] is not None:
                if not o["pipe"]: return None                 # Site.render does not look at Uri-Path-Abbrev; render_to_pipe is the server entry point
                if path or o["abbrev"] not in UPA_SPEC:
                    if r != "exn:BadOption": return ("C17:upa-not-rejected", "%s: conflicting/unknown Uri-Path-Abbrev gave %s" % (where, fw.jdump(r)[:200]))
                    return None
                path = UPA_SPEC[o["abbrev"]]
            exp = ref_route(root, path)
            if isinstance(r, str) and r.startswith("exn:") and r != "exn:NotFound" and not (exp and exp[0] == "res" and exp[1]["kind"] == "wkc"):
                return ("C17:routing-exception:" + r[4:], "%s raised %s" % (where, r))
            if exp is None:
                if r == "exn:NotFound": return None
                if isinstance(r, dict) and r.get("h") in removed: return ("C17:removed-resource-still-served", "%s: handler %s was removed" % (where, r.get("h")))
                return ("C17:found-but-unregistered", "%s: nothing is registered for that path, got %s" % (where, fw.jdump(r)[:200]))
            kind, thing, rest = exp
            if r == "exn:NotFound":
                return ("C17:not-found-but-registered", "%s: should be rendered by %s with remaining path %r" % (where, fw.jdump(thing), rest))
            if kind == "res" and thing["kind"] == "wkc":
                q = o["query"]
                v = self.check_listing(where, r, ref_links(root), thing["impl"], q)
                if v: return v
                return None
            if not (isinstance(r, dict) and "h" in r): return ("C17:wrong-handler", "%s: expected handler %s, got %s" % (where, thing["id"], fw.jdump(r)[:200]))
            if r["h"] != thing["id"]:
                if r["h"] in removed: return ("C17:removed-resource-still-served", "%s: handler %s was removed; expected %s" % (where, r["h"], thing["id"]))
                return ("C17:wrong-handler", "%s: expected handler %s, ran %s" % (where, thing["id"], r["h"]))
            if tuple(r["seen"]) != tuple(rest):
                return ("C17:wrong-stripped-path", "%s: handler should see %r, saw %r" % (where, rest, r["seen"]))
            if r["orig"] is None or tuple(r["orig"]) != path:
                return ("C17:original-path-lost", "%s: _original_request_path is %r, request path %r" % (where, r["orig"], path))
            if r["uri"] != (list(path) or [""]):
                return ("C17:request-uri-wrong", "%s: get_request_uri() path segments %r, request path %r" % (where, r["uri"], path))
            qs = [] if o["query"] is None else [o["query"]] if isinstance(o["query"], str) else list(o["query"])
            if r.get("q") != qs:
                return ("C17:request-uri-query-wrong", "%s: get_request_uri() query %r, request Uri-Query %r" % (where, r.get("q"), qs))
        return None

    def check_listing(self, where, r, expected, impl, query):
        """expected: links of all non-hidden resources (reference); impl: impl-info URI if the WKC adds one; query: filter string or None"""
        if impl is not None: expected = expected + [[impl, [["rel", "impl-info"]]]]
        qs = [] if query is None else [query] if isinstance(query, str) else list(query)
        crit = [q.split("=", 1) for q in qs if "=" in q]                            # queries without "=" are not filters
        kv = crit[0] if len(crit) == 1 else None
        if len(crit) > 1:
            # several criteria: the code collects one filter per criterion and applies them all -> conjunction
            if isinstance(r, str): return ("C17:filter-several-criteria", "%s: filters %r -> %s" % (where, qs, r))
            if not (isinstance(r, dict) and "links" in r): return ("C17:wrong-handler", "%s: expected a link-format listing, got %s" % (where, fw.jdump(r)[:200]))
            if r["payload"] != link_payload(r["links"]): return ("C17:payload-not-link-format", "%s: payload is not the serialisation of the links" % where)
            want = [l for l in expected if all(rfc6690_match(l, k, v) for k, v in crit)]
            key = lambda ls: sorted(fw.jdump(l) for l in ls)
            if key(r["links"]) != key(want):
                return ("C17:filter-several-criteria", "%s: filters %r: got %r, the links matching every criterion are %r" % (where, qs, [l[0] for l in r["links"]], [l[0] for l in want]))
            return None
        if isinstance(r, str):
            if kv is None: return ("C17:listing-exception", "%s raised %s" % (where, r))
            k = kv[0]
            if k in PY_ATTRS or k.startswith("__"): return ("C17:filter-crash-python-attribute-name", "%s: filter name %r is a Python attribute of Link -> %s" % (where, k, r))
            if any(kk.lower() == k.lower() and v is None for _, at in expected for kk, v in at):
                return ("C17:filter-crash-valueless-attribute", "%s: filter %r on an attribute without value (e.g. obs) -> %s" % (where, query, r))
            return ("C17:filter-crash", "%s: filter %r -> %s" % (where, query, r))
        if not (isinstance(r, dict) and "links" in r): return ("C17:wrong-handler", "%s: expected a link-format listing, got %s" % (where, fw.jdump(r)[:200]))
        got = r["links"]
        if r["payload"] != link_payload(got):
            return ("C17:payload-not-link-format", "%s: payload %r is not the RFC 6690 serialisation of %r" % (where, r["payload"][:200], got))
        if kv is not None:
            k, v = kv
            want = [l for l in expected if rfc6690_match(l, k, v)]
            key = lambda ls: sorted(fw.jdump(l) for l in ls)
            if key(got) != key(want):
                if any(fw.jdump(l) not in key(expected) for l in got): return ("C17:filter-invents-link", "%s: %r not among the registered links" % (where, got))
                if k in PY_ATTRS or k.startswith("__"): return ("C17:filter-crash-python-attribute-name", "%s: filter name %r is a Python attribute of Link" % (where, k))
                if k in SINGLE_VALUED: return ("C17:filter-single-valued-attr-by-character", "%s: filter %r on single-valued attribute compares characters: got %r want %r" % (where, query, [l[0] for l in got], [l[0] for l in want]))
                pat = v[:-1] if v.endswith("*") else v
                if k in ("rt", "if", "ct") and pat == "": return ("C17:filter-empty-pattern-matches-missing-attribute", "%s: filter %r selects links that lack the attribute: got %r want %r" % (where, query, [l[0] for l in got], [l[0] for l in want]))
                return ("C17:filter-wrong-subset", "%s: filter %r: got %r want %r" % (where, query, [l[0] for l in got], [l[0] for l in want]))
            return None
        key = lambda ls: sorted(fw.jdump(l) for l in ls)
        if key(got) == key(expected): return None
        gk, ek = key(got), key(expected)
        if impl is not None and gk.count(fw.jdump([impl, [["rel", "impl-info"]]])) != ek.count(fw.jdump([impl, [["rel", "impl-info"]]])):
            return ("C17:impl-info-wrong", "%s: implementation-information link missing or repeated" % where)
        missing = [l for l in expected if fw.jdump(l) not in gk]; extra = [l for l in got if fw.jdump(l) not in ek]
        if missing: return ("C17:listing-missing", "%s: registered but not listed: %r (got %r)" % (where, missing[:3], [l[0] for l in got]))
        if extra: return ("C17:listing-extra", "%s: listed but not registered (or hidden): %r" % (where, extra[:3]))
        return ("C17:listing-multiplicity", "%s: got %r want %r" % (where, [l[0] for l in got], [l[0] for l in expected]))

    def oracle_flat(self, inp, res):
        rs, ss = {}, {}; found = []
        for idx, (o, r) in enumerate(zip(inp["ops"], res["results"])):
            where = "op %d %s" % (idx, fw.jdump(o)[:160])
            p = tuple(o["path"])
            if o["op"] == "add":
                if r != "done": return ("C17:add-failed", "%s -> %s" % (where, r))
                (ss if o["sub"] else rs)[p] = o["id"]
            elif o["op"] == "remove":
                if p in ss: del ss[p]
                elif p in rs: del rs[p]
                elif r != "exn:KeyError": return ("C17:remove-unregistered", "%s -> %s" % (where, r))
                else: continue
                if r != "done": return ("C17:remove-failed", "%s -> %s" % (where, r))
            elif o["op"] == "lookup":
                orig = tuple(o["orig"]) if o["orig"] is not None else p
                def judge(lo):
                    if p in rs: exp = (["res", rs[p]], ())
                    else:
                        c = [k for k in range(lo, len(p)) if p[:k] in ss]
                        exp = None if not c else (["sub", ss[p[:max(c)]]], () if p[max(c):] == ("",) else p[max(c):])
                    if exp is None:
                        return None if r == "exn:KeyError" else ("C17:found-but-unregistered", "%s -> %s" % (where, fw.jdump(r)[:200]))
                    if isinstance(r, str):
                        return ("C17:not-found-but-registered" if r == "exn:KeyError" else "C17:routing-exception:" + r[4:], "%s -> %s, expected %r" % (where, r, exp))
                    if r["child"] != exp[0]: return ("C17:wrong-handler", "%s: child %r, expected %r" % (where, r["child"], exp[0]))
                    if tuple(r["path"]) != exp[1]: return ("C17:wrong-stripped-path", "%s: stripped path %r, expected %r" % (where, r["path"], exp[1]))
                    if r["orig"] is None or tuple(r["orig"]) != orig: return ("C17:original-path-lost", "%s: _original_request_path %r, expected %r" % (where, r["orig"], orig))
                    return None
                v = judge(0)                                   # literal reading: the empty prefix is a proper prefix too
                if v is not None:
                    v2 = judge(1) if () in ss else v           # the code's reading (O2)
                    if v2 is None: found.append(("C17:empty-prefix-subsite-ignored", "a PathCapable child registered at the empty path is not consulted: " + v[1]))
                    else: return v2
            else:
                a = o["abbrev"]
                if a is None: exp = {"path": list(p), "abbrev": None, "orig": None}
                elif p or a not in UPA_SPEC: exp = "exn:BadOption"
                else: exp = {"path": list(UPA_SPEC[a]), "abbrev": None, "orig": None}
                if r != exp: return ("C17:upa-expansion-wrong", "%s -> %s, expected %s" % (where, fw.jdump(r), fw.jdump(exp)))
        if [tuple(k) for k, _ in res["resources"]] != list(rs) or [tuple(k) for k, _ in res["subsites"]] != list(ss) \
                or [v for _, v in res["resources"]] != list(rs.values()) or [v for _, v in res["subsites"]] != list(ss.values()):
            return ("C17:registry-state-wrong", "after the ops the site holds %r / %r, expected %r / %r" % (res["resources"], res["subsites"], rs, ss))
        return found[0] if found else None

    def nontrivial(self, stream, inp, res):
        rs = res.get("results", []) if isinstance(res, dict) else []
        if stream == "flat_site":
            ok = any(isinstance(r, dict) and r.get("child", [None])[0] == "sub" for r in rs)
        elif stream == "shared_site":
            # a Site registered at a second place and mutated afterwards, and a request served after that
            seen_alias = mutated = ok = False
            for o, r in zip(inp["ops"], rs):
                if o["op"] == "alias" and r == "done": seen_alias = True
                elif seen_alias and o["op"] in ("add", "remove") and r == "done": mutated = True
                elif mutated and isinstance(r, dict) and "h" in r: ok = True
        elif stream == "wkc_filter":
            sizes = [len(r["links"]) for r in rs if isinstance(r, dict) and "links" in r]
            ok = len(set(sizes)) > 1 and any(0 < s for s in sizes)
        else:
            # a request that the reference routes through at least one nested site, and a 4.04, in the same history
            root = RefSite(); nested = False
            for o, r in zip(inp["ops"], rs):
                if o["op"] in ("probe", "locate"): continue
                if o["op"] == "alias":
                    if r == "done": ref_at(root, o["dst"]).sub[tuple(o["path"])] = ref_copy(ref_at(root, o["src"]))
                    continue
                if o["op"] == "request":
                    p = tuple(o["path"])
                    if o["abbrev"] is None and p not in root.res and ref_route(root, p) is not None and isinstance(r, dict) and "h" in r: nested = True
                elif o["op"] != "list" and r == "done":
                    s = ref_at(root, o["addr"]); p = tuple(o["path"])
                    if o["op"] == "add":
                        k = o["thing"]["kind"]
                        if k == "site": s.sub[p] = RefSite()
                        elif k == "opaque": s.sub[p] = dict(o["thing"])
                        else: s.res[p] = dict(o["thing"])
                    elif p in s.sub: del s.sub[p]
                    else: s.res.pop(p, None)
            ok = nested and "exn:NotFound" in rs
        return fw.jdump([stream, inp]) if ok else None


PROPERTY = C17()
