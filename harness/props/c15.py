"""C15 — CoAP over TCP (RFC 8323): framing independent of segmentation, signalling rules.

Streams
  conn     event histories (data chunks / outgoing messages / connection loss) through the real
           aiocoap.transports.tcp.TcpConnection + TCPServer pool (fake asyncio.Transport, recording token manager)
           vs Model/C15.run_conn; every history is also run unchunked and (short ones) byte by byte.
  kernels  _extract_message_size / _encode_length (Gen/tcp_framing, translated from source), _serialize,
           _decode_message, option value canonicalisation (format table) vs the model functions.
  pending  real TokenManager + TCPClient pool + two TcpConnections with outstanding requests (some observing, some answered);
           peer Release / Abort / loss / own Abort + loss; vs Model/C15Sys.sys_run (pool, outgoing_requests table, Pipe events).
The oracle is an independent RFC 8323 receiver/encoder written here (ref_*), not the Coq model.
"""
import os, sys, logging, itertools
import fw
from fw import gz, glist

DEFAULT_MAX = 1024 * 1024
CSM, PING, PONG, RELEASE, ABORT = 0xE1, 0xE2, 0xE3, 0xE4, 0xE5
STR_OPTS = {3, 8, 11, 15, 20, 35, 39}
UINT_OPTS = {6, 7, 12, 13, 14, 16, 17, 23, 27, 28, 60, 258}

# ------------------------------------------------------------------ byte segments (literal or generated filler)
def genbyte(seed, i): return (seed + 13 * i + (i >> 8)) & 255
def seg_len(s): return len(s[1]) if s[0] == "lit" else s[3]
def seg_bytes(s):
    if s[0] == "lit": return bytes(s[1])
    _, seed, off, n = s
    return bytes(genbyte(seed, off + i) for i in range(n))
def segs_bytes(segs): return b"".join(seg_bytes(s) for s in segs)
def segs_len(segs): return sum(seg_len(s) for s in segs)
def mk_segs(parts):
    """parts: bytes or ('gen', seed, n) -> coalesced segment list"""
    out = []
    for p in parts:
        if isinstance(p, (bytes, bytearray)):
            if not p: continue
            if out and out[-1][0] == "lit": out[-1][1].extend(p)
            else: out.append(["lit", list(p)])
        else:
            _, seed, n = p
            if n <= 0: continue
            if n <= 24:
                b = bytes(genbyte(seed, i) for i in range(n))
                if out and out[-1][0] == "lit": out[-1][1].extend(b)
                else: out.append(["lit", list(b)])
            else: out.append(["gen", seed, 0, n])
    return out
def cut_segs(segs, cuts):
    """split a segment list at absolute positions -> list of segment lists"""
    chunks, cur, pos = [], [], 0
    cuts = sorted(set(c for c in cuts if 0 < c < segs_len(segs)))
    ci = 0
    for s in segs:
        s = list(s);
        while True:
            n = seg_len(s)
            if ci < len(cuts) and cuts[ci] < pos + n:
                k = cuts[ci] - pos
                if s[0] == "lit": a, b = ["lit", s[1][:k]], ["lit", s[1][k:]]
                else: a, b = ["gen", s[1], s[2], k], ["gen", s[1], s[2] + k, s[3] - k]
                if k > 0: cur.append(a)
                chunks.append(cur); cur = []; pos += k; s = b; ci += 1
            else:
                if n > 0: cur.append(s)
                pos += n; break
    chunks.append(cur)
    return [c for c in chunks if c]
def gsegs(segs):
    if not segs: return "(@nil Z)"
    return "(" + " ++ ".join(fw.gbytes(s[1]) if s[0] == "lit" else "genbytes %d %d %d" % (s[1], s[2], s[3]) for s in segs) + ")"

def checksum(b):
    acc = 7
    for x in b: acc = (acc * 31 + x + 1) & 1048575
    return acc
def summ(b):
    b = bytes(b)
    if len(b) <= 48: return [len(b), list(b), 0]
    return [len(b), list(b[:16] + b[-16:]), checksum(b)]

# ------------------------------------------------------------------ independent RFC 8323 / RFC 7252 reference (oracle side)
class FormatError(Exception): pass

def ref_ext(n):
    """RFC 7252 3.1 extended delta/length coding"""
    if n < 13: return n, b""
    if n < 269: return 13, bytes([n - 13])
    if n <= 65804: return 14, (n - 269).to_bytes(2, "big")
    raise FormatError("not encodable")
def ref_enc_options(opts):
    out = b""; cur = 0
    for num, val in opts:
        d, de = ref_ext(num - cur); l, le = ref_ext(len(val))
        out += bytes([(d << 4) | l]) + de + le + bytes(val); cur = num
    return out
def ref_enc_frame(code, token, opts, payload):
    """RFC 8323 3.2: Len nibble | TKL, extended length, code, token, options, 0xFF payload"""
    return ref_raw_frame(code, token, ref_enc_options(opts) + ((b"\xff" + bytes(payload)) if payload else b""))
def ref_raw_frame(code, token, body):
    n = len(body)
    if n < 13: ln, ext = n, b""
    elif n < 269: ln, ext = 13, bytes([n - 13])
    elif n < 65805: ln, ext = 14, (n - 269).to_bytes(2, "big")
    else: ln, ext = 15, (n - 65805).to_bytes(4, "big")
    return bytes([(ln << 4) | len(token)]) + ext + bytes([code]) + bytes(token) + body
def ref_canon(num, val):
    val = bytes(val)
    if num in STR_OPTS:
        try: val.decode("utf-8")
        except UnicodeDecodeError: raise FormatError("string option not UTF-8")
        return val
    if num in UINT_OPTS: return val.lstrip(b"\0")
    return val
def ref_option_order(opts):
    """RFC 7252 3.1: options appear in order of their numbers; repeated options keep the order in which they were added"""
    return sorted(opts, key=lambda o: o[0])
def ref_header(buf):
    """-> (header length incl. code byte, tkl, announced length of options+payload) or None while incomplete"""
    if len(buf) < 1: return None
    ln, tkl = buf[0] >> 4, buf[0] & 15
    if ln < 13: return 2, tkl, ln
    extn, off = {13: (1, 13), 14: (2, 269), 15: (4, 65805)}[ln]
    if len(buf) < 1 + extn: return None
    return 2 + extn, tkl, int.from_bytes(buf[1:1 + extn], "big") + off
def ref_parse_frame(frame):
    hdr, tkl, ln = ref_header(frame)
    if tkl > 8: raise FormatError("tkl")
    code = frame[hdr - 1]; token = frame[hdr:hdr + tkl]; data = frame[hdr + tkl:]
    i = 0; num = 0; opts = []
    while i < len(data):
        b = data[i]; i += 1
        if b == 0xFF: return code, token, opts, data[i:]   # (aiocoap accepts an empty payload after the marker; C01's business)
        vals = []
        for nib in (b >> 4, b & 15):
            if nib < 13: vals.append(nib)
            elif nib == 13:
                if i + 1 > len(data): raise FormatError("truncated")
                vals.append(data[i] + 13); i += 1
            elif nib == 14:
                if i + 2 > len(data): raise FormatError("truncated")
                vals.append(int.from_bytes(data[i:i + 2], "big") + 269); i += 2
            else: raise FormatError("nibble 15")
        num += vals[0]
        if i + vals[1] > len(data): raise FormatError("option exceeds frame")
        opts.append((num, ref_canon(num, data[i:i + vals[1]]))); i += vals[1]
    return code, token, opts, b""

def ev_msg(kind, code, token, opts, payload):
    return [kind, code, list(token), [[n, summ(v)] for n, v in opts], summ(payload)]

class RefReceiver:
    """Expected observable behaviour of an RFC 8323 endpoint, up to and including its first close()."""
    def __init__(self, maxsize):
        self.max = maxsize; self.buf = b""; self.csm = False; self.exp = []; self.done = False; self.why = {}
    def abort(self, reason, bad=None):
        self.why[len(self.exp)] = reason
        self.exp.append(["abort", bad]); self.exp.append(["close"]); self.done = True
    def data(self, b):
        if self.done: return
        self.buf += b
        while not self.done:
            h = ref_header(self.buf)
            if h is None: return
            total = sum(h)
            if total > self.max: return self.abort("oversize")
            if len(self.buf) < total: return
            frame = self.buf[:total]
            try: code, token, opts, payload = ref_parse_frame(frame)
            except FormatError as e: return self.abort("tkl" if str(e) == "tkl" else "unparsable")
            self.buf = self.buf[total:]
            self.message(code, token, opts, payload)
    def message(self, code, token, opts, payload):
        if code >= 0xE0:
            crit = [n for n, _ in opts if n % 2 == 1]
            if code == CSM:
                self.csm = True
                if crit: self.abort("critical-option", crit[0])
            elif code in (PING, PONG, RELEASE, ABORT):
                if crit: self.abort("critical-option")
                elif code == PING: self.why[len(self.exp)] = "pong"; self.exp.append(["w", summ(ref_enc_frame(PONG, token, [], b""))])
                elif code == PONG: pass
                else:
                    self.why[len(self.exp)] = "peer-close"
                    self.exp.append(["err", "PeerReleased" if code == RELEASE else "PeerAborted"]); self.exp.append(["close"]); self.done = True
            else: self.abort("unknown-signalling-code")     # behaviour of the code; the property text does not prescribe it
            return
        if not self.csm: return self.abort("no-csm")
        if code == 0: return
        self.why[len(self.exp)] = "dispatch"
        self.exp.append(ev_msg("resp" if 64 <= code < 192 else "req", code, token, opts, payload))
    def send(self, code, token, opts, payload):
        if self.done: return
        self.why[len(self.exp)] = "serialize"
        self.exp.append(["w", summ(ref_enc_frame(code, token, ref_option_order([(n, ref_canon(n, v)) for n, v in opts]), payload))])
    def send_via(self, code, token, opts, payload):
        """the token-interface entry: RFC 7967 No-Response (option 258) is a local instruction — a response whose class
        bit (2.xx=2, 4.xx=8, 5.xx=16) is set in it is suppressed, and the option never goes on the wire with a response/request"""
        if self.done: return
        nr = [int.from_bytes(v, "big") for n, v in opts if n == 258]
        if 64 <= code < 192 and nr and nr[0] & (1 << ((code >> 5) - 1)):
            self.why.setdefault(("suppressed", len(self.exp)), True); return
        self.why[len(self.exp)] = "serialize-via"
        self.exp.append(["w", summ(ref_enc_frame(code, token, ref_option_order([(n, ref_canon(n, v)) for n, v in opts if n != 258]), payload))])
    def lost(self):
        if self.done: return
        self.exp.append(["err", "ConnectionLost"])

def upto_close(trace):
    for i, e in enumerate(trace):
        if e[0] == "close": return trace[:i + 1]
    return trace

# ------------------------------------------------------------------ the real connection under a fake transport
class FakeTransport:
    def __init__(self, trace): self.trace = trace; self.closed = False
    def write(self, b): self.trace.append(["w", bytes(b)])
    def close(self): self.trace.append(["close"]); self.closed = True
    def is_closing(self): return self.closed
    def abort(self): self.close()
    def get_extra_info(self, k, d=None):
        return {"sockname": ("2001:db8::1", 5683, 0, 0), "peername": ("2001:db8::2", 40000, 0, 0)}.get(k, d)

_log = logging.getLogger("verif-c15"); _log.setLevel(100); _log.propagate = False

def msg_event(kind, m, conn):
    ev = ev_msg(kind, int(m.code), m.token, [(int(o.number), o.encode()) for o in m.opt.option_list()], m.payload)
    if m.remote is not conn: ev.append("wrong-remote")
    return ev

class RecordingTokenManager:
    def __init__(self, trace, conn_ref): self.trace = trace; self.conn_ref = conn_ref
    def _gate(self):
        c = self.conn_ref[0]
        if c._remote_settings is None: self.trace.append(["gate-violation"])
    def process_request(self, m): self._gate(); self.trace.append(msg_event("req", m, self.conn_ref[0])); return True
    def process_response(self, m): self._gate(); self.trace.append(msg_event("resp", m, self.conn_ref[0])); return True
    def dispatch_error(self, exc, remote):
        from aiocoap import error
        if exc is None: kind = "ConnectionLost"
        elif isinstance(exc, error.NetworkError) and isinstance(exc, error.RemoteServerShutdown):
            kind = {"Peer released connection": "PeerReleased", "Peer aborted connection": "PeerAborted"}.get(str(exc.args[0]) if exc.args else "", "other:" + repr(exc))
        else: kind = "not-a-network-error:" + type(exc).__name__
        if remote is not self.conn_ref[0]: kind += ":wrong-remote"
        self.trace.append(["err", kind])

def build_message(code, token, opts, payload):
    import aiocoap
    from aiocoap.numbers import OptionNumber
    m = aiocoap.Message(code=code, _token=bytes(token), payload=bytes(payload))
    for n, v in opts: m.opt.add_option(OptionNumber(n).create_option(decode=bytes(v)))
    return m

def run_real(maxsize, events):
    """events: ('data', bytes) | ('send', code, token, opts, payload) | ('lost',) -> (trace, final state)"""
    from aiocoap.transports import tcp
    trace = []; conn_ref = [None]
    pool = tcp.TCPServer(); pool.log = _log; pool._tokenmanager = RecordingTokenManager(trace, conn_ref)
    conn = tcp.TcpConnection(pool, _log, None, is_server=True); conn_ref[0] = conn; pool._pool.add(conn)
    if maxsize != DEFAULT_MAX: conn._my_max_message_size = maxsize
    tr = FakeTransport(trace)
    def guarded(f, *a):
        try: f(*a); return True
        except Exception as e:
            trace.append(["escaped", type(e).__name__]); return False
    ok = guarded(conn.connection_made, tr)
    for ev in events:
        if not ok: break
        if ev[0] == "data":
            if not tr.closed: ok = guarded(conn.data_received, ev[1])
        elif ev[0] == "send":
            if not tr.closed: ok = guarded(lambda: conn._send_message(build_message(*ev[1:])))
        elif ev[0] == "sendvia":
            if not tr.closed:
                def via():
                    m = build_message(*ev[1:]); m.remote = conn
                    pool.send_message(m, lambda: None)
                ok = guarded(via)
        else: ok = guarded(conn.connection_lost, None)
    rs = conn._remote_settings
    final = {"spool": summ(conn._spool), "settings": None if rs is None else [rs.get("max-message-size"), bool(rs.get("block-wise-transfer", False))],
             "closed": tr.closed}
    return [(["w", summ(e[1])] if e[0] == "w" else e) for e in trace], final, [e for e in trace]

def ev_to_real(ev):
    if ev[0] == "data": return ("data", segs_bytes(ev[1]))
    if ev[0] in ("send", "sendvia"): return (ev[0], ev[1]["code"], bytes(ev[1]["token"]), [(n, bytes(v)) for n, v in ev[1]["opts"]], segs_bytes(ev[1]["payload"]))
    return ("lost",)
def variants(inp):
    """which runs a conn case consists of: the given history, the unchunked one, the byte-by-byte one"""
    evs = inp["events"]; vs = [("given", evs)]
    if evs and all(e[0] == "data" for e in evs):
        allsegs = [s for e in evs for s in e[1]]
        vs.append(("whole", [["data", allsegs]]))
        n = segs_len(allsegs)
        if n <= inp.get("bytewise_limit", 160) and len(evs) != n:
            vs.append(("bytes", [["data", c] for c in cut_segs(allsegs, range(1, n))]))
    return vs

# ------------------------------------------------------------------ generator
def utf8_samples(rng):
    pool = ["", "a", "temp", "sensors", "ä", "€", "\U0001f600", "x" * 12, "y" * 13, "z" * 20, "߿ࠀ￿", "core", ".well-known"]
    return rng.choice(pool).encode("utf-8")
BAD_UTF8 = [b"\xff", b"\xc0\x80", b"\xe0\x80\x80", b"\xed\xa0\x80", b"\xf4\x90\x80\x80", b"\xc2", b"a\x80", b"\xf8\x88\x80\x80\x80", b"\xe2\x82"]
OPT_POOL = [1, 3, 4, 5, 6, 7, 8, 9, 11, 12, 13, 14, 15, 16, 17, 19, 20, 21, 23, 27, 28, 31, 35, 39, 60, 252, 258, 292, 548, 2, 10, 65000]

def gen_value(rng, num, long_ok=True):
    if num in STR_OPTS: return utf8_samples(rng)
    if num in UINT_OPTS:
        v = rng.choice([0, 1, 5, 255, 256, 65535, 65536, 2 ** 24 - 1, 2 ** 32 - 1, rng.randrange(2 ** 40)])
        b = v.to_bytes((v.bit_length() + 7) // 8, "big")
        if rng.random() < 0.15: b = b"\0" * rng.randint(1, 2) + b     # non-minimal encodings decode to the same value
        return b
    n = rng.choice([0, 0, 1, 2, 3, 8, 12, 13, 14, 20] + ([268, 269, 270, 300] if long_ok and rng.random() < 0.3 else []))
    return bytes(rng.randrange(256) for _ in range(n))
def gen_opts(rng, maxn=4):
    k = rng.choice([0, 0, 1, 1, 2, 3, maxn])
    nums = sorted(rng.choice(OPT_POOL) for _ in range(k))
    return [(n, gen_value(rng, n)) for n in nums]

BOUNDARY_LENS = [0, 1, 11, 12, 13, 14, 267, 268, 269, 270]
HUGE_LENS = [65803, 65804, 65805, 65806, 66000]
def payload_for_total(rng, optbytes, total):
    """payload length such that options+marker+payload has length `total` (or as close as possible)"""
    n = total - len(optbytes) - 1
    return max(0, n)

def gen_message(rng, kind, huge=False):
    """-> dict(code, token, opts, payload parts)"""
    tkl = rng.choice([0, 0, 1, 2, 4, 8, 8, rng.randint(0, 8)])
    token = bytes(rng.randrange(256) for _ in range(tkl))
    if kind == "request": code = rng.choice([1, 2, 3, 4, 5, 6, 7, 31, 1, 1])
    elif kind == "response": code = rng.choice([65, 68, 69, 95, 128, 132, 160, 165, 191, 64])
    elif kind == "empty": code = 0
    elif kind == "oddcode": code = rng.choice([32, 63, 192, 200, 223])
    else: code = kind
    opts = gen_opts(rng)
    if isinstance(kind, int):       # signalling: mostly option-free / with the defined options
        opts = []
        r = rng.random()
        if kind == CSM:
            if r < 0.7: opts.append((2, rng.choice([b"", b"\x04\x80", b"\x10\x00\x00", b"\x00\x10\x00", bytes([rng.randrange(256)]), b"\x01\x00\x00\x00\x00"])))
            if rng.random() < 0.5: opts.append((4, b""))
            if rng.random() < 0.15: opts.append((rng.choice([6, 8, 10, 64, 1000]), gen_value(rng, 9, False)))
            if rng.random() < 0.15: opts.append((rng.choice([1, 3, 5, 7, 9, 11, 301, 65001]), rng.choice([b"", b"a", b"ab"])))
            opts.sort(key=lambda o: o[0])
        else:
            if r < 0.12: opts.append((rng.choice([2, 4, 6, 100]), gen_value(rng, 9, False)))
            elif r < 0.24: opts.append((rng.choice([1, 3, 5, 9, 301]), rng.choice([b"", b"a"])))
            if rng.random() < 0.05: opts.append((opts[-1][0] + rng.choice([0, 1, 2]) if opts else 1, b""))
    optbytes = ref_enc_options([(n, v) for n, v in opts])
    r = rng.random()
    if huge: total = rng.choice(HUGE_LENS)
    elif r < 0.45: total = rng.choice(BOUNDARY_LENS)
    elif r < 0.9: total = rng.randint(0, 40)
    else: total = rng.randint(200, 400)
    if isinstance(kind, int) and rng.random() < 0.7 and not huge: total = len(optbytes)
    plen = payload_for_total(rng, optbytes, total)
    seed = rng.randrange(256)
    return {"code": code, "token": token, "opts": opts, "payload": ("gen", seed, plen)}
def frame_parts(m):
    pay = bytes(genbyte(m["payload"][1], i) for i in range(m["payload"][2])) if m["payload"][2] <= 24 else None
    n = len(ref_enc_options(m["opts"])) + (1 + m["payload"][2] if m["payload"][2] else 0)
    if pay is not None: return [ref_enc_frame(m["code"], m["token"], m["opts"], pay)]
    head = ref_enc_frame(m["code"], m["token"], m["opts"], b"\0" * m["payload"][2])[: -m["payload"][2]]
    return [head, m["payload"]]

def gen_bad(rng, maxsize):
    """a malformed / oversized item -> parts"""
    k = rng.choice(["oversize", "oversize", "tkl", "tkl", "nibble15", "trunc-opt", "trunc-ext", "utf8", "utf8"])
    if k == "oversize":
        # announce maxsize+1 .. (header only, or header + some bytes)
        want = maxsize + rng.choice([1, 1, 2, 100])
        tkl = rng.choice([0, 1, 8])
        for hdr in (2, 3, 4, 6):
            ln = want - hdr - tkl
            if ln < 0: continue
            try_frame = None
            if hdr == 2 and ln < 13: try_frame = bytes([(ln << 4) | tkl])
            elif hdr == 3 and 13 <= ln < 269: try_frame = bytes([0xD0 | tkl, ln - 13])
            elif hdr == 4 and 269 <= ln < 65805: try_frame = bytes([0xE0 | tkl]) + (ln - 269).to_bytes(2, "big")
            elif hdr == 6 and 65805 <= ln < 65805 + 2 ** 32: try_frame = bytes([0xF0 | tkl]) + (ln - 65805).to_bytes(4, "big")
            if try_frame is not None:
                tail = bytes(rng.randrange(256) for _ in range(rng.choice([0, 0, 1, 3])))
                return [try_frame + tail]
        return [b"\xff\xff\xff\xff\xff"]
    if k == "tkl":
        tkl = rng.randint(9, 15); body = bytes(rng.randrange(256) for _ in range(rng.choice([0, 1, 5])))
        ln = len(body)
        return [bytes([(ln << 4) | tkl, rng.choice([1, 69, 0, 0xE2])]) + bytes(tkl) + body]
    code = rng.choice([1, 2, 69, 0, CSM, PING])
    if k == "nibble15": body = rng.choice([b"\xf1a", b"\x1f", b"\xf0", b"\xb1a\xfe"])
    elif k == "trunc-opt": body = rng.choice([b"\xb3ab", b"\x01", b"\xb1a\x05abcd", b"\xd1\x00"])
    elif k == "trunc-ext": body = rng.choice([b"\xd0", b"\xe0\x00", b"\x0d", b"\x0e\x01", b"\xdd\x00"])
    else:
        v = rng.choice(BAD_UTF8); num = rng.choice([3, 11, 11, 15])
        if code >= 0xE0: code = 1
        body = ref_enc_options([(num, v)])
    token = bytes(rng.randrange(256) for _ in range(rng.choice([0, 0, 2])))
    return [ref_raw_frame(code, token, body)]

def gen_structured(rng, tier):
    maxsize = rng.choice([DEFAULT_MAX] * 5 + [20, 40, 300, 1152])
    huge = tier == "thorough" and rng.random() < 0.02 or (tier == "quick" and rng.random() < 0.006)
    if huge: maxsize = DEFAULT_MAX
    items = []     # list of part-lists, one per frame
    if rng.random() < 0.9: items.append(frame_parts(gen_message(rng, CSM)))
    n = rng.randint(1, 6)
    for j in range(n):
        r = rng.random()
        if r < 0.30: kind = "request"
        elif r < 0.48: kind = "response"
        elif r < 0.56: kind = "empty"
        elif r < 0.60: kind = "oddcode"
        elif r < 0.70: kind = PING
        elif r < 0.75: kind = PONG
        elif r < 0.80: kind = CSM
        elif r < 0.85: kind = RELEASE
        elif r < 0.89: kind = ABORT
        elif r < 0.92: kind = rng.choice([0xE0, 0xE6, 0xFF, 0xF0])
        else: kind = "bad"
        if kind == "bad": items.append(gen_bad(rng, maxsize))
        else:
            m = gen_message(rng, kind, huge=(huge and j == 0))
            parts = frame_parts(m)
            if maxsize < DEFAULT_MAX and rng.random() < 0.5:
                # steer a frame to exactly maxsize / maxsize+1 bytes
                base = len(ref_enc_frame(m["code"], m["token"], m["opts"], b""))
                target = maxsize + rng.choice([0, 0, 1])
                for plen in range(max(0, target - base - 8), target):
                    mm = dict(m); mm["payload"] = ("gen", m["payload"][1], plen)
                    L = sum(len(p) if isinstance(p, bytes) else p[2] for p in frame_parts(mm))
                    if L == target: parts = frame_parts(mm); break
            items.append(parts)
    return maxsize, items

def chunkings(rng, segs, boundaries):
    n = segs_len(segs)
    if n <= 1: return [segs] if segs else []
    mode = rng.random()
    if mode < 0.12: cuts = []
    elif mode < 0.27: cuts = boundaries
    elif mode < 0.42 and n <= 400: cuts = range(1, n)
    elif mode < 0.62:
        cuts = set()
        for b in boundaries + [0]:
            for d in (-1, 1, 2, 3, 5):
                if rng.random() < 0.5: cuts.add(b + d)
    elif mode < 0.8: cuts = [rng.randrange(1, n) for _ in range(rng.randint(1, 6))]
    else:
        step = rng.choice([1, 2, 3, 7, 10, 20, 40, 1000]); cuts = range(step, n, step) if n // step <= 400 else boundaries
    return cut_segs(segs, cuts)

def gen_conn_case(rng, tier):
    r = rng.random()
    if r < 0.75:
        maxsize, items = gen_structured(rng, tier)
        parts = [p for it in items for p in it]
    elif r < 0.9:
        # mutation of a structured stream: flip / drop / insert a byte
        maxsize, items = gen_structured(rng, "quick")
        raw = bytearray(b"".join(p if isinstance(p, bytes) else bytes(genbyte(p[1], i) for i in range(p[2])) for it in items for p in it)[:600])
        for _ in range(rng.randint(1, 2)):
            if not raw: break
            i = rng.randrange(len(raw)); k = rng.random()
            if k < 0.5: raw[i] ^= 1 << rng.randrange(8)
            elif k < 0.75: del raw[i]
            else: raw.insert(i, rng.choice([0, 0xFF, 0xD0, 0xE1, 0x0F, rng.randrange(256)]))
        items = [[bytes(raw)]]; parts = [bytes(raw)]
    else:
        maxsize = rng.choice([DEFAULT_MAX, 40, 300])
        n = rng.randint(1, 40)
        raw = bytes(rng.choice([0, 1, 2, 0x10, 0x11, 0x21, 0xD0, 0xE0, 0xF0, 0xE1, 0xE2, 0xFF, 0x45, rng.randrange(256)]) for _ in range(n))
        if rng.random() < 0.6: raw = bytes([0x00, 0xE1]) + raw
        items = [[raw]]; parts = [raw]
    segs = mk_segs(parts)
    bounds, pos = [], 0
    for it in items:
        pos += sum(len(p) if isinstance(p, bytes) else p[2] for p in it); bounds.append(pos)
    chunks = chunkings(rng, segs, bounds[:-1])
    events = [["data", c] for c in chunks]
    if rng.random() < 0.25 and events:
        for _ in range(rng.randint(1, 2)):
            m = gen_message(rng, rng.choice(["request", "response", PING, PONG, RELEASE, "empty", CSM]))
            ev = ["send", {"code": m["code"], "token": list(m["token"]), "opts": insertion_order(rng, [[n, list(sendable(n, v))] for n, v in m["opts"]]),
                           "payload": mk_segs([m["payload"]])}]
            events.insert(rng.randint(0, len(events)), ev)
    if rng.random() < 0.2 and events:
        for _ in range(rng.randint(1, 2)):
            m = gen_message(rng, rng.choice(["response", "response", "request"]))
            opts = [[n, list(sendable(n, v))] for n, v in m["opts"] if n != 258]
            if rng.random() < 0.8:
                for _k in range(rng.choice([1, 1, 2])): opts.append([258, list(rng.choice([b"", b"\x02", b"\x08", b"\x10", b"\x1a", b"\x18", b"\x00\x02", b"\x7f", b"\x01\x02"]))])
            ev = ["sendvia", {"code": m["code"], "token": list(m["token"]), "opts": insertion_order(rng, sorted(opts, key=lambda o: o[0])), "payload": mk_segs([m["payload"]])}]
            events.insert(rng.randint(0, len(events)), ev)
    if rng.random() < 0.15: events.insert(rng.randint(max(0, len(events) - 1), len(events)), ["lost"])
    return {"max": maxsize, "events": events}

def exhaustive_cases():
    """every chunking (all subsets of the first min(n-1, 10) cut positions) of some short streams"""
    H = bytes.fromhex
    streams = [
        (DEFAULT_MAX, H("00e1") + H("1101aa") + H("00e2")),                 # CSM, GET with token aa, Ping
        (DEFAULT_MAX, H("20e12110") + H("0000") + H("2145ff55")),           # CSM{2: 0x10}, empty message, 2.05 with token and payload
        (DEFAULT_MAX, H("00e1") + H("d00001ff") + bytes(12)),               # extended length 13: marker + 12 payload bytes
        (DEFAULT_MAX, H("00e1") + H("01e277") + H("00e4") + H("0001")),     # Ping with token, Release, request after it
        (8, H("00e1") + H("7001") + bytes(7)),                              # frame of 9 bytes, local maximum 8
        (DEFAULT_MAX, H("0001") + H("00e1")),                               # request before CSM
        (DEFAULT_MAX, H("10e110") + H("0001")),                             # CSM with unknown critical option 1, then a request
        (DEFAULT_MAX, H("00e1") + H("0901") + bytes(9)),                    # TKL 9
        (DEFAULT_MAX, H("00e1") + H("2001b1ff") + H("0001")),               # invalid UTF-8 in Uri-Path
    ]
    for maxsize, raw in streams:
        n = len(raw); k = min(n - 1, 10)       # every subset of the first 10 cut positions (the rest arrives in one piece)
        for mask in range(2 ** k):
            cuts = [i + 1 for i in range(k) if mask >> i & 1]
            yield "conn", {"max": maxsize, "events": [["data", c] for c in cut_segs([["lit", list(raw)]], cuts)], "bytewise_limit": 0}

def sendable(n, v):
    """outgoing string options must be text"""
    if n in STR_OPTS:
        try: bytes(v).decode("utf-8")
        except UnicodeDecodeError: return b"ok"
    return v

def insertion_order(rng, opts):
    """outgoing options are added to the message in any order (option_list() sorts them, stably)"""
    opts = list(opts)
    if rng.random() < 0.5: rng.shuffle(opts)
    return opts

def gen_kernel_case(rng, k):
    r = k % 6
    if r == 0:
        n = rng.choice([0, 1, 12, 13, 14, 268, 269, 270, 65804, 65805, 65806, 65805 + 2 ** 32 - 1, 65805 + 2 ** 32, rng.randrange(0, 70000), rng.randrange(0, 2 ** 33)])
        return {"op": "encode_length", "n": n}
    if r == 1:
        n = rng.choice([0, 1, 2, 3, 5, 7])
        first = rng.choice([rng.randrange(256), 0xD0 | rng.randrange(16), 0xE0 | rng.randrange(16), 0xF0 | rng.randrange(16)])
        data = ([first] + [rng.choice([0, 255, rng.randrange(256)]) for _ in range(n - 1)]) if n else []
        return {"op": "extract", "data": data}
    if r == 2:
        m = gen_message(rng, rng.choice(["request", "response", PING, CSM, "empty"]))
        tok = list(m["token"]) + ([0] * rng.randint(1, 3) if rng.random() < 0.1 and len(m["token"]) == 8 else [])
        return {"op": "serialize", "code": m["code"], "token": tok, "opts": insertion_order(rng, [[n, list(sendable(n, v))] for n, v in m["opts"]]), "payload": mk_segs([m["payload"]])}
    if r == 3:
        m = gen_message(rng, rng.choice(["request", "response", PING, CSM, "empty"]))
        frame = bytearray(b"".join(p if isinstance(p, bytes) else bytes(genbyte(p[1], i) for i in range(p[2])) for p in frame_parts(m))[:500])
        if rng.random() < 0.5 and frame:
            i = rng.randrange(len(frame)); frame[i] ^= 1 << rng.randrange(8)
        # keep it a complete frame (as data_received would pass it): fix up by re-reading the header
        h = ref_header(bytes(frame))
        if h is None or sum(h) > len(frame) : frame = bytearray(ref_enc_frame(m["code"], m["token"], m["opts"], b"ab"))
        else: frame = frame[:sum(h)]
        return {"op": "decode", "frame": list(frame)}
    if r == 4:
        num = rng.choice(OPT_POOL + list(range(0, 64)) + [rng.randrange(0, 65000)])
        val = rng.choice([gen_value(rng, num), rng.choice(BAD_UTF8), utf8_samples(rng), bytes(rng.randrange(256) for _ in range(rng.randint(0, 6)))])
        return {"op": "option_value", "number": num, "value": list(val)}
    nums = [rng.randrange(0, 600) for _ in range(40)]
    return {"op": "format_table", "numbers": nums}


class C15(fw.Property):
    id = "C15"
    coq_props = "Props/C15.v"
    gen_jobs = ["tcp_framing", "options_ext"]
    model_imports = ["Verif.Lib.Py", "Verif.Gen.options_ext", "Verif.Gen.tcp_framing", "Verif.Model.C15", "Verif.Model.C15Sys"]
    quick_budget = 330
    thorough_budget = 9000
    design_ref = "DESIGN.md section 19"
    technique = ("Coq proofs over the length coding translated from tcp.py/options.py (tie T) and a hand-written model of TcpConnection.data_received / "
                 "RFC8323Remote._process_signaling / _TCPPooling._dispatch_incoming (tie C: event histories through the real TcpConnection with a fake "
                 "stream transport vs vm_compute of the model); independent RFC 8323 reference receiver as oracle")
    level_text = ("Theorems (closed under the global context): length coding round trip at 13/269/65805 and RFC 8323 3.2 format of _serialize; decode(serialize m) = m; "
                  "data_received is a homomorphism over chunking (any segmentation of a stream gives the same outputs up to the first close); a stream of serialised "
                  "messages is processed exactly as the message sequence; CSM gate; Abort+close on oversize / TKL>8 / unparsable / critical signalling option; "
                  "Ping->Pong with same token; Release/Abort -> error to token manager + close; empty messages ignored; a close() is the last output of a data_received call "
                  "(nothing after the own Abort), hence the complete outputs are segmentation independent, also in histories interleaved with outgoing messages / loss; "
                  "CSM gate over every event history; totality: Options.decode / _decode_message raise nothing but UnparsableMessage on any byte string and no exception "
                  "leaves data_received in any state on any chunk (local maximum <= 2^40); _serialize layout and decode round trip for options added in any order (option_list).")
    level_note = ("Trusted: Coq kernel + vm_compute; translator + Lib/Py.v (validated by stream kernels); hand model Model/C15.v (validated by stream conn); fake asyncio.Transport "
                  "(delivers no data after close(), like the selector transport); option formats as a fixed table (validated by format_table cases).")
    rule = ("conn: structured streams (CSM, requests, responses, empty, all signalling codes incl. unknown, options of every format, lengths at 12/13/14/268/269/270 and "
            "occasionally 65804/65805/65806, local maximum 20/40/300/1152/1MiB with frames at max and max+1) with a malformed/oversized item at a random position in ~1/3 "
            "of the cases, byte mutations of such streams, and random byte strings; chunked whole / per frame / byte-wise / around frame boundaries / random / fixed stride; "
            "outgoing messages and connection loss interleaved; each data-only history is additionally run unchunked and (<=160 bytes) byte by byte. thorough adds every chunking (all subsets of the first 10 cut positions) "
            "of nine short streams. conn also drives pool.send_message (No-Response option 258 masking / removal). kernels: function-level cases. "
            "pending (40 per quick run): requests on two pooled client connections, some observing, some answered, then Release / Abort / diagnostic Abort / chunked Release / "
            "loss / response+Release in one segment / Release+response / own Abort (TKL, oversize) with and without the following connection_lost / unmatched response; "
            "compared with Model/C15Sys (Pipe events in order, pool, outgoing_requests, close flags); non-trivial = some request failed. Non-trivial conn case = at least one message dispatched or signalling reaction observed, "
            "distinct by the normalised trace; kernels distinct by input.")
    trusted_base = ["translator translate/py2v.py + Lib/Py.v prelude (validated by the kernels stream on every run)",
                    "hand-written Model/C15.v (validated by the conn stream: full traces, spool, settings, close state) and Model/C15Sys.v (pool + token manager table, validated by the pending stream)",
                    "fake stream transport: write/close recorded, no data delivered after close(); token manager replaced by a recorder (conn) / real TokenManager (pending)",
                    "CPython's UTF-8 decoder modelled as Unicode table 3-7 (validated by option_value cases)"]
    assumptions = ["after the endpoint's own Abort + close() the requests outstanding on that connection fail when the transport calls connection_lost (asyncio does, after close()); the fake transport delivers it as a separate 'lost' event",
                   "TokenManager.incoming_requests stoppers (server side of dispatch_error, tokenmanager.py:106-108) and _dispatch_error with _tokenmanager None (shutdown) are not modelled",
                   "_abort_with while _transport is None (tcp.py:128-133, only reachable before connection_made / from shutdown paths) is not modelled; data_received cannot run in that state",
                   "a payload marker followed by an empty payload is accepted (as Options.decode does; C01's domain)"]

    def gen_cases(self, tier, rng, n):
        n_kernel = n // 4
        for k in range(n - n_kernel): yield "conn", gen_conn_case(rng, tier)
        for k in range(n_kernel): yield "kernels", gen_kernel_case(rng, k)
        for k in range(40 if tier == "quick" else max(40, n // 12)): yield "pending", gen_pending_case(rng)
        if tier == "thorough":
            yield from exhaustive_cases()

    # ---------------------------------------------------------------- implementation
    def impl(self, stream, inp):
        if stream == "conn":
            out = {}
            for name, evs in variants(inp):
                trace, final, _ = run_real(inp["max"], [ev_to_real(e) for e in evs])
                out[name] = {"trace": trace, "final": final}
            return out
        if stream == "kernels": return self.impl_kernel(inp)
        return run_pending(inp)

    def impl_kernel(self, inp):
        from aiocoap.transports import tcp
        from aiocoap import error
        from aiocoap.numbers import OptionNumber
        op = inp["op"]
        def guard(f):
            try: return f()
            except Exception as e: return "exn:" + type(e).__name__
        if op == "encode_length":
            def f():
                a, b = tcp._encode_length(inp["n"]); return [a, list(b)]
            return guard(f)
        if op == "extract":
            def f():
                r = tcp._extract_message_size(bytes(inp["data"])); return None if r is None else list(r)
            return guard(f)
        if op == "serialize":
            def f():
                m = build_message(inp["code"], inp["token"], [(n, bytes(v)) for n, v in inp["opts"]], segs_bytes(inp["payload"]))
                raw = tcp._serialize(m)
                back = tcp._decode_message(raw)
                return {"bytes": summ(raw), "roundtrip": msg_event("m", back, None)[:5]}
            return guard(f)
        if op == "decode":
            def f():
                m = tcp._decode_message(bytes(inp["frame"])); return msg_event("m", m, None)[:5]
            return guard(f)
        if op == "option_value":
            def f():
                from aiocoap.options import Options
                o = Options(); rest = o.decode(ref_enc_options([(inp["number"], bytes(inp["value"]))]))
                (opt,) = list(o.option_list()); assert rest == b"" and int(opt.number) == inp["number"]
                return list(opt.encode())
            return guard(f)
        if op == "format_table":
            from aiocoap import optiontypes
            def cls(n):
                f = OptionNumber(n).format
                if f is optiontypes.StringOption: return "FString"
                if f is optiontypes.OpaqueOption: return "FOpaque"
                if f in (optiontypes.UintOption, optiontypes.BlockOption, optiontypes.ContentFormatOption): return "FUint"
                return "other:" + f.__name__
            return [cls(n) for n in inp["numbers"]]
        raise ValueError(op)

    # ---------------------------------------------------------------- model
    def gmsg(self, code, token, opts, payload_segs):
        return "{| code := %d; token := %s; opts := %s; payload := %s |}" % (
            code, fw.gbytes(token), glist(["(%d, %s)" % (n, fw.gbytes(v)) for n, v in opts]), gsegs(payload_segs))
    def gevents(self, evs):
        items = []
        for e in evs:
            if e[0] == "data": items.append("EData %s" % gsegs(e[1]))
            elif e[0] == "send": items.append("ESend %s" % self.gmsg(e[1]["code"], e[1]["token"], e[1]["opts"], e[1]["payload"]))
            elif e[0] == "sendvia": items.append("ESendVia %s" % self.gmsg(e[1]["code"], e[1]["token"], e[1]["opts"], e[1]["payload"]))
            else: items.append("ELost")
        return glist(items)
    def model(self, stream, inp):
        if stream == "conn":
            return glist(["report (run_conn %d %s)" % (inp["max"], self.gevents(evs)) for _, evs in variants(inp)])
        if stream == "pending": return model_pending(inp)
        op = inp["op"]
        if op == "encode_length": return "encode_length %s" % gz(inp["n"])
        if op == "extract": return "extract_message_size %s" % fw.gbytes(inp["data"])
        if op == "serialize":
            return ("match normalize_opts %s with Raise e => Raise e | Ok os => let m := {| code := %d; token := %s; opts := os; payload := %s |} in "
                    "match serialize m with Raise e => Raise e | Ok b => match decode_message b with Raise e => Raise e | Ok m' => "
                    "Ok (summ b, (code m', token m', summ_opts (opts m'), summ (payload m'))) end end end"
                    % (glist(["(%d, %s)" % (n, fw.gbytes(v)) for n, v in inp["opts"]]), inp["code"], fw.gbytes(inp["token"]), gsegs(inp["payload"])))
        if op == "decode":
            return ("match decode_message %s with Raise e => Raise e | Ok m' => Ok (code m', token m', summ_opts (opts m'), summ (payload m')) end" % fw.gbytes(inp["frame"]))
        if op == "option_value": return "option_value %d %s" % (inp["number"], fw.gbytes(inp["value"]))
        if op == "format_table": return "map format_of %s" % fw.gbytes(inp["numbers"])
    def decode(self, stream, inp, p):
        p = fw.plain(p)
        def dsumm(s): return [s[0], list(s[1]), s[2]]
        def dmsg(kind, a): return [kind, a[0], list(a[1]), [[n, dsumm(s)] for n, s in a[2]], dsumm(a[3])]
        def dec_out(o):
            if o == "SCloseT": return ["close"]
            c, a = o["c"], o["a"]
            if c == "SWrite": return ["w", dsumm(a[0])]
            if c == "SRequest": return dmsg("req", a)
            if c == "SResponse": return dmsg("resp", a)
            if c == "SError": return ["err", a[0]]
            return ["escaped", a[0] if isinstance(a[0], str) else "OtherError"]
        if stream == "pending":
            outs, pool, outgoing, closed = p
            trace = []
            for o in outs:
                c, a = o["c"], o["a"]
                if c == "RConn": trace.append(["conn", a[0], dec_out(a[1])])
                elif c == "RResponse": trace.append(["resp", list(a[0]), a[1], a[2], a[3]])
                else:
                    d = a[2]
                    if d["c"] == "DAsIs": kind = ["asis", "shutdown", d["a"][0]["a"][0]] if isinstance(d["a"][0], dict) else ["asis", "none"]
                    else: kind = ["wrapped", "none"] if d["a"][0] == "XNone" else ["wrapped", "shutdown", d["a"][0]["a"][0]]
                    trace.append(["fail", list(a[0]), a[1], kind])
            return {"trace": trace, "final": {"pool": list(pool), "outgoing": [[list(t), i] for t, i in outgoing], "closed": [[i, b] for i, b in closed]},
                    "loop_exceptions": 0}
        if stream == "conn":
            out = {}
            for (name, _), rep in zip(variants(inp), p):
                outs, spool, settings, closed = rep
                trace = [dec_out(o) for o in outs]
                if settings == "None": st = None
                else:
                    mms, bwt = settings["a"][0]
                    st = [None if mms == "None" else mms["a"][0], bwt]
                out[name] = {"trace": trace, "final": {"spool": dsumm(spool), "settings": st, "closed": closed}}
            return out
        def mres(x, f):
            if isinstance(x, dict) and x.get("c") == "Raise": return "exn:" + (x["a"][0] if isinstance(x["a"][0], str) else "OtherError")
            return f(x["a"][0])
        op = inp["op"]
        if op == "encode_length": return mres(p, lambda v: [v[0], list(v[1])])
        if op == "extract": return mres(p, lambda v: None if v == "None" else list(v["a"][0]))
        if op == "serialize": return mres(p, lambda v: {"bytes": dsumm(v[0:3]), "roundtrip": dmsg("m", v[3])})
        if op == "decode": return mres(p, lambda v: dmsg("m", v))
        if op == "option_value": return mres(p, lambda v: list(v))
        if op == "format_table": return list(p)

    # ---------------------------------------------------------------- oracle
    def norm(self, trace):
        """writes that are Abort messages -> ['abort', bad-csm-option]; needs the raw bytes only for short writes (aborts are short)"""
        out = []
        for e in trace:
            if e[0] == "w" and e[1][0] <= 48:
                raw = bytes(e[1][1])
                try:
                    h = ref_header(raw)
                    if h is not None and sum(h) == len(raw):
                        code, token, opts, payload = ref_parse_frame(raw)
                        if code == ABORT:
                            bad = [int.from_bytes(v, "big") for n, v in opts if n == 2]
                            out.append(["abort", bad[0] if bad else None]); continue
                except FormatError: pass
            out.append(e)
        return out
    def oracle(self, stream, inp, res):
        if isinstance(res, dict) and "harness_exception" in res:
            return ("C15:crash:" + res["where"], "harness/implementation raised %s: %s" % (res["harness_exception"], res.get("text")))
        if stream == "conn": return self.oracle_conn(inp, res)
        if stream == "kernels": return self.oracle_kernel(inp, res)
        return oracle_pending(inp, res)

    def oracle_conn(self, inp, res):
        # reference behaviour of the given history
        ref = RefReceiver(inp["max"])
        ref.exp.append(["w", summ(ref_enc_frame(CSM, b"", [(2, inp["max"].to_bytes((inp["max"].bit_length() + 7) // 8, "big")), (4, b"")], b""))])
        for e in inp["events"]:
            r = ev_to_real(e)
            if r[0] == "data": ref.data(r[1])
            elif r[0] == "send": ref.send(*r[1:])
            elif r[0] == "sendvia": ref.send_via(*r[1:])
            else: ref.lost()
        full = self.norm(res["given"]["trace"])
        got = upto_close(full)
        for e in full:
            if e[0] == "escaped": return ("C15:exception-escapes:" + e[1], "%s left the connection's entry point" % e[1])
            if e[0] == "gate-violation": return ("C15:dispatch-before-csm", "a message was handed to the token manager while no CSM had been received")
            if e[0] in ("req", "resp") and len(e) > 5: return ("C15:wrong-remote", "dispatched message does not carry the connection as remote")
            if e[0] == "err" and (e[1].startswith("not-a-network-error") or e[1].startswith("other") or e[1].endswith("wrong-remote")):
                return ("C15:peer-close-not-network-error", "error handed to the token manager: %s" % e[1])
        for i, e in enumerate(full):
            if e[0] == "abort" and (i + 1 >= len(full) or full[i + 1] != ["close"]):
                return ("C15:abort-without-close", "Abort written but the transport is not closed right after it")
        exp = ref.exp
        if got != exp:
            i = 0
            while i < len(got) and i < len(exp) and got[i] == exp[i]: i += 1
            g = got[i] if i < len(got) else ["nothing"]; x = exp[i] if i < len(exp) else ["nothing"]
            why = ref.why.get(i, "")
            if g[0] == "w" and ref.why.get(("suppressed", i)): sig = "C15:masked-response-sent"
            elif g[0] in ("req", "resp") and g[1] == 0: sig = "C15:empty-dispatched"
            elif x[0] == "abort" and why == "no-csm" and g[0] in ("req", "resp"): sig = "C15:dispatch-before-csm"
            elif x[0] == "abort" and g[0] != "abort": sig = "C15:%s-not-aborted" % why
            elif x[0] == "abort": sig = "C15:abort-differs:%s" % why
            elif x[0] in ("req", "resp") and g[0] in ("req", "resp"): sig = "C15:dispatched-message-differs"
            elif x[0] in ("req", "resp"): sig = "C15:message-not-dispatched:got-%s" % g[0]
            elif g[0] in ("req", "resp"): sig = "C15:spurious-dispatch"
            elif why == "pong": sig = "C15:ping-not-answered-by-pong-with-same-token"
            elif why == "serialize": sig = "C15:serialize-not-rfc8323"
            elif why == "serialize-via": sig = "C15:send-message-no-response-handling"
            elif why == "peer-close" or x[0] == "err": sig = "C15:peer-release-abort-not-propagated"
            elif g[0] == "abort": sig = "C15:spurious-abort"
            else: sig = "C15:trace-differs:expected-%s-got-%s" % (x[0], g[0])
            return (sig, "event %d up to the first close: RFC 8323 reference expects %s, implementation did %s" % (i, fw.jdump(x)[:300], fw.jdump(g)[:300]))
        # segmentation independence
        for name in ("whole", "bytes"):
            if name in res:
                other = self.norm(res[name]["trace"])
                if upto_close(other) != got:
                    return ("C15:chunking-dependent", "outputs up to the first close differ between the given chunking and '%s'" % name)
                if other != full:
                    return ("C15:chunking-dependent", "complete outputs differ between the given chunking and '%s'" % name)
                if not res[name]["final"]["closed"] and not res["given"]["final"]["closed"] and res[name]["final"] != res["given"]["final"]:
                    return ("C15:chunking-dependent-state", "spool/settings differ between the given chunking and '%s'" % name)
        # nothing happens after the endpoint's own Abort
        for i, e in enumerate(full):
            if e[0] == "abort":
                later = [x for x in full[i + 2:] if x[0] in ("req", "resp", "w", "abort")]
                if later:
                    return ("C15:activity-after-own-abort", "after sending Abort and closing, the endpoint still did %s" % fw.jdump(later[0])[:200])
                break
        return None

    def oracle_kernel(self, inp, res):
        op = inp["op"]
        if op == "encode_length":
            n = inp["n"]
            if n >= 65805 + 2 ** 32: return None if res == "exn:OverflowError" else ("C15:encode-length-range", "length %d: %r" % (n, res))
            if n < 13: want = [n, []]
            elif n < 269: want = [13, [n - 13]]
            elif n < 65805: want = [14, list((n - 269).to_bytes(2, "big"))]
            else: want = [15, list((n - 65805).to_bytes(4, "big"))]
            if res != want: return ("C15:encode-length-not-rfc8323", "_encode_length(%d) = %r, RFC 8323 3.2: %r" % (n, res, want))
            back = None
            try:
                from aiocoap.transports import tcp
                back = tcp._extract_message_size(bytes([res[0] << 4]) + bytes(res[1]) + b"\x01")
            except Exception as e: back = "exn:" + type(e).__name__
            if back != (2 + len(res[1]), 0, n): return ("C15:length-roundtrip", "length %d encodes to %r but reads back as %r" % (n, res, back))
            return None
        if op == "extract":
            h = ref_header(bytes(inp["data"]))
            want = None if h is None else [h[0], h[1], h[2]]
            if res != want: return ("C15:extract-message-size", "_extract_message_size(%r) = %r, RFC 8323 3.2: %r" % (inp["data"], res, want))
            return None
        if op == "serialize":
            opts = [(n, bytes(v)) for n, v in inp["opts"]]
            payload = segs_bytes(inp["payload"])
            if len(inp["token"]) > 8:
                return None if res == "exn:ValueError" else ("C15:serialize-long-token", "token of %d bytes serialised: %r" % (len(inp["token"]), res))
            try: canon = ref_option_order([(n, ref_canon(n, v)) for n, v in opts]); want = ref_enc_frame(inp["code"], bytes(inp["token"]), canon, payload)
            except FormatError: return None
            if isinstance(res, str): return ("C15:serialize-exception", "_serialize raised %s" % res)
            if res["bytes"] != summ(want): return ("C15:serialize-not-rfc8323", "_serialize gives %r, RFC 8323 3.2 gives %r" % (res["bytes"], summ(want)))
            if res["roundtrip"] != ev_msg("m", inp["code"], bytes(inp["token"]), canon, payload):
                return ("C15:decode-serialize-differs", "_decode_message(_serialize(m)) != m: %r" % (res["roundtrip"],))
            return None
        if op == "decode":
            frame = bytes(inp["frame"])
            try: code, token, o, p = ref_parse_frame(frame); want = ev_msg("m", code, token, o, p)
            except FormatError: want = "exn:UnparsableMessage"
            if res != want: return ("C15:decode-differs" if not isinstance(res, str) or res == "exn:UnparsableMessage" else "C15:unparsable-not-aborted",
                                    "_decode_message(%s) = %r, reference: %r" % (frame.hex(), res, want))
            return None
        if op == "option_value":
            if isinstance(res, str) and res != "exn:UnparsableMessage": return ("C15:unparsable-not-aborted", "Options.decode raised %s for option %d" % (res, inp["number"]))
            return None
        return None

    def nontrivial(self, stream, inp, res):
        if not isinstance(res, dict) and stream != "kernels": return None
        if stream == "conn":
            if "given" not in res: return None
            t = self.norm(res["given"]["trace"])[1:]
            if not t: return None
            return fw.jdump([inp["max"], t])
        if stream == "kernels": return fw.jdump(inp)
        return fw.jdump(inp) if any(e[0] == "fail" for e in res.get("trace", [])) else None

    def model_for_decode(self): pass


# ------------------------------------------------------------------ pending requests: pool + token manager around the connections
def tok_bytes(n): return (n % 2 ** 64).to_bytes(8, "big").lstrip(b"\0")

def gen_pending_case(rng):
    """requests outstanding on two client connections (after the peers' CSM), some answered, then the peer of
    connection 0 releases / aborts / drops it, or the endpoint aborts it itself (bad frame) and the transport reports the loss"""
    token0 = rng.choice([0, 0, 254, 255, 65534, 2 ** 32 - 2, rng.randrange(2 ** 40)])
    evs = []; reqs = []
    n0, n1 = rng.randint(1, 4), rng.randint(0, 2)
    order = [0] * n0 + [1] * n1; rng.shuffle(order)
    for k, cid in enumerate(order):
        obs = rng.random() < 0.25
        evs.append(["req", cid, list(tok_bytes(token0 + 1 + k)), obs]); reqs.append((cid, tok_bytes(token0 + 1 + k), obs))
    mine = [r for r in reqs if r[0] == 0]; other = [r for r in reqs if r[0] == 1]
    def resp(r, with_observe=None):
        w = (rng.random() < 0.5) if with_observe is None else with_observe
        return ref_enc_frame(rng.choice([69, 69, 132, 65]), r[1], [(6, bytes([rng.randrange(1, 200)]))] if w else [], rng.choice([b"", b"ok"]))
    answered = rng.sample(mine, rng.randint(0, min(2, len(mine))))
    pre = b"".join(resp(r) for r in answered)
    if other and rng.random() < 0.4: evs.append(["data", 1, list(resp(other[0]))])
    how = rng.choice(["release", "abort", "abort-diagnostic", "release-chunked", "lost", "response+release", "release+response",
                      "own-abort-tkl+lost", "own-abort-oversize+lost", "own-abort-only", "release+lost", "unmatched-response+release", "none"])
    REL, ABT = bytes.fromhex("00e4"), bytes.fromhex("00e5")
    def data(b):
        if b: evs.append(["data", 0, list(b)])
    if how == "release": data(pre); data(REL)
    elif how == "abort": data(pre); data(ABT)
    elif how == "abort-diagnostic": data(pre); data(ref_enc_frame(ABORT, b"", [], b"going away"))
    elif how == "release-chunked": data(pre + b"\x00"); data(b"\xe4")
    elif how == "lost": data(pre); evs.append(["lost", 0])
    elif how == "response+release": data(pre + (resp(mine[-1], False) if mine else b"") + REL)
    elif how == "release+response": data(pre + REL + (resp(mine[-1], False) if mine else b""))
    elif how == "own-abort-tkl+lost": data(pre + bytes([0x09, 0x45]) + bytes(9)); evs.append(["lost", 0])
    elif how == "own-abort-oversize+lost": data(pre + bytes.fromhex("f0ffffffff")); evs.append(["lost", 0])
    elif how == "own-abort-only": data(pre + bytes([0x0f, 0x01]) + bytes(15))
    elif how == "release+lost": data(pre + REL); evs.append(["lost", 0])
    elif how == "unmatched-response+release": data(pre + ref_enc_frame(69, b"\xee\xee\xee", [], b"") + REL)
    else: data(pre)
    if rng.random() < 0.3 and ["lost", 0] not in evs:      # (a transport delivers nothing after connection_lost)
        evs.append(["data", 0, list(resp(mine[0], False))])        # after the end: must change nothing (closed) / or answers
    if other and rng.random() < 0.3: evs.append(["data", 1, list(resp(other[-1], False))])
    return {"token0": token0, "events": evs, "how": how}

def run_pending(inp):
    """real TokenManager + TCPClient pool + two TcpConnections (fake transports); -> trace of everything the transports and the
    requests' Pipes see, in order, and the final pool / outgoing_requests / close state"""
    sys.path.insert(0, os.path.join(fw.VERIF, "harness"))
    import simloop
    import aiocoap
    from aiocoap import error
    from aiocoap.transports import tcp
    from aiocoap.tokenmanager import TokenManager
    from aiocoap.pipe import Pipe
    loop = simloop.VLoop()
    class Ctx: pass
    ctx = Ctx(); ctx.log = _log; ctx.loop = loop; ctx.client_credentials = None
    trace = []
    class IdTransport(FakeTransport):
        def __init__(self, cid): self.cid = cid; self.closed = False
        def write(self, b): trace.append(["conn", self.cid, ["w", summ(b)]])
        def close(self): trace.append(["conn", self.cid, ["close"]]); self.closed = True
    with loop.enter():
        tman = TokenManager(ctx); tman._token = inp["token0"]
        pool = tcp.TCPClient(); pool._tokenmanager = tman; pool.log = _log; pool.loop = loop
        tman.token_interface = pool
        conns = []
        for cid in (0, 1):
            c = tcp.TcpConnection(pool, _log, loop, is_server=False); tr = IdTransport(cid)
            c.connection_made(tr); pool._pool[("host%d" % cid, 5683)] = c
            c.data_received(bytes.fromhex("00e1"))
            conns.append((c, tr))
        del trace[:]
        ident = {id(c): cid for cid, (c, tr) in enumerate(conns)}
        def on_event(ev, tok, cid):
            if ev.exception is not None:
                e = ev.exception
                if type(e) is error.RemoteServerShutdown and isinstance(e, error.NetworkError):
                    k = {"Peer released connection": "PeerReleased", "Peer aborted connection": "PeerAborted"}.get(str(e.args[0]) if e.args else "", "?")
                    kind = ["asis", "shutdown", k]
                elif type(e) is error.NetworkError and e.args == ("None",) and e.__cause__ is None: kind = ["wrapped", "none"]
                else: kind = ["other", type(e).__name__, isinstance(e, error.NetworkError)]
                trace.append(["fail", list(tok), cid, kind])
            elif ev.message is None: trace.append(["fail", list(tok), cid, ["other", "no exception object", False]])
            else: trace.append(["resp", list(tok), cid, int(ev.message.code), bool(ev.is_last)])
            return True
        for ev in inp["events"]:
            if ev[0] == "req":
                _, cid, tok, obs = ev
                m = aiocoap.Message(code=aiocoap.GET); m.remote = conns[cid][0]; m.opt.uri_path = ("x",)
                if obs: m.opt.observe = 0
                p = Pipe(m, _log)
                p.on_event(lambda e, tok=bytes(tok), cid=cid: on_event(e, tok, cid))
                tman.request(p)
                if m.token != bytes(tok): raise AssertionError("token manager issued %r, generator expected %r" % (m.token, bytes(tok)))
            elif ev[0] == "data":
                c, tr = conns[ev[1]]
                if not tr.closed: c.data_received(bytes(ev[2]))
            else: conns[ev[1]][0].connection_lost(None)
            loop.drain()
    final = {"pool": [ident[id(c)] for c in pool._pool.values()],
             "outgoing": [[list(t), ident[id(r)]] for (t, r) in tman.outgoing_requests.keys()],
             "closed": [[cid, tr.closed] for cid, (c, tr) in enumerate(conns)]}
    return {"trace": trace, "final": final, "loop_exceptions": len(loop.exceptions)}

def model_pending(inp):
    items = []
    for ev in inp["events"]:
        if ev[0] == "req": items.append("PRequest %d %s %s" % (ev[1], fw.gbytes(ev[2]), fw.gbool(ev[3])))
        elif ev[0] == "data": items.append("PData %d %s" % (ev[1], fw.gbytes(ev[2])))
        else: items.append("PLost %d" % ev[1])
    return "sys_report (sys_run sys0 %s)" % glist(items)

def oracle_pending(inp, res):
    """independent statement of clause 9: a request outstanding on a connection that the peer released / aborted / that was lost
    gets exactly one exception, a NetworkError; answered requests and other connections are not disturbed; nothing stays in the
    table or the pool for the dead connection"""
    if res.get("loop_exceptions"): return ("C15:pending-loop-exception", "exception reached the event loop")
    ref = {0: RefReceiver(DEFAULT_MAX), 1: RefReceiver(DEFAULT_MAX)}
    for r in ref.values(): r.csm = True
    lost = {0: False, 1: False}; reqs = []
    for ev in inp["events"]:
        if ev[0] == "req": reqs.append((bytes(ev[2]), ev[1], ev[3]))
        elif ev[0] == "data": ref[ev[1]].data(bytes(ev[2]))
        else: lost[ev[1]] = True
    for tok, cid, obs in reqs:
        got = [e for e in res["trace"] if e[0] in ("resp", "fail") and bytes(e[1]) == tok and e[2] == cid]
        # responses the reference receiver hands over for this token, up to the first final one
        exp = []
        for x in ref[cid].exp:
            if x[0] == "resp" and bytes(x[2]) == tok:
                has_obs = any(n == 6 for n, _ in x[3]); final = not (obs and has_obs)
                exp.append(["resp", x[1], final])
                if final: break
        answered = bool(exp) and exp[-1][2]
        peer_closed = any(x[0] == "err" for x in ref[cid].exp)
        dead = peer_closed or lost[cid]
        want = [["resp", c, f] for _, c, f in exp] + ([["fail"]] if dead and not answered else [])
        have = [["resp", e[3], e[4]] if e[0] == "resp" else ["fail"] for e in got]
        fails = [e for e in got if e[0] == "fail"]
        for f in fails:
            if f[3][0] == "other": return ("C15:pending-failure-not-network-error", "request %s on connection %d failed with %r" % (tok.hex(), cid, f[3]))
        if have != want:
            if answered and have[:len(want)] == want: sig = "C15:answered-request-disturbed"
            elif dead and not fails: sig = "C15:pending-request-not-failed"
            elif len(fails) > 1: sig = "C15:pending-request-failed-twice"
            elif not dead and fails: sig = "C15:unrelated-request-failed"
            else: sig = "C15:pending-request-events-differ"
            return (sig, "request %s on connection %d (%s): events %r, expected %r" % (tok.hex(), cid, inp.get("how"), have, want))
        still = [list(tok), cid] in res["final"]["outgoing"]
        if (dead or answered) and still: return ("C15:dead-request-still-in-table", "request %s on connection %d still in outgoing_requests" % (tok.hex(), cid))
        if not dead and not answered and not still: return ("C15:live-request-dropped", "request %s on connection %d vanished from outgoing_requests" % (tok.hex(), cid))
    for cid in (0, 1):
        peer_closed = any(x[0] == "err" for x in ref[cid].exp)
        if (peer_closed or lost[cid]) and cid in res["final"]["pool"]: return ("C15:dead-connection-still-pooled", "connection %d still in the pool" % cid)
        if not (peer_closed or lost[cid]) and cid not in res["final"]["pool"]: return ("C15:live-connection-evicted", "connection %d evicted from the pool" % cid)
        if peer_closed and not dict(map(tuple, res["final"]["closed"]))[cid]: return ("C15:peer-close-not-closed", "transport %d not closed after the peer's Release/Abort" % cid)
    return None

PROPERTY = C15()
