"""C19 — the file server never touches anything outside its root directory.

Correspondence of Model/C19.v (+ the translated request_to_localpath, Gen/fileserver.v, + the PurePosixPath model of
Model/C19Path.v) with the real aiocoap.cli.fileserver.FileServer: the server is put behind the real
Context/TokenManager/MessageManager stack under the virtual-time loop, requests are injected as datagrams, and every
Python-level file-system call (os.stat, io.open, os.listdir, os.open, os.rename, os.unlink, ...) is recorded by wrappers;
a sys.addaudithook additionally sees every path that reaches CPython's C level.  The server works on a scratch tree
/verif/build/C19-<pid>/fs/c<N>/root with sentinels next to it (outside/secret, root2/x)."""
import os, sys, io, json, shutil, builtins, hashlib, logging, warnings
import fw
from fw import gz, gbool, glist, gopt

TMPNAME = "$TMP"
SECRET = b"C19-OUTSIDE-SECRET-0123456789-must-never-be-served-or-changed"
SIZES = [0, 1, 15, 16, 17, 31, 32, 33, 63, 64, 65, 127, 128, 129, 255, 256, 257, 511, 512, 513, 1023, 1024, 1025, 1026, 2047, 2048, 2049, 3000]
WKC = [".well-known", "core"]
OTHER_TAG = b"\x01other!!"

def content(size, seed):
    return bytes(((i * 7 + seed * 13 + (i >> 8)) & 255) for i in range(size))
def cksum(b):
    return sum((i + 1) * (x + 1) for i, x in enumerate(b))
def gs(s):
    if s and all(32 <= ord(c) < 127 and c != '"' for c in s): return '(S "%s")' % s
    return "[" + "; ".join(str(ord(c)) for c in s) + "]"
def gsl(l): return "[" + "; ".join(gs(s) for s in l) + "]"
def pstr(zs): return "".join(chr(z) for z in zs)

# ------------------------------------------------------------------------------------------------ recording layer
class _Rec:
    on = False
    events = []      # (op, [paths], extra) from the Python-level wrappers, in call order
    audit = []       # (event, [paths]) from the audit hook
    installed = False
    orig = {}
    base = None      # scratch directory of the running case: the only place where modifying calls are let through
    blocked = []     # modifying calls refused by the safety net
    failwrite = False   # "disk full": the spool file handed out by io.open(dir, "w+b") raises ENOSPC on write
    tmpnames = set()    # every temporary file name tempfile announced (to recognise left-overs)
REC = _Rec()
_WRAPPED = ["stat", "lstat", "listdir", "scandir", "open", "rename", "replace", "unlink", "remove", "mkdir", "rmdir", "chmod",
            "truncate", "link", "symlink", "readlink", "access", "utime", "chdir", "mkfifo", "mknod", "chown"]
_TWO = {"rename", "replace", "link", "symlink"}

def _p(x):
    try: x = os.fspath(x)
    except TypeError: return None
    if isinstance(x, bytes): x = x.decode("utf-8", "surrogateescape")
    return x

_MUTATING_OS = {"rename", "replace", "unlink", "remove", "mkdir", "rmdir", "chmod", "truncate", "link", "symlink", "utime", "mkfifo", "mknod", "chown"}

def _guard(op, paths):
    """SAFETY NET: while a request is being served, refuse (EACCES) every modifying call whose target is not inside the scratch
    directory of the current case.  A defective (or mutated) server that escapes its root must not be able to damage the machine
    the check runs on; the attempt is still recorded, so the oracle reports it."""
    base = REC.base
    for p in paths:
        q = p if p.startswith("/") else os.path.join(os.getcwd(), p)
        q = os.path.normpath(q.split("\0")[0])
        try: q = REC.realpath(q)
        except (OSError, ValueError): pass
        if base is None or not (q == base or q.startswith(base + "/")):
            REC.blocked.append("%s:%s" % (op, p))
            raise PermissionError(13, "C19 harness: refusing to modify a path outside the scratch tree", p)

def _from_tracer():
    """the framework's line-coverage measurement (thorough tier) canonicalises the file name of every source file it meets
    (os.path.realpath -> lstat) from inside its trace function, i.e. in the middle of the server's code: not the server's doing"""
    f = sys._getframe(2); n = 0
    while f is not None and n < 25:
        fn = f.f_code.co_filename
        if "/coverage/" in fn or fn.endswith("/coverage.py"): return True
        f = f.f_back; n += 1
    return False

class _FullDisk:
    """a file object whose write fails like on a full disk (everything else is the real file)"""
    def __init__(self, f): self.__dict__["_f"] = f
    def __getattr__(self, n): return getattr(self._f, n)
    def write(self, b):
        if len(b): raise OSError(28, "No space left on device")
        return 0
    def __enter__(self): self._f.__enter__(); return self
    def __exit__(self, *a): return self._f.__exit__(*a)
    def __iter__(self): return iter(self._f)

def _install():
    if REC.installed: return
    REC.installed = True
    REC.realpath = os.path.realpath
    def wrap_os(name):
        orig = getattr(os, name); REC.orig[name] = orig
        def w(*a, **k):
            if REC.on and not _from_tracer():
                paths = [x for x in (_p(x) for x in a[:2 if name in _TWO else 1]) if x is not None]
                REC.events.append((name, paths, a[1] if name == "open" and len(a) > 1 else None))
                if name in _MUTATING_OS or (name == "open" and len(a) > 1 and isinstance(a[1], int)
                                            and a[1] & (os.O_WRONLY | os.O_RDWR | os.O_CREAT | os.O_TRUNC | os.O_APPEND)):
                    REC.on = False
                    try: _guard(name, paths)
                    finally: REC.on = True
            return orig(*a, **k)
        w.__name__ = name
        setattr(os, name, w)
    for n in _WRAPPED:
        if hasattr(os, n): wrap_os(n)
    orig_open = io.open; REC.orig["io.open"] = orig_open
    def open_w(file, mode="r", *a, **k):
        if REC.on and not _from_tracer():
            p = _p(file)
            if p is not None:
                REC.events.append(("io.open", [p], mode))
                if isinstance(mode, str) and any(c in mode for c in "wax+"):
                    REC.on = False
                    try: _guard("io.open", [p])
                    finally: REC.on = True
        f = orig_open(file, mode, *a, **k)
        return _FullDisk(f) if (REC.on and REC.failwrite and mode == "w+b") else f
    io.open = open_w; builtins.open = open_w
    def hook(ev, args):
        if not REC.on: return
        if ev == "open" and _from_tracer(): return
        if ev == "open" or ev.startswith(("os.", "shutil.", "tempfile.", "pathlib.", "glob.")):
            cand = args[:1] if ev in ("open", "os.listdir", "os.scandir", "os.remove", "os.rmdir", "os.mkdir", "os.chmod", "os.chown", "os.truncate", "os.utime", "tempfile.mkstemp", "tempfile.mkdtemp") else args
            paths = [p for p in (_p(a) for a in cand if isinstance(a, (str, bytes, os.PathLike))) if p is not None]
            if paths: REC.audit.append((ev, paths))
            if ev == "tempfile.mkstemp" and paths: REC.tmpnames.add(paths[0])
    sys.addaudithook(hook)

def snapshot(base):
    """relative path -> ('d',) | ('f', size, cksum, inode, mtime_ns), taken with recording off"""
    out = {}
    for d, dirs, files in os.walk(base):
        for n in dirs:
            p = os.path.join(d, n)
            out[os.path.relpath(p, base)] = ("l", os.readlink(p)) if os.path.islink(p) else ("d",)
        for n in files:
            p = os.path.join(d, n)
            if os.path.islink(p): out[os.path.relpath(p, base)] = ("l", os.readlink(p)); continue
            st = os.stat(p)
            with open(p, "rb") as f: b = f.read()
            out[os.path.relpath(p, base)] = ("f", len(b), cksum(b), st.st_ino, st.st_mtime_ns)
    return out


class World:
    """one scratch tree + one real FileServer behind the real protocol stack"""
    def __init__(self, prop, inp):
        import aiocoap, simloop, simnet
        from pathlib import Path
        from aiocoap.cli.fileserver import FileServer
        self.aiocoap = aiocoap
        prop.ncase += 1
        self.base = os.path.join(prop.fsdir, "c%d" % prop.ncase)
        self.root = os.path.join(self.base, "root")
        os.makedirs(self.root); os.makedirs(os.path.join(self.base, "outside")); os.makedirs(os.path.join(self.base, "root2"))
        with open(os.path.join(self.base, "outside", "secret"), "wb") as f: f.write(SECRET)
        with open(os.path.join(self.base, "root2", "x"), "wb") as f: f.write(SECRET)
        for e in inp.get("tree", []):
            p = os.path.join(self.root, *e["p"])
            if e.get("d"): os.makedirs(p, exist_ok=True)
            else:
                os.makedirs(os.path.dirname(p), exist_ok=True)
                with open(p, "wb") as f: f.write(content(e["size"], e["seed"]))
        if inp.get("symlinks"):      # oracle-only worlds: a file symlink and a directory symlink pointing at the sentinels
            os.symlink("../outside/secret", os.path.join(self.root, "lnk")); os.symlink("../outside", os.path.join(self.root, "dlnk"))
        self.lexical = bool(inp.get("symlinks"))
        self.loop = simloop.VLoop()
        # a relative root (the CLI default is "."): the process's working directory becomes the root itself (".") or its parent
        self.rootspec = inp.get("rootspec"); self.prevcwd = None
        if self.rootspec:
            self.prevcwd = os.getcwd(); os.chdir(self.root if self.rootspec == "." else self.base)
        self.srv = FileServer(Path(self.rootspec or self.root), logging.getLogger("fileserver"), write=bool(inp.get("write")), etag_length=inp.get("etag_length", 8))
        self.ctx, self.tman, self.mman, self.mi = simnet.make_stack(self.loop, self.srv)
        self.peer = simnet.Addr("peer"); self.simnet = simnet
        self.n = 0
        if inp.get("refresher"):      # FileServerProgram starts this task next to the context
            with self.loop.enter(): self.reftask = self.loop.create_task(self.srv.check_files_for_refreshes())
            self.loop.drain()
    def close(self):
        if self.prevcwd is not None: os.chdir(self.prevcwd)
        shutil.rmtree(self.base, ignore_errors=True)
    # -------------------------------------------------------------------------------- symbolic path components
    def sym(self, name):
        return {"ROOT": self.root, "BASE": self.base, "OUT": os.path.join(self.base, "outside"), "ROOT2": os.path.join(self.base, "root2")}[name]
    def expand(self, comps):
        out = []
        for c in comps:
            if isinstance(c, dict):
                if "sym" in c: out += [x for x in self.sym(c["sym"]).split("/") if x]
                elif "abs" in c: out.append(self.sym(c["abs"]) + c.get("tail", ""))
                elif "rep" in c: out.append(c["rep"][0] * c["rep"][1])
            else: out.append(c)
        return out
    def target(self, comps):
        """the harness's own idea of what a request designates (only for plain components): root + non-empty components"""
        if any((not isinstance(c, str)) or "/" in c or "\0" in c or c in (".", "..") for c in comps): return None
        return os.path.join(self.root, *[c for c in comps if c != ""]) if any(c != "" for c in comps) else self.root
    def tag(self, ref, comps):
        if ref == "empty": return b""
        if ref == "cur":
            t = self.target(comps)
            if t is not None and self.srv.etag_length:
                try: return self.srv.hash_stat(os.stat(t))
                except OSError: pass
            return OTHER_TAG
        return OTHER_TAG
    # -------------------------------------------------------------------------------- one request
    def build(self, it, comps, block2):
        aiocoap = self.aiocoap
        self.n += 1
        m = aiocoap.Message(code=aiocoap.numbers.codes.Code(it["m"] if 1 <= it["m"] <= 7 else 1), mtype=aiocoap.CON, mid=1000 + self.n, token=self.n.to_bytes(2, "big"))
        m.opt.uri_path = tuple(comps)
        if it.get("obs") is not None: m.opt.observe = it["obs"]
        if it.get("etags"): m.opt.etags = [self.tag(r, comps) for r in it["etags"]]
        if it.get("if_match"): m.opt.if_match = [self.tag(r, comps) for r in it["if_match"]]
        if it.get("inm"): m.opt.if_none_match = True
        if block2 is not None: m.opt.block2 = tuple(block2)
        if it.get("block1") is not None: m.opt.block1 = tuple(it["block1"])
        if it.get("query"): m.opt.uri_query = tuple(it["query"])
        if it.get("host"): m.opt.uri_host = it["host"]
        if it.get("payload"): m.payload = content(*it["payload"])
        raw = bytearray(m.encode())
        if not 1 <= it["m"] <= 7: raw[1] = it["m"]
        return bytes(raw), self.n.to_bytes(2, "big")
    def tick(self):
        """10 seconds pass: one round of check_files_for_refreshes (and whatever notifications it triggers)"""
        REC.events = []; REC.audit = []; REC.base = self.base
        REC.on = True
        try: self.loop.advance(10 * 1000000)
        finally: REC.on = False
        self.mi.take()
        return REC.events, REC.audit
    def exchange(self, raw, token, failwrite=False):
        """inject with recording on; -> (response Message or None, wrapper events, audit events)"""
        REC.events = []; REC.audit = []; REC.base = self.base
        REC.on = True; REC.failwrite = failwrite
        try: self.simnet.inject(self.loop, self.mman, raw, self.peer)
        finally: REC.on = False; REC.failwrite = False
        resp = None
        for _, _, b in self.mi.take():
            r = self.aiocoap.Message.decode(b, self.peer)
            if r.token == token and not r.code.is_request() and int(r.code) != 0: resp = r
        return resp, REC.events, REC.audit
    # -------------------------------------------------------------------------------- canonical forms
    def cpath(self, p, tmp):
        if tmp and (p == tmp or p.startswith(tmp + "/")): p = os.path.dirname(tmp) + "/" + TMPNAME + p[len(tmp):]
        elif os.path.basename(p) in self.tmpbase(): p = os.path.join(os.path.dirname(p), TMPNAME)      # a temporary file left behind by an earlier request
        if not p.startswith("/"): p = os.path.join(os.getcwd(), p)        # relative paths (relative root) are seen from the case's working directory
        parts = [x for x in p.split("/") if x and x != "."]
        for tag, pre in (("in", self.root), ("base", self.base)):
            pp = [x for x in pre.split("/") if x]
            if parts[:len(pp)] == pp: return [tag] + canon_parts(parts[len(pp):], [x for x in self.base.split("/") if x])
        return ["abs"] + parts
    def tmpbase(self):
        return {os.path.basename(t) for t in REC.tmpnames if t.startswith(self.base + "/")}
    def outside(self, p):
        if not p.startswith("/"): p = os.path.join(os.getcwd(), p)
        try: rp = os.path.normpath(p) if self.lexical else os.path.realpath(p)
        except (ValueError, OSError): rp = os.path.normpath(p)
        return not (rp == self.root or rp.startswith(self.root + "/"))
    def canon(self, events, audit):
        tmp = None
        for ev, paths in audit:
            if ev == "tempfile.mkstemp": tmp = paths[0]
        eff = []
        for op, paths, extra in events:
            if op == "io.open": name = {"rb": "OpenRead", "w+b": "OpenDirW"}.get(extra, "Open:%s" % extra)
            elif op == "open": name = "Create" if isinstance(extra, int) and (extra & os.O_CREAT) and (extra & os.O_EXCL) else "OsOpen:%s" % extra
            else: name = {"stat": "Stat", "listdir": "ListDir", "rename": "Rename", "unlink": "Unlink", "remove": "Unlink"}.get(op, op)
            eff.append([name] + [self.cpath(p, tmp) for p in paths])
        esc, esc_a = [], []
        for op, paths, _ in events:
            for p in paths:
                if self.outside(p): esc.append("%s:%s" % (op, "/".join(self.cpath(p, tmp))))
        for ev, paths in audit:
            for p in paths:
                if self.outside(p): esc_a.append("audit.%s:%s" % (ev, "/".join(self.cpath(p, tmp))))
        return sort_runs(eff), sorted(set(esc)) + sorted(set(esc_a))


def canon_parts(parts, bparts):
    """the scratch directory's own components can turn up as literal names (symbolic components served below the root):
    collapse every occurrence of that sequence into one token so that the result does not depend on where the scratch tree is"""
    out, i, n = [], 0, len(bparts)
    while i < len(parts):
        if parts[i:i + n] == bparts: out.append("$BASE"); i += n
        else: out.append(parts[i]); i += 1
    return out

def sort_runs(eff):
    """the Stat calls that follow a ListDir come in directory order: sort that run"""
    out, i = [], 0
    while i < len(eff):
        out.append(eff[i])
        if eff[i][0] == "ListDir":
            j = i + 1
            while j < len(eff) and eff[j][0] == "Stat": j += 1
            out += sorted(eff[i + 1:j]); i = j
        else: i += 1
    return out

def frags(listing):
    return sorted(listing.split(","))

def lex_escapes(comps):
    """would the Uri-Path, read as a hierarchical path below the root, leave the root (at any point)?"""
    depth = 0
    for c in comps:
        if c.startswith("/"): return True
        for piece in c.split("/"):
            if piece in ("", "."): continue
            if piece == "..":
                depth -= 1
                if depth < 0: return True
            else: depth += 1
    return False

MUTATING = ("Create", "Rename", "Unlink", "OpenDirW", "replace", "mkdir", "rmdir", "truncate", "link", "symlink", "chmod", "chown", "utime", "mkfifo", "mknod")


class C19(fw.Property):
    id = "C19"
    coq_props = "Props/C19.v"
    gen_jobs = ["fileserver"]
    model_imports = ["Verif.Lib.Py", "Verif.Model.C19Path", "Verif.Gen.fileserver", "Verif.Model.C19"]
    quick_budget = 300
    thorough_budget = 3000
    design_ref = "DESIGN.md section 22"
    technique = ("Coq proof over FileServer.request_to_localpath translated from source (tie T) composed with an executable model of posixpath.join / "
                 "PurePosixPath and of every render method as an effect-producing state machine; Hoare-style confinement/frame proofs for all requests, "
                 "file systems and histories; differential correspondence of effect traces, responses and final trees against the real FileServer behind the real protocol stack")
    level_text = ("Theorems (closed under the global context): the path returned by the translated request_to_localpath is root's parts followed by the non-empty Uri-Path "
                  "components and contains no '..' (for every component list, for absolute AND relative roots such as the CLI default '.': a relative root never yields an absolute path; "
                  "the pre-fix code is refuted by the leading-empty-component witness); every file-system effect of every method, on every file-system state and over every "
                  "request history (including Block1 sequences through the spool in front of PUT), is on a path under the root (the temporary file under a relative root: under "
                  "working directory ++ root, as os.path.abspath makes it), and no entry outside the root ever changes; "
                  "without write permission and for every method other than PUT/DELETE the file system is unchanged; a request answered with an error leaves the file system "
                  "equivalent; fetching a file block by block with any size exponent reassembles exactly its content.")
    level_note = ("Modelled, not proved about CPython: posixpath.join/splitroot, pathlib parsing, tempfile's call sequence, os.* error behaviour (tied by the pathmodel and history "
                  "streams). Not modelled: symlinks inside the root, check_files_for_refreshes, the Block2 cache in front of directory listings (exercised "
                  "oracle-only in the 'wild' stream), expiry of Block1 assemblies, relative roots containing '..', permissions, PATH_MAX, lone surrogates (cannot arrive over the wire), temp-name collisions (tempfile retries).")
    rule = ("streams: pathmodel = joinpath / truediv on hostile segment lists vs pathlib.PurePosixPath; localpath = translated request_to_localpath vs the real method on Message "
            "objects; history = 1-6 requests (GET/PUT/DELETE/POST/FETCH/PATCH/iPATCH x Uri-Path over a path-significant alphabet incl. '', '.', '..', 'a/b', absolute components, "
            "NUL, 255/256-byte names, Unicode look-alikes x write on/off x ETag/If-Match/If-None-Match x Observe x Block2 num/szx x fetch-all loops x tiling fetches (size exponent changing per request, first request without Block2) x Block1 sequences (complete, gap, short block, restart, repeated last block, "
            "missing first block, Observe bypass, other key; en bloc or interleaved) x root given absolutely or relatively ('.', 'root', './root/', 'root//', working directory set accordingly)) on a random tree with files of "
            "boundary sizes, compared as (effect trace, code, payload/Block2/listing, ETag presence) per request plus the final tree; wild = the same plus Block1 combined with Block2, Block2 on anything, "
            "unknown method codes, queries (oracle only). Non-trivial = at least one file-system effect and (for history) both a success and an error response or a write; distinct by full input.")
    trusted_base = ["translator translate/jobs/c19.py + Model/C19Path.v intrinsics (validated by the pathmodel and localpath streams on every run)",
                    "hand-written Model/C19.v (validated by the history stream: effect traces, responses, final trees)",
                    "harness: os/io wrappers + sys.addaudithook as the observation of 'touched paths'; CPython 3.12 pathlib/posixpath/tempfile; ext4 semantics of the scratch tree",
                    "virtual-time loop and fake transport (harness/simloop.py, simnet.py)"]
    assumptions = ["no symbolic links below the root (the server cannot create one — oracle rule C19:symlink-created; with links planted by somebody else confinement is lexical only, wild stream)",
                   "mimetypes.guess_type's one-time, request-independent read of the system's mime.types files is exempt (done in setup before recording starts)",
                   "a failing write of the request body is modelled as 'disk full' (fs_disk_full): the write of a non-empty body raises ENOSPC; partial writes are not distinguished",
                   "an error response may still have registered the path in _observations (Observe:0 on a directory / missing file): no file-system effect, only st_obs changes", "the root is an absolute path or a relative path (root_ok); the one-name-space file-system model and the absolutised temp name assume a relative root's parts contain no '..'", "single-threaded server, no concurrent modification of the tree",
                   "temporary file names are fresh (tempfile retries on collision)"]

    def __init__(self):
        self.ncase = 0; self.fsdir = None; self.side = {}
    def setup(self):
        import mimetypes
        warnings.simplefilter("ignore"); logging.disable(logging.CRITICAL)
        mimetypes.init()
        _install()
        self.fsdir = os.path.join(fw.BUILD, "C19-%d" % os.getpid(), "fs")
        shutil.rmtree(self.fsdir, ignore_errors=True); os.makedirs(self.fsdir)
        # warm-up (lazy imports, codec lookups) outside of any recorded window
        self.impl("history", {"write": True, "etag_length": 8, "tree": [{"p": ["w.txt"], "size": 3, "seed": 1}, {"p": ["d"], "d": True}],
                              "items": [{"m": 1, "path": ["w.txt"]}, {"m": 1, "path": []}, {"m": 3, "path": ["n"], "payload": [2, 1]}, {"m": 4, "path": ["n"]}, {"m": 1, "path": ["a\0"]}, {"m": 1, "path": ["é"]}]})
    def teardown(self):
        if self.fsdir:
            shutil.rmtree(self.fsdir, ignore_errors=True)
            try: os.rmdir(os.path.dirname(self.fsdir))
            except OSError: pass

    # ---------------------------------------------------------------- generators
    def gen_cases(self, tier, rng, n):
        for k in range(n):
            r = k % 10
            if r == 0: yield "pathmodel", self.gen_pathmodel(rng)
            elif r == 1: yield "localpath", self.gen_localpath(rng)
            elif r == 2 or (r == 3 and k % 20 == 3): yield "wild", self.gen_history(rng, wild=True)
            elif r == 3: yield "refresh", self.gen_refresh(rng)
            else: yield "history", self.gen_history(rng, wild=False)

    SEGS = ["", ".", "..", "a", "b", "a/b", "/", "//", "///", "/a", "//a", "///a", "a/", "a//", "a//b", "./a", "a/.", "a/./b", "a/../b", "../a", "/..", "/.", "/etc/passwd",
            "é", "日本", "a\0b", " ", "...", "..a", "a..", ".a", "/a/b/", "//a//b//", "a/b/c"]
    def gen_pathmodel(self, rng):
        root = rng.choice(["/srv/root", "/srv/root/", "/", "//", "///", "//srv", "///srv", ".", "", "rel/dir", "/a/../b", "/srv/./root", "/srv//root"])
        segs = [rng.choice(self.SEGS) for _ in range(rng.randint(0, 5))]
        return {"root": root, "segs": segs, "op": rng.choice(["joinpath", "joinpath", "truediv_join"])}

    NAMES = ["f.txt", "sub", "g", "deep", "h.bin", "big.bin", "empty", "d1", "ü.txt", "name with space", "new", "new2", "tmp", "x"]
    HOSTILE = ["", "", "", ".", "..", "..", "...", "a/b", "sub/g", "../outside/secret", "sub/../../outside/secret", "/etc/passwd", "/", "//", "a/", "/a",
               "..\0", "a\0b", "\0", "f.txt\0", "%2e%2e", "%2F", "..%2F", "%2e%2e%2f", "\\", "..\\", "a\\b", "..\\outside\\secret", " ", ". ", " .", ".. ", " ..",
               "．．", "／", "∕", "⁄", "‮", "﻿", "é", "é", "日本語", "\U0001f600", "\n", "\t", "\r\n", "~", "*", "?", "-", "--",
               "CON", "nul", "tmpabcdefgh", ".well-known", "core", ".hidden", "..hidden", "f.txt.", "F.TXT",
               {"rep": ["x", 255]}, {"rep": ["x", 256]}, {"rep": ["é", 127]}, {"rep": ["é", 128]}, {"rep": ["\U0001f600", 64]},
               {"abs": "OUT", "tail": "/secret"}, {"abs": "ROOT", "tail": "/f.txt"}, {"abs": "ROOT2", "tail": "/x"}, {"abs": "BASE", "tail": ""}]
    def gen_localpath(self, rng):
        comps = []
        for _ in range(rng.randint(0, 5)):
            c = rng.choice(self.HOSTILE + self.NAMES) if rng.random() < 0.7 else rng.choice(self.NAMES)
            if isinstance(c, dict) and "rep" not in c: c = "/abs" + c.get("tail", "")
            comps.append(c)
        if rng.random() < 0.1: comps.append("\ud800")        # a lone surrogate can be put into a Message object (not on the wire)
        return {"root": rng.choice(["/srv/root", "/srv/root/", "/r", "/srv//root", ".", ".", "sub", "./sub/", "sub/dir", ""]), "path": comps}

    def gen_tree(self, rng):
        t = [{"p": ["f.txt"], "size": rng.choice(SIZES[:14]), "seed": rng.randint(0, 9)},
             {"p": ["sub"], "d": True}, {"p": ["sub", "g"], "size": rng.choice(SIZES), "seed": rng.randint(0, 9)}]
        if rng.random() < 0.7: t.append({"p": ["big.bin"], "size": rng.choice(SIZES[14:]), "seed": rng.randint(0, 9)})
        if rng.random() < 0.5: t.append({"p": ["empty"], "size": 0, "seed": 0})
        if rng.random() < 0.5: t.append({"p": ["d1"], "d": True})
        if rng.random() < 0.5: t += [{"p": ["sub", "deep"], "d": True}, {"p": ["sub", "deep", "h.bin"], "size": rng.choice(SIZES), "seed": rng.randint(0, 9)}]
        if rng.random() < 0.3: t.append({"p": ["ü.txt"], "size": rng.choice(SIZES[:10]), "seed": 3})
        if rng.random() < 0.3: t.append({"p": ["name with space"], "size": 5, "seed": 4})
        if rng.random() < 0.15: t.append({"p": ["etc"], "d": True}); t.append({"p": ["etc", "passwd"], "size": 9, "seed": 5})
        return t
    def gen_path(self, rng, tree, kind):
        files = [e["p"] for e in tree if not e.get("d")]; dirs = [e["p"] for e in tree if e.get("d")]
        def sprinkle(p):
            p = list(p)
            for _ in range(rng.choice([0, 0, 1, 1, 2])):
                p.insert(rng.randint(0, len(p)), "")
            return p
        x = rng.random()
        if kind == "file":
            p = list(rng.choice(files))
            return sprinkle(p) if x < 0.25 and p else p
        if kind == "dir":
            p = list(rng.choice(dirs + [[]]))
            if p or x < 0.5: p = p + [""]
            return p if x > 0.2 else [""] * rng.randint(0, 2) + p
        if kind == "new":
            d = list(rng.choice(dirs + [[], []]))
            return d + [rng.choice(["new", "new2", "x", "日本", "tmp", "f.txt", "sub", "a b", "é"])]
        if kind == "renamefail":        # the temporary file gets created, the rename onto the target fails
            d = list(rng.choice(dirs + [[]]))
            return rng.choice([list(rng.choice(dirs)), d + ["a\0b"], d + [{"rep": ["x", 256]}], d + ["f.txt\0"], list(rng.choice(dirs)) + ["", ""][:rng.randint(0, 1)] ])
        if kind == "escape":
            y = rng.random()
            if y < 0.3: return [""] * rng.randint(1, 3) + [{"sym": rng.choice(["OUT", "OUT", "ROOT2", "ROOT"])}] + [rng.choice(["secret", "x", "f.txt"])]
            if y < 0.45: return [{"abs": rng.choice(["OUT", "ROOT2"]), "tail": rng.choice(["/secret", "/x", ""])}]
            if y < 0.6: return [".."] * rng.randint(1, 2) + rng.choice([["outside", "secret"], ["root2", "x"], ["root", "f.txt"]])
            if y < 0.7: return ["sub", "..", "..", "outside", "secret"]
            if y < 0.8: return [rng.choice(["../outside/secret", "sub/../../outside/secret", "../root2/x", "..\0", "../outside/secret\0"])]
            if y < 0.9: return ["", "etc", "passwd"]
            return list(rng.choice(dirs + [[]])) + [rng.choice(["..", ".", "a/b", "/", "../x"])] + [rng.choice(["f.txt", "secret", ""])]
        # random mix
        p = []
        for _ in range(rng.randint(0, 5)):
            p.append(rng.choice(self.HOSTILE) if rng.random() < 0.5 else rng.choice(self.NAMES))
        return p
    def gen_history(self, rng, wild):
        tree = self.gen_tree(rng)
        inp = {"write": rng.random() < 0.65, "etag_length": rng.choice([8, 8, 8, 4, 0]), "tree": tree, "items": []}
        if rng.random() < 0.4: inp["rootspec"] = rng.choice([".", ".", ".", "root", "./root/", "root//"])      # relative roots; "." is the CLI default
        b1 = rng.random() < (0.3 if not wild else 0.1)
        if b1 and rng.random() < 0.5: inp["items"] += self.gen_block1(rng, tree)
        for _ in range(rng.randint(1, 6) if not (b1 and inp["items"]) else rng.randint(0, 2)):
            m = rng.choice([1, 1, 1, 1, 3, 3, 3, 4, 4, 2, 5, 6, 7])
            if wild and rng.random() < 0.1: m = rng.choice([8, 9, 15, 30, 31])
            kind = rng.choice({1: ["file", "file", "file", "dir", "dir", "escape", "mix", "new"], 3: ["new", "new", "file", "dir", "escape", "mix", "renamefail"],
                               4: ["file", "file", "new", "dir", "escape", "mix"]}.get(m, ["file", "dir", "escape", "mix"]))
            path = self.gen_path(rng, tree, kind)
            if m == 1 and rng.random() < 0.04: path = list(WKC)
            it = {"m": m, "path": path}
            if rng.random() < 0.12: it["obs"] = rng.choice([0, 0, 0, 1, 5])
            if rng.random() < 0.2: it["etags"] = [rng.choice(["cur", "other"]) for _ in range(rng.randint(1, 2))]
            if m in (3, 4) or rng.random() < 0.05:
                if rng.random() < 0.3: it["if_match"] = [rng.choice(["cur", "cur", "other", "empty"]) for _ in range(rng.randint(1, 2))]
                if rng.random() < 0.2: it["inm"] = True
            if m == 3 or rng.random() < 0.05: it["payload"] = [rng.choice([0, 1, 5, 16, 17, 100, 1024, 1025, 1100]), rng.randint(0, 9)]
            plain_last = bool(path) and isinstance(path[-1], str) and path[-1] != "" and path != WKC
            if m == 1 and (plain_last or wild) and "obs" not in it or (wild and rng.random() < 0.2):
                x = rng.random()
                if x < 0.3:
                    szx = rng.choice([0, 1, 2, 3, 4, 5, 6, 6, 7])
                    num = rng.choice([0, 0, 1, 1, 2, 3, 4, 7, 8, 63, 64, 65, 127, 128, 129, 1000, 2 ** 20 - 1])
                    size = next((e["size"] for e in tree if not e.get("d") and e["p"] == [c for c in path if c != ""]), None)
                    if size is not None and rng.random() < 0.6:     # aim at the last block / the block boundary around the end of the file
                        bs = 2 ** (min(szx, 6) + 4)
                        num = max(0, size // bs + rng.choice([-1, -1, 0, 0, 1]))
                    it["block2"] = [num, rng.random() < 0.2, szx]
                elif x < 0.55 and m == 1 and plain_last and not wild:
                    it["all"] = rng.choice([6, 6, 5, 4, 3, 2, 7] if kind != "file" or rng.random() < 0.5 else [0, 1, 2, 3, 4, 5, 6, 7])
            if wild:
                if rng.random() < 0.25: it["block1"] = [rng.choice([0, 0, 1, 2, 5]), rng.random() < 0.5, rng.choice([0, 2, 6, 7])]
                if rng.random() < 0.15: it["query"] = [rng.choice(["a=b", "../..", "path=/etc/passwd", ""])]
                if rng.random() < 0.1: it["host"] = rng.choice(["example.com", "..", "/"])
            inp["items"].append(it)
        if wild and rng.random() < 0.2:
            inp["symlinks"] = True
            for _ in range(rng.randint(1, 3)):
                inp["items"].insert(rng.randint(0, len(inp["items"])), {"m": rng.choice([1, 1, 3, 4]), "path": rng.choice([["lnk"], ["dlnk", ""], ["dlnk", "secret"], ["dlnk", "new"], ["lnk", ""]]), "payload": [4, 2]})
        if b1 and not any("block1" in it for it in inp["items"]):
            seq = self.gen_block1(rng, tree); k = rng.randint(0, len(inp["items"]))
            if rng.random() < 0.5: inp["items"] = inp["items"][:k] + seq + inp["items"][k:]                      # en bloc
            else:                                                                                                # interleaved with the other requests
                for it in seq:
                    k = rng.randint(k, len(inp["items"])); inp["items"].insert(k, it); k += 1
        # a block-wise fetch whose size exponent changes from request to request, optionally started the way aiocoap's own client does
        # (first request without a Block2 option); kept en bloc so that no write to the file comes in between
        files = [e for e in tree if not e.get("d") and e["size"] > 0]
        if files and not wild and rng.random() < 0.25:
            e = rng.choice(files); off = 0; seq = []; tid = rng.randint(1, 10 ** 6)
            if rng.random() < 0.5: seq.append({"m": 1, "path": list(e["p"]), "tile": tid}); off = 1024
            while off < e["size"]:
                fit = [x for x in range(0, 8) if off % 2 ** (min(x, 6) + 4) == 0]
                szx = rng.choice(fit) if len(seq) < 10 else max(fit); bs = 2 ** (min(szx, 6) + 4)      # after 10 requests: the largest aligned size
                seq.append({"m": 1, "path": list(e["p"]), "block2": [off // bs, rng.random() < 0.3, szx], "tile": tid}); off += bs
            if rng.random() < 0.3: seq[0]["etags"] = ["other"]
            k = rng.randint(0, len(inp["items"])); inp["items"][k:k] = seq
        # the disk is full while the LAST PUT of the history is served (the model has one fixed temporary name: a PUT into the same
        # directory after a left-over temporary file would collide there, whereas tempfile picks another name)
        last = [it for it in inp["items"] if it["m"] == 3][-1:]
        if last and inp["write"] and rng.random() < 0.5 and last[0].get("payload") and last[0]["payload"][0] > 0 and "block1" not in last[0]:
            last[0]["full"] = True
        return inp
    def gen_refresh(self, rng):
        """oracle-only: observations are registered (Observe:0 on files, directories, missing and hostile paths), files are replaced /
        deleted, and the 10-second refresher check_files_for_refreshes runs (ticks)"""
        tree = self.gen_tree(rng); files = [e["p"] for e in tree if not e.get("d")]; dirs = [e["p"] for e in tree if e.get("d")]
        inp = {"write": rng.random() < 0.8, "etag_length": 8, "tree": tree, "refresher": True, "items": []}
        if rng.random() < 0.4: inp["rootspec"] = rng.choice([".", "root", "./root/"])
        for _ in range(rng.randint(3, 9)):
            x = rng.random()
            if x < 0.35:
                path = rng.choice([list(rng.choice(files)), list(rng.choice(files)), list(rng.choice(dirs)) + [""], ["nope"], ["", ""] + list(rng.choice(files)),
                                   ["..", "outside", "secret"], ["", {"sym": "OUT"}, "secret"], [{"abs": "OUT", "tail": "/secret"}], ["a\0b"]])
                inp["items"].append({"m": rng.choice([1, 1, 1, 3, 4]), "path": path, "obs": 0, **({"payload": [5, 1]} if rng.random() < 0.3 else {})})
            elif x < 0.6: inp["items"].append({"tick": True, "m": 0, "path": []})
            elif x < 0.8: inp["items"].append({"m": 3, "path": list(rng.choice(files)), "payload": [rng.choice([0, 7, 40]), rng.randint(0, 9)]})
            elif x < 0.9: inp["items"].append({"m": 4, "path": list(rng.choice(files))})
            else: inp["items"].append({"m": 1, "path": list(rng.choice(files))})
        inp["items"].append({"tick": True, "m": 0, "path": []})
        return inp
    def gen_block1(self, rng, tree):
        """a Block1 sequence towards one target: complete, or with a gap / a short middle block / a restart / a repeated last
        block / no first block; the body is the concatenation of the blocks' patterns"""
        dirs = [e["p"] for e in tree if e.get("d")]; files = [e["p"] for e in tree if not e.get("d")]
        path = rng.choice([list(rng.choice(dirs + [[]])) + [rng.choice(["new", "blk", "日本"])], list(rng.choice(files)), list(rng.choice(dirs)), ["", ""] + list(rng.choice(files)),
                           ["..", "outside", "secret"], ["", {"sym": "OUT"}, "secret"], ["nodir", "x"]])
        m = rng.choice([3, 3, 3, 3, 3, 4, 2, 1])
        if m == 1: path = list(rng.choice(dirs + [[]])) + [""]          # a GET goes through the spool only for directory-like paths
        szx = rng.choice([0, 0, 1, 2, 6, 7]); bs = 2 ** (min(szx, 6) + 4); nfull = rng.randint(1, 3)
        opts = {}
        if rng.random() < 0.2: opts["if_match"] = [rng.choice(["other", "empty"])]
        if rng.random() < 0.15: opts["inm"] = True
        seq = [dict(opts, m=m, path=path, block1=[i, True, szx], payload=[bs, rng.randint(0, 9)]) for i in range(nfull)]
        seq.append(dict(opts, m=m, path=path, block1=[nfull, False, szx], payload=[rng.choice([0, 1, bs - 1, bs, bs, bs + 1]), rng.randint(0, 9)]))      # bs + 1: a final block larger than its block size
        fault = rng.choice(["none", "none", "none", "gap", "short", "restart", "repeat-last", "continue-after-last", "no-first", "observe", "other-key"])
        if fault == "gap" and len(seq) > 2: del seq[1]
        elif fault == "short": seq[rng.randint(0, nfull - 1)]["payload"][0] = bs - 1
        elif fault == "restart": seq.insert(rng.randint(1, len(seq) - 1), dict(seq[0]))
        elif fault == "repeat-last": seq.append(dict(seq[-1]))
        elif fault == "continue-after-last" and seq[-1]["payload"][0] == bs:      # the completed body has left the spool: nothing to continue
            seq.append(dict(opts, m=m, path=path, block1=[nfull + 1, False, szx], payload=[3, 1]))
        elif fault == "no-first": del seq[0]
        elif fault == "observe": seq[-1]["obs"] = 0                     # Observe:0 bypasses the spool: only the last block's payload is seen
        elif fault == "other-key": seq[-1]["inm"] = not seq[-1].get("inm", False)
        return seq

    # ---------------------------------------------------------------- implementation
    def impl(self, stream, inp):
        if stream == "pathmodel":
            from pathlib import PurePosixPath
            root = PurePosixPath(inp["root"])
            p = root.joinpath(*inp["segs"]) if inp["op"] == "joinpath" else root / "/".join(inp["segs"])
            return {"anchor": len(p.root), "parts": [x for x in p.parts if x != p.root], "str": str(p)}
        if stream == "localpath":
            import aiocoap
            from pathlib import Path
            from aiocoap.cli.fileserver import FileServer, InvalidPathError
            srv = FileServer(Path(inp["root"]), logging.getLogger("fileserver"))
            m = aiocoap.Message(code=aiocoap.GET); m.opt.uri_path = tuple(self.expand_plain(inp["path"]))
            try: p = srv.request_to_localpath(m)
            except InvalidPathError: return "InvalidPathError"
            except Exception as e: return "exn:" + type(e).__name__
            return {"anchor": len(p.root), "parts": [x for x in p.parts if x != p.root]}
        w = World(self, inp)
        try:
            return self.run_history(w, inp)
        finally:
            w.close()
    def expand_plain(self, comps):
        return [c["rep"][0] * c["rep"][1] if isinstance(c, dict) else c for c in comps]

    def run_history(self, w, inp):
        out = []; side = []; pls = []; after = []
        for it in inp["items"]:
            self.payloads = []
            if it.get("tick"):
                before = snapshot(w.base); events, audit = w.tick(); eff, esc = w.canon(events, audit); aft = snapshot(w.base)
                inroot = lambda d: {k: v for k, v in d.items() if k == "root" or k.startswith("root/")}
                out.append([{"code": 0, "eff": eff, "body": None, "etag": False, "chg": inroot(before) != inroot(aft),
                             "out": {k: v for k, v in before.items() if k not in inroot(before)} != {k: v for k, v in aft.items() if k not in inroot(aft)},
                             "esc": esc, "leak": False, "sym": False}])
                side.append(None); pls.append([]); after.append(None); continue
            comps = w.expand(it["path"])
            group = []
            t = w.target(comps)
            disk = None
            if t is not None and os.path.isfile(t):
                with open(t, "rb") as f: disk = f.read()
            side.append(disk)
            if it.get("all") is not None:
                n = 0
                while True:
                    r = self.one(w, it, comps, [n, False, it["all"]])
                    group.append(r)
                    blk = r["body"].get("blk") if isinstance(r["body"], dict) else None
                    if not (blk and blk[1]) or n > 5000: break
                    n += 1
            else:
                group.append(self.one(w, it, comps, it.get("block2")))
            out.append(group); pls.append(self.payloads)
            after.append(None)
            if t is not None and os.path.isfile(t):
                with open(t, "rb") as f: after[-1] = f.read()
        self.side[fw.jdump(inp)] = (side, pls, after)
        def fkey(k):        # a temporary file that was left behind is named like the model's
            return ["base"] + (os.path.dirname(k).split("/") if os.path.dirname(k) else []) + [TMPNAME] if os.path.join(w.base, k) in REC.tmpnames else ["base"] + k.split("/")
        final = sorted([fkey(k), v[0] == "d"] + ([0, 0] if v[0] == "d" else ([-1, 0] if v[0] == "l" else [v[1], v[2]])) for k, v in snapshot(w.base).items())
        exc = [str(c.get("exception") or c.get("message"))[:120] for c in w.loop.exceptions]
        res = {"trace": out, "final": final}
        if exc: res["loop_exceptions"] = exc
        return res

    def one(self, w, it, comps, block2):
        before = snapshot(w.base)
        raw, token = w.build(it, comps, block2)
        resp, events, audit = w.exchange(raw, token, failwrite=bool(it.get("full")))
        eff, esc = w.canon(events, audit)
        payload = resp.payload if resp is not None else b""
        blk = resp.opt.block2 if resp is not None else None
        # a response cut into blocks by the library's Block2 cache (directory listings): fetch the rest like a client would
        if resp is not None and blk is not None and blk.more and not (bool(comps) and comps[-1] != "" and comps != WKC and it["m"] == 1) and it.get("obs") is None:
            n = blk.block_number
            while blk is not None and blk.more and n < 200:
                n += 1
                raw2, token2 = w.build(it, comps, [n, False, blk.size_exponent])
                r2, ev2, au2 = w.exchange(raw2, token2)
                e2, s2 = w.canon(ev2, au2); eff += e2; esc = esc + [x for x in s2 if x not in esc]
                if r2 is None or int(r2.code) != 69: break
                payload += r2.payload; blk = r2.opt.block2
            blk = None
        after = snapshot(w.base)
        code = int(resp.code) if resp is not None else -1
        body = None
        if code == 69 and it["m"] == 1:
            if comps == WKC: body = "wkc" if payload == b'</>;ct=40;rt="tag:chrysn@fsfe.org,2022:fileserver"' else {"wkc?": payload.hex()}
            elif not comps or comps[-1] == "":
                listing = payload.decode("utf8", "replace")
                for t in w.tmpbase(): listing = listing.replace(t, TMPNAME)
                body = {"dir": frags(listing)}
            else: body = {"len": len(payload), "ck": cksum(payload), "blk": [blk.block_number, bool(blk.more), blk.size_exponent] if blk is not None else None}
        chg_in = {k: v for k, v in before.items() if k == "root" or k.startswith("root/")} != {k: v for k, v in after.items() if k == "root" or k.startswith("root/")}
        chg_out = {k: v for k, v in before.items() if not (k == "root" or k.startswith("root/"))} != {k: v for k, v in after.items() if not (k == "root" or k.startswith("root/"))}
        self.payloads.append(payload)
        return {"code": code, "eff": eff, "body": body, "etag": resp is not None and resp.opt.etag is not None,
                "chg": chg_in, "out": chg_out, "esc": esc, "leak": SECRET in payload,
                "sym": sum(1 for v in after.values() if v[0] == "l") != sum(1 for v in before.values() if v[0] == "l")}

    # ---------------------------------------------------------------- model
    def g_request(self, it, comps, w=None):
        def tags(l): return glist([{"cur": "ECur", "other": "EOther", "empty": "EEmpty"}[x] for x in (l or [])])
        b2 = it.get("block2")
        return ("{| code := %d; opt_uri_path := %s; opt_observe := %s; opt_etags := %s; opt_if_match := %s; opt_if_none_match := %s; opt_block1 := %s; opt_block2 := %s; payload := %s |}"
                % (it["m"], gsl(comps), gopt(it.get("obs"), gz), tags(it.get("etags")), tags(it.get("if_match")), gbool(it.get("inm")),
                   "None" if it.get("block1") is None else "(Some (%d, %s, %d))" % (it["block1"][0], gbool(it["block1"][1]), it["block1"][2]),
                   "None" if b2 is None else "(Some (%d, %s, %d))" % (b2[0], gbool(b2[1]), b2[2]), "(pattern %d %d)" % tuple(it["payload"]) if it.get("payload") else "[]"))
    MODEL_BASE = "/B"          # where the model's tree lives; results are compared relative to it
    def model_expand(self, comps):
        base = self.MODEL_BASE
        sym = {"ROOT": base + "/root", "BASE": base, "OUT": base + "/outside", "ROOT2": base + "/root2"}
        out = []
        for c in comps:
            if isinstance(c, dict):
                if "sym" in c: out += [x for x in sym[c["sym"]].split("/") if x]
                elif "abs" in c: out.append(sym[c["abs"]] + c.get("tail", ""))
                elif "rep" in c: out.append(c["rep"][0] * c["rep"][1])
            else: out.append(c)
        return out
    def model(self, stream, inp):
        if stream == "pathmodel":
            root = "[%s]" % gs(inp["root"])
            p = "(joinpath %s %s)" % (root, gsl(inp["segs"])) if inp["op"] == "joinpath" else "(truediv %s (str_join [47] %s))" % (root, gsl(inp["segs"]))
            return "let p := load_parts %s in (anchor p, parts p)" % p
        if stream == "localpath":
            comps = self.expand_plain(inp["path"])
            if any(0xD800 <= ord(ch) <= 0xDFFF for c in comps for ch in c) and False: return None
            srv = "{| fs_root := [%s]; fs_write := false; fs_etag_enabled := true; fs_tmpname := %s; fs_cwd := []; fs_disk_full := false |}" % (gs(inp["root"]), gs(TMPNAME))
            req = self.g_request({"m": 1}, comps)
            return "match request_to_localpath %s %s with Ok p => Some (anchor (load_parts p), parts (load_parts p)) | Raise _ => None end" % (srv, req)
        if stream != "history": return None
        base = self.MODEL_BASE; bparts = [x for x in base.split("/") if x]
        rootspec = inp.get("rootspec"); cwd = self.model_cwd(inp)
        srv = "{| fs_root := [%s]; fs_write := %s; fs_etag_enabled := %s; fs_tmpname := %s; fs_cwd := %s; fs_disk_full := false |}" % (
            gs(rootspec or base + "/root"), gbool(inp.get("write")), gbool(inp.get("etag_length", 8) != 0), gs(TMPNAME), gsl(cwd))
        ents = []       # (absolute parts, node)
        for i in range(1, len(bparts) + 1): ents.append((bparts[:i], "NDir"))
        ents.append((bparts + ["root"], "NDir"))
        seen = set()
        for e in inp["tree"]:
            for i in range(1, len(e["p"])):
                if tuple(e["p"][:i]) not in seen:
                    seen.add(tuple(e["p"][:i])); ents.append((bparts + ["root"] + e["p"][:i], "NDir"))
            if tuple(e["p"]) in seen: continue
            seen.add(tuple(e["p"]))
            ents.append((bparts + ["root"] + e["p"], "NDir" if e.get("d") else "NFile (pattern %d %d)" % (e["size"], e["seed"])))
        ents += [(bparts + ["outside"], "NDir"), (bparts + ["outside", "secret"], "NFile secret_content"),
                 (bparts + ["root2"], "NDir"), (bparts + ["root2", "x"], "NFile secret_content")]
        if rootspec:    # one name space per server: under a relative root the keys are relative to the working directory
            ents = [(k[len(cwd):], n) for k, n in ents if k[:len(cwd)] == cwd and len(k) > len(cwd)]
        items = []
        for it in inp["items"]:
            req = self.g_request(it, self.model_expand(it["path"]))
            items.append("IAll %s %d" % (req, it["all"]) if it.get("all") is not None else ("IOneFull %s" if it.get("full") else "IOne %s") % req)
        return "disp_run %s {| st_fs := %s; st_obs := []; st_spool := [] |} %s" % (srv, glist(["(%s, %s)" % (gsl(k), n) for k, n in ents]), glist(items))
    def model_cwd(self, inp):
        bparts = [x for x in self.MODEL_BASE.split("/") if x]
        return bparts + ["root"] if inp.get("rootspec") == "." else bparts

    def decode(self, stream, inp, parsed):
        if stream == "pathmodel":
            a, parts = parsed
            parts = [pstr(x) for x in parts]
            s = {0: "", 1: "/", 2: "//"}[a] + "/".join(parts)
            return {"anchor": a, "parts": parts, "str": s or "."}
        if stream == "localpath":
            if isinstance(parsed, fw.Ctor) and parsed.name == "None": return "InvalidPathError"
            a, parts = parsed.args[0]
            return {"anchor": a, "parts": [pstr(x) for x in parts]}
        outs, fsd = parsed
        bparts = [x for x in self.MODEL_BASE.split("/") if x]
        cwd = self.model_cwd(inp); rel = bool(inp.get("rootspec"))
        def dpath(d):
            if d.name == "DIn": return ["in"] + canon_parts([pstr(x) for x in d.args[0]], bparts)
            a, ps = d.args; ps = [pstr(x) for x in ps]
            if a == 0: ps = cwd + ps                       # a relative path is seen from the working directory
            if ps[:len(bparts) + 1] == bparts + ["root"]: return ["in"] + canon_parts(ps[len(bparts) + 1:], bparts)
            if ps[:len(bparts)] == bparts: return ["base"] + canon_parts(ps[len(bparts):], bparts)
            return ["abs"] + ps
        names = {"DStat": "Stat", "DOpenRead": "OpenRead", "DListDir": "ListDir", "DOpenDirW": "OpenDirW", "DCreate": "Create", "DRename": "Rename", "DUnlink": "Unlink"}
        trace = []
        for group in outs:
            g = []
            for effs, code, body, etag in group:
                eff = sort_runs([[names[e.name]] + [dpath(x) for x in e.args] for e in effs])
                b = None
                if code == 69:
                    if body.name == "DBWkc": b = "wkc"
                    elif body.name == "DBFile":
                        ln, ck, blk = body.args
                        b = {"len": ln, "ck": ck, "blk": None if blk.name == "None" else [blk.args[0][0], blk.args[0][1], blk.args[0][2]]}
                    elif body.name == "DBDir":
                        ents = body.args[0]
                        b = {"dir": frags(",".join(("</%s/>;ct=40" if isd else "</%s>") % "/".join(pstr(x) for x in rel) for rel, isd in ents))}
                g.append({"code": code, "eff": eff, "body": b, "etag": etag, "chg": code in (68, 66), "out": False, "esc": [], "leak": False, "sym": False})
            trace.append(g)
        final = []
        for k, isd, ln, ck in fsd:
            k = [pstr(x) for x in k]
            if rel: k = cwd + k
            if k[:len(bparts)] == bparts and len(k) > len(bparts): final.append([["base"] + k[len(bparts):], isd, ln, ck])
        if inp.get("rootspec") == ".":      # what lies above the working directory is not in the model's name space (and cannot be named without "..")
            final += [[["base", "root"], True, 0, 0], [["base", "outside"], True, 0, 0], [["base", "outside", "secret"], False, len(SECRET), cksum(SECRET)],
                      [["base", "root2"], True, 0, 0], [["base", "root2", "x"], False, len(SECRET), cksum(SECRET)]]
        return {"trace": trace, "final": sorted(final)}

    # ---------------------------------------------------------------- oracle: the property on the implementation's behaviour
    def oracle(self, stream, inp, res):
        if isinstance(res, dict) and "harness_exception" in res:
            return ("C19:crash:" + res["where"], "harness/implementation raised %s: %s" % (res["harness_exception"], res.get("text")))
        if stream == "pathmodel": return None
        if stream == "localpath":
            if isinstance(res, str):
                if res != "InvalidPathError": return ("C19:localpath-exception:" + res, "request_to_localpath raised %s for %r" % (res, inp["path"]))
                return None
            rootparts = [x for x in inp["root"].split("/") if x and x != "."]
            if res["anchor"] != (1 if inp["root"].startswith("/") else 0) or res["parts"][:len(rootparts)] != rootparts or ".." in res["parts"][len(rootparts):]:
                return ("C19:localpath-escape", "request_to_localpath(%r) under root %s gives %s%s" % (inp["path"], inp["root"], "/" * res["anchor"], "/".join(res["parts"])))
            return None
        if res.get("loop_exceptions") and not inp.get("refresher"): return ("C19:loop-exception", "exception reached the event loop: %s" % res["loop_exceptions"][0])
        side, pls, after = self.side.get(fw.jdump(inp), (None, None, None))
        spool = {}      # the oracle's own reading of RFC 7959 Block1: key -> body so far
        for i, (it, group) in enumerate(zip(inp["items"], res["trace"])):
            if it.get("tick"):
                r = group[0]
                if r["esc"]: return ("C19:escape:refresher:" + r["esc"][0].split(":")[0], "refresher round %d touched a path outside the root: %s" % (i, "; ".join(r["esc"][:4])))
                # a round re-renders the requests whose observation fired — also an observed PUT/DELETE (Observe:0 is not restricted to GET),
                # so with write permission the tree below the root may change; never outside, never without write permission
                if r["out"]: return ("C19:refresher-modified-outside", "refresher round %d modified the file system outside the root" % i)
                mut = [e for e in r["eff"] if e[0] in MUTATING]
                if not inp.get("write") and (r["chg"] or mut): return ("C19:refresher-modified-without-write", "refresher round %d modified the tree / issued %s without write permission" % (i, mut[:1]))
                continue
            comps = self.model_expand(it["path"])
            what = "request %d (method %d, Uri-Path %r)" % (i, it["m"], it["path"])
            via_dlnk = bool(inp.get("symlinks")) and any(c == "dlnk" for c in comps)      # assumption "no symlinks below the root" knowingly broken
            via_lnk = bool(inp.get("symlinks")) and any(c == "lnk" for c in comps)
            for r in group:
                if r.get("sym") and not (via_lnk and r["code"] in (66, 68)):      # the server has no way to create one: keeps the no-symlink assumption self-maintaining
                    return ("C19:symlink-created", "%s created or removed a symbolic link" % what)
                if via_dlnk: continue
                if via_lnk and r["leak"]: continue          # reading through a symlink that somebody else put below the root
                if r["esc"]: return ("C19:escape:" + r["esc"][0].split(":")[0], "%s touched a path outside the root: %s" % (what, "; ".join(r["esc"][:4])))
                if r["out"]: return ("C19:outside-modified", "%s changed the file system outside the root" % what)
                if r["leak"]: return ("C19:outside-content-leaked", "%s was answered with the content of a file outside the root" % what)
                if not inp.get("write"):
                    if r["chg"]: return ("C19:modified-without-write", "%s modified the tree although the server has no write permission (code %s)" % (what, r["code"]))
                    mut = [e for e in r["eff"] if e[0] in MUTATING]
                    if mut: return ("C19:mutation-attempt-without-write", "%s issued %s although the server has no write permission" % (what, mut[0]))
                if r["code"] >= 128 and r["chg"] and it.get("full"):
                    return ("C19:error-with-effect:tempfile-left-after-failed-write", "%s: writing the body failed (ENOSPC), the answer was %d.%02d and the temporary file was left behind" % (what, r["code"] >> 5, r["code"] & 31))
                if r["code"] >= 128 and r["chg"]: return ("C19:error-with-effect", "%s was answered %d.%02d but changed the tree" % (what, r["code"] >> 5, r["code"] & 31))
                if r["code"] == -1: return ("C19:no-response", "%s got no response" % what)
                if lex_escapes(comps) and r["code"] < 128 and r["code"] != 95 and comps != WKC:      # 2.31 Continue only acknowledges a Block1 block
                    return ("C19:escaping-request-accepted", "%s would lead outside the root but was answered %d.%02d" % (what, r["code"] >> 5, r["code"] & 31))
            # Block1: what a completed sequence writes is the concatenation of its blocks; 2.31 has no effect
            for r in group:
                if r["code"] == 95 and (r["chg"] or r["eff"]): return ("C19:continue-with-effect", "%s was answered 2.31 Continue but touched the file system: %s" % (what, r["eff"][:2]))
            if it.get("block1") is not None and it["block1"][1] and it.get("obs") != 0 and any(r["chg"] for r in group):
                return ("C19:partial-body-written", "%s: Block1 block %s with the M bit set modified the tree (code %s)" % (what, it["block1"], group[0]["code"]))
            if it.get("block1") is not None and it["m"] != 1 and it.get("obs") != 0 and not it.get("block2"):
                key = fw.jdump([it["m"], comps, it.get("etags"), it.get("if_match"), bool(it.get("inm"))])
                num, more, szx = it["block1"]; body = content(*it["payload"]) if it.get("payload") else b""
                bs = 2 ** (min(szx, 6) + 4)
                fits = (len(body) % 1024 == 0 or not more) if szx == 7 else (len(body) == bs if more else len(body) <= bs)      # RFC 7959 2.2 / RFC 8323 6
                expect = None       # the body a completing block releases, by the oracle's own bookkeeping
                if num == 0:
                    spool[key] = body
                    if not more: expect = spool.pop(key)
                elif key in spool and fits and num * bs == len(spool[key]):
                    spool[key] += body
                    if not more: expect = spool.pop(key)
                elif group[0]["code"] < 128:
                    return ("C19:block1-gap-accepted", "%s: block %d (%d bytes) does not continue %s but was answered %d" % (
                        what, num, len(body), "a body of %d bytes" % len(spool[key]) if key in spool else "any body in progress", group[0]["code"]))
                if it["m"] == 3 and expect is not None and group[0]["code"] == 68 and after is not None and after[i] is not None and after[i] != expect:
                    return ("C19:block1-body-mismatch", "%s: the assembled body has %d bytes, the file written has %d (first difference at %d)" % (
                        what, len(expect), len(after[i]), next((j for j in range(min(len(after[i]), len(expect))) if after[i][j] != expect[j]), min(len(after[i]), len(expect)))))
            # a tiling fetch (same "tile" id): the payloads of all its requests, in order, are the file
            if it.get("tile") and (i + 1 == len(inp["items"]) or inp["items"][i + 1].get("tile") != it["tile"]) and side is not None:
                first = next(j for j, x in enumerate(inp["items"]) if x.get("tile") == it["tile"])
                if side[first] is not None:
                    got = b"".join(b"".join(pls[j]) for j in range(first, i + 1))
                    if any(res["trace"][j][0]["code"] != 69 for j in range(first, i + 1)) or got != side[first]:
                        return ("C19:tiling-fetch-mismatch", "requests %d..%d fetch %r with blocks %s: %d bytes reassembled, the file has %d" % (
                            first, i, it["path"], [x.get("block2") for x in inp["items"][first:i + 1]], len(got), len(side[first])))
            # block-wise reads
            disk = side[i] if side is not None and i < len(side) else None
            if it["m"] == 1 and disk is not None and comps and comps[-1] != "" and comps != WKC and not it.get("block1") and not it.get("etags"):
                if it.get("all") is not None:
                    if any(r["code"] != 69 for r in group): return ("C19:blockwise-fetch-failed", "%s: block-wise fetch of an existing file answered %s" % (what, [r["code"] for r in group]))
                    got = b"".join(pls[i])
                    if got != disk:
                        return ("C19:blockwise-content-mismatch", "%s: %d blocks (szx %d) reassemble to %d bytes, the file has %d (first difference at %d)" % (
                            what, len(group), it["all"], len(got), len(disk), next((j for j in range(min(len(got), len(disk))) if got[j] != disk[j]), min(len(got), len(disk)))))
                else:
                    r = group[0]
                    if r["code"] == 69 and isinstance(r["body"], dict) and "len" in r["body"]:
                        num, _, szx = it.get("block2") or [0, False, 6]
                        size = 2 ** (min(szx, 6) + 4)
                        want = disk[num * size:(num + 1) * size]; more = (num + 1) * size < len(disk)
                        if pls[i][0] != want:
                            return ("C19:block-slice-wrong", "%s: block %d/szx %d is not bytes [%d, %d) of the file" % (what, num, szx, num * size, (num + 1) * size))
                        blk = r["body"]["blk"]
                        if (blk[1] if blk else False) != more: return ("C19:block-more-wrong", "%s: block %d/szx %d has M=%s, file length %d" % (what, num, szx, blk, len(disk)))
                        if blk is not None and (blk[0] != num or blk[2] != szx): return ("C19:block-option-wrong", "%s: answered with Block2 %s" % (what, blk))
        return None

    def nontrivial(self, stream, inp, res):
        if not isinstance(res, dict) or "harness_exception" in res: return None
        if stream in ("pathmodel",): return fw.jdump([stream, inp]) if inp["segs"] else None
        if stream == "localpath": return fw.jdump([stream, inp]) if inp["path"] else None
        rs = [r for g in res.get("trace", []) for r in g]
        ok = any(r["eff"] for r in rs) and (any(r["code"] >= 128 for r in rs) and any(r["code"] < 128 for r in rs) or any(r["chg"] for r in rs))
        return fw.jdump([stream, inp]) if ok else None

PROPERTY = C19()
