"""C04 — duplicate requests are executed at most once and re-answered identically.

Correspondence of Model/C04.v (deduplication slice of MessageManager plus the piggy-back / empty-ACK /
separate-response machinery that produces the stored acknowledgements) with the real
Context + TokenManager + MessageManager + resource.Site under the virtual-time loop."""
import os, sys, json
import fw
from fw import gz, gbool, glist, gopt

LIFETIME = 247000000          # EXCHANGE_LIFETIME of the default TransportTuning, in us (checked against the code in setup())
EMPTY_ACK = 100000            # EMPTY_ACK_DELAY, us
TYPES = ["CON", "NON", "ACK", "RST"]
PATHS = ["fast", "slow", "fail", "missing", "suppress", "badreq", "rel", "unrel"]
PATH_CTOR = {"fast": "HFast", "slow": "HSlow", "fail": "HFail", "missing": "HMissing", "suppress": "HSuppress",
             "badreq": "HBadReq", "rel": "HRel", "unrel": "HUnrel"}

# ---------------------------------------------------------------------------------------------- tiny independent codec
def enc_opt(prev, num, val):
    d = num - prev; l = len(val)
    def nib(x): return (x, b"") if x < 13 else ((13, bytes([x - 13])) if x < 269 else (14, (x - 269).to_bytes(2, "big")))
    dn, de = nib(d); ln, le = nib(l)
    return bytes([dn << 4 | ln]) + de + le + val

def encode_request(ev):
    """["recv", remote, type, code, mid, token_hex, path, nr, payload_hex] -> datagram bytes (own encoder, not aiocoap's)"""
    _, r, t, code, mid, tok, path, nr, pay = ev
    tok = bytes.fromhex(tok); pay = bytes.fromhex(pay)
    out = bytes([0x40 | TYPES.index(t) << 4 | len(tok), code]) + mid.to_bytes(2, "big") + tok
    prev = 0
    if path is not None:
        out += enc_opt(prev, 11, path.encode()); prev = 11
    if nr is not None:
        v = b"" if nr == 0 else bytes([nr])
        out += enc_opt(prev, 258, v); prev = 258
    if pay: out += b"\xff" + pay
    return out

def encode_plain(t, code, mid, tok, pay):
    """option-less datagram (everything this endpoint sends in these scenarios)"""
    out = bytes([0x40 | TYPES.index(t) << 4 | len(tok), code]) + mid.to_bytes(2, "big") + bytes(tok)
    if pay: out += b"\xff" + bytes(pay)
    return out

def parse_header(raw):
    """-> (type, code, mid, token bytes) of a datagram"""
    tkl = raw[0] & 15
    return TYPES[(raw[0] >> 4) & 3], raw[1], int.from_bytes(raw[2:4], "big"), raw[4:4 + tkl]


# ---------------------------------------------------------------------------------------------- the world around the real stack
class World:
    def __init__(self, inp):
        import aiocoap, aiocoap.resource as resource, aiocoap.error as error
        from aiocoap.numbers.constants import Reliable, Unreliable
        import simloop, simnet
        self.loop = loop = simloop.VLoop()
        self.trace = []            # entries of the current step
        self.handlers = {}         # sid -> future of a waiting slow handler
        self.nstart = 0
        world = self
        simnet.patch_random(uniform_value=inp["uniform"] / 1e6, mid0=inp["mid0"], token0=0)

        class LoggingSite(resource.Site):
            async def render_to_pipe(self, pipe):
                req = pipe.request
                sid = world.nstart; world.nstart += 1
                req._c04_sid = sid
                world.trace.append(["start", loop.now_us(), sid, req.remote.name, req.mid, req.token.hex()])
                return await super().render_to_pipe(pipe)

        class R(resource.Resource):
            def __init__(self, kind): super().__init__(); self.kind = kind
            async def needs_blockwise_assembly(self, request): return False
            async def handle(self, request):
                # the Site hands a path-stripped copy to the resource; recover the invocation number from the log
                sid = world.nstart - 1
                k = self.kind
                body = bytes([sid % 256]) + request.payload
                if k == "fast": return aiocoap.Message(code=aiocoap.CONTENT, payload=body)
                if k == "fail": raise RuntimeError("handler failed")
                if k == "suppress": return aiocoap.Message(code=aiocoap.CHANGED, payload=body, no_response=26)
                if k == "badreq": return aiocoap.Message(code=aiocoap.BAD_REQUEST, payload=body)
                if k == "rel": return aiocoap.Message(code=aiocoap.CONTENT, payload=body, transport_tuning=Reliable())
                if k == "unrel": return aiocoap.Message(code=aiocoap.CONTENT, payload=body, transport_tuning=Unreliable())
                assert k == "slow"
                fut = loop.create_future(); world.handlers[sid] = fut
                what = await fut
                if what[0] == "raise":
                    raise (error.NotFound() if what[1] == "NotFound" else RuntimeError("late failure"))
                _, code, pay, nr, rel = what
                tt = None if rel is None else (Reliable() if rel else Unreliable())
                m = aiocoap.Message(code=aiocoap.Code(code), payload=bytes.fromhex(pay), transport_tuning=tt)
                if nr is not None: m.opt.no_response = nr
                return m
            render_get = render_post = render_put = render_delete = render_fetch = render_patch = render_ipatch = handle

        site = LoggingSite()
        for p in PATHS:
            if p != "missing": site.add_resource([p], R(p))
        self.ctx, self.tman, self.mman, mi = simnet.make_stack(loop, site)
        self.remotes = {}
        orig_send = mi.send
        def send(m):
            raw = m.encode()
            world.trace.append(["send", loop.now_us(), m.remote.name, raw.hex()])
        mi.send = send
        self.simnet = simnet

    def remote(self, i):
        if i not in self.remotes: self.remotes[i] = self.simnet.Addr("p%d" % i)
        return self.remotes[i]

    def step(self, ev):
        loop = self.loop; nexc = len(loop.exceptions)
        kind = ev[0]
        try:
            if kind == "recv":
                self.simnet.inject(loop, self.mman, encode_request(ev), self.remote(ev[1]))
            elif kind == "fire":
                loop.fire_next()
            elif kind == "adv":
                loop.advance(ev[1])
            elif kind == "respond":
                f = self.handlers.get(ev[1])
                if f is not None and not f.done():
                    f.set_result(["respond"] + list(ev[2:])); loop.drain()
            elif kind == "raise":
                f = self.handlers.get(ev[1])
                if f is not None and not f.done():
                    f.set_result(["raise", ev[2]]); loop.drain()
            else:
                raise ValueError("unknown event %r" % (ev,))
        except Exception as e:
            if isinstance(e, ValueError) and "unknown event" in str(e): raise
            self.trace.append(["exn", type(e).__name__])
            try: loop.drain()
            except Exception as e2: self.trace.append(["exn", type(e2).__name__])
        for c in loop.exceptions[nexc:]:
            self.trace.append(["exn", type(c.get("exception")).__name__])
        out, self.trace = self.trace, []
        return out

    def final(self):
        mm = self.mman
        rec = sorted([k[0].name, k[1], None if v is None else v.encode().hex()] for k, v in mm._recent_messages.items())
        return {"recent": rec, "now": self.loop.now_us(), "message_id": mm.message_id,
                "timers": [d for d, s in self.loop.pending_timers()],
                "piggy": sorted([k[0].name, k[1].hex(), v[0]] for k, v in mm._piggyback_opportunities.items()),
                "exchanges": sorted([k[0].name, k[1]] for k in mm._active_exchanges),
                "backlogs": sorted([k.name, len(v)] for k, v in mm._backlogs.items()),
                "incoming": sorted([k[1].name, k[0].hex()] for k in self.tman.incoming_requests)}


def run_impl(inp):
    w = World(inp)
    steps = []
    for ev in inp["events"]:
        t_before = w.loop.now_us()
        out = w.step(ev)
        steps.append({"t": w.loop.now_us(), "out": out})
    return {"steps": steps, "final": w.final()}
