"""C04 — duplicate requests are executed at most once and re-answered identically.

Correspondence of Model/C04.v (deduplication slice of MessageManager plus the piggy-back / empty-ACK /
separate-response machinery that produces the stored acknowledgements) with the real
Context + TokenManager + MessageManager + resource.Site under the virtual-time loop."""
import os, sys, json
import fw
from fw import gz, gbool, glist, gopt

LIFETIME = 247000000          # EXCHANGE_LIFETIME of the default TransportTuning, in us (checked against the code in setup())
EMPTY_ACK = 100000            # EMPTY_ACK_DELAY, us
TYPES = ["CON", "NON", "ACK", "RST"]
PATHS = ["fast", "slow", "fail", "missing", "suppress", "badreq", "rel", "unrel"]
PATH_CTOR = {"fast": "HFast", "slow": "HSlow", "fail": "HFail", "missing": "HMissing", "suppress": "HSuppress",
             "badreq": "HBadReq", "rel": "HRel", "unrel": "HUnrel", "cached": "HCached"}

# ---------------------------------------------------------------------------------------------- tiny independent codec
def enc_opt(prev, num, val):
    d = num - prev; l = len(val)
    def nib(x): return (x, b"") if x < 13 else ((13, bytes([x - 13])) if x < 269 else (14, (x - 269).to_bytes(2, "big")))
    dn, de = nib(d); ln, le = nib(l)
    return bytes([dn << 4 | ln]) + de + le + val

def encode_request(ev):
    """["recv", remote, type, code, mid, token_hex, path, nr, payload_hex] -> datagram bytes (own encoder, not aiocoap's)"""
    _, r, t, code, mid, tok, path, nr, pay = ev
    tok = bytes.fromhex(tok); pay = bytes.fromhex(pay)
    out = bytes([0x40 | TYPES.index(t) << 4 | len(tok), code]) + mid.to_bytes(2, "big") + tok
    prev = 0
    if path is not None:
        out += enc_opt(prev, 11, path.encode()); prev = 11
    if nr is not None:
        v = b"" if nr == 0 else bytes([nr])
        out += enc_opt(prev, 258, v); prev = 258
    if pay: out += b"\xff" + pay
    return out

def parse_header(raw):
    """-> (type, code, mid, token bytes) of a datagram"""
    tkl = raw[0] & 15
    return TYPES[(raw[0] >> 4) & 3], raw[1], int.from_bytes(raw[2:4], "big"), raw[4:4 + tkl]


# ---------------------------------------------------------------------------------------------- the world around the real stack
class World:
    def __init__(self, inp):
        import aiocoap, aiocoap.resource as resource, aiocoap.error as error
        from aiocoap.numbers.constants import Reliable, Unreliable
        import simloop, simnet
        self.loop = loop = simloop.VLoop()
        self.trace = []            # entries of the current step
        self.handlers = {}         # sid -> future of a waiting slow handler
        self.nstart = 0
        self.refused = set()       # names of the peers to which the transport currently refuses to send
        world = self
        simnet.patch_random(uniform_value=inp["uniform"] / 1e6, mid0=inp["mid0"], token0=0)

        class LoggingSite(resource.Site):
            async def render_to_pipe(self, pipe):
                req = pipe.request
                sid = world.nstart; world.nstart += 1
                req._c04_sid = sid
                world.trace.append(["start", loop.now_us(), sid, req.remote.name, req.mid, req.token.hex()])
                return await super().render_to_pipe(pipe)

        class R(resource.Resource):
            def __init__(self, kind):
                super().__init__(); self.kind = kind
                # "cached": ONE response object built once and returned for every request (defect fixed in 75465d6: the remembered
                # reply is a snapshot now; the stream goes through the model, which stores values)
                self.cached = aiocoap.Message(code=aiocoap.CONTENT, payload=b"cached") if kind == "cached" else None
            async def needs_blockwise_assembly(self, request): return False
            async def handle(self, request):
                # the Site hands a path-stripped copy to the resource; recover the invocation number from the log
                sid = world.nstart - 1
                k = self.kind
                body = bytes([sid % 256]) + request.payload
                if k == "fast": return aiocoap.Message(code=aiocoap.CONTENT, payload=body)
                if k == "cached": return self.cached
                if k == "fail": raise RuntimeError("handler failed")
                if k == "suppress": return aiocoap.Message(code=aiocoap.CHANGED, payload=body, no_response=26)
                if k == "badreq": return aiocoap.Message(code=aiocoap.BAD_REQUEST, payload=body)
                if k == "rel": return aiocoap.Message(code=aiocoap.CONTENT, payload=body, transport_tuning=Reliable())
                if k == "unrel": return aiocoap.Message(code=aiocoap.CONTENT, payload=body, transport_tuning=Unreliable())
                assert k == "slow"
                fut = loop.create_future(); world.handlers[sid] = fut
                what = await fut
                if what[0] == "raise":
                    raise (error.NotFound() if what[1] == "NotFound" else RuntimeError("late failure"))
                _, code, pay, nr, rel = what
                tt = None if rel is None else (Reliable() if rel else Unreliable())
                m = aiocoap.Message(code=aiocoap.Code(code), payload=bytes.fromhex(pay), transport_tuning=tt)
                if nr is not None: m.opt.no_response = nr
                return m
            render_get = render_post = render_put = render_delete = render_fetch = render_patch = render_ipatch = handle

        site = LoggingSite()
        for p in PATHS + ["cached"]:
            if p != "missing": site.add_resource([p], R(p))
        self.ctx, self.tman, self.mman, mi = simnet.make_stack(loop, site)
        self.remotes = {}
        orig_send = mi.send
        def send(m):
            raw = m.encode()
            world.trace.append(["send", loop.now_us(), m.remote.name, raw.hex()])
            if m.remote.name in world.refused:
                # the udp6 pattern: sendmsg fails, the error is reported from inside send()
                world.trace.append(["refused", loop.now_us(), m.remote.name])
                world.mman.dispatch_error(OSError(101, "Network is unreachable"), m.remote)
        mi.send = send
        self.simnet = simnet

    def remote(self, i):
        # a new address object per datagram: keys must work by __eq__/__hash__, not by object identity
        return self.simnet.Addr("p%d" % i)

    def step(self, ev):
        loop = self.loop; nexc = len(loop.exceptions)
        kind = ev[0]
        try:
            if kind == "recv":
                self.simnet.inject(loop, self.mman, encode_request(ev), self.remote(ev[1]))
            elif kind == "fire":
                loop.fire_next()
            elif kind == "adv":
                loop.advance(ev[1])
            elif kind == "respond":
                f = self.handlers.get(ev[1])
                if f is not None and not f.done():
                    f.set_result(["respond"] + list(ev[2:])); loop.drain()
            elif kind == "raise":
                f = self.handlers.get(ev[1])
                if f is not None and not f.done():
                    f.set_result(["raise", ev[2]]); loop.drain()
            elif kind == "recvmany":
                # several datagrams read in ONE loop turn: all dispatched before any rendering task runs (oracle-only stream "race")
                import aiocoap
                with loop.enter():
                    for e in ev[1]:
                        self.mman.dispatch_message(aiocoap.Message.decode(encode_request(e), self.remote(e[1])))
                loop.drain()
            elif kind == "refuse":
                (self.refused.add if ev[2] else self.refused.discard)("p%d" % ev[1])
            elif kind == "neterr":
                with loop.enter(): self.mman.dispatch_error(OSError(113, "No route to host"), self.remote(ev[1]))
                loop.drain()
            else:
                raise ValueError("unknown event %r" % (ev,))
        except Exception as e:
            if isinstance(e, ValueError) and "unknown event" in str(e): raise
            self.trace.append(["exn", type(e).__name__])
            try: loop.drain()
            except Exception as e2: self.trace.append(["exn", type(e2).__name__])
        for c in loop.exceptions[nexc:]:
            self.trace.append(["exn", type(c.get("exception")).__name__])
        out, self.trace = self.trace, []
        return out

    def final(self):
        mm = self.mman
        nm = lambda a: getattr(a, "name", repr(a))
        rec = sorted([nm(k[0]), k[1], None if v is None else v.encode().hex()] for k, v in mm._recent_messages.items())
        return {"recent": rec, "now": self.loop.now_us(), "message_id": mm.message_id,
                "timers": [d for d, s in self.loop.pending_timers()],
                "piggy": sorted([k[0].name, k[1].hex(), v[0]] for k, v in mm._piggyback_opportunities.items()),
                "exchanges": sorted([k[0].name, k[1]] for k in mm._active_exchanges),
                "backlogs": sorted([k.name, len(v)] for k, v in mm._backlogs.items()),
                "incoming": sorted([k[1].name, k[0].hex()] for k in self.tman.incoming_requests)}


def run_impl(inp):
    w = World(inp)
    steps = []
    for ev in inp["events"]:
        t_before = w.loop.now_us()
        out = w.step(ev)
        steps.append({"t": w.loop.now_us(), "out": out})
    return {"steps": steps, "final": w.final()}


# ---------------------------------------------------------------------------------------------- model side
def g_bytes(hexs): return fw.gbytes(bytes.fromhex(hexs))

def g_event(ev):
    k = ev[0]
    if k == "recv":
        _, r, t, code, mid, tok, path, nr, pay = ev
        return ("Recv {| i_remote := %d; i_type := %s; i_code := %d; i_mid := %d; i_token := %s; i_path := %s; i_nr := %s; i_payload := %s |}"
                % (r, t, code, mid, g_bytes(tok), PATH_CTOR[path], gopt(nr, gz), g_bytes(pay)))
    if k == "fire": return "Fire"
    if k == "adv": return "Advance %s" % gz(ev[1])
    if k == "respond":
        _, sid, code, pay, nr, rel = ev
        return ("Respond %d {| a_code := %d; a_payload := %s; a_nr := %s; a_rel := %s |}"
                % (sid, code, g_bytes(pay), gopt(nr, gz), gopt(rel, gbool)))
    if k == "raise": return "RaiseIn %d %s" % (ev[1], "ENotFound" if ev[2] == "NotFound" else "ERuntime")
    if k == "refuse": return "Refuse %d %s" % (ev[1], gbool(ev[2]))
    if k == "neterr": return "NetError %d" % ev[1]
    raise ValueError(ev)

def decode_observe(p, inp):
    p = fw.plain(p)
    outs, scan, (recent, now, mid), (timers, piggy, exchanges, backlogs, incoming) = p
    entries = []
    for o in outs:
        if o[0] == 0: entries.append(["send", o[1], "p%d" % o[2], bytes(o[3:]).hex()])
        elif o[0] == 1: entries.append(["start", o[1], o[2], "p%d" % o[3], o[4], bytes(o[5:]).hex()])
        elif o[0] == 3: entries.append(["refused", o[1], "p%d" % o[2]])
        else: entries.append(["exn", ["AssertionError", "KeyError"][o[2]]])
    steps, prev = [], 0
    for (t, n) in scan:
        steps.append({"t": t, "out": entries[prev:n]}); prev = n
    rec = sorted(["p%d" % e[0], e[1], bytes(e[2:]).hex() if len(e) > 2 else None] for e in recent)
    return {"steps": steps,
            "final": {"recent": rec, "now": now, "message_id": mid, "timers": sorted(timers),
                      "piggy": sorted(["p%d" % r, bytes(tok).hex(), m] for (r, tok, m) in piggy),
                      "exchanges": sorted(["p%d" % r, m] for (r, m) in exchanges),
                      "backlogs": sorted(["p%d" % r, n] for (r, n) in backlogs),
                      "incoming": sorted(["p%d" % r, bytes(tok).hex()] for (r, tok) in incoming)}}


# ---------------------------------------------------------------------------------------------- generators
NR_VALUES = [None, None, None, 0, 2, 8, 16, 26, 127]
ADV_TABLE = [1, 50000, 99999, 100000, 100001, 500000, 1999999, 2000000, 2000001, 2500000, 5000000, 30000000, 100000000,
             LIFETIME - 100001, LIFETIME - 1, LIFETIME, LIFETIME + 1]
RESP_CODES = [69, 69, 69, 68, 65, 132, 128, 160]

class Gen:
    """builds one event script; keeps the clock it can predict (only while no 'fire' was used)"""
    def __init__(self, rng, mid0=None, uniform=None):
        self.rng = rng
        self.mid0 = rng.choice([0, 1, 7, 65535, rng.randrange(65536)]) if mid0 is None else mid0
        self.uniform = rng.choice([2000000, 2500000, 3000000]) if uniform is None else uniform
        self.ev = []; self.now = 0; self.nreq = 0; self.tokc = 0; self.slow = []
    def inp(self): return {"mid0": self.mid0, "uniform": self.uniform, "events": self.ev}
    def token(self):
        self.tokc += 1
        return self.rng.choice([bytes([self.tokc % 256]), bytes([self.tokc % 256, 0xA0]), b"", bytes([1, 2, 3, 4, 5, 6, 7, self.tokc % 256])]).hex()
    def payload(self): return self.rng.choice(["", "", "61", "0102ff"])
    def recv(self, r, t, mid, tok, path, nr=None, pay="", code=None):
        code = self.rng.choice([1, 1, 2, 3, 4, 5]) if code is None else code
        e = ["recv", r, t, code, mid & 0xFFFF, tok, path, nr, pay]; self.ev.append(e); self.nreq += 1; return e
    def again(self, e): self.ev.append(list(e))
    def adv(self, us): self.ev.append(["adv", us]); self.now += us
    def fire(self): self.ev.append(["fire"])
    def respond(self, sid, code=None, pay=None, nr="pick", rel="pick"):
        rng = self.rng
        self.ev.append(["respond", sid, rng.choice(RESP_CODES) if code is None else code,
                        rng.choice(["", "aa", "0001"]) if pay is None else pay,
                        rng.choice([None, None, None, 2, 26]) if nr == "pick" else nr,
                        rng.choice([None, None, True, False]) if rel == "pick" else rel])
    def raise_(self, sid): self.ev.append(["raise", sid, self.rng.choice(["NotFound", "RuntimeError"])])
    def peer_ack(self, r, mid, t=None): self.ev.append(["recv", r, t or self.rng.choice(["ACK", "ACK", "RST"]), 0, mid & 0xFFFF, "", "fast", None, ""])


def gen_scenario(rng):
    """one request through its whole life, copies of it injected at every stage, other peers reusing the mid;
    the endpoint's own mid counter aligned with the peer's mids (pattern of the repaired defect F2)"""
    mid = rng.choice([0, 1, 7, 65534, 65535, rng.randrange(65536)])
    g = Gen(rng, mid0=(mid + rng.choice([0, 0, 0, -1, -2, 1, rng.randrange(65536)])) & 0xFFFF)
    npeers = rng.choice([1, 2, 2, 3])
    kind = rng.choice(["fast", "slow", "slow", "slow", "fail", "missing", "suppress", "badreq", "rel", "unrel"])
    t = rng.choice(["CON", "CON", "CON", "NON"])
    nr = rng.choice(NR_VALUES)
    first = g.recv(0, t, mid, g.token(), kind, nr, g.payload())
    sids = 1; myslow = [0] if kind == "slow" else []
    def dups(p=0.7):
        while rng.random() < p:
            g.again(first); p *= 0.5
    def others():
        nonlocal sids
        # other peers (and the same peer with other mids) — some reuse the same mid, some are slow
        for _ in range(rng.choice([0, 1, 1, 2])):
            r = rng.randrange(npeers); m = rng.choice([mid, mid, mid + 1, mid - 1, rng.randrange(65536)])
            if r == 0 and (m & 0xFFFF) == mid: m = mid + 1
            k2 = rng.choice(["fast", "fast", "slow", "unrel", "rel", "fail", "suppress"])
            e = g.recv(r, rng.choice(["CON", "CON", "NON"]), m, g.token(), k2, rng.choice(NR_VALUES), g.payload())
            if k2 == "slow": myslow.append(sids)
            sids += 1
            if rng.random() < 0.4: g.again(e)
    dups(); others(); dups(0.3)
    if rng.random() < 0.5: g.adv(rng.choice([1, 50000, 99999])); dups()
    g.adv(rng.choice([100000, 100001, 100000 - (g.now % 100000) if g.now % 100000 else 100000])); dups()
    others()
    # handlers answer (or fail) in random order, copies in between
    rng.shuffle(myslow)
    for sid in list(myslow):
        if rng.random() < 0.15: continue
        if rng.random() < 0.2: g.raise_(sid)
        else: g.respond(sid)
        dups(0.85)
        if rng.random() < 0.5:
            # the peer acknowledges (or resets) a separate CON response — our mids start at mid0
            g.peer_ack(rng.randrange(npeers), g.mid0 + rng.randrange(0, 3)); dups(0.4)
    if rng.random() < 0.6: g.adv(rng.choice([1000000, 2000000, 2500000, 7000000, 50000000, 100000000])); dups(0.6); others()
    # the lifetime boundary of the first arrival
    if rng.random() < 0.7:
        delta = rng.choice([-1, -1, 0, 0, 1, 1, 2, -100000])
        rest = LIFETIME + delta - g.now
        if rest > 0:
            if rng.random() < 0.4 and rest > 2: a = rng.randrange(1, rest); g.adv(a); g.adv(rest - a)
            else: g.adv(rest)
            dups(0.9)
            if rng.random() < 0.5: g.adv(rng.choice([1, 1, 2, 100000])); dups(0.9)
    return g.inp()


def gen_refusal(rng):
    """a scenario script with the transport refusing / accepting datagrams to single peers (error reported from inside send())
    and asynchronous transport errors (ICMP-style dispatch_error) inserted at random places"""
    if rng.random() < 0.45: return gen_refusal_targeted(rng)
    inp = gen_scenario(rng); ev = inp["events"]
    for _ in range(rng.randint(1, 4)):
        pos = rng.randrange(0, len(ev) + 1)
        x = rng.random()
        if x < 0.45: e = ["refuse", rng.choice([0, 0, 0, 1, 2]), True]
        elif x < 0.7: e = ["refuse", rng.choice([0, 0, 1]), False]
        else: e = ["neterr", rng.choice([0, 0, 1, 2])]
        ev.insert(pos, e)
    return inp


def gen_refusal_targeted(rng):
    """the two situations of the fixes 11456f9 / 8d04b7c: the transport starts refusing a peer while a CON separate response to it
    is being retransmitted, or while a second CON response waits in the NSTART backlog and is released by the peer's ACK/RST;
    copies of the requests before, in between and after; the refusal may end again"""
    mid = rng.randrange(65536); g = Gen(rng, mid0=rng.choice([mid, rng.randrange(65536)]))
    a = g.recv(0, "CON", mid, "0a", "slow", None, g.payload())
    two = rng.random() < 0.6
    b = g.recv(0, "CON", mid + 1, "0b", "slow", None, g.payload()) if two else None
    def copies():
        for e in (a, b):
            if e is not None and rng.random() < 0.6: g.again(e)
    g.adv(EMPTY_ACK); copies()
    g.respond(0, code=69, nr=None, rel=rng.choice([None, True]))           # CON separate response, own mid = mid0
    if two: g.respond(1, code=69, nr=None, rel=rng.choice([None, True]))   # waits in the backlog behind it
    copies()
    if rng.random() < 0.3: g.adv(rng.choice([g.uniform, g.uniform + 1, 1000000]))
    g.ev.append(["refuse", 0, True])
    if rng.random() < 0.25: copies()     # (a refused copy's reply already ends the remote's exchanges and backlog)
    for _ in range(rng.randint(1, 3)):
        x = rng.random()
        if x < 0.45: g.peer_ack(0, g.mid0, rng.choice(["ACK", "RST"]))          # releases the backlog into the refusing transport
        elif x < 0.9: g.adv(rng.choice([g.uniform, 2 * g.uniform, 3 * g.uniform, 10000000]))   # a retransmission is refused
        else: g.ev.append(["neterr", 0])
        if rng.random() < 0.5: copies()
    if rng.random() < 0.7: g.ev.append(["refuse", 0, False])
    # afterwards: timers that may have been resurrected, late ACKs, new requests, copies
    for _ in range(rng.randint(1, 4)):
        x = rng.random()
        if x < 0.35: g.adv(rng.choice([2 * g.uniform, 4 * g.uniform, 30000000, 100000000]))
        elif x < 0.6: g.peer_ack(0, g.mid0 + rng.randrange(0, 2))
        elif x < 0.8:
            e = g.recv(0, "CON", mid + 2 + rng.randrange(3), g.token(), rng.choice(["rel", "fast", "slow"]), None, "")
            if rng.random() < 0.5: g.again(e)
        else: g.fire()
        copies()
    return g.inp()


def gen_burst(rng, big=True):
    """many copies in a row (10, 50 or 200) at one stage of the life of a CON request"""
    mid = rng.randrange(65536); g = Gen(rng, mid0=mid)
    kind = rng.choice(["fast", "slow", "slow", "suppress", "fail"])
    first = g.recv(0, "CON", mid, g.token(), kind, None, g.payload())
    n = rng.choice([10, 10, 50, 50, 200] if big else [10, 10, 50, 50, 50])
    stage = rng.choice(["immediately", "empty-ack", "separate", "boundary"])
    if stage != "immediately": g.adv(EMPTY_ACK)
    if stage in ("separate", "boundary") and kind == "slow": g.respond(0)
    if stage == "boundary": g.adv(LIFETIME - EMPTY_ACK - 1)
    for i in range(n):
        g.again(first)
        if i == n // 2 and stage == "boundary": g.adv(1)
    return g.inp()


def gen_race(rng):
    """ORACLE-ONLY: the original and copies of it (and other requests) are read in one loop turn, before the handler task starts"""
    g = Gen(rng); mid = rng.randrange(65536)
    kind = rng.choice(["fast", "fast", "slow", "fail", "suppress"])
    first = ["recv", 0, rng.choice(["CON", "CON", "NON"]), 1, mid, "01", kind, None, ""]
    batch = [first] + [list(first) for _ in range(rng.randint(1, 4))]
    if rng.random() < 0.5: batch.insert(rng.randrange(1, len(batch) + 1), ["recv", 1, "CON", 1, mid, "02", "fast", None, ""])
    g.ev.append(["recvmany", batch])
    g.again(first)
    if rng.random() < 0.5: g.adv(EMPTY_ACK); g.again(first)
    if rng.random() < 0.5: g.ev.append(["recvmany", [list(first), list(first)]])
    g.adv(LIFETIME); g.ev.append(["recvmany", [list(first), list(first)]])
    return g.inp()


def gen_cached(rng):
    """the resource hands the SAME response object to every request (CON requests answered at once; fixed defect of 75465d6):
    several requests from 1-3 peers, same and different mids, copies of earlier ones after each later use of the object"""
    g = Gen(rng)
    mid = rng.randrange(65536); reqs = []; keys = set()
    for i in range(rng.randint(2, 5)):
        r = rng.randrange(3); m = (mid + rng.choice([0, 0, 1, 2])) & 0xFFFF
        if (r, m) in keys: continue
        keys.add((r, m))
        reqs.append(g.recv(r, "CON", m, "%02x" % (i + 1), "cached", None, g.payload()))
        for _ in range(rng.choice([0, 1, 1, 2])): g.again(rng.choice(reqs))
        if rng.random() < 0.3: g.recv(rng.randrange(3), "CON", rng.randrange(65536), g.token(), "fast")
        if rng.random() < 0.2: g.adv(rng.choice([1, 100000, 5000000]))
    for e in reqs: g.again(e)
    if rng.random() < 0.5:
        g.adv(LIFETIME - g.now - 1); g.again(rng.choice(reqs)); g.adv(rng.choice([1, 2])); g.again(reqs[0]); g.again(reqs[-1])
    return g.inp()


def gen_random(rng, adversarial=False):
    g = Gen(rng)
    mids = [rng.randrange(65536) for _ in range(2)] + [g.mid0, (g.mid0 + 1) & 0xFFFF]
    toks = ["", "01", "02", "a1b2", "0102030405060708"]
    recvs = []
    for _ in range(rng.randint(4, 28)):
        x = rng.random()
        if x < 0.45 or not recvs:
            t = rng.choice(["CON", "CON", "CON", "NON"]); code = None
            if adversarial and rng.random() < 0.35:
                t = rng.choice(TYPES); code = rng.choice([0, 0, 1, 2, 7, 69, 68, 132, 160, 191, 32, 192, 224])
            path = rng.choice(PATHS)
            if adversarial and recvs and rng.random() < 0.25:
                # the peer reuses a live message ID for a ping / an unmatched CON response / an ACK-typed request
                old = rng.choice(recvs)
                g.recv(old[1], rng.choice(["CON", "CON", "CON", "ACK", "NON"]), old[4], rng.choice(toks), path, None, "", rng.choice([0, 0, 69, 132, 1]))
                continue
            e = g.recv(rng.randrange(3), t, rng.choice(mids), rng.choice(toks) if (adversarial or rng.random() < 0.3) else g.token(),
                       path, rng.choice(NR_VALUES), g.payload(), code)
            recvs.append(e)
        elif x < 0.65: g.again(rng.choice(recvs))
        elif x < 0.80: g.adv(rng.choice(ADV_TABLE))
        elif x < 0.86: g.fire()
        elif x < 0.96:
            if rng.random() < 0.2: g.raise_(rng.randrange(0, g.nreq + 1))
            else: g.respond(rng.randrange(0, g.nreq + 1))
        else: g.peer_ack(rng.randrange(3), g.mid0 + rng.randrange(0, 4))
    return g.inp()


def gen_lifetime(rng):
    """several keys inserted at the same instant (their expiry timers tie on the due time), copies at L-1, L, L+1"""
    g = Gen(rng)
    if rng.random() < 0.5: g.adv(rng.choice([1, 12345, 100000, 3000000]))
    firsts = []
    base = rng.randrange(65536)
    for i in range(rng.randint(1, 4)):
        firsts.append(g.recv(rng.randrange(2), rng.choice(["CON", "CON", "NON"]), base + (i // 2), g.token(),
                             rng.choice(["fast", "fast", "suppress", "fail", "unrel", "slow"]), None, g.payload()))
        if firsts[-1] in firsts[:-1]: firsts.pop()
    t0 = g.now
    mode = rng.choice(["adv", "adv", "fire", "split"])
    delta = rng.choice([-1, 0, 1])
    if mode == "fire":
        # fire timers one by one: the clock jumps to each due time; copies in between
        for _ in range(rng.randint(1, 8)):
            g.fire()
            if rng.random() < 0.6: g.again(rng.choice(firsts))
    else:
        target = t0 + LIFETIME + delta
        if mode == "split":
            a = rng.choice([100000, 2000000, LIFETIME - 2, LIFETIME - 100000]); g.adv(a)
            for f in firsts:
                if rng.random() < 0.5: g.again(f)
        g.adv(target - g.now)
    for f in firsts:
        g.again(f)
        if rng.random() < 0.5: g.again(f)
    if rng.random() < 0.5:
        g.adv(rng.choice([1, 2])); 
        for f in firsts: g.again(f)
    return g.inp()


# ---------------------------------------------------------------------------------------------- the property
class C04(fw.Property):
    id = "C04"
    coq_props = "Props/C04.v"
    gen_jobs = ["c03_constants", "c14_message_id"]     # round 7: constants + message-ID successor tie (Proofs/C04Tie.v)
    model_imports = ["Verif.Model.C04"]
    quick_budget = 380
    thorough_budget = 5000
    search_factor = 2
    design_ref = "DESIGN.md section 9"
    technique = ("Coq invariant proofs over an executable state machine of the message-ID deduplication of MessageManager and of the "
                 "request path that produces the remembered acknowledgements; differential correspondence of that machine with the real "
                 "Context/TokenManager/MessageManager/resource.Site under a virtual-time loop; independent wire-level oracle")
    level_text = ("Theorems (closed under the global context) over Model/C04.v for every reachable state and every event list: a request key "
                  "(remote, mid) is handed to the application at most once per EXCHANGE_LIFETIME; a further copy inside the lifetime yields exactly "
                  "the last ACK/RST sent under that key since the first arrival (CON) or nothing (NON, or no ACK yet), changes no state and never "
                  "raises; copies neither extend nor shorten the lifetime: the key is forgotten exactly when the expiry timer armed at the first arrival fires "
                  "(first arrival + EXCHANGE_LIFETIME) and the next copy is executed; a key that did not arrive stays unknown whatever other endpoints do; "
                  "none of the message layer's internal-error branches is reachable (C04_no_exception); other remotes' use of the same mid is independent; the repeated reply is an ACK unless the peer reused the live message ID for a "
                  "confirmable non-request. The model is tied to the code by running both on the same event scripts.")
    level_note = ("Hand-written model; only its transport constants and the message-ID successor are tied to translated source (Proofs/C04Tie.v), the rest is trusted through the correspondence streams. Not modelled: multicast, shutdown, "
                  "outgoing client requests, observe, block-wise, non-default TransportTuning of incoming messages, continuation after an internal "
                  "exception (the KeyError/AssertionError branches are modelled as outputs; C04_no_exception proves them unreachable from the initial state). All ACKs sent under one key inside its lifetime are one message (C04_single_ack, unconditional). A peer that reuses a live "
                  "message ID for a ping or an unmatched CON response makes the remembered reply an RST (C04_impolite_peer_gets_rst); "
                  "C04_dup_reply_is_ack carries that side condition explicitly.")
    rule = ("streams: scenario = one request (fast/slow/failing/missing/No-Response/forced CON or NON response; CON or NON) followed through its life with "
            "copies injected before completion, inside EMPTY_ACK_DELAY, after the empty ACK, after the separate response, after the peer's ACK/RST, and at "
            "EXCHANGE_LIFETIME-1/0/+1 us, 1-3 peers reusing the mid, own mid counter aligned with the peer's mids; lifetime = keys inserted at one instant, "
            "expiry by advance / split advance / single timer firings, copies at the boundary; random = event soup over small pools of mids, tokens, peers; "
            "adversarial = the same with pings, responses, ACK/RST-typed requests, reserved codes and token reuse colliding with live mids; "
            "refusal = scenario scripts with the transport refusing datagrams to single peers from inside send() and asynchronous transport errors "
            "(MessageManager.dispatch_error) at random places; burst = 10/50 (thorough: also 200) copies in a row at one stage; cached = a "
            "resource returning one response object for every request (defect fixed in 75465d6). Per 20 cases: 8 scenario, 3 lifetime, 3 random, 2 adversarial, "
            "3 refusal, 1 burst / cached / race (race, oracle only: original and copies dispatched in one loop turn before the handler task starts). "
            "thorough adds enum = every script of length <= 3 over 7 symbols and of length 4 over 5 symbols (1024 scripts) on one key. "
            "Non-trivial = at least one copy of a CON request was re-answered and at least one request reached the site; distinct by full script.")
    trusted_base = ["hand-written Model/C04.v (validated by the six modelled correspondence streams on every run: full output log with timestamps, "
                    "per-event cut, final _recent_messages / timers / piggy-back / exchange / backlog / incoming tables)",
                    "harness: virtual-time loop simloop.VLoop (ideal timer service), fake transport simnet.FakeMI/Addr, scripted random",
                    "the plugin's own 15-line CoAP header/option encoder used to build the injected datagrams (outputs are rendered by Model/C04.wire_bytes)"]
    assumptions = ["model and theorems: each datagram is processed until the loop is idle before the next one is read; several datagrams per loop "
                   "turn (a copy dispatched before the render task of the original has run gets nothing: entry still None) are exercised on the "
                   "implementation only (oracle-only stream 'race')",
                   "'sent' = handed to message_interface.send; a refusing transport reports from inside send() (udp6 pattern) or later through "
                   "dispatch_error, both modelled; a send() that raises (unencodable response: open finding of C09) is not",
                   "a response object reused by the handler is modelled (stream 'cached') for CON requests answered at once by a piggy-backed ACK; "
                   "its reuse for NON requests or separate responses (the library leaves mtype/mid of the previous use on it) is outside this property",
                   "source endpoint equality is EndpointAddress.__eq__/__hash__ of the stub simnet.Addr (a new object per datagram)",
                   "timers fire at their due time in (due, creation) order (ideal loop); real-loop jitter is not modelled",
                   "default TransportTuning (EXCHANGE_LIFETIME 247 s, EMPTY_ACK_DELAY 0.1 s, MAX_RETRANSMIT 4) on incoming messages"]

    def setup(self):
        import logging, warnings
        logging.disable(logging.CRITICAL); warnings.simplefilter("ignore")
        from aiocoap.numbers.constants import TransportTuning
        tt = TransportTuning()
        assert round(tt.EXCHANGE_LIFETIME * 1e6) == LIFETIME and round(tt.EMPTY_ACK_DELAY * 1e6) == EMPTY_ACK and tt.MAX_RETRANSMIT == 4, \
            "transport constants differ from Model/C04.v"

    def gen_cases(self, tier, rng, n):
        for k in range(n):
            x = k % 20
            if x < 8: yield "scenario", gen_scenario(rng)
            elif x < 11: yield "lifetime", gen_lifetime(rng)
            elif x < 14: yield "random", gen_random(rng)
            elif x < 16: yield "adversarial", gen_random(rng, adversarial=True)
            elif x < 19: yield "refusal", gen_refusal(rng)
            else: yield [("burst", gen_burst(rng, tier == "thorough")), ("cached", gen_cached(rng)), ("burst", gen_burst(rng, tier == "thorough")), ("race", gen_race(rng))][(k // 20) % 4]
        if tier == "thorough":
            # exhaustive small scope (validation of the tie, not a proof): every script of length <= 3 over 7 symbols and of
            # length 4 over 5 symbols; one key of peer 0 (slow and fast copy), the same mid from peer 1, the two clock
            # steps that add up to EXCHANGE_LIFETIME, the handler's answer, a single timer firing; own mid counter aligned
            import itertools
            M = 7
            sym = [["recv", 0, "CON", 1, M, "01", "slow", None, ""], ["adv", EMPTY_ACK], ["respond", 0, 69, "aa", None, None],
                   ["adv", LIFETIME - EMPTY_ACK], ["recv", 1, "NON", 1, M, "02", "fast", None, ""],
                   ["recv", 0, "CON", 1, M, "01", "fast", None, ""], ["fire"]]
            for L, alpha in ((1, sym), (2, sym), (3, sym), (4, sym[:5])):
                for script in itertools.product(alpha, repeat=L):
                    yield "enum", {"mid0": M, "uniform": 2000000, "events": [list(e) for e in script]}

    def impl(self, stream, inp):
        return run_impl(inp)

    def model(self, stream, inp):
        if stream == "race": return None   # several datagrams per loop turn are not modelled: oracle only
        return "observe (init %s %s) %s" % (gz(inp["mid0"]), gz(inp["uniform"]), glist([g_event(e) for e in inp["events"]]))

    def decode(self, stream, inp, parsed):
        return decode_observe(parsed, inp)

    # ------------------------------------------------------------------ oracle: RFC 7252 4.5 on the wire and the handler log
    def oracle(self, stream, inp, res):
        o = self._oracle(stream, inp, res)
        if o is not None and stream == "cached" and o[0] in ("C04:dup-answer-differs", "C04:dup-extra-output"):
            # the situation of this stream: the handler returned the same Message object for several requests
            return (o[0] + ":response-object-reused-by-handler", o[1])
        return o

    def _oracle_race(self, inp, res):
        """several datagrams per loop turn: only the order-independent part of the property — at most one hand-over per key and
        lifetime, all ACKs sent under one key inside its lifetime byte-identical, NON requests never acknowledged, no exception"""
        starts = {}; acks = {}
        for n, (ev, st) in enumerate(zip(inp["events"], res["steps"])):
            for o in st["out"]:
                if o[0] == "exn": return ("C04:exception:" + o[1], "event %d raised %s" % (n, o[1]))
                if o[0] == "start":
                    k = (o[3], o[4]); prev = starts.get(k)
                    if prev is not None and o[1] - prev < LIFETIME:
                        return ("C04:handler-twice", "request %s mid %d passed to the application at %d and again at %d us (datagrams read in one loop turn)" % (k[0], k[1], prev, o[1]))
                    starts[k] = o[1]; acks.pop(k, None)
                elif o[0] == "send":
                    ty, code, mid, tok = parse_header(bytes.fromhex(o[3]))
                    if ty == "ACK":
                        k = (o[2], mid)
                        if k in acks and acks[k] != o[3]:
                            return ("C04:dup-answer-differs", "two different ACKs under %s mid %d: %s and %s" % (k[0], mid, acks[k], o[3]))
                        acks[k] = o[3]
        return None

    def _oracle(self, stream, inp, res):
        if "harness_exception" in res:
            return ("C04:crash:" + res["where"], "driver raised %s: %s" % (res["harness_exception"], res.get("text")))
        if stream == "race": return self._oracle_race(inp, res)
        live = {}     # (remote, mid) -> {"t0": first arrival, "reply": hex of the last ACK/RST sent under the key since then}
        last_start = {}
        well_behaved = stream in ("scenario", "lifetime", "enum", "refusal", "burst", "cached")
        for n, (ev, st) in enumerate(zip(inp["events"], res["steps"])):
            t = st["t"]
            out = [o for o in st["out"] if o[0] != "refused"]     # a datagram handed to a refusing transport counts as sent
            for o in out:
                if o[0] == "exn": return ("C04:exception:" + o[1], "event %d %r raised %s" % (n, ev, o[1]))
            expect_dup = None
            if ev[0] == "recv" and 1 <= ev[3] < 32:
                key = ("p%d" % ev[1], ev[4]); g = live.get(key)
                starts = [o for o in out if o[0] == "start" and (o[3], o[4]) == key]
                unsure = False
                if g is not None and t < g["t0"] + LIFETIME: expect_dup = True
                elif g is not None and t <= g.get("alt", g["t0"]) + LIFETIME:
                    # the expiry instant itself (either side of the timer), or a key whose first arrival may have been an
                    # ACK/RST-typed request at such an instant: a hand-over to the application settles it, otherwise it is a copy
                    expect_dup = (not starts)
                    if ev[2] not in ("CON", "NON") or "alt" in g: unsure = True
                else: expect_dup = False
                if expect_dup and unsure:
                    g["alt"] = max(t, g.get("alt", 0)) if ev[2] not in ("CON", "NON") else g.get("alt", g["t0"])
                    if any(o[0] == "start" for o in out):
                        return ("C04:dup-executed", "event %d: %r started a handler" % (n, ev))
                elif expect_dup:
                    if starts or any(o[0] == "start" for o in out):
                        return ("C04:dup-executed", "event %d: copy of %s mid %d arriving %d us after the first was passed to the application again" % (n, key[0], key[1], t - g["t0"]))
                    if ev[2] == "CON":
                        want = [] if g["reply"] is None else [["send", t, key[0], g["reply"]]]
                        if out != want:
                            if g["reply"] is None: return ("C04:dup-answered-without-ack", "event %d: copy of CON mid %d answered with %r although no ACK was sent yet" % (n, key[1], out))
                            if not out: return ("C04:dup-unanswered", "event %d: copy of CON mid %d got no answer, the ACK %s was sent before" % (n, key[1], g["reply"]))
                            if len(out) == 1 and out[0][0] == "send" and out[0][2] == key[0]:
                                return ("C04:dup-answer-differs", "event %d: copy of CON mid %d answered with %s, the acknowledgement sent before was %s" % (n, key[1], out[0][3], g["reply"]))
                            return ("C04:dup-extra-output", "event %d: copy of CON mid %d produced %r, expected %r" % (n, key[1], out, want))
                        if well_behaved and g["reply"] is not None and parse_header(bytes.fromhex(g["reply"]))[0] != "ACK":
                            return ("C04:dup-answer-not-ack", "event %d: remembered reply %s is not an ACK" % (n, g["reply"]))
                    elif out:
                        return ("C04:dup-non-output", "event %d: copy of %s mid %d produced output %r" % (n, ev[2], key[1], out))
                else:
                    live[key] = {"t0": t, "reply": None, "token": ev[5]}
                    if ev[2] in ("CON", "NON"):
                        for o in out:
                            if o[0] == "send" and o[2] != key[0]:
                                return ("C04:fresh-output-to-other-peer", "event %d: new request from %s made the endpoint send %s to %s" % (n, key[0], o[3], o[2]))
                        if len(starts) != 1:
                            return ("C04:fresh-not-executed" if not starts else "C04:handler-twice",
                                    "event %d: request %s mid %d (new for this endpoint%s) was passed to the application %d times" %
                                    (n, key[0], key[1], "" if g is None else ", previous arrival %d us ago" % (t - g["t0"]), len(starts)))
            # bookkeeping on everything that went out / was started in this step
            for o in out:
                if o[0] == "start":
                    k2 = (o[3], o[4]); prev = last_start.get(k2)
                    if prev is not None and o[1] - prev < LIFETIME:
                        return ("C04:handler-twice", "request %s mid %d passed to the application at %d and again at %d us" % (k2[0], k2[1], prev, o[1]))
                    last_start[k2] = o[1]
                    if not (ev[0] == "recv" and ("p%d" % ev[1], ev[4]) == k2):
                        return ("C04:start-without-arrival", "event %d %r started a handler for %r" % (n, ev, k2))
                elif o[0] == "send":
                    ty, code, mid, tok = parse_header(bytes.fromhex(o[3]))
                    g2 = live.get((o[2], mid))
                    if ty in ("ACK", "RST") and g2 is not None and o[1] <= g2["t0"] + LIFETIME:
                        if well_behaved and ty == "ACK" and code != 0 and tok.hex() != g2["token"]:
                            return ("C04:ack-for-other-request", "event %d: ACK %s under mid %d carries token %s, the request with that mid had token %s" % (n, o[3], mid, tok.hex(), g2["token"]))
                        g2["reply"] = o[3]
        return None

    def nontrivial(self, stream, inp, res):
        if "steps" not in res: return None
        seen = set(); reanswered = False; started = False
        for ev, st in zip(inp["events"], res["steps"]):
            if any(o[0] == "start" for o in st["out"]): started = True
            if ev[0] == "recv" and 1 <= ev[3] < 32:
                k = (ev[1], ev[4])
                if k in seen and ev[2] == "CON" and st["out"] and all(o[0] == "send" for o in st["out"]): reanswered = True
                seen.add(k)
        return fw.jdump(inp) if (reanswered and started) else None

PROPERTY = C04()
