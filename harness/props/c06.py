"""C06 — block-wise server (Block1Spool / Block2Cache / TimeoutDict / Resource._render_to_pipe).

Correspondence: the real Context + Site + three resources (each with its own spool and cache) under the
virtual-time loop, driven by raw datagrams from 1..3 fake endpoints, against Model/C06.v `run`.
Oracle: a reference monitor written from the property text (not from the model)."""
import os, sys, json, warnings, logging
import fw
from fw import gz, gbool, glist, gopt

T_US = 93_000_000                     # MAX_TRANSMIT_WAIT in µs
PREFIX = [("a",), ("b",), ("p",)]     # resource 0 at /a, 1 at /b, 2 (PathCapable) at /p/<sub>
NRES = 3
CONTINUE, BAD_REQUEST, INCOMPLETE = 95, 128, 136
GET, POST, PUT, FETCH = 1, 2, 3, 5
U_PATH, U_QUERY, OBSERVE, CFMT, ACCEPT, SIZE2, SIZE1, REQTAG = 11, 15, 6, 12, 17, 28, 60, 292
ENDPOINT_KINDS = [{"mps": 1124, "mbse": 6}, {"mps": 64, "mbse": 2}, {"mps": 40, "mbse": 1}, {"mps": 1124, "mbse": 6}, {"mps": 1152, "mbse": 7}]

def body(seed, n): return bytes((seed + 7 * i) % 256 for i in range(n))
def bsize(szx): return 2 ** (min(szx, 6) + 4)
def sorted_opts(opts): return sorted(opts, key=lambda o: o[0])      # stable, like Options.option_list()
def is_key_opt(n): return n not in (27, 23, 6) and not ((n & 2) == 0 and (n & 0x1E) == 0x1C)
def ckey(ev): return (ev["res"], ev["ep"], ev["code"], tuple((n, tuple(v)) for n, v in sorted_opts(ev["opts"]) if is_key_opt(n)))


# ----------------------------------------------------------------------------- driving the real code
class _Driver:
    """One server (Context + Site + resources) under a fresh virtual loop."""
    def __init__(self, endpoints):
        import aiocoap, aiocoap.resource as resource
        import simloop, simnet
        self.aiocoap = aiocoap; self.simnet = simnet
        self.loop = simloop.VLoop()
        simnet.patch_random(None, 0, 0)
        drv = self
        class Handler(resource.Resource):
            def __init__(s, idx): super().__init__(); s.idx = idx
            async def render(s, request):
                drv.calls.append({"res": s.idx, "ep": request.remote.idx, "code": int(request.code),
                                  "opts": [[int(o.number), list(o.encode())] for o in request.opt.option_list() if int(o.number) not in (23, 27)],
                                  "b1": blk(request.opt.block1), "b2": blk(request.opt.block2),
                                  "payload": list(request.payload), "id": request.mid, "tok": list(request.token)})
                ev = drv.current; my = drv.current_idx
                if ev.get("defer"):
                    import asyncio
                    gate = asyncio.Event(); drv.gates[my] = gate
                    await gate.wait()
                    # what the handler sees when it looks at its request again after having awaited
                    drv.after[my] = {"payload": list(request.payload), "b1": blk(request.opt.block1), "id": request.mid}
                return aiocoap.Message(code=aiocoap.Code(ev["rcode"]), payload=body(ev["rseed"], ev["rlen"]))
        class PHandler(Handler, resource.PathCapable): pass
        class Ep(simnet.Addr):
            def __init__(s, idx, kind):
                super().__init__("ep%d" % idx); s.idx = idx
                s.maximum_payload_size = kind["mps"]; s.maximum_block_size_exp = kind["mbse"]
                # the block key of a real UDP endpoint (transports/udp6.py: (sockaddr, pktinfo)): distinct ports, or with
                # "shared_sockaddr" the same remote socket address reached on different local addresses (pktinfo)
                from aiocoap.transports.udp6 import UDP6EndpointAddress
                shared = endpoints[0].get("shared_sockaddr")
                s.real = UDP6EndpointAddress(("2001:db8::1", 5683 if shared else 20000 + idx, 0, 0), drv, pktinfo=(bytes([idx]) * 20 if shared else None))
            @property
            def blockwise_key(s): return s.real.blockwise_key
        self.eps = [Ep(i, k) for i, k in enumerate(endpoints)]
        site = resource.Site()
        with self.loop.enter():
            self.res = [Handler(0), Handler(1), PHandler(2)]
        for r, p in zip(self.res, PREFIX): site.add_resource(list(p), r)
        self.ctx, self.tman, self.mman, self.mi = simnet.make_stack(self.loop, site)
        self.calls = []; self.current = None; self.current_idx = None; self.gates = {}; self.after = {}
    def sizes(self, r): return [len(r._block1._assemblies._items), len(r._block2._completes._items)]
    def request(self, idx, ev):
        aiocoap = self.aiocoap
        m = aiocoap.Message(code=aiocoap.Code(ev["code"]), payload=body(ev["pseed"], ev["plen"]),
                            mtype=aiocoap.CON if ev["con"] else aiocoap.NON, mid=idx + 1, token=bytes([idx >> 8, idx & 255]))
        path = list(PREFIX[ev["res"]])
        for n, v in ev["opts"]:
            if n == U_PATH: path.append(bytes(v).decode("utf8"))
        m.opt.uri_path = path
        for n, v in ev["opts"]:
            if n != U_PATH: m.opt.add_option(aiocoap.OptionNumber(n).create_option(decode=bytes(v)))
        if ev["b1"] is not None: m.opt.block1 = tuple(ev["b1"])
        if ev["b2"] is not None: m.opt.block2 = tuple(ev["b2"])
        self.calls = []; self.current = ev; self.current_idx = idx
        self.mi.take()
        ok = self.simnet.inject(self.loop, self.mman, m.encode(), self.eps[ev["ep"]])
        sent = self.mi.take()
        out = {"calls": self.calls, "sizes": self.sizes(self.res[ev["res"]])}
        if not ok or len(sent) != 1:
            out["resp"] = None; out["n_sent"] = len(sent); return out
        t, remote, raw = sent[0]
        d = aiocoap.Message.decode(raw, remote)
        out["resp"] = {"code": int(d.code), "b1": blk(d.opt.block1), "b2": blk(d.opt.block2), "payload": list(d.payload)}
        if d.token != m.token or remote != self.eps[ev["ep"]]: out["misrouted"] = True
        return out
    def decode_sent(self, sent):
        out = []
        for t, remote, raw in sent:
            d = self.aiocoap.Message.decode(raw, remote)
            out.append({"for": (d.token[0] << 8 | d.token[1]) if len(d.token) == 2 else None,
                        "resp": {"code": int(d.code), "b1": blk(d.opt.block1), "b2": blk(d.opt.block2), "payload": list(d.payload)}})
        return out
    def request_overlap(self, idx, ev):
        """like request(), but the handler may still be waiting afterwards: 0 or 1 messages are sent"""
        o = self.request(idx, dict(ev, con=False))
        return o
    def finish(self, of):
        """let the handler invoked by event `of` return"""
        self.calls = []; self.mi.take()
        g = self.gates.pop(of, None)
        if g is None: return {"resp": None, "n2": self.sizes(self.res[0])[1], "unknown": True}
        with self.loop.enter(): g.set()
        self.loop.drain()
        sent = self.decode_sent(self.mi.take())
        out = {"n2": self.sizes(self.res[0])[1], "after": self.after.get(of)}
        mine = [x for x in sent if x["for"] == of]
        out["resp"] = mine[0]["resp"] if len(mine) == 1 and len(sent) == 1 else None
        if out["resp"] is None: out["n_sent"] = len(sent)
        return out
    def advance(self, dt):
        self.loop.advance(dt)
        return {"sizes": [self.sizes(r) for r in self.res]}

def blk(b): return None if b is None else [int(b.block_number), bool(b.more), int(b.size_exponent)]


class C06(fw.Property):
    id = "C06"
    coq_props = "Props/C06.v"
    gen_jobs = ["block_kernels", "c03_constants"]     # owned by translate/jobs/c05.py; used for the _extract_block / size / start tie (Proofs/C06Kernel.v)
    model_imports = ["Verif.Model.C06"]
    quick_budget = 400
    thorough_budget = 8000
    design_ref = "DESIGN.md section 11"
    technique = ("Coq proofs over a hand-written executable model of Block1Spool/Block2Cache/TimeoutDict/_render_to_pipe (invariants over all "
                 "event histories, ghost last-access times for the lifetime bounds); differential correspondence against the real server stack under virtual time")
    level_text = ("Theorems (closed under the global context) over a hand-written executable model of TimeoutDict, Block1Spool.feed_and_take, "
                  "Block2Cache.extract_or_insert, Message._append_request_block/_extract_block and Resource._render_to_pipe: for every event history the model "
                  "refines time-free reference maps (handler bodies = in-order chains of one key; Block2 answers = exact slices of the stored reference rendering); "
                  "total decision table of the Block1 answers (2.31 / 4.08 / 4.00, frame); no 5.xx over all histories; TimeoutDict lifetime in [T, 2T) over all "
                  "access histories and, lifted, for spool and cache entries over all server histories (continuation < T after the last use never 4.08 for expiry, >= 2T always). The model is tied to the code by running both on the same request/idle-time histories through the real Context+Site+Resource stack.")
    level_note = ("Hand-written model (no translated kernel); handlers are atomic (render does not yield), so overlapping renderings are outside the model. "
                  "The lifetime bounds are proved for TimeoutDict op histories and lifted to every event history of the server model (ghost last-use times; a rejected continuation and a 4.00 later block count as uses, a complete answer evicts). "
                  "Finding C06:block2-stale-rendering is fixed in /repo (d768e89); the model has the eviction and the 'latest block-0 rendering' clause is a theorem. Length check applies to M=1 continuations only (as in the code).")
    rule = ("stream block_sequences: 1..4 planned transfers (Block1 uploads with optional Block2 of the response, Block2 downloads; szx 0-2 mostly, rarely 6/7/BERT) "
            "from 1..3 endpoints (max payload 1124/64/40/1152) on 3 resources (one PathCapable with sub-paths), each transfer perturbed with p=0.7 (skip, repeat, restart at 0, "
            "last first, reversed, wrong payload size, size exponent change, block number off, more-flag flipped, cache-key option / method / endpoint changed), steps interleaved "
            "at random, idle times from a table around MAX_TRANSMIT_WAIT and twice that (+-1 us) or uniform in [0,3T]; NoCacheKey options (Size1/Size2) and Observe vary per block. "
            "Compared per event: handler invocations (endpoint, code, options, block options, body, mid), response (code, Block1, Block2, payload), number of assemblies / renderings held. "
            "Non-trivial = a multi-block body reached the handler or a NUM>0 block was served, and some request was rejected (4.00/4.08); distinct by full input. "
            "Every 5th case is a supersede scenario (rendering stored / complete answer pops it, mostly emptying the cache / stored again / idle chosen relative to the FIRST timer's deadline / NUM>0); "
            "idle times are also anchored at earlier events' time + T or 2T (+-1 us). Stream timeoutdict_ops (every 5th case): get/set/pop/advance histories over 3 keys on the real TimeoutDict vs Model drun, "
            "comparing returned values, keys held and the deadline of the pending timer after every op; oracle = lifetime bounds. "
            "Streams overlapping_renderings (1 of 10; handlers await and return in any order, vs Model srun) and overlapping_uploads (1 of 10; oracle only: the request seen by an awaiting handler must not change). "
            "BERT Block1 messages of 1-3 KiB; endpoints carry real UDP6 block keys (distinct ports, or one socket address with different pktinfo). "
            "thorough adds every sequence of length <= 4 over 8 Block1/idle letters, over 7 Block2/idle letters and over 8 TimeoutDict op letters.")
    trusted_base = ["hand-written Model/C06.v (validated by the block_sequences stream on every run)",
                    "harness: virtual-time loop (ideal timers), fake endpoints/transport, message codec of aiocoap used to put requests on the simulated wire",
                    "Site path stripping is mirrored by the harness (resource index + remaining Uri-Path), not modelled"]
    assumptions = ["main model (run/step, all history theorems): handlers are atomic — render() does not yield between being invoked and returning; overlapping handlers are covered by the schedule model srun (requests without Block1; invariant: stored rendering = that of the latest begun request) and by the oracle-only stream overlapping_uploads",
                   "one endpoint object per blockwise_key; maximum_payload_size / maximum_block_size_exp constant per endpoint",
                   "option values canonical (minimal uint encoding), so value equality = byte equality"]

    # ------------------------------------------------------------------ implementation
    def setup(self):
        warnings.simplefilter("ignore"); logging.disable(logging.CRITICAL)
        sys.path.insert(0, os.path.join(fw.VERIF, "harness"))
    def impl(self, stream, inp):
        self.setup()
        if stream == "timeoutdict_ops": return self.impl_td(inp)
        if stream in ("overlapping_renderings", "overlapping_uploads"): return self.impl_overlap(stream, inp)
        d = _Driver(inp["endpoints"])
        out = []
        for idx, ev in enumerate(inp["events"]):
            if ev["t"] == "adv": out.append(d.advance(ev["dt"]))
            else: out.append(d.request(idx, ev))
        res = {"outputs": out}
        if d.loop.exceptions: res["loop_exceptions"] = [str(c.get("exception") or c.get("message"))[:120] for c in d.loop.exceptions]
        return res

    def impl_overlap(self, stream, inp):
        """handlers that await: `req` events with "defer" leave their handler pending until a `fin` event releases it"""
        d = _Driver(inp["endpoints"]); out = []
        for idx, ev in enumerate(inp["events"]):
            if ev["t"] == "adv":
                d.loop.advance(ev["dt"]); out.append({"n2": d.sizes(d.res[0])[1]})
            elif ev["t"] == "fin":
                o = d.finish(ev["of"])
                if stream == "overlapping_renderings": o.pop("after", None)
                out.append(o)
            else:
                o = d.request_overlap(idx, ev)
                r = {"calls": o["calls"], "resp": o["resp"], "n2": o["sizes"][1]}
                if ev.get("defer"): r = {"calls": o["calls"], "resp": o["resp"]}
                elif stream == "overlapping_uploads": r["n1"] = o["sizes"][0]
                out.append(r)
        res = {"outputs": out}
        if d.loop.exceptions: res["loop_exceptions"] = [str(c.get("exception") or c.get("message"))[:120] for c in d.loop.exceptions]
        return res

    def impl_td(self, inp):
        """the real TimeoutDict under the virtual loop: get / set / pop / advance on integer keys"""
        import simloop
        from aiocoap.util.asyncio.timeoutdict import TimeoutDict
        from aiocoap import numbers
        loop = simloop.VLoop(); out = []
        d = TimeoutDict(numbers.TransportTuning().MAX_TRANSMIT_WAIT)
        for op in inp["ops"]:
            got = None
            if op[0] == "adv": loop.advance(op[1])
            else:
                with loop.enter():
                    try:
                        if op[0] == "get": got = d[op[1]]
                        elif op[0] == "set": d[op[1]] = op[2]
                        elif op[0] == "pop": got = d.pop(op[1], None)
                    except KeyError: got = None
                loop.drain()
            h = d._timeout
            out.append({"got": got, "keys": list(d._items), "due": None if h is None else int(round(h.when() * 1e6))})
        res = {"outputs": out, "pending_timers": len(loop.pending_timers())}
        if loop.exceptions: res["loop_exceptions"] = [str(c.get("exception") or c.get("message"))[:120] for c in loop.exceptions]
        return res

    # ------------------------------------------------------------------ model
    def g_blk(self, b):
        return "None" if b is None else "(Some {| b_num := %s; b_more := %s; b_szx := %s |})" % (gz(b[0]), gbool(b[1]), gz(b[2]))
    def g_req(self, idx, ev, k):
        opts = glist(["(%s, %s)" % (gz(n), fw.gbytes(v)) for n, v in sorted_opts(ev["opts"])])
        return ("{| m_remote := %s; m_mps := %s; m_mbse := %s; m_code := %s; m_opts := %s; m_block1 := %s; m_block2 := %s; "
                "m_payload := mk_body %s %s; m_id := %s |}") % (gz(ev["ep"]), gz(k["mps"]), gz(k["mbse"]), gz(ev["code"]), opts,
                self.g_blk(ev["b1"]), self.g_blk(ev["b2"]), gz(ev["pseed"]), gz(ev["plen"]), gz(idx + 1))
    def model(self, stream, inp):
        if stream == "timeoutdict_ops":
            ops = glist([{"get": "DGet %s", "pop": "DPop %s", "adv": "DAdv %s"}[o[0]] % gz(o[1]) if o[0] != "set" else "DSet %s %s" % (gz(o[1]), gz(o[2])) for o in inp["ops"]])
            return "drun MAX_TRANSMIT_WAIT_us (0, td_empty) %s" % ops
        if stream == "overlapping_uploads": return None      # oracle only: the model has no aliasing between handler and spool
        if stream == "overlapping_renderings":
            k = inp["endpoints"][0]; evs = []
            for idx, ev in enumerate(inp["events"]):
                if ev["t"] == "adv": evs.append("SAdvance %s" % gz(ev["dt"]))
                elif ev["t"] == "fin":
                    b = inp["events"][ev["of"]]
                    evs.append("SFinish %s {| p_code := %s; p_block1 := None; p_block2 := None; p_payload := mk_body %s %s |}" % (gz(ev["of"] + 1), gz(b["rcode"]), gz(b["rseed"]), gz(b["rlen"])))
                else:
                    req = self.g_req(idx, ev, k)
                    evs.append(("SBegin %s %s" % (gz(idx + 1), req)) if ev.get("defer") else ("SLater %s" % req))
            return "srun MAX_TRANSMIT_WAIT_us sstate_init %s" % glist(evs)
        evs = []
        for idx, ev in enumerate(inp["events"]):
            if ev["t"] == "adv": evs.append("Advance %s" % gz(ev["dt"])); continue
            k = inp["endpoints"][ev["ep"]]
            req = self.g_req(idx, ev, k)
            rend = "{| p_code := %s; p_block1 := None; p_block2 := None; p_payload := mk_body %s %s |}" % (gz(ev["rcode"]), gz(ev["rseed"]), gz(ev["rlen"]))
            evs.append("Request %s %s %s" % (fw.gnat(ev["res"]), req, rend))
        return "snd (run MAX_TRANSMIT_WAIT_us (server_init %s) %s)" % (fw.gnat(NRES), glist(evs))
    def decode(self, stream, inp, parsed):
        p = fw.plain(parsed)
        if stream == "timeoutdict_ops":
            def o2(x): return None if x == "None" else x["a"][0]
            outs = [{"got": o2(o["a"][0]), "keys": list(o["a"][1]), "due": o2(o["a"][2])} for o in p]
            return {"outputs": outs, "pending_timers": 0 if not outs or outs[-1]["due"] is None else 1}
        def ob(x): return None if x == "None" else [x["a"][0]["b_num"], x["a"][0]["b_more"], x["a"][0]["b_szx"]]
        def call(c, res): return {"res": res, "ep": c["m_remote"], "code": c["m_code"], "opts": [[n, list(v)] for n, v in c["m_opts"]], "b1": ob(c["m_block1"]), "b2": ob(c["m_block2"]),
                                  "payload": list(c["m_payload"]), "id": c["m_id"], "tok": [(c["m_id"] - 1) >> 8, (c["m_id"] - 1) & 255]}
        def rs(r): return {"code": r["p_code"], "b1": ob(r["p_block1"]), "b2": ob(r["p_block2"]), "payload": list(r["p_payload"])}
        if stream == "overlapping_renderings":
            out = []
            for o in p:
                a = o["a"] if isinstance(o, dict) else []
                if o["c"] == "SOBegin": out.append({"calls": [call(c, 0) for c in a[0]], "resp": None})
                elif o["c"] == "SOFinish": out.append({"n2": a[1], "resp": None if a[0] == "None" else rs(a[0]["a"][0])} if a[0] != "None" else {"resp": None, "n2": a[1], "unknown": True})
                elif o["c"] == "SOLater": out.append({"calls": [call(c, 0) for c in a[0]], "resp": rs(a[1]), "n2": a[2]})
                else: out.append({"n2": a[0]})
            return {"outputs": out}
        out = []
        for o, ev in zip(p, inp["events"]):
            if o["c"] == "OAdvance":
                out.append({"sizes": [list(s) for s in o["a"][0]]}); continue
            calls, r, n1, n2 = o["a"]
            out.append({"calls": [{"res": ev["res"], "ep": c["m_remote"], "code": c["m_code"], "opts": [[n, list(v)] for n, v in c["m_opts"]],
                                   "b1": ob(c["m_block1"]), "b2": ob(c["m_block2"]), "payload": list(c["m_payload"]), "id": c["m_id"], "tok": [(c["m_id"] - 1) >> 8, (c["m_id"] - 1) & 255]} for c in calls],
                        "sizes": [n1, n2],
                        "resp": {"code": r["p_code"], "b1": ob(r["p_block1"]), "b2": ob(r["p_block2"]), "payload": list(r["p_payload"])}})
        return {"outputs": out}

    # ------------------------------------------------------------------ oracle: the property text as a reference monitor
    def oracle(self, stream, inp, res):
        if "harness_exception" in res: return ("C06:crash:" + res["where"], "driver raised %s: %s" % (res["harness_exception"], res.get("text")))
        if res.get("loop_exceptions"): return ("C06:loop-exception", "exception reached the event loop: %s" % res["loop_exceptions"][0])
        if stream == "timeoutdict_ops": return self.oracle_td(inp, res)
        if stream == "overlapping_renderings": return self.oracle_overlap_r(inp, res)
        if stream == "overlapping_uploads": return self.oracle_overlap_u(inp, res)
        T = T_US
        t = 0
        asm = {}     # key -> {"payload", "ok": time of last successful use, "any": time of last touch, "b2": block-0's Block2, "first": block-0 event}
        rend = {}    # key -> {"body", "code", "ok", "any", "stored": latest block-0 rendering was kept for later blocks, "old": [older stored renderings]}
        for idx, (ev, o) in enumerate(zip(inp["events"], res["outputs"])):
            if ev["t"] == "adv":
                t += ev["dt"]
                for r in range(NRES):
                    for name, table, col in (("assemblies", asm, 0), ("renderings", rend, 1)):
                        ents = [e for k, e in table.items() if k[0] == r and (col == 0 or e["stored"])]
                        hi = sum(1 for e in ents if t < e["any"] + 2 * T)
                        lo = sum(1 for e in ents if t < e["ok"] + T and not e.get("completed"))
                        n = o["sizes"][r][col]
                        if n > hi: return ("C06:state-not-discarded", "event %d: resource %d holds %d %s at t=%d but only %d may still be held (used within the last 2*MAX_TRANSMIT_WAIT and not superseded by a complete answer)" % (idx, r, n, name, t, hi))
                        if n < lo: return ("C06:state-lost-early", "event %d: resource %d holds %d %s at t=%d but %d were used within the last MAX_TRANSMIT_WAIT" % (idx, r, n, name, t, lo))
                continue
            resp, calls = o["resp"], o["calls"]
            where = "event %d (ep%d res%d code %d b1=%s b2=%s len=%d t=%d)" % (idx, ev["ep"], ev["res"], ev["code"], ev["b1"], ev["b2"], ev["plen"], t)
            if resp is None: return ("C06:no-single-response", "%s: %s messages sent" % (where, o.get("n_sent")))
            if o.get("misrouted"): return ("C06:misrouted-response", where)
            if resp["code"] >= 160: return ("C06:5xx", "%s answered %d.%02d" % (where, resp["code"] >> 5, resp["code"] & 31))
            if len(calls) > 1: return ("C06:handler-twice", where)
            k = ckey(ev); mps = inp["endpoints"][ev["ep"]]["mps"]; mbse = inp["endpoints"][ev["ep"]]["mbse"]
            pl = list(body(ev["pseed"], ev["plen"]))
            expect_body = pl; eff_b2 = ev["b2"]; first = ev
            # ---- Block1
            if ev["b1"] is not None:
                num, more, szx = ev["b1"]; size = bsize(szx)
                def no_handler(sig):
                    return (sig, "%s: handler invoked with %d bytes" % (where, len(calls[0]["payload"]))) if calls else None
                if num == 0:
                    asm[k] = {"payload": pl, "ok": t, "any": t, "b2": ev["b2"], "first": ev}
                    a = asm[k]
                else:
                    a = asm.get(k)
                    dead = a is None or t >= a["any"] + 2 * T
                    alive = a is not None and t < a["ok"] + T
                    size_bad = more and not (len(pl) == size or (szx == 7 and len(pl) % size == 0))
                    # BlockwiseTuple.is_valid_for_payload_size for M=0: payload <= size (BERT: anything)
                    final_oversize = (not more) and szx != 7 and len(pl) > size
                    if a is not None:
                        exp = BAD_REQUEST if size_bad else (None if num * size == len(a["payload"]) else INCOMPLETE)
                        if final_oversize and alive and resp["code"] != BAD_REQUEST:
                            return ("C06:final-block-oversize-accepted", "%s: final block carries %d bytes for block size %d and is answered code %d instead of 4.00" % (where, len(pl), size, resp["code"]))
                        if final_oversize and resp["code"] == BAD_REQUEST: exp = BAD_REQUEST        # rejected as the property demands
                        # a COMPLETED assembly (its final block was handed to the handler) may or may not be kept by the spool: the property
                        # says nothing about it, so a continuation of it may also be answered 4.08
                        if a.get("completed") and resp["code"] == INCOMPLETE and exp != INCOMPLETE:
                            del asm[k]
                            if calls: return ("C06:handler-on-rejected-block", where)
                            continue
                    if dead or (not alive and resp["code"] == INCOMPLETE and exp != INCOMPLETE):
                        if resp["code"] != INCOMPLETE:
                            return ("C06:unknown-or-expired-not-408", "%s: no live assembly, answered code %d" % (where, resp["code"]))
                        if a is not None: del asm[k]
                        return_sig = no_handler("C06:handler-on-rejected-block")
                        if return_sig: return return_sig
                        continue
                    a["any"] = t
                    if exp is not None:
                        if resp["code"] != exp:
                            if exp == INCOMPLETE: return ("C06:gap-or-overlap-not-408", "%s: assembly holds %d bytes, answered code %d" % (where, len(a["payload"]), resp["code"]))
                            return ("C06:size-mismatch-not-400", "%s: answered code %d" % (where, resp["code"]))
                        return_sig = no_handler("C06:handler-on-rejected-block")
                        if return_sig: return return_sig
                        # a rejected continuation is a use of the assembly (the lookup refreshed its timeout) whenever the assembly
                        # certainly existed: it was alive by the lower bound, or the answer is 4.00 (the length check runs after the lookup)
                        if alive or exp == BAD_REQUEST: a["ok"] = t
                        continue
                    if alive is False and resp["code"] == INCOMPLETE:
                        del asm[k]; continue
                    a["payload"] = a["payload"] + pl; a["ok"] = t
                if more:
                    if resp["code"] != CONTINUE or resp["b1"] != ev["b1"] or resp["b2"] is not None or resp["payload"]:
                        return ("C06:intermediate-not-continue", "%s: answered code %d block1 %s" % (where, resp["code"], resp["b1"]))
                    return_sig = no_handler("C06:handler-on-intermediate-block")
                    if return_sig: return return_sig
                    continue
                expect_body = a["payload"]; first = a["first"]; a["completed"] = True
                if ev["b2"] is None: eff_b2 = a["b2"]
                else: a["b2"] = ev["b2"]          # a final block's Block2 replaces the one remembered from earlier blocks
            # ---- the request (assembled or plain) reaches the Block2 stage
            if eff_b2 is None or eff_b2[0] == 0:
                if len(calls) != 1: return ("C06:handler-not-invoked", "%s: complete request did not reach the handler (code %d)" % (where, resp["code"]))
                c = calls[0]
                if c["payload"] != expect_body:
                    return ("C06:handler-body-mismatch", "%s: handler saw %d bytes, the in-order concatenation has %d" % (where, len(c["payload"]), len(expect_body)))
                if (c["res"], c["ep"], c["code"]) != (ev["res"], ev["ep"], ev["code"]) or \
                   [x for x in c["opts"] if is_key_opt(x[0])] != [list(map(list_or_int, x)) for x in [[n, v] for n, v in sorted_opts(first["opts"]) if is_key_opt(n)]]:
                    return ("C06:handler-wrong-transfer", "%s: handler saw endpoint/method/options of another transfer" % where)
                if c["b1"] != ev["b1"]: return ("C06:handler-block1-mismatch", where)
                if c["tok"] != [idx >> 8, idx & 255] or c["id"] != idx + 1:
                    return ("C06:handler-token-mismatch", "%s: the request handed to the handler carries token %s / mid %s, not those of the block that completed it" % (where, c["tok"], c["id"]))
                R = list(body(ev["rseed"], ev["rlen"]))
                size = None
                if eff_b2 is not None and (len(R) > bsize(eff_b2[2])): szx = eff_b2[2]
                elif len(R) > mps: szx = eff_b2[2] if eff_b2 is not None else mbse
                else: szx = None
                old = []
                if k in rend and t < rend[k]["any"] + 2 * T:
                    old = ([rend[k]] if rend[k]["stored"] else []) + rend[k]["old"]
                if szx is None:
                    if resp["code"] != ev["rcode"] or resp["payload"] != R or resp["b2"] is not None:
                        return ("C06:whole-response-altered", "%s: rendering of %d bytes fits but answer has %d bytes block2 %s" % (where, len(R), len(resp["payload"]), resp["b2"]))
                    rend[k] = {"body": R, "code": ev["rcode"], "ok": t, "any": t, "stored": False, "old": old}
                else:
                    size = 1024 * (mps // 1024) if szx == 7 else 2 ** (szx + 4)
                    if resp["code"] != ev["rcode"] or resp["payload"] != R[0:size] or resp["b2"] != [0, len(R) > size, szx]:
                        return ("C06:block2-wrong-slice", "%s: first block of the %d-byte rendering expected (szx %d), got %d bytes block2 %s" % (where, len(R), szx, len(resp["payload"]), resp["b2"]))
                    rend[k] = {"body": R, "code": ev["rcode"], "ok": t, "any": t, "stored": True, "old": []}
                if resp["b1"] != ev["b1"]: return ("C06:response-block1-mismatch", "%s: response block1 %s" % (where, resp["b1"]))
            else:
                if calls: return ("C06:handler-on-later-block2", "%s: handler invoked for Block2 NUM %d" % (where, eff_b2[0]))
                num, _, szx = eff_b2
                size = 1024 * (mps // 1024) if szx == 7 else 2 ** (szx + 4)
                start = num * (1024 if szx == 7 else size)
                r = rend.get(k)
                dead = r is None or t >= r["any"] + 2 * T
                if dead:
                    if resp["code"] != INCOMPLETE: return ("C06:block2-unknown-not-408", "%s: no live rendering, answered code %d with %d bytes" % (where, resp["code"], len(resp["payload"])))
                    if r is not None: del rend[k]
                    continue
                def matches(e):
                    if start >= len(e["body"]): return resp["code"] == BAD_REQUEST and resp["b2"] is None
                    return resp["code"] == e["code"] and resp["payload"] == e["body"][start:start + size] and resp["b2"] == [num, start + size < len(e["body"]), szx]
                alive = t < r["ok"] + T
                if not r["stored"]:
                    # the latest block-0 rendering was returned whole and not kept: 4.08 expected
                    if resp["code"] == INCOMPLETE: continue
                    if any(matches(e) for e in r["old"]):
                        r["any"] = t
                        return ("C06:block2-stale-rendering", "%s: served from a rendering older than the one made for the latest block-0 request (which was answered whole)" % where)
                    return ("C06:block2-unknown-not-408", "%s: latest rendering was not kept, answered code %d with %d bytes" % (where, resp["code"], len(resp["payload"])))
                if matches(r):
                    r["any"] = t; r["ok"] = t
                    if resp["code"] != BAD_REQUEST and resp["b1"] != ev["b1"]: return ("C06:response-block1-mismatch", "%s: response block1 %s" % (where, resp["b1"]))
                    continue
                if resp["code"] == INCOMPLETE and not alive:
                    del rend[k]; continue
                if resp["code"] == INCOMPLETE: return ("C06:rendering-lost-early", "%s: rendering last used at %d is gone before MAX_TRANSMIT_WAIT" % (where, r["ok"]))
                if start >= len(r["body"]): return ("C06:block2-beyond-end-not-400", "%s: rendering has %d bytes, answered code %d with %d bytes" % (where, len(r["body"]), resp["code"], len(resp["payload"])))
                return ("C06:block2-wrong-slice", "%s: expected bytes [%d,%d) of the %d-byte rendering more=%s, got %d bytes block2 %s code %d" % (
                    where, start, start + size, len(r["body"]), start + size < len(r["body"]), len(resp["payload"]), resp["b2"], resp["code"]))
        return None

    def oracle_overlap_r(self, inp, res):
        """overlapping renderings of one key (idle times far below T): a NUM>0 request is served from the rendering made for the LATEST
        block-0 request of its key once that request's handler has returned (4.08 if that rendering was answered whole); while the latest
        one is still rendering the answer is unspecified"""
        mps = inp["endpoints"][0]["mps"]; mbse = inp["endpoints"][0]["mbse"]
        begun = {}     # key -> list of {"idx", "R", "code", "done", "chunked", "szx"}
        by_idx = {}
        for idx, (ev, o) in enumerate(zip(inp["events"], res["outputs"])):
            where = "event %d %s" % (idx, {k: v for k, v in ev.items() if k in ("t", "of", "b2", "rlen", "dt")})
            if ev["t"] == "adv": continue
            if o.get("resp") and o["resp"]["code"] >= 160: return ("C06:5xx", "%s answered 5.xx" % where)
            if ev["t"] == "fin":
                e = by_idx.get(ev["of"])
                if e is None or e["done"]: continue
                e["done"] = True; r = o["resp"]
                if r is None: return ("C06:no-single-response", "%s: %s messages" % (where, o.get("n_sent")))
                b2 = e["b2"]; R = e["R"]
                szx = b2[2] if (b2 is not None and len(R) > bsize(b2[2])) else ((b2[2] if b2 is not None else mbse) if len(R) > mps else None)
                e["chunked"] = szx is not None
                if szx is None:
                    if r["code"] != e["code"] or r["payload"] != R or r["b2"] is not None: return ("C06:whole-response-altered", where)
                else:
                    size = 2 ** (szx + 4)
                    if r["code"] != e["code"] or r["payload"] != R[:size] or r["b2"] != [0, len(R) > size, szx]: return ("C06:block2-wrong-slice", "%s: first block expected" % where)
                continue
            k = ckey(ev)
            if ev.get("defer"):
                if len(o["calls"]) != 1 or o["resp"] is not None: return ("C06:handler-not-invoked", "%s: calls %d" % (where, len(o["calls"])))
                e = {"idx": idx, "R": list(body(ev["rseed"], ev["rlen"])), "code": ev["rcode"], "done": False, "chunked": None, "b2": ev["b2"]}
                begun.setdefault(k, []).append(e); by_idx[idx] = e
                continue
            # NUM > 0
            if o["calls"]: return ("C06:handler-on-later-block2", where)
            r = o["resp"]; num, _, szx = ev["b2"]; size = 2 ** (szx + 4); start = num * size
            def matches(e):
                if start >= len(e["R"]): return r["code"] == BAD_REQUEST and r["b2"] is None
                return r["code"] == e["code"] and r["payload"] == e["R"][start:start + size] and r["b2"] == [num, start + size < len(e["R"]), szx]
            lst = begun.get(k, [])
            if not lst:
                if r["code"] != INCOMPLETE: return ("C06:block2-unknown-not-408", where)
                continue
            L = lst[-1]
            if not L["done"]:
                if r["code"] == INCOMPLETE or any(matches(e) for e in lst): continue
                return ("C06:block2-wrong-slice", "%s: matches no rendering of the key" % where)
            if L["chunked"] and matches(L): continue
            if not L["chunked"] and r["code"] == INCOMPLETE: continue
            older = [e for e in lst[:-1] if matches(e)]
            if older:
                return ("C06:overlap-older-rendering-served", "%s: the latest block-0 request of the key is event %d (handler returned), but the block is a slice of the rendering made for the EARLIER request of event %d" % (where, L["idx"], older[-1]["idx"]))
            if L["chunked"] and r["code"] == INCOMPLETE:
                return ("C06:overlap-latest-rendering-lost", "%s: the rendering of the latest block-0 request (event %d) was stored but is gone: an earlier request's handler returned later and evicted/replaced it" % (where, L["idx"]))
            return ("C06:block2-wrong-slice", where)
        return None

    def oracle_overlap_u(self, inp, res):
        """a handler that awaits must find its request unchanged afterwards, and the answer to a final block echoes that block's Block1 option"""
        for idx, (ev, o) in enumerate(zip(inp["events"], res["outputs"])):
            if ev["t"] != "fin" or o.get("unknown"): continue
            b = inp["events"][ev["of"]]; where = "event %d (handler of event %d, Block1 %s, returns)" % (idx, ev["of"], b["b1"])
            r = o["resp"]
            if r is None: return ("C06:no-single-response", "%s: %s messages" % (where, o.get("n_sent")))
            if r["code"] >= 160: return ("C06:5xx", where)
            call = res["outputs"][ev["of"]]["calls"]
            if len(call) != 1: continue
            a = o.get("after")
            if a is not None and (a["payload"] != call[0]["payload"] or a["b1"] != call[0]["b1"]):
                return ("C06:handler-request-mutated", "%s: the request object handed to the handler had %d bytes / Block1 %s at invocation and %d bytes / Block1 %s after the await (a further block was appended in place)" % (
                    where, len(call[0]["payload"]), call[0]["b1"], len(a["payload"]), a["b1"]))
            if r["b1"] != b["b1"]: return ("C06:response-block1-mismatch", "%s: response Block1 %s" % (where, r["b1"]))
        return None

    def oracle_td(self, inp, res):
        """TimeoutDict lifetime: an entry is held while less than T passed since its last use (assignment or successful lookup,
        since its last pop), it is gone 2T after, a lookup returns what was assigned last, a pop removes"""
        T = T_US; t = 0; last = {}; val = {}
        for idx, (op, o) in enumerate(zip(inp["ops"], res["outputs"])):
            where = "op %d %s at t=%d" % (idx, op, t)
            if op[0] == "adv": t += op[1]
            elif op[0] == "set": last[op[1]] = t; val[op[1]] = op[2]
            elif op[0] == "pop":
                if op[1] in last and t < last[op[1]] + T and o["got"] != val[op[1]]: return ("C06:td-entry-lost-early", "%s: popped %r, entry assigned/used at %d" % (where, o["got"], last[op[1]]))
                last.pop(op[1], None); val.pop(op[1], None)
            elif op[0] == "get":
                k = op[1]
                if o["got"] is not None:
                    if k not in val or o["got"] != val[k]: return ("C06:td-wrong-value", "%s returned %r" % (where, o["got"]))
                    if t >= last[k] + 2 * T: return ("C06:td-entry-not-discarded", "%s: entry last used at %d still returned" % (where, last[k]))
                    last[k] = t
                else:
                    if k in last and t < last[k] + T: return ("C06:td-entry-lost-early", "%s: KeyError although the entry was used at %d, less than MAX_TRANSMIT_WAIT ago" % (where, last[k]))
                    last.pop(k, None); val.pop(k, None)
            for k in o["keys"]:
                if k not in last: return ("C06:td-popped-entry-held", "%s: key %d held although popped / never assigned" % (where, k))
                if t >= last[k] + 2 * T: return ("C06:td-entry-not-discarded", "%s: key %d last used at %d still held" % (where, k, last[k]))
            for k, a in last.items():
                if t < a + T and k not in o["keys"]: return ("C06:td-entry-lost-early", "%s: key %d used at %d is gone before MAX_TRANSMIT_WAIT" % (where, k, a))
        return None

    def nontrivial(self, stream, inp, res):
        if stream in ("overlapping_renderings", "overlapping_uploads"):
            pend = 0; overlap = False
            for ev in inp["events"]:
                if ev["t"] == "req" and ev.get("defer"): pend += 1; overlap = overlap or pend > 1
                elif ev["t"] == "fin": pend -= 1
            return fw.jdump([stream, inp]) if overlap else None
        if stream == "timeoutdict_ops":
            outs = res.get("outputs", [])
            expired = any(op[0] == "adv" and i > 0 and len(o["keys"]) < len(outs[i - 1]["keys"]) for i, (op, o) in enumerate(zip(inp["ops"], outs)))
            return fw.jdump([stream, inp]) if expired and any(op[0] == "get" and o["got"] is not None for op, o in zip(inp["ops"], outs)) else None
        multi = served = err = False
        for ev, o in zip(inp["events"], res.get("outputs", [])):
            if ev["t"] != "req" or not o.get("resp"): continue
            if o["calls"] and ev["b1"] is not None and ev["b1"][0] > 0: multi = True
            if o["resp"]["b2"] is not None and o["resp"]["b2"][0] > 0: served = True
            if o["resp"]["code"] in (BAD_REQUEST, INCOMPLETE): err = True
        return fw.jdump([stream, inp]) if (multi or served) and err else None

    # ------------------------------------------------------------------ generator
    def gen_cases(self, tier, rng, n):
        for k in range(n):
            if k % 10 == 7: yield "overlapping_renderings", gen_overlap_renderings(rng)
            elif k % 10 == 3: yield "overlapping_uploads", gen_overlap_uploads(rng)
            elif k % 5 == 4: yield "timeoutdict_ops", gen_td_case(rng)
            elif k % 5 == 2: yield "block_sequences", gen_supersede_case(rng)
            else: yield "block_sequences", gen_case(rng)
        if tier == "thorough":
            import itertools
            ep = [{"mps": 1124, "mbse": 6}]
            def rq(code, b1=None, b2=None, plen=0, pseed=0, rlen=2, rcode=68, rseed=0):
                return {"t": "req", "ep": 0, "res": 0, "code": code, "con": False, "opts": [], "b1": b1, "b2": b2, "pseed": pseed, "plen": plen, "rcode": rcode, "rseed": rseed, "rlen": rlen}
            A1 = [rq(PUT, b1=[0, True, 0], plen=16, pseed=1), rq(PUT, b1=[0, False, 0], plen=5, pseed=2), rq(PUT, b1=[1, True, 0], plen=16, pseed=3),
                  rq(PUT, b1=[1, False, 0], plen=16, pseed=4), rq(PUT, b1=[2, False, 0], plen=7, pseed=5), rq(PUT, b1=[1, True, 0], plen=15, pseed=6),
                  {"t": "adv", "dt": T_US}, {"t": "adv", "dt": T_US - 1}]
            A2 = [rq(GET, b2=[0, False, 0], rlen=40, rcode=69, rseed=1), rq(GET, b2=[0, False, 1], rlen=20, rcode=69, rseed=2), rq(GET, b2=[1, False, 0], rcode=69),
                  rq(GET, b2=[2, False, 0], rcode=69), rq(GET, b2=[3, False, 0], rcode=69), rq(GET, b2=[1, False, 1], rcode=69), {"t": "adv", "dt": T_US}]
            for alpha in (A1, A2):
                for L in range(1, 5):
                    for seq in itertools.product(alpha, repeat=L):
                        yield "block_sequences", {"endpoints": ep, "events": [dict(e) for e in seq] + [{"t": "adv", "dt": 0}]}
            bert = [rq(PUT, b1=[0, True, 7], plen=2048, pseed=1), rq(PUT, b1=[2, True, 7], plen=1024, pseed=2), rq(PUT, b1=[3, True, 7], plen=3072, pseed=3),
                    rq(PUT, b1=[3, True, 7], plen=1000, pseed=4), rq(PUT, b1=[1, True, 7], plen=1024, pseed=5), rq(PUT, b1=[6, False, 7], plen=10, pseed=6), rq(PUT, b1=[3, False, 7], plen=2000, pseed=7)]
            for L in range(1, 4):
                for seq in itertools.product(bert, repeat=L):
                    yield "block_sequences", {"endpoints": [{"mps": 1152, "mbse": 7}], "events": [dict(e) for e in seq] + [{"t": "adv", "dt": 0}]}
            A3 = [["set", 0, 1], ["set", 1, 2], ["get", 0], ["pop", 0], ["pop", 1], ["adv", T_US // 2], ["adv", T_US - 1], ["adv", T_US]]
            for L in range(1, 5):
                for seq in itertools.product(A3, repeat=L):
                    yield "timeoutdict_ops", {"ops": [list(o) for o in seq] + [["get", 0], ["get", 1]]}

def list_or_int(x): return list(x) if isinstance(x, (list, tuple)) else x


# ----------------------------------------------------------------------------- generator
QUERIES = [[], [b"a=1"], [b"a=1", b"b=2"], [b"b=2", b"a=1"], [b"a=2"]]
IDLE = [0, 0, 0, 1, 1_000_000, 30_000_000, T_US // 2, T_US - 1, T_US, T_US + 1, T_US + T_US // 2, 2 * T_US - 1, 2 * T_US, 2 * T_US + 1, 3 * T_US]
RLENS = [0, 1, 15, 16, 17, 31, 32, 33, 40, 41, 48, 64, 65, 100, 128, 129, 200]

def gen_opts(rng, res):
    opts = []
    if res == 2: opts.append([U_PATH, list(rng.choice([b"x", b"y"]))])
    for q in rng.choice(QUERIES): opts.append([U_QUERY, list(q)])
    if rng.random() < 0.15: opts.append([REQTAG, [rng.choice([1, 2])]])
    if rng.random() < 0.15: opts.append([CFMT, rng.choice([[], [42]])])
    if rng.random() < 0.1: opts.append([ACCEPT, [42]])
    return opts

def volatile_opts(rng, code):
    """options outside the block key: may differ from block to block of one transfer"""
    o = []
    if rng.random() < 0.2: o.append([SIZE1, [rng.randint(1, 255)]])
    if rng.random() < 0.1: o.append([SIZE2, [rng.randint(1, 200)] if rng.random() < 0.5 else []])
    if code == GET and rng.random() < 0.1: o.append([OBSERVE, []])
    return o

def plan_upload(rng, ep, res, kind):
    """a Block1 transfer: list of request events (without perturbation)"""
    code = rng.choice([PUT, POST, PUT, FETCH])
    szx = rng.choice([0, 0, 0, 1, 1, 2]) if rng.random() < 0.96 else rng.choice([6, 7, 7])
    size = bsize(szx)
    nblocks = rng.choice([1, 2, 2, 3, 3, 4, 5]) if szx < 6 else rng.choice([1, 2])
    last = rng.choice([0, 1, size // 2, size - 1, size, size])
    opts = gen_opts(rng, res)
    rlen = rng.choice(RLENS) if rng.random() < 0.5 else rng.choice([0, 2, 5])
    b2 = None
    if rng.random() < 0.3: b2 = [0, False, rng.choice([0, 1, 2])]
    steps = []; num = 0
    if szx == 7: nblocks = rng.choice([1, 2, 2, 3])
    for i in range(nblocks):
        more = i < nblocks - 1
        plen = size if more else last
        if szx == 7 and more: plen = size * rng.choice([1, 1, 2, 3])       # BERT: several KiB per message, NUM advances by plen/1024
        ev = {"t": "req", "ep": ep, "res": res, "code": code, "con": rng.random() < 0.3, "opts": opts + volatile_opts(rng, code),
              "b1": [num, more, szx], "b2": b2 if (not more or rng.random() < 0.2) else None,
              "pseed": rng.randint(0, 255), "plen": plen,
              "rcode": rng.choice([68, 68, 65, 69]), "rseed": rng.randint(0, 255), "rlen": rlen}
        steps.append(ev)
        num += max(1, plen // 1024) if szx == 7 else 1
    # follow-up Block2 requests for the response
    if b2 is not None and rlen > bsize(b2[2]):
        for j in range(1, min(4, -(-rlen // bsize(b2[2]))) + rng.choice([0, 0, 1])):
            steps.append({"t": "req", "ep": ep, "res": res, "code": code, "con": False, "opts": opts, "b1": None, "b2": [j, False, b2[2]],
                          "pseed": 0, "plen": 0, "rcode": 68, "rseed": rng.randint(0, 255), "rlen": rlen})
    return steps

def plan_download(rng, ep, res, kind):
    code = rng.choice([GET, GET, GET, FETCH])
    opts = gen_opts(rng, res)
    rlen = rng.choice(RLENS)
    r = rng.random()
    if kind["mbse"] == 7 and r < 0.5: rlen = rng.choice([1000, 1152, 1153, 2048, 2500]); szx = rng.choice([None, 7, 6])
    elif r < 0.04: rlen = rng.choice([1024, 1025, 1124, 1125, 2100]); szx = rng.choice([None, 6, 6, 7])
    else: szx = rng.choice([None, 0, 0, 0, 1, 1, 2])
    eff = szx if szx is not None else kind["mbse"]
    size = bsize(eff)
    steps = []
    nblocks = max(1, -(-rlen // size))
    nums = list(range(0, min(nblocks, 5) + rng.choice([0, 0, 1])))
    rcode = rng.choice([69, 69, 69, 132])
    for j in nums:
        steps.append({"t": "req", "ep": ep, "res": res, "code": code, "con": rng.random() < 0.3, "opts": opts + volatile_opts(rng, code),
                      "b1": None, "b2": None if (j == 0 and szx is None) else [j, rng.random() < 0.1, eff],
                      "pseed": rng.randint(0, 255), "plen": rng.choice([0, 0, 0, 3]) if code == FETCH else 0,
                      "rcode": rcode, "rseed": rng.randint(0, 255), "rlen": rlen if rng.random() < 0.9 else rng.choice(RLENS)})
    return steps

def perturb(rng, steps):
    """client misbehaviour on one transfer: in order / restarted at 0 / repeated / skipped / wrong size / last first / changed option"""
    steps = [dict(s) for s in steps]
    r = rng.random()
    if r < 0.30 or len(steps) == 0: return steps
    i = rng.randrange(len(steps))
    if r < 0.40: del steps[i]                                             # skipped block (gap)
    elif r < 0.50: steps.insert(i, dict(steps[i]))                         # repeated block (overlap)
    elif r < 0.58: steps = steps[:i + 1] + [dict(s) for s in steps]        # restarted at 0 after i blocks
    elif r < 0.64: steps = [steps[-1]] + steps[:-1]                        # last block first
    elif r < 0.70: steps.reverse()
    elif r < 0.78:                                                         # wrong payload size
        s = steps[i]; s["plen"] = max(0, s["plen"] + rng.choice([-1, 1, -s["plen"], 16, 5]))
    elif r < 0.84:                                                         # block size changes mid-transfer
        s = steps[i]
        for f in ("b1", "b2"):
            if s[f] is not None: s[f] = [s[f][0], s[f][1], rng.choice([0, 1, 2, 3])]
    elif r < 0.89:                                                         # block number off
        s = steps[i]
        for f in ("b1", "b2"):
            if s[f] is not None: s[f] = [max(0, s[f][0] + rng.choice([-1, 1, 2, 7])), s[f][1], s[f][2]]
    elif r < 0.93:                                                         # more flag flipped
        s = steps[i]
        if s["b1"] is not None: s["b1"] = [s["b1"][0], not s["b1"][1], s["b1"][2]]
    elif r < 0.96:                                                         # a cache-key option changes mid-transfer
        s = steps[i]; s["opts"] = s["opts"] + [[U_QUERY, list(b"z=9")]]
    elif r < 0.98: steps[i]["code"] = rng.choice([GET, POST, PUT, FETCH])  # method changes mid-transfer
    else: steps[i]["ep"] = -1                                              # another endpoint continues the transfer (fixed up by caller)
    return steps

def anchored_idle(rng, now, anchors):
    """an idle time that ends at (an earlier event's time) + T or + 2T, -1/0/+1 us: hits the deadlines of timers started earlier,
    whatever happened to the entries in between"""
    targets = [a + m * T_US + d for a in anchors for m in (1, 2) for d in (-1, 0, 1) if a + m * T_US + d > now]
    return rng.choice(targets) - now if targets else rng.choice(IDLE)

def gen_td_case(rng):
    """TimeoutDict op history over 3 keys: set / get / pop (often emptying the dict) / advance, idle times from the table or anchored at earlier deadlines"""
    ops = []; now = 0; anchors = []; held = set(); v = 0
    template = rng.random()
    if template < 0.35:
        # set, pop-to-empty, set, advance past the FIRST deadline, get
        d1 = rng.choice([1, T_US // 2, T_US - 2, rng.randint(1, T_US - 2)]); d2 = rng.randint(0, T_US - 1 - d1)
        k1 = rng.randrange(3); k2 = rng.choice([k1, rng.randrange(3)])
        ops += [["set", k1, 1], ["adv", d1], ["pop", k1], ["adv", d2], ["set", k2, 2]]
        t3 = d1 + d2
        ops.append(["adv", rng.choice([T_US - t3, T_US - t3 + 1, T_US - 1, max(T_US - t3, 1) + rng.randint(0, t3 - 1 if t3 > 1 else 0)])])
        ops.append(["get", k2])
        ops += [["adv", rng.choice([0, 1, T_US - 1, T_US])], ["get", k2], ["adv", 2 * T_US], ["get", k2]]
        return {"ops": ops}
    for _ in range(rng.randint(4, 16)):
        r = rng.random(); k = rng.randrange(3)
        if r < 0.30: v += 1; ops.append(["set", k, v]); anchors.append(now); held.add(k)
        elif r < 0.50: ops.append(["get", k]); anchors.append(now)
        elif r < 0.68:
            k = rng.choice(sorted(held)) if held and rng.random() < 0.8 else k
            ops.append(["pop", k]); held.discard(k)
        else:
            dt = anchored_idle(rng, now, anchors) if rng.random() < 0.5 else rng.choice(IDLE + [rng.randint(0, 3 * T_US)])
            ops.append(["adv", dt]); now += dt
    ops += [["get", 0], ["get", 1], ["get", 2], ["adv", rng.choice([0, T_US, 2 * T_US])]]
    return {"ops": ops}

def gen_overlap_renderings(rng):
    """2-4 block-0 / Block2-less requests of one key (sometimes a second key) whose handlers await; they return in any order;
    NUM>0 requests in between and at the end; idle times far below T"""
    kind = dict(rng.choice(ENDPOINT_KINDS[:2])); code = rng.choice([GET, GET, FETCH]); szx = rng.choice([0, 0, 1])
    size = bsize(szx); keys = [[], [[U_QUERY, list(b"a=1")]]]
    events = []; pending = []
    def later(): return {"t": "req", "ep": 0, "res": 0, "code": code, "con": False, "opts": rng.choice(keys[:1] * 4 + keys[1:]), "b1": None,
                         "b2": [rng.choice([1, 1, 2, 3]), False, szx], "pseed": 0, "plen": 0, "rcode": 69, "rseed": 0, "rlen": 0}
    for _ in range(rng.choice([2, 2, 3, 3, 4])):
        big = rng.random() < 0.75
        events.append({"t": "req", "defer": True, "ep": 0, "res": 0, "code": code, "con": False, "opts": rng.choice(keys[:1] * 4 + keys[1:]), "b1": None,
                       "b2": rng.choice([[0, False, szx], [0, False, szx], None, [0, False, 6]]) if not big else [0, False, szx], "pseed": 0, "plen": 0,
                       "rcode": rng.choice([69, 69, 132]), "rseed": rng.randint(0, 255), "rlen": rng.choice([n for n in RLENS if n > size]) if big else rng.choice([1, size])})
        pending.append(len(events) - 1)
        while pending and rng.random() < 0.4:
            events.append({"t": "fin", "of": pending.pop(rng.randrange(len(pending)))})
            if rng.random() < 0.5: events.append(later())
        if rng.random() < 0.2: events.append({"t": "adv", "dt": rng.choice([0, 1, 1_000_000])})
    order = rng.random()
    while pending:
        events.append({"t": "fin", "of": pending.pop(0 if order < 0.25 else (-1 if order < 0.6 else rng.randrange(len(pending))))})
        if rng.random() < 0.5: events.append(later())
    events += [later(), later(), {"t": "adv", "dt": 0}]
    return {"endpoints": [kind], "events": events}

def gen_overlap_uploads(rng):
    """a Block1 transfer whose final block's handler awaits while further blocks of the same key arrive (a further final block, a restart at block 0, a gap)"""
    kind = dict(ENDPOINT_KINDS[0]); code = rng.choice([PUT, POST]); szx = rng.choice([0, 0, 1]); size = bsize(szx)
    def blk1(num, more, plen, defer=False):
        return {"t": "req", "ep": 0, "res": 0, "code": code, "con": False, "opts": [], "b1": [num, more, szx], "b2": None, "pseed": rng.randint(0, 255), "plen": plen,
                "rcode": 68, "rseed": rng.randint(0, 255), "rlen": rng.choice([0, 2, 5]), **({"defer": True} if defer else {})}
    events = [blk1(0, True, size)]
    n = rng.choice([1, 1, 2])
    for i in range(1, n): events.append(blk1(i, True, size))
    events.append(blk1(n, False, size, defer=True)); first = len(events) - 1; pending = [first]
    for _ in range(rng.choice([1, 1, 2])):
        r = rng.random()
        if r < 0.5: n += 1; events.append(blk1(n, False, rng.choice([1, size // 2, size]), defer=rng.random() < 0.6))
        elif r < 0.7: n += 1; events.append(blk1(n, True, size))
        elif r < 0.85: events.append(blk1(0, True, size)); n = 0
        else: events.append(blk1(n + 2, False, 3))
        if events[-1].get("defer"): pending.append(len(events) - 1)
        if rng.random() < 0.3 and pending: events.append({"t": "fin", "of": pending.pop(0)})
    while pending: events.append({"t": "fin", "of": pending.pop(rng.randrange(len(pending)))})
    events.append({"t": "adv", "dt": 0})
    return {"endpoints": [kind], "events": events}

def gen_supersede_case(rng):
    """a stored rendering is superseded by a complete answer (Block2Cache pops it, often leaving the cache empty), a new rendering is stored,
    and a later block is requested at an idle time chosen relative to the FIRST timer's deadline t0+T"""
    kind = dict(rng.choice(ENDPOINT_KINDS[:2])); endpoints = [kind]
    res = rng.randrange(NRES); opts = gen_opts(rng, res); code = rng.choice([GET, GET, FETCH])
    szx = rng.choice([0, 0, 1, 2]); size = bsize(szx)
    big = rng.choice([n for n in RLENS if n > size]); small = rng.choice([n for n in RLENS if n <= size])
    def rq(b2, rlen, o=None):
        return {"t": "req", "ep": 0, "res": res, "code": code, "con": rng.random() < 0.3, "opts": (o if o is not None else opts) + volatile_opts(rng, code), "b1": None, "b2": b2,
                "pseed": 0, "plen": 0, "rcode": 69, "rseed": rng.randint(0, 255), "rlen": rlen}
    events = []; now = 0
    pre = rng.random()
    if pre < 0.2:   # another key holds an entry: the pop does not empty the cache
        events.append(rq([0, False, szx], big, opts + [[U_QUERY, list(b"other=1")]]))
    elif pre < 0.3:
        d0 = rng.choice([1, T_US // 2, T_US - 1]); events += [rq([0, False, szx], big), {"t": "adv", "dt": d0}]; now += d0
    t0 = now
    events.append(rq([0, False, szx], big))                                    # (1) stored, timer deadline t0+T (unless one runs already)
    d1 = rng.choice([0, 1, T_US // 2, T_US - 2, rng.randint(0, T_US - 2)])
    events.append({"t": "adv", "dt": d1}); now += d1
    events.append(rq(rng.choice([None, [0, False, 6], [0, False, szx]]), small)) # (2) complete answer supersedes: pop
    d2 = rng.randint(0, T_US - 1 - d1) if rng.random() < 0.8 else rng.choice([0, 1])
    events.append({"t": "adv", "dt": d2}); now += d2
    events.append(rq([0, False, szx], big))                                    # (3) stored again at t3 < t0+T
    t3 = now
    first_deadline = t0 + T_US
    choices = [first_deadline - now, first_deadline - now + 1, t3 + T_US - 1 - now, first_deadline - now + (t3 - t0) // 2]
    if first_deadline - now > 1: choices.append(first_deadline - now - 1)
    d3 = max(0, rng.choice(choices))
    events.append({"t": "adv", "dt": d3}); now += d3
    nblocks = -(-big // size)
    events.append(rq([rng.randrange(1, nblocks + 1), False, szx], big))        # (4) later block: within T of (3) it must be served
    d4 = rng.choice([0, 1, T_US - 1, T_US, anchored_idle(rng, now, [t0, t3, now])])
    events.append({"t": "adv", "dt": d4}); now += d4
    events.append(rq([1, False, szx], big))
    events.append({"t": "adv", "dt": rng.choice([0, T_US, 2 * T_US])})
    return {"endpoints": endpoints, "events": events}

def gen_case(rng):
    nep = rng.choice([1, 1, 2, 2, 3])
    endpoints = [dict(rng.choice(ENDPOINT_KINDS[:4]) if rng.random() < 0.95 else ENDPOINT_KINDS[4]) for _ in range(nep)]
    if nep > 1 and rng.random() < 0.3: endpoints[0]["shared_sockaddr"] = True
    ntransfers = rng.choice([1, 2, 2, 3, 3, 4])
    same_target = rng.random() < 0.5
    res0 = rng.randrange(NRES)
    transfers = []
    for _ in range(ntransfers):
        ep = rng.randrange(nep); res = res0 if same_target else rng.randrange(NRES)
        plan = plan_upload if rng.random() < 0.55 else plan_download
        steps = perturb(rng, plan(rng, ep, res, endpoints[ep]))
        for s in steps:
            if s["ep"] == -1: s["ep"] = rng.randrange(nep)
        transfers.append(steps)
    # interleave
    events = []; now = 0; anchors = []
    mode = rng.random()
    while any(transfers):
        live = [tr for tr in transfers if tr]
        tr = live[0] if mode < 0.3 else rng.choice(live)
        events.append(tr.pop(0)); anchors.append(now)
        r = rng.random()
        if r < 0.20: events.append({"t": "adv", "dt": rng.choice(IDLE)})
        elif r < 0.28: events.append({"t": "adv", "dt": anchored_idle(rng, now, anchors)})
        elif r < 0.33: events.append({"t": "adv", "dt": rng.randint(0, 3 * T_US)})
        if events[-1]["t"] == "adv": now += events[-1]["dt"]
    if len(events) > 28: events = events[:28]
    events.append({"t": "adv", "dt": rng.choice([0, T_US, 2 * T_US, 2 * T_US - 1])})
    return {"endpoints": endpoints, "events": events}

PROPERTY = C06()
