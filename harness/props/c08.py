"""C08 — observe server. Correspondence of Model/C08.v with the real aiocoap server stack
(resource.ObservableResource + interfaces.ObservableResource._render_to_pipe + ServerObservation + Pipe +
TokenManager + MessageManager) under the virtual-time loop; the harness plays the observers on the wire."""
import os, re, sys
import fw
from fw import gz, gbool, glist, gopt, gnat

MODES = ["ok", "ret500", "raise404", "raise500"]          # outcome of the resource's render
TNAME = ["CON", "NON", "ACK", "RST"]
GIVEUP_US = 62_000_000                                     # ACK_TIMEOUT * (2^(MAX_RETRANSMIT+1) - 1) with random.uniform patched to its lower bound
EXCHANGE_LIFETIME_US = 247_000_000
BOGUS_MID = 60000

# ----------------------------------------------------------------------------- wire helpers (independent of aiocoap's codec)
def enc_req(con, mid, tok, observe, path=b"obs"):
    token = b"" if tok < 0 else bytes([tok])
    b = bytes([0x40 | ((0 if con else 1) << 4) | len(token), 1, (mid >> 8) & 255, mid & 255]) + token
    prev = 0
    if observe is not None:
        ob = b"" if observe == 0 else bytes([observe])
        b += bytes([(6 << 4) | len(ob)]) + ob; prev = 6
    b += bytes([((11 - prev) << 4) | len(path)]) + path
    return b

def enc_empty(mtype, mid): return bytes([0x40 | (mtype << 4), 0, (mid >> 8) & 255, mid & 255])

_PL = re.compile(rb"^g(-?\d+)([vx])(\d+)$")
def dec(raw):
    """-> (mtype, mid, tok, code, observe, pk, pv, gid)   tok/observe -1 when absent; pk 0 none / 1 rendered version / 2 explicit response"""
    t = (raw[0] >> 4) & 3; tkl = raw[0] & 15; code = raw[1]; mid = raw[2] << 8 | raw[3]
    tok = int.from_bytes(raw[4:4 + tkl], "big") if tkl else -1
    i = 4 + tkl; num = 0; obs = -1; payload = b""
    while i < len(raw):
        if raw[i] == 0xFF: payload = raw[i + 1:]; break
        d = raw[i] >> 4; l = raw[i] & 15; i += 1
        if d == 13: d = raw[i] + 13; i += 1
        elif d == 14: d = (raw[i] << 8 | raw[i + 1]) + 269; i += 2
        if l == 13: l = raw[i] + 13; i += 1
        elif l == 14: l = (raw[i] << 8 | raw[i + 1]) + 269; i += 2
        num += d; v = raw[i:i + l]; i += l
        if num == 6: obs = int.from_bytes(v, "big")
    m = _PL.match(payload)
    if m: pk, pv, gid = (1 if m.group(2) == b"v" else 2), int(m.group(3)), int(m.group(1))
    else: pk, pv, gid = 0, 0, -1
    return (t, mid, tok, code, obs, pk, pv, gid)


def rid(remote): return int(remote.name[1:])

class OrderedSet:
    """duck-typed stand-in for the `set` in resource.ObservableResource._observations: insertion ordered, with an iteration
    order the script controls (pick permutation) so that the order in which observers are triggered is an input, not an accident"""
    def __init__(self): self.items = []; self.perm = []
    def add(self, x):
        if x not in self.items: self.items.append(x)
    def remove(self, x):
        if x not in self.items: raise KeyError(x)
        self.items.remove(x)
    def __len__(self): return len(self.items)
    def __contains__(self, x): return x in self.items
    def __iter__(self): return iter(pick_order(self.perm, self.items))

def pick_order(perm, items):
    """for each p in perm: move element number (p mod remaining) of the remaining list to the output; the rest follows in order"""
    rest = list(items); out = []
    for p in perm:
        if not rest: break
        out.append(rest.pop(p % len(rest)))
    return out + rest


class Sim:
    """one server under test + the harness as observers 1..n"""
    def __init__(self, inp):
        import asyncio
        from simloop import VLoop
        import simnet
        from aiocoap import resource, Message, error
        from aiocoap.numbers.codes import Code
        self.Message = Message; self.Code = Code
        sim = self
        self.loop = loop = VLoop()
        simnet.patch_random(None, inp.get("mid0", 0), 0)
        self.trace = []              # everything observable, in true order, since the last take()
        self.gid_of_key = {}; self.gid_of_obs = {}; self.gates = {}; self.next_gid = 0

        class Res(resource.ObservableResource):
            def __init__(s):
                super().__init__(); s.version = 0; s.mode = "ok"; s.gate = False
                if not inp.get("real_set"): s._observations = OrderedSet()
            async def needs_blockwise_assembly(s, request): return False
            async def add_observation(s, request, serverobservation):
                gid = sim.next_gid; sim.next_gid += 1
                key = (rid(request.remote), int.from_bytes(request.token, "big") if request.token else -1)
                sim.gid_of_key[key] = gid; sim.gid_of_obs[serverobservation] = gid; s._adding = (gid, key, request.mtype is not None and int(request.mtype) == 0)
                await super().add_observation(request, serverobservation)
                inner = serverobservation._cancellation_callback
                def cb():
                    s._cancelling = gid
                    inner()
                serverobservation._cancellation_callback = cb
            def update_observation_count(s, n):
                if getattr(s, "_adding", None) is not None:
                    gid, key, con = s._adding; s._adding = None
                    sim.trace.append(["add", gid, n, key[0], key[1], con])
                else:
                    gid = getattr(s, "_cancelling", -1); s._cancelling = -1
                    sim.trace.append(["cancel", gid, n])
            async def render_get(s, request):
                observing = request.opt.observe == 0
                key = (rid(request.remote), int.from_bytes(request.token, "big") if request.token else -1)
                gid = sim.gid_of_key.get(key, -1) if observing else -1
                v = s.version
                sim.trace.append(["render", gid, v])
                if observing and s.gate:
                    fut = asyncio.get_running_loop().create_future(); sim.gates[key] = fut
                    try: await fut
                    finally:
                        if sim.gates.get(key) is fut: del sim.gates[key]
                if s.mode == "ok": return Message(payload=b"g%dv%d" % (gid, v))
                if s.mode == "ret500": return Message(code=Code.INTERNAL_SERVER_ERROR, payload=b"g%dv%d" % (gid, v))
                if s.mode == "raise404": raise error.NotFound("g%dv%d" % (gid, v))
                raise RuntimeError("render failed")
        self.res = Res()
        site = resource.Site(); site.add_resource(("obs",), self.res)
        self.ctx, self.tman, self.mman, mi = simnet.make_stack(loop, site)
        class LogMI(simnet.FakeMI):
            def send(s, m):
                raw = m.encode(); r = rid(m.remote)
                sim.trace.append(["send", r] + list(dec(raw)))
        self.mi = LogMI(loop); self.mman.message_interface = self.mi
        self.addr = {}
        self.seen = set()            # every datagram the server ever sent: later identical copies are retransmissions
        self.view = []               # (remote, mid) of CON/NON messages from the server the observer has not answered yet, oldest first
        self.down = False

    def remote(self, r):
        import simnet
        if r not in self.addr: self.addr[r] = simnet.Addr("o%d" % r)
        return self.addr[r]

    def take(self):
        """canonical outputs since the last call; maintains the observers' view of unanswered messages"""
        out = []
        for e in self.trace:
            if e[0] == "send":
                _, r, t, mid, tok, code, obs, pk, pv, gid = e
                retrans = tuple(e[1:]) in self.seen        # an identical datagram was sent to this endpoint before
                self.seen.add(tuple(e[1:]))
                if not retrans and t in (0, 1): self.view.append((r, mid))
                out.append([0, r, t, mid, tok, code, obs, pk, pv, gid, 1 if retrans else 0])
            elif e[0] == "add": out.append([1, e[1], e[2], e[3], e[4], 1 if e[5] else 0])
            elif e[0] == "cancel": out.append([2, e[1], e[2]])
            elif e[0] == "render": out.append([3, e[1], e[2]])
        self.trace = []
        return out

    def pick(self, r, i):
        mine = [m for (rr, m) in self.view if rr == r][::-1]
        if i < len(mine):
            self.view.remove((r, mine[i]))
            # once answered, a later identical datagram is not a retransmission of that exchange any more
            self.seen = {t for t in self.seen if not (t[0] == r and t[2] == mine[i] and t[1] in (0, 1))}
            return mine[i]
        return BOGUS_MID + i

    def step(self, ev):
        import simnet
        loop = self.loop; k = ev[0]; resolved = None
        if k == "req":
            _, r, con, mid, tok, obs = ev
            if not self.down: simnet.inject(loop, self.mman, enc_req(con, mid, tok, obs), self.remote(r))
        elif k in ("ack", "rst"):
            _, r, i = ev
            mid = self.pick(r, i); resolved = mid
            if not self.down: simnet.inject(loop, self.mman, enc_empty(2 if k == "ack" else 3, mid), self.remote(r))
        elif k == "trig":
            _, perm, burst = ev
            if hasattr(self.res._observations, "perm"): self.res._observations.perm = perm
            with loop.enter():
                for (kind, code, last, kk) in burst:
                    self.res.version += 1
                    if kind == "render" and not last:
                        self.res.updated_state()
                    else:
                        for o in list(self.res._observations):
                            gid = self.gid_of_obs[o]
                            resp = None if kind == "render" else self.Message(code=self.Code(code), payload=b"g%dx%d" % (gid, kk))
                            o.trigger(resp, is_last=bool(last))
            loop.drain()
        elif k == "shared":
            _, perm, code, kk = ev
            if hasattr(self.res._observations, "perm"): self.res._observations.perm = perm
            with loop.enter():
                self.res.version += 1
                self.res.updated_state(self.Message(code=self.Code(code), payload=b"g-1x%d" % kk))
            loop.drain()
        elif k == "raw":
            if not self.down: simnet.inject(loop, self.mman, bytes.fromhex(ev[2]), self.remote(ev[1]))
        elif k == "done":
            _, r, tok = ev
            fut = self.gates.get((r, tok))
            if fut is not None and not fut.done():
                with loop.enter(): fut.set_result(None)
                loop.drain()
        elif k == "mode": self.res.mode = MODES[ev[1]]
        elif k == "gate": self.res.gate = bool(ev[1])
        elif k == "adv": loop.advance(ev[1])
        elif k == "err":
            if not self.down:
                with loop.enter(): self.mman.dispatch_error(OSError("simulated transport error"), self.remote(ev[1]))
                loop.drain()
        elif k == "shutdown":
            if not self.down:
                self.down = True
                loop.run_until_complete(self.ctx.shutdown())
        else: raise ValueError("unknown event %r" % (ev,))
        return resolved

    def summary(self):
        obs = self.res._observations
        observers = [self.gid_of_obs[o] for o in (obs.items if hasattr(obs, "items") else obs)]
        if not hasattr(obs, "items"): observers.sort()
        inc = self.tman.incoming_requests
        ex = self.mman._active_exchanges
        return {
            "observers": observers,
            "incoming": [[rid(r), int.from_bytes(t, "big") if t else -1] for (t, r) in inc] if inc is not None else [],
            "gated": sorted([list(k) for k in self.gates]),
            "exchanges": sorted([[rid(r), mid] for (r, mid) in ex]) if ex is not None else [],
            "backlog": sorted([[rid(r)] + [m.mid for (m, _) in l] for r, l in self.mman._backlogs.items() if l]),
            "piggy": sorted([[rid(r), int.from_bytes(t, "big") if t else -1, mid] for (r, t), (mid, _) in self.mman._piggyback_opportunities.items()]),
            "version": self.res.version,
            "loop_exceptions": len(self.loop.exceptions),
        }


def run_script(inp):
    sim = Sim(inp)
    steps = []; resolved = []
    for ev in inp["events"]:
        resolved.append(sim.step(ev))
        steps.append(sim.take())
    return {"steps": steps, "resolved": resolved, "final": sim.summary(), "now": sim.loop.now_us()}


# ----------------------------------------------------------------------------- Gallina side
def g_event(ev):
    k = ev[0]
    if k == "req":
        _, r, con, mid, tok, obs = ev
        return "SEv (ERequest %s %s %s %s %s)" % (gz(r), gbool(con), gz(mid), gz(tok), gopt(obs, gz))
    if k == "ack": return "SAck %s %s" % (gz(ev[1]), gnat(ev[2]))
    if k == "rst": return "SRst %s %s" % (gz(ev[1]), gnat(ev[2]))
    if k == "trig":
        burst = glist(["(%s, %s)" % ("TRender" if kind == "render" else "TResp %s %s" % (gz(code), gz(kk)), gbool(last)) for (kind, code, last, kk) in ev[2]])
        return "SEv (ETrigger %s %s)" % (glist([gnat(p) for p in ev[1]]), burst)
    if k == "shared":     # updated_state(Message): since e47f5b3 every observer is triggered with its own copy
        return "SEv (ETrigger %s [(TResp %s %s, false)])" % (glist([gnat(p) for p in ev[1]]), gz(ev[2]), gz(ev[3]))
    if k == "done": return "SEv (ERenderDone %s %s)" % (gz(ev[1]), gz(ev[2]))
    if k == "mode": return "SEv (ESetMode %s)" % ["MOk", "MRet500", "MRaise404", "MRaise500"][ev[1]]
    if k == "gate": return "SEv (ESetGate %s)" % gbool(ev[1])
    if k == "adv": return "SEv (EAdvance %s)" % gz(ev[1])
    if k == "err": return "SEv (ETransportError %s)" % gz(ev[1])
    if k == "shutdown": return "SEv EShutdown"
    raise ValueError(ev)

def canon_impl(r):
    f = r["final"]
    return {"steps": r["steps"], "resolved": [-1 if x is None else x for x in r["resolved"]],
            "observers": f["observers"], "incoming": f["incoming"], "gated": f["gated"], "exchanges": f["exchanges"],
            "backlog": sorted([b[0], m] for b in f["backlog"] for m in b[1:]), "piggy": f["piggy"], "version": f["version"], "now": r["now"],
            "loop_exceptions": f["loop_exceptions"]}

def canon_model(p, shared=False):
    outs, summ = p
    observers, regs, gated, exch, backlog, piggy, version, now = summ
    steps = []
    for (o, _) in outs:
        st = []
        for x in o:
            x = list(x)
            if x[0] == 0 and x[7] == 0: x[9] = -1        # the registration of an error response is not visible on the wire
            if shared and x[0] == 0 and x[7] == 2: x[9] = -1   # nor is it in the payload of a response object given to updated_state()
            st.append(x)
        steps.append(st)
    return {"steps": steps, "resolved": [res for (_, res) in outs],
            "observers": list(observers), "incoming": [list(x) for x in regs], "gated": sorted(list(x) for x in gated),
            "exchanges": sorted(list(x) for x in exch), "backlog": sorted(list(x) for x in backlog),
            "piggy": sorted(list(x) for x in piggy), "version": version, "now": now, "loop_exceptions": 0}

# ----------------------------------------------------------------------------- script generators
EPILOGUE_ROUNDS = 6
def epilogue(keys, remotes):
    ev = [["gate", False], ["mode", 0]]
    for _ in range(EPILOGUE_ROUNDS):
        for (r, tok) in keys: ev.append(["done", r, tok])
        for r in remotes: ev.append(["ack", r, 0])
    return ev

def gen_script(rng, max_events=28):
    """structured, mostly valid observer behaviour: a few registrations, then a random walk over triggers (bursts, explicit
    responses, last/unsuccessful), observer reactions (ACK/RST of the newest or an older message, silence = time passing),
    re-registration / deregistration / plain request on the same token, duplicates, slow renders, failing renders,
    transport errors, shutdown"""
    nrem = rng.choice([1, 1, 2, 2, 3]); remotes = list(range(1, nrem + 1))
    mid0 = rng.choice([0, 100, 7, 65533])
    ev = []; midc = [0]; keys = []; used_mids = []; kk = [0]; gate = [False]
    def req(r, tok, con, obs, dup=False):
        if dup and used_mids:
            r, mid = rng.choice(used_mids)
        else:
            midc[0] += 1; mid = midc[0]; used_mids.append((r, mid))
        ev.append(["req", r, con, mid, tok, obs])
        if obs == 0 and (r, tok) not in keys: keys.append((r, tok))
    def burst_item(kind=None):
        kk[0] += 1
        x = rng.random() if kind is None else kind
        if x < 0.72: return ["render", 0, False, 0]
        if x < 0.88: return ["resp", 69, False, kk[0]]
        if x < 0.92: return ["resp", rng.choice([132, 160]), False, kk[0]]
        if x < 0.96: return ["resp", 69, True, kk[0]]
        return ["render", 0, True, 0]
    for _ in range(rng.choice([1, 1, 2, 2, 3])):
        req(rng.choice(remotes), rng.choice([1, 1, 2]), rng.random() < 0.65, 0)
    for _ in range(rng.randint(3, max_events)):
        x = rng.random()
        r = rng.choice(remotes)
        if x < 0.30:
            perm = [rng.randint(0, 3) for _ in range(rng.choice([0, 0, 1, 2]))]
            ev.append(["trig", perm, [burst_item() for _ in range(rng.choice([1, 1, 1, 2, 3]))]])
        elif x < 0.48: ev.append(["ack", r, rng.choice([0, 0, 0, 0, 1, 2])])
        elif x < 0.56: ev.append(["rst", r, rng.choice([0, 0, 0, 1, 5])])
        elif x < 0.61: ev.append(["adv", rng.choice([50_000, 99_999, 100_000, 150_000])])
        elif x < 0.67: ev.append(["adv", rng.choice([1_999_999, 2_000_000, 2_100_000, 4_000_000, 14_000_000])])
        elif x < 0.70: ev.append(["adv", rng.choice([61_999_999, 62_000_000, 70_000_000])])
        elif x < 0.71: ev.append(["adv", rng.choice([246_999_999, 247_000_000, 300_000_000])])
        elif x < 0.79 and keys:
            (kr, ktok) = rng.choice(keys); y = rng.random()
            if y < 0.45: req(kr, ktok, rng.random() < 0.65, 0)                  # re-register on the same token
            elif y < 0.75: req(kr, ktok, rng.random() < 0.65, 1)                # deregister
            elif y < 0.9: req(kr, ktok, rng.random() < 0.65, None)              # unrelated request reusing the token
            else: req(kr, ktok, True, 0, dup=True)                              # retransmitted (duplicate) request
        elif x < 0.83: req(r, rng.choice([1, 2, 3]), rng.random() < 0.65, 0)
        elif x < 0.87:
            gate[0] = not gate[0]; ev.append(["gate", gate[0]])
        elif x < 0.94 and keys:
            (kr, ktok) = rng.choice(keys); ev.append(["done", kr, ktok])
        elif x < 0.96:
            ev.append(["mode", rng.choice([1, 2, 3])])
            ev.append(["trig", [], [["render", 0, False, 0]]]); ev.append(["mode", 0])
        elif x < 0.98: ev.append(["err", r])
        elif x < 0.99: ev.append(["shutdown"])
        else: ev.append(["mode", rng.choice([0, 1, 2, 3])])
    if rng.random() < 0.6:
        ev += epilogue(keys, remotes)
        settled = True
    else: settled = False
    return {"mid0": mid0, "events": ev, "settled": settled}

BASE = [["req", 1, True, 1, 1, 0], ["trig", [], [["render", 0, False, 0]]], ["ack", 1, 0], ["trig", [], [["render", 0, False, 0]]],
        ["trig", [], [["render", 0, False, 0]]], ["ack", 1, 0], ["ack", 1, 0], ["trig", [], [["render", 0, False, 0]]], ["ack", 1, 0]]
def faults():
    return [[["rst", 1, 0]], [["err", 1]], [["shutdown"]], [["req", 1, True, 50, 1, 0]], [["req", 1, False, 50, 1, 0]], [["req", 1, True, 50, 1, 1]],
            [["req", 1, True, 50, 1, None]], [["adv", 62_000_000]], [["adv", 2_000_000]], [["mode", 1], ["trig", [], [["render", 0, False, 0]]], ["mode", 0]],
            [["mode", 2], ["trig", [], [["render", 0, False, 0]]], ["mode", 0]], [["trig", [], [["resp", 132, False, 99]]]], [["trig", [], [["resp", 69, True, 99]]]],
            [["gate", True]], [["gate", True], ["trig", [], [["render", 0, False, 0]]], ["rst", 1, 0], ["done", 1, 1]], [["req", 1, True, 1, 1, 0]]]
def fault_scenarios(rng, n, exhaustive=False):
    """a friendly exchange (register, trigger, ack, double trigger, acks) with one fault inserted at every position,
    for a CON and a NON observer and with a second observer on the same or another endpoint"""
    out = []
    for con in (True, False):
        for second in (None, (1, 2), (2, 1)):
            base = [list(e) for e in BASE]; base[0] = ["req", 1, con, 1, 1, 0]
            if second: base.insert(1, ["req", second[0], True, 2, second[1], 0])
            for f in faults():
                for pos in range(1, len(base) + 1):
                    ev = base[:pos] + f + base[pos:]
                    keys = [(1, 1)] + ([second] if second else [])
                    out.append({"mid0": 0, "events": ev + epilogue(keys, [1, 2] if second and second[0] == 2 else [1]), "settled": True})
    if exhaustive: return out
    rng.shuffle(out)
    return out[:n]

def gen_backlog(rng):
    """corner cases of the backlog FIFO invariant: two or three registrations of ONE endpoint (tokens 1..3, CON and NON mixed) share its
    backlog; bursts of triggers while a CON notification is unacknowledged so that later ones queue behind it; then ACK / RST / time
    / re-registration / deregistration / transport error in random order while the queue is non-empty"""
    ev = []; mid = [0]; keys = []; kk = [0]
    def req(tok, con, obs):
        mid[0] += 1; ev.append(["req", 1, con, mid[0], tok, obs])
        if obs == 0 and (1, tok) not in keys: keys.append((1, tok))
    for tok in rng.sample([1, 2, 3], rng.choice([2, 2, 3])): req(tok, rng.random() < 0.8, 0)
    if rng.random() < 0.3: req(rng.choice([1, 2]), True, 0) if False else ev.append(["req", 2, True, 90, 1, 0])     # sometimes a second endpoint as well
    def trig():
        n = rng.choice([1, 1, 2, 3]); burst = []
        for _ in range(n):
            kk[0] += 1; x = rng.random()
            burst.append(["render", 0, False, 0] if x < 0.75 else (["resp", 69, False, kk[0]] if x < 0.95 else ["resp", 69, True, kk[0]]))
        ev.append(["trig", [rng.randint(0, 3) for _ in range(rng.choice([0, 1, 2]))], burst])
    for _ in range(rng.randint(2, 5)): trig()                     # nothing acknowledged yet: one exchange in flight, the rest queued
    for _ in range(rng.randint(4, 16)):
        x = rng.random()
        if x < 0.35: ev.append(["ack", 1, 0])
        elif x < 0.5: trig()
        elif x < 0.58: ev.append(["rst", 1, 0])
        elif x < 0.66: (kr, kt) = rng.choice(keys); req(kt, rng.random() < 0.7, rng.choice([0, 0, 1, None]))
        elif x < 0.72: ev.append(["adv", rng.choice([2_000_000, 6_000_000, 62_000_000])])
        elif x < 0.76: ev.append(["err", 1])
        elif x < 0.82: ev.append(["gate", rng.random() < 0.5])
        elif x < 0.9: (kr, kt) = rng.choice(keys); ev.append(["done", kr, kt])
        else: ev.append(["ack", 1, rng.choice([1, 2])])
    settled = rng.random() < 0.6
    if settled: ev += epilogue(keys + [(2, 1)], [1, 2])
    return {"mid0": rng.choice([0, 65530]), "events": ev, "settled": settled}

def gen_shared(rng):
    """resource.updated_state(response) with one Message object for all observers (F17, fixed by e47f5b3: each observer gets a copy)"""
    nobs = rng.choice([1, 2, 2, 3]); ev = []; keys = []
    for i in range(nobs):
        ev.append(["req", i + 1, rng.random() < 0.7, i + 1, 1, 0]); keys.append((i + 1, 1))
    kk = 0
    for _ in range(rng.randint(1, 5)):
        x = rng.random(); kk += 1
        if x < 0.4: ev.append(["trig", [], [["render", 0, False, 0]]])
        elif x < 0.8: ev.append(["shared", [rng.randint(0, 2)], 69, kk])
        else: ev.append(["ack", rng.randint(1, nobs), 0])
    ev += epilogue(keys, list(range(1, nobs + 1)))
    return {"mid0": 0, "events": ev, "settled": True}

def gen_adversarial(rng):
    """malformed / unexpected datagrams mixed into a script (oracle-only stream): raw bytes are injected as they are"""
    inp = gen_script(rng, max_events=14)
    ev = inp["events"]; junk = []
    for _ in range(rng.randint(1, 6)):
        kind = rng.random(); r = rng.randint(1, 3)
        if kind < 0.25: raw = bytes(rng.randrange(256) for _ in range(rng.randint(0, 12)))
        elif kind < 0.4: raw = enc_empty(0, rng.randrange(65536))                                     # CoAP ping
        elif kind < 0.55: raw = bytes([0x61, 69, 0, rng.randrange(256), 1]) + b"\xffx"               # unsolicited ACK response
        elif kind < 0.7: raw = bytes([0x41, 69, 0, rng.randrange(256), 1])                           # unsolicited CON response
        elif kind < 0.85: raw = enc_req(True, rng.randrange(65536), 1, 0, path=b"nope")              # observe on a missing resource
        else: raw = enc_req(True, rng.randrange(65536), 1, rng.choice([2, 255]))                      # Observe with an undefined value
        junk.append(["raw", r, raw.hex()])
    for j in junk: ev.insert(rng.randint(1, len(ev)), j)
    return inp

# ----------------------------------------------------------------------------- the property, on the implementation's behaviour
def check_trace(stream, inp, res):
    """Executable rendering of C08 on what the real server did (datagrams on the wire + the resource's callbacks),
    written without reference to the model: which registrations exist (add_observation calls), what must end them
    (RST to a notification, final notification, request on the same token, time-out, transport error, shutdown), that ending
    means exactly one cancellation callback, the right observer count and silence afterwards, that Observe values rise and
    tokens match, and that after the script settled every live observer holds a notification as new as the last change."""
    sfx = ":shared-response" if stream == "shared_response" else ""
    events = inp["events"]
    regs = {}; live_by_key = {}; nlive = 0; next_gid = 0
    midmap = {}                  # (r, mid) -> (gid, mtype) of first transmissions of notifications
    outstanding = {}             # (r, mid) -> [first time, copies] for CON messages not yet answered
    recent = {}                  # (r, mid) -> arrival time of requests (deduplication window)
    kk_event = {}                # explicit response number -> event index
    render_pos = []              # (gid, event index) of render calls
    now = 0; down = False; mode = 0; gate_on = False
    render_start = {}            # (gid, version) -> (event index, render gated?) of the render call that produced that payload
    done_events = {}             # (r, tok) -> indices of render completions the script releases
    for i, ev in enumerate(events):
        if ev[0] == "done": done_events.setdefault((ev[1], ev[2]), []).append(i)
    pending_final = {}           # (r, tok) -> registrations ended by the server whose final message is still queued
    last_trig = None             # (event index, kind, kk)
    for i, ev in enumerate(events):
        if ev[0] == "trig":
            for (kind, code, last, kk) in ev[2]:
                if kind == "resp": kk_event[kk] = i
        elif ev[0] == "shared": kk_event[ev[3]] = i
    for i, (ev, outs, resolved) in enumerate(zip(events, res["steps"], res["resolved"])):
        k = ev[0]; must_end = {}
        live_before = {g for g, r in regs.items() if r["live"]}
        if k == "adv": now += ev[1]
        if not down:
            if k == "req":
                _, r, con, mid, tok, obs = ev
                dup = (r, mid) in recent and now < recent[(r, mid)] + EXCHANGE_LIFETIME_US
                if not dup:
                    recent[(r, mid)] = now
                    if (r, tok) in live_by_key: must_end[live_by_key[(r, tok)]] = "same-token-request"
            elif k == "rst":
                hit = midmap.get((ev[1], resolved))
                if hit and regs[hit[0]]["live"]: must_end[hit[0]] = "rst-con" if hit[1] == 0 else "rst-non"
                outstanding.pop((ev[1], resolved), None)
            elif k == "ack": outstanding.pop((ev[1], resolved), None)
            elif k == "err":
                for g in live_before:
                    if regs[g]["r"] == ev[1]: must_end[g] = "transport-error"
                for key in [key for key in outstanding if key[0] == ev[1]]: del outstanding[key]
                for key in [key for key in pending_final if key[0] == ev[1]]: del pending_final[key]
            elif k == "shutdown":
                for g in live_before: must_end[g] = "shutdown"
                down = True; outstanding.clear(); pending_final.clear()
        # server-side causes ("a notification is unsuccessful or marked last"): which registrations they hit depends on coalescing,
        # so they permit an end; the final notification seen on the wire (below) requires it
        permit = set()
        if k == "mode": mode = ev[1]
        if k == "gate": gate_on = bool(ev[1])
        if k == "trig" and any(last for (kind, code, last, kk) in ev[2]):
            for g in live_before:                            # the application declares the next notification the last one (sticky)
                if regs[g]["last_declared"] is None: regs[g]["last_declared"] = i
        if k == "trig":
            bad = any(last or (kind == "resp" and code >= 128) or (kind == "render" and mode != 0) for (kind, code, last, kk) in ev[2])
            for g in live_before:
                if bad: regs[g]["maybe_final"] = True
                if regs[g]["maybe_final"]: permit.add(g)
        if k == "done":
            g = live_by_key.get((ev[1], ev[2]))
            if g is not None and (mode != 0 or regs[g]["maybe_final"]): permit.add(g)
        if k == "raw" and not down:
            raw = bytes.fromhex(ev[2])
            if len(raw) >= 4 and raw[0] >> 6 == 1 and ((raw[0] >> 4) & 3) in (0, 1) and 1 <= raw[1] < 32 and (raw[0] & 15) <= 8 and len(raw) >= 4 + (raw[0] & 15):
                tok = int.from_bytes(raw[4:4 + (raw[0] & 15)], "big") if raw[0] & 15 else -1
                if (ev[1], tok) in live_by_key: permit.add(live_by_key[(ev[1], tok)])
        if k == "trig" and ev[2]: last_trig = (i,) + tuple(ev[2][-1][j] for j in (0, 1, 2, 3))
        if k == "shared": last_trig = (i, "shared", ev[2], False, ev[3])
        ended_here = []
        for o in outs:
            if o[0] == 1:                                   # add_observation accepted: [1, gid, count, r, tok, con]
                _, gid, n, r, tok, con = o
                if gid != next_gid: return ("C08:harness-gid", "unexpected registration number %d" % gid)
                next_gid += 1
                if (r, tok) in live_by_key: return ("C08:two-live-on-token" + sfx, "registration %d accepted on (%d,%d) while %d is still live" % (gid, r, tok, live_by_key[(r, tok)]))
                nlive += 1
                if n != nlive: return ("C08:count-mismatch" + sfx, "update_observation_count(%d) after accepting %d, %d observers are live" % (n, gid, nlive))
                regs[gid] = {"r": r, "tok": tok, "con": con, "live": True, "add_event": i, "end_event": None, "cause": None, "last_obs": -1,
                             "final_sent": False, "last_notif": None, "cancels": 0, "maybe_final": False, "last_declared": None}
                if k == "req" and mode != 0: permit.add(gid)
                live_by_key[(r, tok)] = gid
            elif o[0] == 2:                                 # cancellation callback: [2, gid, count]
                _, gid, n = o
                if gid not in regs: return ("C08:cancel-unknown" + sfx, "cancellation callback for unknown registration %d" % gid)
                rg = regs[gid]; rg["cancels"] += 1
                if rg["cancels"] > 1: return ("C08:cancel-twice" + sfx, "cancellation callback of registration %d ran twice" % gid)
                nlive -= 1
                if n != nlive: return ("C08:count-mismatch" + sfx, "update_observation_count(%d) after cancelling %d, %d observers are live" % (n, gid, nlive))
                rg["live"] = False; rg["end_event"] = i; ended_here.append(gid)
                if live_by_key.get((rg["r"], rg["tok"])) == gid: del live_by_key[(rg["r"], rg["tok"])]
            elif o[0] == 3:
                render_pos.append((o[1], i)); render_start[(o[1], o[2])] = (i, gate_on and o[1] >= 0)
                if o[1] >= 0 and o[1] in regs and not regs[o[1]]["live"]:
                    return ("C08:render-after-end" + sfx, "resource rendered for ended registration %d" % o[1])
            elif o[0] == 0:                                 # datagram [0, r, type, mid, tok, code, obs, pk, pv, gid, retrans]
                _, r, t, mid, tok, code, obs, pk, pv, gid, retrans = o
                if t == 0:
                    if retrans and (r, mid) not in outstanding and not down:
                        return ("C08:retransmission-of-answered" + sfx, "confirmable message mid %d to endpoint %d is retransmitted although it was answered (ACK/RST), given up or its endpoint reported an error" % (mid, r))
                    if retrans: outstanding.setdefault((r, mid), [now, 1])[1] += 1
                    else: outstanding[(r, mid)] = [now, 1]
                if retrans or t == 3 or code == 0: continue
                if gid < 0 and pk == 2 and (r, tok) in live_by_key: gid = live_by_key[(r, tok)]      # shared explicit response
                if gid < 0:
                    if code >= 128 and pk == 0 and k not in ("req", "raw"):                          # bare 5.00 outside a request: unsuccessful notification without registration number
                        if k in ("ack", "rst"):
                            # NSTART = 1: whatever is transmitted for the first time while an ACK/RST is processed left the backlog;
                            # it is the queued final message of a registration the server already ended (oldest first)
                            waiting = [g for g in pending_final.get((r, tok), []) if not regs[g]["final_sent"]]
                            if waiting: regs[waiting[0]]["final_sent"] = True
                        else:
                            # sent directly by the render task that just failed: the live registration on this token, or the one
                            # whose cancellation callback ran a moment ago (a raising render cancels first, answers second)
                            g = live_by_key.get((r, tok))
                            if g is None:
                                cand = [x for x in ended_here if (regs[x]["r"], regs[x]["tok"]) == (r, tok) and not regs[x]["final_sent"]]
                                g = cand[-1] if cand else None
                            if g is not None:
                                must_end.setdefault(g, "final-notification"); regs[g]["final_sent"] = True
                    continue
                if gid not in regs: return ("C08:harness-gid", "datagram for unknown registration %d" % gid)
                rg = regs[gid]
                if (r, tok) != (rg["r"], rg["tok"]): return ("C08:wrong-token" + sfx, "notification of registration %d (endpoint %d token %d) sent to endpoint %d with token %d" % (gid, rg["r"], rg["tok"], r, tok))
                if rg["final_sent"]: return ("C08:notification-after-final" + sfx, "registration %d: datagram after its final notification" % gid)
                if not rg["live"] and rg["cause"] != "final-notification" and not (code >= 128 or obs < 0):
                    produced_before = (kk_event.get(pv, i) <= rg["end_event"]) if pk == 2 else not any(g == gid and e > rg["end_event"] for g, e in render_pos)
                    if rg["end_event"] == i and gid in must_end and must_end[gid] == "final-notification": pass
                    elif produced_before:
                        return ("C08:notification-after-end:backlog" + sfx, "registration %d ended by %s in event %d, but a notification queued before (Observe %d, mid %d) was transmitted in event %d" % (gid, rg["cause"], rg["end_event"], obs, mid, i))
                    else: return ("C08:notification-after-end:new" + sfx, "registration %d ended in event %d, notification (Observe %d) produced and sent in event %d" % (gid, rg["end_event"], obs, i))
                if t in (0, 1): midmap[(r, mid)] = (gid, t)
                if code >= 128 or obs < 0:
                    must_end.setdefault(gid, "final-notification"); rg["final_sent"] = True
                else:
                    if rg["last_declared"] is not None and obs > 0:
                        # when was this notification handed to the transport? explicit response: not before its trigger; rendered:
                        # when its render call returned (at once, or at the script's next render completion for that token)
                        if pk == 2: emitted = kk_event.get(pv, -1)
                        else:
                            e_r, gated = render_start.get((gid, pv), (-1, False))
                            later = [d for d in done_events.get((r, tok), []) if d > e_r]
                            emitted = (later[0] if later else -1) if gated else e_r
                        if emitted >= rg["last_declared"]:
                            return ("C08:observe-after-last" + sfx, "registration %d: the application marked the next notification last in event %d, but the notification produced in event %d went out with Observe %d (the registration goes on)" % (gid, rg["last_declared"], emitted, obs))
                    if obs <= rg["last_obs"]: return ("C08:observe-not-increasing" + sfx, "registration %d: Observe %d after %d" % (gid, obs, rg["last_obs"]))
                    rg["last_obs"] = obs; rg["last_notif"] = (pk, pv)
        # confirmable notification timed out: all five copies sent and the last wait elapsed without an answer
        if k == "adv" and not down:
            for (r, mid), (t0, copies) in list(outstanding.items()):
                if now >= t0 + GIVEUP_US:
                    for g in live_before:
                        if regs[g]["r"] == r and regs[g]["add_event"] < i: must_end.setdefault(g, "timeout")
                    del outstanding[(r, mid)]
                    for key in [key for key in pending_final if key[0] == r]: del pending_final[key]
        for g in ended_here:
            regs[g]["cause"] = must_end.get(g) or ("final-notification" if g in permit else None)
            if regs[g]["cause"] == "final-notification" and not regs[g]["final_sent"]:
                pending_final.setdefault((regs[g]["r"], regs[g]["tok"]), []).append(g)
            if g not in must_end and g not in permit:
                return ("C08:spurious-end" + sfx, "registration %d ended in event %d (%s) without any of the causes the property lists" % (g, i, ev[0]))
        for g, cause in must_end.items():
            if regs[g]["live"]:
                if cause == "rst-non": return ("C08:rst-on-non-ignored" + sfx, "registration %d: Reset answering its non-confirmable notification (mid %d) did not end it" % (g, resolved))
                return ("C08:not-ended:" + cause + sfx, "registration %d still live after event %d (%s)" % (g, i, cause))
    if res.get("loop_exceptions"): return ("C08:loop-exception" + sfx, "%d exception(s) reached the event loop" % res["loop_exceptions"])
    if sorted(g for g, r in regs.items() if r["live"]) != sorted(res["observers"]):
        return ("C08:observer-set-mismatch" + sfx, "resource holds observers %r, live registrations are %r" % (res["observers"], sorted(g for g, r in regs.items() if r["live"])))
    if not down:
        busy = {x[0] for x in res["exchanges"]}
        for b in res["backlog"]:
            if b[0] not in busy:                            # NSTART = 1 queue: something waits although nothing is in flight to that endpoint
                return ("C08:backlog-stalled" + sfx, "message mid %d waits in the backlog of endpoint %d although no exchange with that endpoint is open: it will never be sent" % (b[1], b[0]))
    quiescent = not res["exchanges"] and not res["backlog"] and not res["gated"] and not down
    if inp.get("settled") and quiescent:
        for g, rg in regs.items():
            if rg["live"] and rg["last_declared"] is not None and rg["add_event"] < rg["last_declared"]:
                return ("C08:not-ended:declared-last" + sfx, "registration %d: a notification was marked last in event %d, everything has settled, and the registration is still live" % (g, rg["last_declared"]))
    if inp.get("settled") and quiescent and last_trig is not None:
        ti, kind, code, last, kk = last_trig
        for g, rg in regs.items():
            if not rg["live"] or rg["add_event"] > ti: continue
            want = (1, res["version"]) if kind == "render" else (2, kk)
            if rg["last_notif"] != want:
                return ("C08:latest-not-sent" + (":shared-response" if kind == "shared" else sfx), "registration %d: last change in event %d, newest notification on the wire is %r, expected %r" % (g, ti, rg["last_notif"], want))
    return None


class C08(fw.Property):
    id = "C08"
    coq_props = "Props/C08.v"
    gen_jobs = ["c03_constants", "c14_message_id"]     # round 7: constants + message-ID successor tie (Proofs/C08Tie.v)
    model_imports = ["Verif.Model.C08"]
    quick_budget = 300
    thorough_budget = 6000
    design_ref = "DESIGN.md section 13"
    technique = ("Coq invariants / refinement over an executable model of the observe server path (render task, ServerObservation, "
                 "resource bookkeeping, pipe interest, token manager, message manager with backlog/retransmission/dedup/piggy-back timers), "
                 "tied to the code by a differential run of the real stack under a virtual-time loop on scripted observer behaviour")
    rule = ("streams: script = structured random observer scripts (1-3 endpoints, CON/NON registrations, trigger bursts incl. explicit / "
            "unsuccessful / last responses, ACK or RST of the newest or an older message, silence (time steps around 0.1 s, 2 s, 62 s, 247 s), "
            "re-register / deregister / plain request / duplicate on the same token, slow renders released later, failing renders, transport "
            "error, shutdown) plus a friendly exchange with one fault inserted at every position, plus backlog scenarios (2-3 registrations of one "
            "endpoint sharing its backlog, trigger bursts while a CON notification is unacknowledged, then ACK/RST/time/re-registration/error), "
            "through the real stack vs Model/C08.run_script; "
            "real_set = same with the unmodified set of observers (oracle only); shared_response = resource.updated_state(response) with one "
            "Message object for several observers (modelled: every observer gets its own copy, as since fix e47f5b3); adversarial = scripts with junk / unsolicited datagrams injected (oracle only). Non-trivial = at least one "
            "accepted registration, one notification with Observe > 0 and one ended registration; distinct by full input.")
    trusted_base = ["hand-written Model/C08.v (validated by the script stream on every run: complete per-event traces of datagrams, callbacks, renders and the final bookkeeping state)",
                    "harness: virtual-time loop (ideal timers, FIFO ready queue), fake transport, test resource (ordered stand-in for the observer set, gated renders), wire codec of the harness",
                    "random.uniform patched to ACK_TIMEOUT (retransmission times 2,4,8,16,32 s)"]
    assumptions = ["observers are triggered in an order chosen by the script (the real set's order is one of them); the real_set stream runs the unmodified set under the oracle only",
                   "every observer gets its own Message for explicit responses (resource.updated_state(response) copies since fix e47f5b3; the shared_response stream compares exactly that)",
                   "task garbage collection is not modelled",
                   "the test resource accepts every observation and never calls ServerObservation.deregister(): the declined / early- and late-deregister branches of _render_to_pipe (interfaces.py:509-515, protocol.py:1347-1364) are outside model, generator and theorems",
                   "retransmissions: the silence-after-end theorems speak about first transmissions; copies of a datagram already in flight are covered by the oracle rule C08:retransmission-of-answered only"]
    level_text = ("Theorems (closed under the global context) over a hand-written executable model of the observe server path, for ALL event histories: "
                  "live registrations = the resource's observers, add_observation once per registration, cancellation callback exactly once per ended "
                  "registration and never for a live one, every update_observation_count reports the true count (count restored); once ended nothing is "
                  "produced for a registration any more and only datagrams already queued in the backlog can still leave (F16 witness for the unconditional "
                  "wire statement); each listed cause ends the registration (same-token request, Reset of a confirmable notification, unsuccessful / last "
                  "notification, raising render, time-out, transport error, shutdown), with the Reset-of-NON case refuted by a witness (F15). The model is "
                  "tied to the code by a differential run of the real stack on scripted observer behaviour with complete traces compared.")
    level_note = ("Token / strictly rising Observe numbers on the wire and 'latest state sent' (idle task + nothing of the registration in the backlog => "
                  "the last datagram on the wire carries the current resource version) are proved over all histories. For explicit responses the theorem "
                  "says the last produced one is the last on the wire; that it is the last one passed is the loop-level lemma on the lossy future. "
                  "The fairness state is shown reachable (C08_latest_state_reached / _eventually_sent: progress events only). PARTIAL: Time-out is stated for the firing of the last retransmission timer, not derived from EAdvance; 'ends on unsuccessful / last notification' is proved for the trigger event on idle tasks (C08_ends_on_last_or_unsuccessful_trigger) and for the task's code when a render is in progress; advance never runs out of fuel (C08_advance_fires_all_due_timers). Not modelled: task garbage collection, "
                  "No-Response, block-wise, multicast; observers are triggered in a script-chosen order. Trusted: the model's correspondence (sampled), virtual loop, harness codec.")

    # ------------------------------------------------------------------ generators (every choice from rng)
    def gen_cases(self, tier, rng, n):
        n_fault = n // 5; n_shared = max(4, n // 25); n_real = max(4, n // 25); n_adv = max(4, n // 25); n_back = n // 6
        for k in range(n - n_fault - n_shared - n_real - n_adv - n_back):
            yield "script", gen_script(rng)
        for k in range(n_back):
            yield "script", gen_backlog(rng)
        for inp in fault_scenarios(rng, n_fault, exhaustive=(tier == "thorough")):
            yield "script", inp
        for k in range(n_real):
            inp = gen_script(rng, max_events=12); inp["real_set"] = True
            yield "real_set", inp
        for k in range(n_shared):
            yield "shared_response", gen_shared(rng)
        for k in range(n_adv):
            yield "adversarial", gen_adversarial(rng)
    def setup(self):
        import logging, warnings
        logging.disable(logging.CRITICAL); warnings.simplefilter("ignore")
    def impl(self, stream, inp):
        return canon_impl(run_script(inp))
    def model(self, stream, inp):
        if stream not in ("script", "shared_response"): return None
        return "run_script %s %s" % (gz(inp.get("mid0", 0)), glist([g_event(e) for e in inp["events"]]))
    def decode(self, stream, inp, parsed):
        return canon_model(fw.plain(parsed), shared=(stream == "shared_response"))
    def oracle(self, stream, inp, res):
        if "harness_exception" in res: return ("C08:crash:" + res["where"], "implementation raised %s: %s" % (res["harness_exception"], res.get("text")))
        return check_trace(stream, inp, res)
    def nontrivial(self, stream, inp, res):
        if "steps" not in res: return None
        outs = [o for st in res["steps"] for o in st]
        ok = any(o[0] == 1 for o in outs) and any(o[0] == 0 and o[6] > 0 for o in outs) and any(o[0] == 2 for o in outs)
        return fw.jdump([stream, inp]) if ok else None

PROPERTY = C08()
