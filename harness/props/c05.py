"""C05 — block-wise client transfers deliver both bodies intact or fail loudly.

Streams
  kernels   real Message._extract_block / BlockwiseTuple.* vs Gen/block_kernels.v (translated from source on every run)
  transfer  real BlockwiseRequest (protocol.py) under the virtual loop, its sub-requests answered by an independent RFC 7959
            reference server (RefServer below, every message through Message.encode/decode)  vs  Model/C05.run x Model/C05Server.serve_ref
  scripted  real BlockwiseRequest against an arbitrary scripted list of responses  vs  Model/C05.run_script
  stack     (oracle only) the same transfers through the real Context/TokenManager/MessageManager over a lossy / duplicating
            simulated network with the reference server behind it
The oracle is an executable rendering of the RFC 7959 sequencing rules on what was actually sent and received.
"""
import os, sys, logging, warnings
import fw
from fw import gz, gbool, glist, gopt

MASK = (1 << 36) - 1
def mkbody(n, seed): return bytes(((i * 7 + (i // 251) * 3 + seed) % 251) for i in range(n))
def phash(p):
    a = 7
    for x in p: a = (a * 31 + x + 1) & MASK
    return a

CONTINUE, CHANGED, CONTENT, BAD_REQUEST, INCOMPLETE, TOO_LARGE = 95, 68, 69, 128, 136, 141
BOUNDARY = [0, 1, 15, 16, 17, 31, 32, 33, 63, 64, 65, 127, 128, 129, 255, 256, 257, 511, 512, 513, 1023, 1024, 1025, 1123, 1124, 1125,
            1126, 2047, 2048, 2049, 2148, 2149, 3000, 4096, 4097]
N_KINDS = 21       # kinds drawn at random; 22 (request lost before the server) is used by the stack stream only
log = logging.getLogger("c05-harness"); log.setLevel(logging.CRITICAL); log.propagate = False; log.addHandler(logging.NullHandler())
for _n in ("coap", "coap-server"):      # the real Context logs expected assembly errors; keep the check's output clean
    _l = logging.getLogger(_n); _l.setLevel(logging.CRITICAL + 1); _l.addHandler(logging.NullHandler())


def pol(l, k, d):
    if not l: return d
    return l[k] if k < len(l) else l[-1]

# ------------------------------------------------------------------------------------------ reference server (RFC 7959)
class RefServer:
    """Independent reference server; `resp` dicts: code, block1, block2 ([num, more, szx] or None), etag (int or None), payload (bytes)."""
    def __init__(self, scf):
        self.scf = scf; self.asm = b""; self.bodies = []; self.step = 0
    def _slice(self, k, code, b1, req_b2):
        scf = self.scf
        idx = pol(scf["rep_at"], k, 0)
        etag, rep = (scf["reps"][idx]["etag"], scf["reps"][idx]["data"]) if 0 <= idx < len(scf["reps"]) else (None, b"")
        n2, szx2 = (req_b2[0], min(req_b2[2], 6)) if req_b2 is not None else (0, 6)
        sszx = min(szx2, pol(scf["policy2"], k, 6))
        offset = n2 << (szx2 + 4); size = 1 << (sszx + 4)
        if offset > len(rep) or (offset == len(rep) and n2 > 0):
            return dict(code=BAD_REQUEST, block1=None, block2=None, etag=None, payload=b"")
        more = offset + size < len(rep)
        if req_b2 is None: b2 = [0, more, sszx] if more else None
        else: b2 = [offset // size, more, sszx]
        return dict(code=code, block1=b1, block2=b2, etag=etag, payload=rep[offset:offset + size])
    def remote_exp(self): return 7 if self.scf.get("bert", 0) > 0 else 6
    def _respond(self, k, code, b1, req_b2):
        """RFC 8323 BERT where asked for (or, on a reliable transport, unasked) and allowed by the policy of this step; else regular blocks"""
        scf = self.scf; mx = self.remote_exp()
        want = req_b2[2] if req_b2 is not None else mx
        if want == 7 and pol(scf["policy2"], k, 6) >= 7:
            idx = pol(scf["rep_at"], k, 0)
            etag, rep = (scf["reps"][idx]["etag"], scf["reps"][idx]["data"]) if 0 <= idx < len(scf["reps"]) else (None, b"")
            n2 = req_b2[0] if req_b2 is not None else 0
            size = 1024 * max(1, scf.get("bert", 0)); offset = n2 * 1024
            if offset > len(rep) or (offset == len(rep) and n2 > 0):
                return dict(code=BAD_REQUEST, block1=None, block2=None, etag=None, payload=b"", maxexp=mx)
            more = offset + size < len(rep)
            b2 = ([0, more, 7] if more else None) if req_b2 is None else [n2, more, 7]
            return dict(code=code, block1=b1, block2=b2, etag=etag, payload=rep[offset:offset + size], maxexp=mx)
        r = self._slice(k, code, b1, req_b2); r["maxexp"] = mx
        return r
    def honest(self, rq):
        k = self.step; self.step += 1; scf = self.scf; mx = self.remote_exp()
        def plain(code): return dict(code=code, block1=None, block2=None, etag=None, payload=b"", maxexp=mx)
        if rq["block1"] is not None:
            n, m, szx = rq["block1"]; unit = 1024 if szx == 7 else 1 << (szx + 4); ln = len(rq["payload"])
            asm = b"" if n == 0 else self.asm
            if n * unit != len(asm): return plain(INCOMPLETE)
            if szx == 7: bad = m and (ln == 0 or ln % 1024 != 0)
            else: bad = (m and ln != unit) or (not m and ln > unit)
            if bad: return plain(BAD_REQUEST)
            asm = asm + rq["payload"]; aszx = min(szx, pol(scf["policy1"], k, 6))
            if m:
                self.asm = asm
                return dict(code=CONTINUE if scf["atomic"] else CHANGED, block1=[n, bool(scf["atomic"]), aszx], block2=None, etag=None, payload=b"", maxexp=mx)
            self.asm = b""; self.bodies.insert(0, asm)
            return self._respond(k, CHANGED, [n, False, aszx], rq["block2"])
        if rq["block2"] is not None and rq["block2"][0] > 0:
            return self._respond(k, CONTENT, None, rq["block2"])
        self.asm = b""; self.bodies.insert(0, rq["payload"])
        return self._respond(k, CONTENT, None, rq["block2"])
    def serve(self, rq):
        k = self.step
        mis = self.scf.get("mis")
        if mis is not None and mis[0] == k and mis[1] == 22: return "fail"      # the request never arrives: nothing happens at the server
        if mis is not None and mis[0] == k and mis[1] in (18, 19):
            # answers with a LARGER block than asked for (size exponent grown by 1 / 2, policy ignored): the block of the larger size that
            # contains the requested offset
            rq = dict(rq)
            if rq["block2"] is not None:
                n, m, s_ = rq["block2"]; s2 = min(6, s_ + mis[1] - 17)
                rq["block2"] = [(n << (s_ + 4)) >> (s2 + 4), m, s2]
            saved = self.scf; self.scf = dict(saved, policy2=[6])
            try: return self.honest(rq)
            finally: self.scf = saved
        r = self.honest(rq)
        if mis is not None and mis[0] == k: return mutate(mis[1], r)
        return r

def mutate(kind, r):
    r = dict(r)
    b1 = list(r["block1"]) if r["block1"] is not None else None
    b2 = list(r["block2"]) if r["block2"] is not None else None
    if kind == 1 and b1: b1[0] += 1
    elif kind == 2 and b1: b1[1] = True
    elif kind == 3: r["code"] = CONTINUE
    elif kind == 4: b1 = None
    elif kind == 5 and b2: b2[0] += 1
    elif kind == 6: r["payload"] = r["payload"][:-1]
    elif kind == 7: r["payload"] = r["payload"] + b"\0"
    elif kind == 8: r["etag"] = 200
    elif kind == 9: b2 = None
    elif kind == 10 and b2: b2[1] = not b2[1]
    elif kind == 11 and b1: b1[2] = min(6, b1[2] + 1)
    elif kind == 12: r["code"] = TOO_LARGE
    elif kind == 13: return "fail"
    elif kind == 14 and b2: b2[2] = max(0, b2[2] - 1)
    elif kind == 15 and b1: b1[0] = 0
    elif kind == 16 and b2: b2[0] += 1; b2[1] = False
    elif kind == 17: r["etag"] = None
    elif kind == 20 and b2: b2 = [b2[0] // 2, False, min(6, b2[2] + 1)]
    elif kind == 21 and b2: b2 = [b2[0] // 2, b2[1], min(6, b2[2] + 1)]
    r["block1"] = b1; r["block2"] = b2
    return r

class ScriptServer:
    def __init__(self, script): self.script = list(script); self.k = 0
    def serve(self, rq):
        if self.k >= len(self.script): return "fail"
        r = self.script[self.k]; self.k += 1
        if r == "fail": return r
        r = dict(r); r["payload"] = mkbody(r["plen"], r["pseed"])[r.get("poff", 0):] if "plen" in r else bytes(r["payload"])
        return r


# ------------------------------------------------------------------------------------------ driving the real client
class Remote:
    """duck-typed EndpointAddress as far as the block-wise code looks at it"""
    def __init__(self, mbse, mps): self.maximum_block_size_exp = mbse; self.maximum_payload_size = mps
    is_multicast = False; is_multicast_locally = False; scheme = "coap"; hostinfo = "peer"; hostinfo_local = "local"
    uri_base = "coap://peer"; uri_base_local = "coap://local"; blockwise_key = "peer"
    def as_response_address(self): return self

def _default_addr_class():
    import simnet
    from aiocoap import interfaces
    class DefaultAddr(simnet.Addr):
        # re-bind the two attributes to the library's own properties (simnet.Addr overrides them with constants)
        maximum_block_size_exp = interfaces.EndpointAddress.maximum_block_size_exp
        maximum_payload_size = interfaces.EndpointAddress.maximum_payload_size
    return DefaultAddr
class _LazyDefaultAddr:
    _cls = None
    def __call__(self, name):
        if _LazyDefaultAddr._cls is None: _LazyDefaultAddr._cls = _default_addr_class()
        return _LazyDefaultAddr._cls(name)
DefaultAddr = _LazyDefaultAddr()

class _SubRequest:
    def __init__(self, fut): self.response = fut; self.observation = None

class ScriptedProtocol:
    """Duck-typed `protocol` for BlockwiseRequest: request() answers from `server`, every message goes through encode/decode."""
    def __init__(self, loop, server, mps):
        self.loop = loop; self.log = log; self.server = server; self.mps = mps; self.exchanges = []; self.mid = 100
    async def find_remote_and_interface(self, m): return None
    def request(self, m, handle_blockwise=True):
        import aiocoap
        from aiocoap import Message, error
        assert handle_blockwise is False, "sub-request with handle_blockwise=True"
        self.mid += 1
        wire = m.copy(mtype=aiocoap.CON, mid=self.mid, token=b"\x01").encode()
        d = Message.decode(wire, m.remote)
        rq = dict(block1=list(d.opt.block1) if d.opt.block1 is not None else None, block2=list(d.opt.block2) if d.opt.block2 is not None else None,
                  size1=d.opt.size1, payload=d.payload)
        r = self.server.serve(rq)
        self.exchanges.append((rq, r))
        fut = self.loop.create_future()
        if r == "fail":
            fut.set_exception(error.NetworkError("scripted transport failure"))
        else:
            rm = Message(code=aiocoap.numbers.codes.Code(r["code"]), payload=r["payload"])
            if r["block1"] is not None: rm.opt.block1 = tuple(r["block1"])
            if r["block2"] is not None: rm.opt.block2 = tuple(r["block2"])
            if r["etag"] is not None: rm.opt.etag = bytes([r["etag"]])
            if r.get("observe") is not None: rm.opt.observe = r["observe"]
            rm.mtype = aiocoap.ACK; rm.mid = self.mid; rm.token = b"\x01"
            fut.set_result(Message.decode(rm.encode(), Remote(r.get("maxexp", 6), self.mps)))
        return _SubRequest(fut)

def bt_list(b): return None if b is None else [int(b[0]), bool(b[1]), int(b[2])]
def req_view(rq): return [bt_list(rq["block1"]), bt_list(rq["block2"]), rq["size1"], len(rq["payload"]), phash(rq["payload"])]

def run_client(cc, server):
    """cc: client configuration dict(len, seed, mps, mbse, block2) -> (protocol, outcome, final message or None)"""
    import aiocoap, simloop
    from aiocoap import Message
    from aiocoap.protocol import BlockwiseRequest
    loop = simloop.VLoop()
    proto = ScriptedProtocol(loop, server, cc["mps"])
    m = Message(code=aiocoap.PUT, payload=mkbody(cc["len"], cc["seed"]))
    m.opt.uri_path = ("r",)
    if cc.get("block2") is not None: m.opt.block2 = tuple(cc["block2"])
    m.remote = Remote(cc["mbse"], cc["mps"])
    with warnings.catch_warnings():
        warnings.simplefilter("ignore")
        with loop.enter(): br = BlockwiseRequest(proto, m)
        loop.drain()
    final = None
    if not br.response.done(): outcome = "pending"; br.response.cancel(); loop.drain()
    elif br.response.cancelled(): outcome = "cancelled"
    elif br.response.exception() is not None: outcome = "exn:" + type(br.response.exception()).__name__
    else:
        final = br.response.result()
        et = final.opt.etag
        outcome = {"done": [int(final.code), bt_list(final.opt.block1), bt_list(final.opt.block2), None if et is None else et[0], len(final.payload), phash(final.payload)]}
    if loop.exceptions: outcome = {"loop_exceptions": [str(c.get("exception") or c.get("message")) for c in loop.exceptions], "outcome": outcome}
    return proto, outcome, final


def run_stack(cc, srv, net):
    """The same transfer through the real Context / BlockwiseRequest / TokenManager / MessageManager over a simulated network.
    net: dict(req=[...], resp=[...]) per-datagram fates consumed in order: 0 deliver, 1 drop, 2 deliver twice; kill = index of the
    exchange all of whose responses are lost (or None).  The reference server sits behind a CoAP message layer of its own
    (deduplication by message id, piggy-backed responses)."""
    import aiocoap, simloop, simnet
    from aiocoap import Message, error
    loop = simloop.VLoop(); simnet.patch_random(None, mid0=4000, token0=77)
    ctx, tman, mman, mi = simnet.make_stack(loop)
    if cc["mbse"] == 6 and cc["mps"] == 1124 and net.get("library_defaults"):
        # the remote does not set the two attributes: the library's own defaults are used (interfaces.py:153-168, anchored)
        peer = DefaultAddr("srv")
    else:
        peer = simnet.Addr("srv"); peer.maximum_block_size_exp = cc["mbse"]; peer.maximum_payload_size = cc["mps"]
    m = Message(code=aiocoap.PUT, payload=mkbody(cc["len"], cc["seed"])); m.opt.uri_path = ("r",); m.remote = peer
    if cc.get("block2") is not None: m.opt.block2 = tuple(cc["block2"])
    with warnings.catch_warnings():
        warnings.simplefilter("ignore")
        with loop.enter(): req = ctx.request(m)
        loop.drain()
    seen = {}; exchanges = []; fates_req = list(net["req"]); fates_resp = list(net["resp"]); kill = net.get("kill"); steps = 0
    kill_request = net.get("kill_request"); dead = set()       # kill_request = index of the exchange NO transmission of whose request arrives
    lost = [0]          # transmissions lost in a row; the simulated network loses at most 3 of the 5 transmissions of an exchange
    def fate(l):
        f = l.pop(0) if l else 0
        if f == 1:
            if lost[0] >= 3: f = 0
            else: lost[0] += 1
        return f
    while not req.response.done():
        steps += 1
        if steps > 5000: break
        out = mi.take()
        if not out:
            if loop.fire_next() is None: break
            continue
        for (_, _, raw) in out:
            f = fate(fates_req)
            for _ in range({0: 1, 1: 0, 2: 2}[f]):
                d = Message.decode(raw, peer)
                if d.mtype not in (aiocoap.CON, aiocoap.NON): continue          # ACK / RST from the client
                key = d.mid
                if key in dead: continue
                if key not in seen:
                    rq = dict(block1=bt_list(d.opt.block1), block2=bt_list(d.opt.block2), size1=d.opt.size1, payload=d.payload)
                    idx = len(exchanges)
                    if kill_request is not None and idx == kill_request:
                        exchanges.append([rq, "fail"]); dead.add(key); continue      # the server never sees it
                    r = srv.serve(rq)
                    exchanges.append([rq, r])
                    if r == "fail": seen[key] = (idx, None); continue                # misbehaviour 13: served, every response lost
                    rm = Message(code=aiocoap.numbers.codes.Code(r["code"]), payload=r["payload"])
                    if r["block1"] is not None: rm.opt.block1 = tuple(r["block1"])
                    if r["block2"] is not None: rm.opt.block2 = tuple(r["block2"])
                    if r["etag"] is not None: rm.opt.etag = bytes([r["etag"]])
                    rm.mtype = aiocoap.ACK; rm.mid = d.mid; rm.token = d.token
                    seen[key] = (idx, rm.encode())
                idx, rawresp = seen[key]
                if rawresp is None: continue
                if kill is not None and idx == kill:
                    exchanges[idx][1] = "fail"; continue
                g = fate(fates_resp)
                if g != 1: lost[0] = 0
                for _ in range({0: 1, 1: 0, 2: 2}[g]): simnet.inject(loop, mman, rawresp, peer)
        loop.drain()
    final = None
    if not req.response.done(): outcome = "pending"
    elif req.response.exception() is not None:
        ex = req.response.exception()
        outcome = "exn:NetworkError" if isinstance(ex, error.NetworkError) else "exn:" + type(ex).__name__
    else:
        final = req.response.result(); et = final.opt.etag
        outcome = {"done": [int(final.code), bt_list(final.opt.block1), bt_list(final.opt.block2), None if et is None else et[0], len(final.payload), phash(final.payload)]}
    real = [c for c in loop.exceptions if "was never retrieved" not in str(c.get("message"))]
    if real: outcome = {"loop_exceptions": [str(c.get("exception") or c.get("message")) for c in real], "outcome": outcome}
    run_stack.last_remote = [int(peer.maximum_block_size_exp), int(peer.maximum_payload_size)]
    return [tuple(x) for x in exchanges], outcome, final


# ------------------------------------------------------------------------------------------ Gallina literals
def gbt(b): return "None" if b is None else "(Some (%d, %s, %d))" % (b[0], gbool(b[1]), b[2])
def gccfg(cc): return "{| c_body := mkbody %d %d; c_mps := %d; c_mbse := %d; c_block2 := %s |}" % (cc["len"], cc["seed"], cc["mps"], cc["mbse"], gbt(cc.get("block2")))
def gresp(r):
    if r == "fail": return "SFail"
    pl = "bfrom (mkbody %d %d) %d" % (r["plen"], r["pseed"], r.get("poff", 0)) if "plen" in r else fw.gbytes(r["payload"])
    return "SResp {| rs_code := %d; rs_block1 := %s; rs_block2 := %s; rs_etag := %s; rs_payload := %s; rs_maxexp := %d; rs_observe := %s |}" % (
        r["code"], gbt(r["block1"]), gbt(r["block2"]), gopt(r["etag"], gz), pl, r.get("maxexp", 6), gbool(bool(r.get("observe"))))
def gscfg(sc):
    reps = glist(["(%s, mkbody %d %d)" % (gopt(r["etag"], gz), r["len"], r["seed"]) for r in sc["reps"]])
    return "{| s_policy1 := %s; s_policy2 := %s; s_reps := %s; s_rep_at := %s; s_atomic := %s; s_mis := %s; s_bert := %d |}" % (
        glist(map(gz, sc["policy1"])), glist(map(gz, sc["policy2"])), reps, glist(map(gz, sc["rep_at"])), gbool(sc["atomic"]),
        "None" if sc.get("mis") is None else "(Some (%d, %d))" % tuple(sc["mis"]), sc.get("bert", 0))

def copt(x):
    """parsed option -> python"""
    if isinstance(x, fw.Ctor):
        if x.name == "None": return None
        if x.name == "Some": return x.args[0]
    raise ValueError("not an option: %r" % (x,))
def cbt(x):
    v = copt(x)
    return None if v is None else [v[0], v[1], v[2]]
EXN_NAMES = {"NotImplementedError": "NotImplemented"}
def coutcome(o):
    if o.name == "VFuel": return "fuel"
    if o.name == "VErr":
        e = o.args[0]; n = e.name if isinstance(e, fw.Ctor) else str(e)
        return "exn:" + EXN_NAMES.get(n, n)
    code, b1, b2, etag, ln, h = o.args
    return {"done": [code, cbt(b1), cbt(b2), copt(etag), ln, h]}
def creqs(l): return [[cbt(r[0]), cbt(r[1]), copt(r[2]), r[3], r[4]] for r in l]


# ------------------------------------------------------------------------------------------ the oracle: RFC 7959 sequencing rules
def sequencing_oracle(cc, exchanges, outcome, final, conforming=None):
    """cc: client config; exchanges: [(request dict with real payload bytes, response dict or "fail")] as they went over the wire;
    outcome / final: what the caller of the request API got.  conforming: None, or dict(reps=[(etag, bytes)], bodies=[...]) when the
    server was the honest reference server (then completeness is checked too)."""
    body = mkbody(cc["len"], cc["seed"]); L = len(body)
    if isinstance(outcome, dict) and "loop_exceptions" in outcome:
        return ("C05:exception-in-event-loop", "exceptions reached the event loop: %s" % outcome["loop_exceptions"][:2])
    if outcome in ("pending", "cancelled", "fuel"):
        return ("C05:no-outcome", "the request neither returned nor raised (%s) after %d exchanges" % (outcome, len(exchanges)))
    is_exn = isinstance(outcome, str)
    # ---- the client's Block1 requests on the wire
    offset = 0; last_szx = None; phase2_at = None; justified = None   # justified: why an exception is the right outcome
    for i, (rq, r) in enumerate(exchanges):
        last = i == len(exchanges) - 1
        b1 = rq["block1"]
        if phase2_at is None:
            if b1 is None:
                if i != 0: return ("C05:block1-option-vanished", "request %d of the Block1 phase carries no Block1 option" % i)
                if rq["payload"] != body: return ("C05:unfragmented-payload-differs", "single request carries %d bytes, body has %d" % (len(rq["payload"]), L))
                if rq["size1"] is not None: return ("C05:size1-misplaced", "Size1 on an unfragmented request")
                sent_all = True
            else:
                n, m, szx = b1
                # regular blocks: NUM counts blocks of 2^(szx+4); BERT (RFC 8323, szx 7): NUM counts 1024-byte blocks, a message carries
                # 1024 * (maximum_payload_size // 1024) bytes
                unit = 1024 if szx == 7 else 1 << (szx + 4); size = 1024 * (cc["mps"] // 1024) if szx == 7 else unit
                if szx > 7 or (szx == 7 and size == 0): return ("C05:block1-szx-range", "request %d uses size exponent %d" % (i, szx))
                if szx > cc["mbse"]: return ("C05:block1-szx-above-client-maximum", "request %d uses size exponent %d, client maximum is %d" % (i, szx, cc["mbse"]))
                if last_szx is not None and szx > last_szx: return ("C05:block1-szx-grew", "size exponent grew from %d to %d at request %d" % (last_szx, szx, i))
                if n * unit != offset:
                    if last_szx == 7 and szx < 7:
                        return ("C05:block1-offset-after-bert-reduction", "request %d: after the server lowered the size exponent from 7 to %d the client sends NUM %d x %d = %d, but %d bytes were sent so far" % (i, szx, n, unit, n * unit, offset))
                    return ("C05:block1-offset-not-contiguous", "request %d: NUM %d x size %d = %d, but %d bytes were sent so far" % (i, n, unit, n * unit, offset))
                pl = rq["payload"]
                if pl != body[offset:offset + len(pl)]: return ("C05:block1-payload-bytes", "request %d: payload is not body[%d:%d]" % (i, offset, offset + len(pl)))
                fin = offset + len(pl) >= L
                if m != (not fin): return ("C05:block1-more-flag", "request %d: more=%s but %d of %d bytes sent" % (i, m, offset + len(pl), L))
                if m and len(pl) != size: return ("C05:block1-nonfinal-size", "request %d: non-final block of %d bytes at size %d" % (i, len(pl), size))
                if not m and not (0 < len(pl) <= size) and L > 0: return ("C05:block1-final-size", "request %d: final block of %d bytes at size %d" % (i, len(pl), size))
                if (rq["size1"] is not None) != (n == 0) or (n == 0 and rq["size1"] != L):
                    return ("C05:size1-misplaced", "request %d (NUM %d): Size1 = %s, body length %d" % (i, n, rq["size1"], L))
                offset += len(pl); last_szx = szx; sent_all = fin
            # ---- the server's answer
            if r == "fail": justified = ("transport-failure", "transport failure")
            else:
                rb1 = r["block1"]
                if rb1 is None:
                    phase2_at = i            # final response of the Block1 phase (Block1 ignored / error response / plain response)
                elif b1 is None: justified = ("unsolicited-block1", "Block1 option in the response to a request without one")
                elif rb1[0] != b1[0]: justified = ("block1-ack-number", "acknowledgement names block %d, block %d was sent" % (rb1[0], b1[0]))
                elif b1[1] and r.get("observe") and last and is_exn:
                    # the client means to cancel the erroneous observation and go on (protocol.py:979-986); as the code stands it ends the
                    # request with AttributeError instead.  Both are acceptable for C05 (loud failure / correct continuation): no verdict here,
                    # a continued transfer is checked like any other.
                    return None
                elif not b1[1]:
                    if rb1[1] or r["code"] == CONTINUE: justified = ("more-after-final-block", "server asks for more (M=%s, code %d) after the final block" % (rb1[1], r["code"]))
                    else: phase2_at = i
                elif not rb1[1] and not (64 <= r["code"] < 96): phase2_at = i      # error response ends the transfer
            if justified is not None:
                if not is_exn: return ("C05:accepted:" + justified[0], "%s at exchange %d, but the request returned %r" % (justified[1], i, outcome))
                if not last: return ("C05:continued-after:" + justified[0], "%s at exchange %d, but the client sent %d more request(s)" % (justified[1], i, len(exchanges) - 1 - i))
                return None
            if phase2_at is not None: break
            if last:
                if outcome == "exn:BadRequest" and b1 is not None and b1[2] == 7 and r != "fail" and r["block1"] is not None and r["block1"][2] < 7:
                    return ("C05:block1-offset-after-bert-reduction", "after the server lowered the size exponent from 7 to %d at exchange %d the client computed a block beyond the end of the body (BadRequest)" % (r["block1"][2], i))
                if is_exn: return ("C05:spurious-error", "%s after a regular acknowledgement at exchange %d" % (outcome, i))
                return ("C05:transfer-abandoned", "request returned after exchange %d of the Block1 phase with %d of %d bytes sent" % (i, offset, L))
    if phase2_at is None:
        if not exchanges and is_exn: return ("C05:spurious-error", "%s before anything was sent" % outcome)
        return ("C05:no-outcome", "no final response in %d exchanges" % len(exchanges))
    # ---- Block2 phase: the final response of the Block1 phase is block 0 of the representation
    first = exchanges[phase2_at][1]
    chain = [first]; by_design_single = None
    fb2 = first["block2"]
    if fb2 is None: expect_more = False
    else:
        n, m, szx = fb2; size = 1 << (min(szx, 6) + 4)      # 1024 for BERT: a BERT payload is a whole number of 1024-byte blocks
        app_n = cc["block2"][0] if cc.get("block2") is not None else 0
        if n != 0 and app_n == 0: justified = ("first-block2-number-final" if not m else "first-block2-number", "first response names Block2 number %d (more=%s)" % (n, m))
        elif n != 0 and m:
            # the application itself asked for a later block (NUM %d): a final block is handed over as it is, a non-final one cannot be continued
            justified = ("first-block2-number", "first response names Block2 number %d with the more-flag; the application asked for block %d" % (n, app_n))
        elif m and len(first["payload"]) % size != 0: justified = ("first-block2-size", "first block of %d bytes with more-flag at size %d" % (len(first["payload"]), size))
        # (a first block that is a whole multiple of its size, or a single final block longer than its size, is taken as sent: the
        #  offsets the client goes on with are computed from the bytes it really has, so nothing is lost, repeated or mixed)
        expect_more = m
    got = len(first["payload"]); cur_szx = None if fb2 is None else fb2[2]
    j = phase2_at
    if justified is None and expect_more:
        while True:
            j += 1
            if j >= len(exchanges):
                if is_exn: return ("C05:spurious-error", "%s while %d bytes of the representation were assembled without any rule being broken" % (outcome, got))
                return ("C05:truncated-body", "request returned although the last block received (exchange %d) had the more-flag set" % (j - 1))
            rq, r = exchanges[j]
            # the client's Block2 request
            b2 = rq["block2"]
            if b2 is None or rq["block1"] is not None or rq["payload"]:
                return ("C05:block2-request-malformed", "follow-up request %d: block1=%s block2=%s payload %d bytes" % (j, rq["block1"], b2, len(rq["payload"])))
            if b2[0] * (1 << (min(b2[2], 6) + 4)) != got: return ("C05:block2-request-offset", "follow-up request %d asks for NUM %d at size exponent %d, %d bytes assembled" % (j, b2[0], b2[2], got))
            if b2[2] > cc["mbse"]: return ("C05:block2-request-szx-above-client-maximum", "follow-up request %d uses size exponent %d, client maximum is %d" % (j, b2[2], cc["mbse"]))
            if b2[2] > cur_szx: return ("C05:block2-request-szx-grew", "follow-up request %d uses size exponent %d, server's last block had %d" % (j, b2[2], cur_szx))
            if r == "fail": justified = ("transport-failure", "transport failure"); break
            nb2 = r["block2"]
            if nb2 is None: by_design_single = r; break        # accepted as a single response by design (protocol.py:1123)
            n, m, szx = nb2; size = 1 << (min(szx, 6) + 4)
            if szx == 7:
                if m and len(r["payload"]) % 1024 != 0: justified = ("block2-nonfinal-size", "non-final BERT payload of %d bytes" % len(r["payload"])); break
            else:
                if m and len(r["payload"]) != size: justified = ("block2-nonfinal-size", "non-final block of %d bytes at size %d" % (len(r["payload"]), size)); break
                if not m and len(r["payload"]) > size: justified = ("block2-final-size", "final block of %d bytes exceeds size %d" % (len(r["payload"]), size)); break
            if n * size != got: justified = ("block2-number", "block number %d x %d does not continue at offset %d" % (n, size, got)); break
            if r["etag"] != first["etag"]: justified = ("etag-changed", "ETag changed from %s to %s" % (first["etag"], r["etag"])); break
            chain.append(r); got += len(r["payload"]); cur_szx = szx
            if not m: break
    if justified is not None:
        if not is_exn: return ("C05:accepted:" + justified[0], "%s (exchange %d), but the request returned %r" % (justified[1], j, outcome))
        if j != len(exchanges) - 1: return ("C05:continued-after:" + justified[0], "%s at exchange %d, but the client sent more requests" % (justified[1], j))
        return None
    if j != len(exchanges) - 1: return ("C05:requests-after-completion", "%d request(s) after the final block" % (len(exchanges) - 1 - j))
    if is_exn: return ("C05:spurious-error", "%s although every response followed the sequencing rules" % outcome)
    # ---- the caller got a response: it must be exactly what was received, once, in order
    payload = final.payload
    expected = by_design_single["payload"] if by_design_single is not None else b"".join(c["payload"] for c in chain)
    src = by_design_single if by_design_single is not None else first
    if payload != expected:
        kind = "truncated" if len(payload) < len(expected) else ("duplicated" if len(payload) > len(expected) else "mixed")
        return ("C05:%s-body" % kind, "caller got %d bytes, the blocks received concatenate to %d bytes" % (len(payload), len(expected)))
    if int(final.code) != src["code"]: return ("C05:response-code", "caller got code %d, server sent %d" % (int(final.code), src["code"]))
    if final.opt.block1 is not None and by_design_single is None: return ("C05:block1-left-on-response", "Block1 option %s on the assembled response" % (final.opt.block1,))
    if conforming is not None and by_design_single is None:
        if conforming["bodies"] != [body]:
            return ("C05:request-body-not-reassembled", "conforming server reassembled %s, body has %d bytes" % ([len(b) for b in conforming["bodies"]], L))
        if not any(payload == rep for _, rep in conforming["reps"]):
            return ("C05:response-body-not-a-representation", "caller got %d bytes that equal none of the server's representations %s" % (len(payload), [len(r) for _, r in conforming["reps"]]))
        if not (64 <= int(final.code) < 96): return ("C05:spurious-error", "conforming exchange ended with code %d" % int(final.code))
    return None


class C05(fw.Property):
    id = "C05"
    coq_props = "Props/C05.v"
    gen_jobs = ["block_kernels"]
    model_imports = ["Verif.Lib.Py", "Verif.Gen.block_kernels", "Verif.Model.C05", "Verif.Model.C05Server"]
    quick_budget = 300
    thorough_budget = 12000
    design_ref = "DESIGN.md section 10"
    technique = ("Coq proofs over block arithmetic translated from source and a hand-written machine model of the client loops composed with an "
                 "RFC 7959 reference server; differential correspondence (real BlockwiseRequest under a virtual loop vs vm_compute of the model)")
    level_text = ("Theorems (all closed under the global context): _extract_block partitions a body (kernels translated from message.py / optiontypes.py on every run), for exponents 0..6 and for BERT; "
                  "the client's Block1 requests are a contiguous, never-growing chain against ANY server (BERT: any server that keeps exponent 7); client x RFC 7959 reference server terminates for every body, "
                  "representation, client exponent 0..6 and every server policy with the server holding exactly the body and the caller exactly the representation (BERT: reference server that keeps exponent 7); "
                  "the same over a network that duplicates requests and responses and kills exchanges arbitrarily, behind the deduplicating message layer (identical run, or NetworkError with a prefix transcript; simulation theorems for any server); a run ends only in a response or in one of seven classified errors (never BadRequest); Block2 assembly against ANY response list "
                  "yields only exact in-order concatenations of consistent chains, hence one whole representation when blocks are tagged slices; sequencing violations end at once in the named errors. "
                  "The hand-written client machine is tied to protocol.py by running both on the same scenarios (reference server, arbitrary scripted responses, lossy network, BERT remotes).")
    level_note = ("Trusted: Coq kernel + vm_compute; translator py2v.py + the C05 job's ast rewrite (validated by the kernels stream); correspondence of Model/C05.v with "
                  "BlockwiseRequest (sampled scenarios); the reference server as a reading of RFC 7959 / RFC 8323; deduplication (C04) and response matching (C02/C10) as the contract of the retry theorem. "
                  "Not covered: observation + block-wise, the deprecated application-set Block1 option, a response dropping the Block2 option mid-transfer (accepted by design). "
                  "The BERT defect found by this check (Block1 cursor doubled once too often when an acknowledgement lowers the exponent from 7) is fixed in /repo (166eafe); model, theorems 12/13 (now for servers that lower the exponent) and corpus follow the fixed code; theorem 13 still assumes a Block2 policy that keeps exponent 7. "
                  "Observation: Observe on an early Block1 acknowledgement ends the request with AttributeError (C05_early_observe_ends_request). The earlier finding (first response Block2 NUM>0, M=0) is fixed (69c1201).")
    rule = ("streams: kernels = _extract_block for all block numbers of boundary-length bodies + BlockwiseTuple methods on boundary tuples vs Gen/block_kernels.v; "
            "transfer = real BlockwiseRequest x Python RFC 7959 reference server vs Coq client model x Coq reference server (body / representation lengths from the boundary "
            "table 0,1,15..17,...,1023..1025,1124/1125,2047..2049,4096 and random; client exponent 0..6; maximum_payload_size variants; application Block2 hint; server "
            "policies constant / decreasing / arbitrary per step for Block1 and Block2; atomic or stateless acknowledgements; 1-3 representations changing at random steps; "
            "45% with one of 21 misbehaviours (incl. a Block2 size exponent that grows mid-transfer, aligned / misaligned, final / non-final) at a random step); scripted = arbitrary response scripts (honest exchange predicted from RFC arithmetic, then 0-3 random field "
            "damages, truncation, transport failures, per-response remote exponent) vs Model/C05.run_script; stack = the transfer through the real "
            "Context/TokenManager/MessageManager with per-datagram loss/duplication in both directions (<= 3 losses in a row) or one exchange lost completely, compared with the "
            "loss-free model run; about 12% of all cases use a TCP-like remote (maximum_block_size_exp 7, maximum_payload_size 1124/1152/2048/3000/8192) against the BERT-capable reference "
            "server (1-8 blocks per message, policies keeping or lowering exponent 7). Non-trivial = at least 2 sub-requests (3 blocks for kernels); distinct by full input.")
    trusted_base = ["translator translate/py2v.py + translate/jobs/c05.py (ast rewrite of namedtuple methods; validated by the kernels stream on every run)",
                    "hand-written Model/C05.v client machine (validated by the transfer, scripted and stack streams)",
                    "Model/C05Server.v / RefServer: the reference server as a reading of RFC 7959 (two independent implementations compared on every run)",
                    "harness/simloop.py virtual loop, harness/simnet.py fake transport (stack stream)"]
    assumptions = ["responses are what Message.decode can produce (size exponents 0..7); theorems about regular blocks assume exponents 0..6 (no BERT)",
                   "a remote reports a non-negative maximum_block_size_exp (resp_wf2); with exponent 7 its maximum_payload_size is >= 1024",
                   "theorem 3 / 13 / 19: the application's own Block2 option, if any, asks for block 0 (an application asking for a later block gets that block, not a whole representation)",
                   "the remote's maximum_payload_size is the same for all remotes of one request"]
    _runs = {}

    # ------------------------------------------------------------------ generators
    def _client(self, rng):
        L = rng.choice(BOUNDARY) if rng.random() < 0.75 else rng.randint(0, 2600)
        mbse = rng.choice([0, 1, 2, 3, 4, 5, 6, 6, 6, 5, 4])
        if L > 1300 and mbse < 2 and rng.random() < 0.8: mbse = rng.randint(2, 6)
        cap = 40 if (self._tier == "quick" or rng.random() < 0.9) else 300      # number of blocks (the model's list slicing is quadratic)
        while (L >> (mbse + 4)) > cap: mbse += 1
        mps = 1124 if rng.random() < 0.75 else rng.choice([1024, 1152, 2048, 1000, 1100, 64])
        # the application's own Block2 option: mostly a size hint for block 0, sometimes a request for a later block (protocol.py:1094-1097)
        b2 = None if rng.random() < 0.7 else [rng.choice([0, 0, 0, 0, 1, 2, 5]), False, rng.randint(0, 6)]
        if rng.random() < 0.12:
            # a remote on a reliable transport (RFC 8323): BERT, messages of 1024 * (maximum_payload_size // 1024) bytes
            mbse = 7; mps = rng.choice([1152, 1152, 2048, 2048, 3000, 8192, 1124])
            L = rng.choice([0, 1, 1023, 1024, 1025, 1152, 1153, 2047, 2048, 2049, 3071, 3072, 3073, 4096, 4097, 5000, 6144, 6145]) if rng.random() < 0.8 else rng.randint(0, 6200)
            if b2 is not None and rng.random() < 0.5: b2 = [0, False, 7]
        return dict(len=L, seed=rng.randint(0, 250), mps=mps, mbse=mbse, block2=b2)
    def _policy(self, rng):
        m = rng.random()
        if m < 0.25: return []
        if m < 0.45: return [rng.randint(0, 6)]
        n = rng.randint(2, 6)
        if m < 0.8:
            cur = rng.randint(2, 6); out = []
            for _ in range(n): out.append(cur); cur = max(0, cur - rng.choice([0, 0, 1, 1, 2, 3]))
            return out
        return [rng.randint(0, 6) for _ in range(n)]
    def _server(self, rng, cc):
        nrep = 1 if rng.random() < 0.7 else rng.randint(2, 3)
        tagged = rng.random() < 0.85
        reps = []
        for i in range(nrep):
            R = rng.choice(BOUNDARY[:-6]) if rng.random() < 0.7 else rng.randint(0, 1500)
            if cc["len"] <= 600 and rng.random() < 0.25: R = rng.choice(BOUNDARY[-9:])       # multi-kB representations (2047 .. 4097)
            if cc["len"] > 1500 and R > 600: R = rng.choice([0, 5, 16, 100, 600])
            reps.append(dict(etag=(10 + i) if tagged else None, len=R, seed=rng.randint(0, 250)))
        est = max(1, (cc["len"] >> (cc["mbse"] + 4)) + 1)
        rep_at = [] if nrep == 1 else sorted(rng.randint(0, nrep - 1) for _ in range(rng.randint(1, est + 4)))
        sc = dict(policy1=self._policy(rng), policy2=self._policy(rng), reps=reps, rep_at=rep_at, atomic=rng.random() < 0.85, mis=None, bert=0)
        if cc["mbse"] == 7:
            sc["bert"] = rng.choice([1, 2, 2, 4, 8])
            def bertpol():
                m = rng.random()
                if m < 0.45: return [7]
                if m < 0.6: return [7] * rng.randint(1, 3) + [rng.choice([6, 6, 5, 3, 0])]
                if m < 0.7: return [rng.randint(0, 6)]
                return [rng.choice([7, 7, 7, 6, 5, 2]) for _ in range(rng.randint(2, 5))]
            sc["policy1"] = bertpol(); sc["policy2"] = bertpol()
            for r in reps:
                if rng.random() < 0.6: r["len"] = rng.choice([0, 1023, 1024, 1025, 2048, 2049, 3000, 4096, 4097, 5000])
        if rng.random() < 0.45:
            # index of the exchange that carries the final Block1 block (0 when the body is not fragmented), from the RFC arithmetic
            L = cc["len"]; szx = cc["mbse"]; kf = 0; off = 0
            bsz = lambda x: max(1024, 1024 * (cc["mps"] // 1024)) if x == 7 else 1 << (x + 4)
            if L > (cc["mps"] if szx >= 6 else 1 << (szx + 4)):
                while off + bsz(szx) < L:
                    off += bsz(szx); szx = min(szx, pol(sc["policy1"], kf, 6)); kf += 1
            x = rng.random()
            if x < 0.3: k = kf                                   # the acknowledgement of the final block / the first Block2 block
            elif x < 0.45: k = kf + 1                            # the second Block2 block
            elif x < 0.6: k = rng.randint(0, 2)
            else: k = rng.randint(0, kf + (max(r["len"] for r in reps) >> 6) + 2)
            sc["mis"] = [k, rng.randint(1, N_KINDS)]
            if sc["mis"][1] >= 18 or rng.random() < 0.12:
                # the Block2 size exponent GROWS mid-transfer (aligned and misaligned block numbers, final and non-final blocks): needs a
                # representation served in small blocks and a misbehaviour in the Block2 phase
                sc["mis"] = [kf + rng.randint(1, 5), rng.choice([18, 18, 19, 20, 21])]
                if rng.random() < 0.8: sc["policy2"] = [rng.randint(0, 3)]
                for r in reps:
                    if r["len"] < 100: r["len"] = rng.choice([129, 192, 193, 200, 230, 255, 256, 300, 321, 500])
        return sc
    def _script(self, rng, cc):
        """a mostly-valid response script: an honest exchange predicted from the RFC arithmetic, then damaged"""
        L = cc["len"]; szx = cc["mbse"]; script = []
        thr = cc["mps"] if szx >= 6 else 1 << (szx + 4)
        rep_len = rng.choice(BOUNDARY[:26]) if rng.random() < 0.8 else rng.randint(0, 700); rseed = rng.randint(0, 250)
        etag = rng.choice([None, 3, 4])
        if L > thr:
            off = 0
            while True:
                size = 1 << (szx + 4); n = off // size; fin = off + size >= L
                want = min(szx, rng.choice([szx, szx, szx, rng.randint(0, 6)]))
                if fin: break
                script.append(dict(code=CONTINUE, block1=[n, True, want], block2=None, etag=None, payload=[], maxexp=6))
                off += size; szx = want
            b1 = [off // (1 << (szx + 4)), False, szx]
        else: b1 = None
        s2 = rng.randint(0, 6); pos = 0; code = CHANGED if b1 else CONTENT
        if cc.get("block2") is not None and cc["block2"][0] > 0:
            # the application asked for a later block: the honest answer starts there
            s2 = min(s2, cc["block2"][2]); pos = ((cc["block2"][0] << (cc["block2"][2] + 4)) >> (s2 + 4)) << (s2 + 4)
            if pos >= rep_len: pos = 0
        while True:
            size = 1 << (s2 + 4); more = pos + size < rep_len
            script.append(dict(code=code, block1=b1, block2=[pos // size, more, s2] if (more or pos > 0 or rng.random() < 0.3) else None, etag=etag,
                               plen=min(rep_len, pos + size), pseed=rseed, poff=pos, maxexp=rng.choice([6, 6, 6, rng.randint(0, 7)])))
            b1 = None; code = CONTENT; pos += size
            if not more: break
            s2 = min(s2, cc["mbse"], rng.choice([s2, s2, rng.randint(0, 6)]))
            pos_blocks = pos // (1 << (s2 + 4)); pos = pos_blocks << (s2 + 4)
        # damage
        nd = rng.choice([0, 1, 1, 1, 2, 3])
        for _ in range(nd):
            k = rng.randrange(len(script)); r = script[k]
            if r == "fail": continue
            f = rng.randint(0, 14)
            if f == 0 and r["block1"]: r["block1"][0] = max(0, r["block1"][0] + rng.choice([-1, 1, 2]))
            elif f == 1 and r["block1"]: r["block1"][1] = not r["block1"][1]
            elif f == 2 and r["block1"]: r["block1"][2] = rng.randint(0, 7)
            elif f == 3 and r["block2"]: r["block2"][0] = max(0, r["block2"][0] + rng.choice([-1, 1, 2]))
            elif f == 4 and r["block2"]: r["block2"][1] = not r["block2"][1]
            elif f == 5 and r["block2"]: r["block2"][2] = rng.randint(0, 7)
            elif f == 6: r["etag"] = rng.choice([None, 3, 4, 5])
            elif f == 7 and "plen" in r: r["plen"] = max(r.get("poff", 0), r["plen"] + rng.choice([-1, 1, -16, 16]))
            elif f == 8: r["code"] = rng.choice([CONTINUE, CHANGED, CONTENT, BAD_REQUEST, INCOMPLETE, TOO_LARGE])
            elif f == 9: r["block1"] = None if r["block1"] else [rng.randint(0, 3), rng.random() < 0.5, rng.randint(0, 6)]
            elif f == 10: r["block2"] = None if r["block2"] else [rng.randint(0, 2), rng.random() < 0.5, rng.randint(0, 6)]
            elif f == 11: script[k] = "fail"
            elif f in (13, 14) and r["block2"] and r["block2"][2] < 6:
                # Block2 size exponent grown, NUM rounded down to the block that contains the old offset (f = 14: claims to be final)
                n_, m_, s_ = r["block2"]; s2 = min(6, s_ + rng.choice([1, 1, 2]))
                r["block2"] = [(n_ << (s_ + 4)) >> (s2 + 4), False if f == 14 else m_, s2]
            elif f == 12: r["observe"] = rng.choice([0, 5, 5, 70000])          # Observe option on a response (early Block1 phase: protocol.py:979-986)
        if rng.random() < 0.1 and len(script) > 1: script = script[:rng.randrange(1, len(script))]
        if rng.random() < 0.1: script.append(dict(script[-1]) if script[-1] != "fail" else "fail")
        return script

    _tier = "quick"
    def gen_cases(self, tier, rng, n):
        self._tier = tier
        for k in range(n):
            sel = k % 10
            if sel == 0:
                szx = rng.choice([0, 1, 2, 3, 4, 5, 6, 6, 7])
                yield "kernels", dict(len=rng.choice([x for x in BOUNDARY if x <= (40 << (szx + 4))]), seed=rng.randint(0, 250), szx=szx,
                                      mbs=rng.choice([1124, 1124, 1024, 2048, 3000, 1000]),
                                      bt=[[rng.choice([0, 1, 2, 3, 17, 1000]), rng.random() < 0.5, rng.randint(0, 7), rng.choice(BOUNDARY + [1040, 2064]), rng.randint(0, 7)] for _ in range(6)])
            elif sel in (1, 2, 3, 4, 5, 6):
                cc = self._client(rng)
                yield "transfer", dict(client=cc, server=self._server(rng, cc))
            elif sel == 9:
                cc = self._client(rng)
                if (cc["len"] >> (cc["mbse"] + 4)) > 12: cc["len"] = rng.choice(BOUNDARY[:22])
                cc["mps"] = 1124
                if cc["block2"] is not None: cc["block2"][0] = 0
                sc = self._server(rng, cc)
                if rng.random() < 0.7: sc["mis"] = None; sc["reps"] = sc["reps"][:1]; sc["rep_at"] = []     # else: loss / duplication AND a misbehaving or changing server
                for r_ in sc["reps"]: r_["len"] = min(r_["len"], 700)
                n = 60
                def fates(p_drop, p_dup):
                    out = []; run_ = 0
                    for _ in range(n):
                        x = rng.random()
                        f = 1 if x < p_drop and run_ < 3 else (2 if x < p_drop + p_dup else 0)
                        run_ = run_ + 1 if f == 1 else 0
                        out.append(f)
                    return out
                mode = rng.random()
                pd, pu = (0.0, 0.0) if mode < 0.15 else ((0.3, 0.15) if mode < 0.7 else (0.15, 0.4))
                net = dict(req=fates(pd, pu), resp=fates(pd, pu), kill=None)
                x = rng.random()
                if x < 0.15 and sc["mis"] is None: net["kill"] = rng.randint(0, 6)                     # every response of that exchange is lost
                elif x < 0.3 and sc["mis"] is None: net["kill_request"] = rng.randint(0, 6)     # no transmission of that request arrives
                if cc["mbse"] == 6 and rng.random() < 0.7: net["library_defaults"] = True
                yield "stack", dict(client=cc, server=sc, net=net)
            else:
                cc = self._client(rng)
                if cc["len"] > 2100: cc["len"] = rng.choice(BOUNDARY[:30])
                yield "scripted", dict(client=cc, script=self._script(rng, cc))

        if tier == "thorough":
            # exhaustive small scope (validation of the tie, not a proof): every body length 0..70 x client exponent 0..2 x three Block1
            # policies x four representation lengths, reference server without misbehaviour
            for L in range(0, 71):
                for mbse in (0, 1, 2):
                    for p1 in ([], [0], [1, 0]):
                        for R in (0, 16, 17, 40):
                            yield "transfer", dict(client=dict(len=L, seed=(L * 7 + R) % 251, mps=1124, mbse=mbse, block2=None),
                                                   server=dict(policy1=p1, policy2=[mbse, 0], reps=[dict(etag=10, len=R, seed=R)], rep_at=[], atomic=True, mis=None))

    # ------------------------------------------------------------------ implementation
    def impl(self, stream, inp):
        import aiocoap
        from aiocoap import Message, error
        from aiocoap.optiontypes import BlockOption
        if stream == "kernels":
            body = mkbody(inp["len"], inp["seed"]); m = Message(code=aiocoap.PUT, payload=body); blocks = []
            nmax = (inp["len"] >> 4) + 2
            for num in range(nmax):
                try:
                    b = m._extract_block(num, inp["szx"], inp["mbs"])
                    blocks.append([bt_list(b.opt.block1), len(b.payload), phash(b.payload)])
                except error.BadRequest: blocks.append("exn:BadRequest"); break
                except Exception as e: blocks.append("exn:" + type(e).__name__); break
            bts = []
            for n_, m_, s_, p_, mx in inp["bt"]:
                t = BlockOption.BlockwiseTuple(n_, m_, s_)
                red = t.reduced_to(mx)
                bts.append([t.size, t.start, bool(t.is_bert), bool(t.is_valid_for_payload_size(p_)), [int(red[0]), bool(red[1]), int(red[2])]])
            return {"blocks": blocks, "bt": bts}
        cc = inp["client"]
        if stream == "stack":
            sc = dict(inp["server"]); sc["reps"] = [dict(etag=r["etag"], data=mkbody(r["len"], r["seed"])) for r in sc["reps"]]
            srv = RefServer(sc)
            exchanges, outcome, final = run_stack(cc, srv, inp["net"])
            self._runs[fw.jdump([stream, inp])] = (exchanges, outcome, final, srv)
            res = {"requests": [req_view(rq) for rq, _ in exchanges], "outcome": outcome, "bodies": [[len(b), phash(b)] for b in srv.bodies]}
            if inp["net"].get("library_defaults") and cc["mbse"] == 6 and cc["mps"] == 1124: res["remote_defaults"] = run_stack.last_remote
            return res
        if stream == "transfer":
            sc = dict(inp["server"]); sc["reps"] = [dict(etag=r["etag"], data=mkbody(r["len"], r["seed"])) for r in sc["reps"]]
            srv = RefServer(sc)
        else:
            srv = ScriptServer(inp["script"])
        proto, outcome, final = run_client(cc, srv)
        self._runs[fw.jdump([stream, inp])] = (proto.exchanges, outcome, final, srv)
        res = {"requests": [req_view(rq) for rq, _ in proto.exchanges], "outcome": outcome}
        if stream == "transfer": res["bodies"] = [[len(b), phash(b)] for b in srv.bodies]
        return res

    # ------------------------------------------------------------------ model
    def model(self, stream, inp):
        if stream == "kernels":
            bts = glist(["(bt_size %d %s %d, bt_start %d %s %d, bt_is_bert %d %s %d, bt_is_valid_for_payload_size %d %s %d %d, bt_reduced_to %d %s %d %d)" % (
                n, gbool(m), s, n, gbool(m), s, n, gbool(m), s, n, gbool(m), s, p, n, gbool(m), s, mx) for n, m, s, p, mx in inp["bt"]])
            return "(extract_all %s (mkbody %d %d) %d %d 0, %s)" % (fw.gnat((inp["len"] >> 4) + 2), inp["len"], inp["seed"], inp["szx"], inp["mbs"], bts)
        cc = inp["client"]
        if stream in ("transfer", "stack"):
            sc = dict(inp["server"])
            if stream == "stack" and inp["net"].get("kill") is not None: sc["mis"] = [inp["net"]["kill"], 13]   # every response of that exchange is lost
            if stream == "stack" and inp["net"].get("kill_request") is not None: sc["mis"] = [inp["net"]["kill_request"], 22]   # the request never arrives
            fuel = (cc["len"] >> 4) + sum((r["len"] >> 4) for r in sc["reps"]) + 12
            return "run_ref %s %s %s" % (fw.gnat(fuel), gscfg(sc), gccfg(cc))
        if stream == "scripted":
            return "let '(tr, o) := run_script %s %s in (map req_view tr, outcome_view o)" % (glist([gresp(r) for r in inp["script"]]), gccfg(cc))
        return None

    def decode(self, stream, inp, p):
        if stream == "kernels":
            blocks, bts = p
            def blk(x):
                if x.name == "Raise": return "exn:" + x.args[0].name
                pl_len, pl_hash, bo = x.args[0]
                return [[bo[0], bo[1], bo[2]], pl_len, pl_hash]
            def ok(x):
                assert x.name == "Ok", x
                return x.args[0]
            return {"blocks": [blk(x) for x in blocks],
                    "bt": [[ok(a), ok(b), ok(c), ok(d), list(ok(e))] for a, b, c, d, e in bts]}
        if stream in ("transfer", "stack"):
            reqs, o, bodies = p
            out = {"requests": creqs(reqs), "outcome": coutcome(o), "bodies": [[a, b] for a, b in bodies]}
            if stream == "stack" and inp["net"].get("library_defaults") and inp["client"]["mbse"] == 6 and inp["client"]["mps"] == 1124:
                out["remote_defaults"] = [6, 1124]        # interfaces.py:153-168: what the model's c_mbse / c_mps stand for when the remote says nothing
            return out
        reqs, o = p
        return {"requests": creqs(reqs), "outcome": coutcome(o)}

    # ------------------------------------------------------------------ oracle
    def oracle(self, stream, inp, res):
        if "harness_exception" in res: return ("C05:crash:" + res["where"], "implementation raised %s: %s" % (res["harness_exception"], res.get("text")))
        if stream == "kernels":
            body = mkbody(inp["len"], inp["seed"]); szx = inp["szx"]
            size = 1024 * (inp["mbs"] // 1024) if szx == 7 else 1 << (szx + 4)
            step = 1024 if szx == 7 else size
            off_blocks = []; L = len(body)
            for num, b in enumerate(res["blocks"]):
                start = num * step
                if isinstance(b, str):
                    if b != "exn:BadRequest": return ("C05:extract-exception", "_extract_block(%d) raised %s" % (num, b))
                    if start < L: return ("C05:extract-spurious-badrequest", "_extract_block(%d): start %d < len %d but BadRequest" % (num, start, L))
                    break
                (n_, m_, s_), ln, h = b
                if start >= L: return ("C05:extract-out-of-bounds-accepted", "_extract_block(%d): start %d >= len %d but a block came back" % (num, start, L))
                want = body[start:start + size]
                if n_ != num or s_ != szx: return ("C05:extract-option", "_extract_block(%d, %d) labelled %s" % (num, szx, b[0]))
                if ln != len(want) or h != phash(want): return ("C05:extract-payload", "_extract_block(%d): %d bytes, expected body[%d:%d]" % (num, ln, start, start + size))
                if m_ != (start + size < L): return ("C05:extract-more-flag", "_extract_block(%d): more=%s, start+size=%d, len=%d" % (num, m_, start + size, L))
            for (n_, m_, s_, p_, mx), (size_, start_, bert, valid, red) in zip(inp["bt"], res["bt"]):
                if size_ != 1 << (min(s_, 6) + 4) or start_ != n_ * size_: return ("C05:tuple-size-start", "BlockwiseTuple(%d,%s,%d): size %d start %d" % (n_, m_, s_, size_, start_))
                if s_ < 7:
                    if valid != ((p_ == size_) if m_ else (p_ <= size_)): return ("C05:tuple-valid-size", "is_valid_for_payload_size(%d) of (%d,%s,%d) = %s" % (p_, n_, m_, s_, valid))
                    if mx < 7 and (red[2] != min(s_, mx) or (red[0] << (red[2] + 4)) != start_ or red[1] != m_):
                        return ("C05:tuple-reduced", "(%d,%s,%d).reduced_to(%d) = %s" % (n_, m_, s_, mx, red))
            return None
        key = fw.jdump([stream, inp])
        if key not in self._runs: self.impl(stream, inp)      # the oracle looks at the real bytes that went over the simulated wire
        exchanges, outcome, final, srv = self._runs[key]
        cc = inp["client"]
        conforming = None
        if "remote_defaults" in res:
            mb, mp = res["remote_defaults"]
            # hypotheses of theorems 2 / 12 about what a remote says about itself when the transport does not override the library defaults
            if not (0 <= mb <= 7) or (mb == 7 and mp < 1024) or mp < 0:
                return ("C05:remote-defaults", "library defaults maximum_block_size_exp=%d maximum_payload_size=%d are outside what the block-wise client can work with" % (mb, mp))
        app_later = cc.get("block2") is not None and cc["block2"][0] > 0      # the application asked for a later block only: no whole representation expected
        if stream in ("transfer", "stack") and inp["server"].get("mis") is None and not app_later:
            sc = inp["server"]
            reps = [(r["etag"], mkbody(r["len"], r["seed"])) for r in sc["reps"]]
            tags = [e for e, _ in reps]
            if len(reps) == 1 or (None not in tags and len(set(tags)) == len(tags)):
                conforming = dict(reps=reps, bodies=list(srv.bodies))
        return sequencing_oracle(cc, exchanges, outcome, final, conforming)

    def nontrivial(self, stream, inp, res):
        if stream == "kernels": ok = len(res.get("blocks", [])) >= 3
        else: ok = len(res.get("requests", [])) >= 2
        return fw.jdump([stream, inp]) if ok else None

PROPERTY = C05()
