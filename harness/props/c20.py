"""C20 — resource directory: lookups reflect exactly the live registrations.

Correspondence of Model/C20.v with the real aiocoap.cli.rd.StandaloneResourceDirectory (CommonRD + DirectoryResource +
RegistrationDispatchSite/RegistrationResource + both lookup interfaces), driven through Site.render with messages that went
through the real codec, under the virtual-time loop (Registration lifetimes are asyncio.sleep tasks)."""
import os, sys, json
import fw
from fw import gz, gbool, glist, gopt, gstr


GRACE = 15
US = 1000000
MALFORMED = [b"<", b"\xff\xfe", b"</a>;;=", b"nonsense"]

# ---------------------------------------------------------------------------------------------- own link-format text (not aiocoap's)
def ser_links(links):
    """[[href, [[k, v|None], ...]], ...] -> RFC 6690 text as a client would send it"""
    out = []
    for href, attrs in links:
        s = "<%s>" % href
        for k, v in attrs:
            s += ";%s" % k if v is None else ';%s="%s"' % (k, v)
        out.append(s)
    return ",".join(out)

def parse_links(text):
    """inverse of ser_links for the payloads the directory produces (values never contain '"', ',' or ';' in this harness)"""
    if text == "": return []
    out = []
    for part in text.split(",<"):
        part = part if part.startswith("<") else "<" + part
        href, _, rest = part[1:].partition(">")
        attrs = []
        for a in rest.split(";")[1:]:
            if "=" in a:
                k, v = a.split("=", 1); attrs.append([k, v[1:-1] if v.startswith('"') else v])
            else: attrs.append([a, None])
        out.append([href, attrs])
    return out


# ---------------------------------------------------------------------------------------------- the real directory under the virtual loop
class World:
    def __init__(self):
        import asyncio, logging
        import aiocoap, aiocoap.cli.rd as rd
        from aiocoap import error
        import simloop, simnet
        self.aiocoap = aiocoap; self.error = error
        self.loop = simloop.VLoop()
        self.tasks = []
        world = self
        class AsyncioProxy:
            """rd.py's module global `asyncio`, with create_task recorded so that exceptions inside lifetime tasks are seen"""
            def __getattr__(self, name): return getattr(asyncio, name)
            def create_task(self, coro, **kw):
                t = asyncio.create_task(coro, **kw); world.tasks.append(t); return t
        self._rd = rd; self._saved_asyncio = rd.asyncio
        rd.asyncio = AsyncioProxy()
        class Anon(simnet.Addr):
            @property
            def uri_base(self): raise error.AnonymousHost("no name")
        self.Anon = Anon; self.Addr = simnet.Addr
        log = logging.getLogger("c20-rd"); log.setLevel(logging.CRITICAL); log.propagate = False
        with self.loop.enter():
            self.site = rd.StandaloneResourceDirectory(context=None, log=log)
        self.crd = self.site.common_rd
        # SimpleRegistration (.well-known/rd) fetches the registrant's /.well-known/core through context.request(); a stub context
        # answers that fetch with the link-format text of the current operation
        self.fetch_payload = b""
        class _Fetch:
            def __init__(s, msg):
                async def answer():
                    return aiocoap.Message(code=aiocoap.CONTENT, payload=world.fetch_payload, content_format=40)
                s.response_raising = answer()
        class _StubContext:
            def request(s, msg): return _Fetch(msg)
        from aiocoap.cli.rd import SimpleRegistration
        for res in self.site._resources.values():
            if isinstance(res, SimpleRegistration): res.context = _StubContext()
        self.task_exceptions = 0
        # a third change callback next to the two lookup resources' updated_state: counts what their observers are told
        self.notified = 0; self.notified_seen = 0
        def _cb(): world.notified += 1
        self.crd.register_change_callback(_cb)

    def close(self):
        self._rd.asyncio = self._saved_asyncio
        for t in self.tasks:
            if not t.done(): t.cancel()
        self.loop.drain()

    def request(self, code, path, query=(), payload=b"", cf=None, accept=None, remote="h1"):
        aiocoap = self.aiocoap
        m = aiocoap.Message(code=code, uri_path=path, uri_query=query, payload=payload)
        if cf is not None: m.opt.content_format = cf
        if accept is not None: m.opt.accept = accept
        m.mtype = aiocoap.CON; m.mid = 1; m.token = b"t"
        addr = self.Anon("anon") if remote is None else self.Addr(remote)
        m = aiocoap.Message.decode(m.encode(), addr)
        import warnings
        with warnings.catch_warnings():
            warnings.simplefilter("ignore")
            t = self.loop.run_quiescent(self.site.render(m))
        if not t.done(): return "Hang"
        try:
            r = t.result()
        except self.error.RenderableError as e:
            c = e.to_message().code
            return "Err:%d" % (c.class_ * 100 + (int(c) & 31))
        except Exception as e:
            return "Exn:" + type(e).__name__
        c = r.code; num = c.class_ * 100 + (int(c) & 31)
        if num == 201:
            lp = r.opt.location_path
            if len(lp) == 3 and lp[0] == "reg" and lp[2] == "" and lp[1].isdigit() and lp[1] == str(int(lp[1])):
                return "Created:%d" % int(lp[1])
            return "Created:?" + "/".join(lp)
        if num == 204: return "Changed"
        if num == 202: return "Deleted"
        if num == 205: return "Content:" + r.payload.decode("utf8")
        if num == 406: return "NotAcceptable"
        return "Code:%d" % num

    def payload_of(self, o):
        links = o.get("links", [])
        if isinstance(links, str): return MALFORMED[int(links.split(":")[1]) % len(MALFORMED)]
        return ser_links(links).encode("utf8")

    def do(self, o):
        a = self.aiocoap; k = o["op"]
        if k == "register" and o.get("simple"):
            self.fetch_payload = self.payload_of(o)
            return self.request(a.POST, [".well-known", "rd"], o["q"], b"", None, None, o.get("remote"))
        if k == "register": return self.request(a.POST, ["resourcedirectory", ""], o["q"], self.payload_of(o), o.get("cf"), None, o.get("remote"))
        if k == "post": return self.request(a.POST, ["reg"] + o["path"], o["q"], self.payload_of(o), o.get("cf"), None, o.get("remote"))
        if k == "put": return self.request(a.PUT, ["reg"] + o["path"], o["q"], self.payload_of(o), o.get("cf"), None, o.get("remote"))
        if k == "delete": return self.request(a.DELETE, ["reg"] + o["path"])
        if k == "get": return self.request(a.GET, ["reg"] + o["path"], accept=o.get("accept"))
        if k == "ep": return self.request(a.GET, ["endpoint-lookup", ""], o["q"], accept=o.get("accept"))
        if k == "res": return self.request(a.GET, ["resource-lookup", ""], o["q"], accept=o.get("accept"))
        if k == "advance":
            self.loop.advance(o["us"]); return "Tick"
        raise ValueError(k)

    def observe(self, resp):
        crd = self.crd
        def key_of(reg):
            p = reg.registration_parameters
            return [p["ep"][0] if "ep" in p else "?", p["d"][0] if "d" in p else None]
        def pidx(path):
            path = tuple(path)
            if path[:1] == ("reg",): path = path[1:]
            return int(path[0]) if len(path) == 2 and path[1] == "" and path[0].isdigit() else -1
        # exceptions inside lifetime tasks
        for t in self.tasks:
            if t.done() and not t.cancelled() and not getattr(t, "_c20_seen", False):
                t._c20_seen = True
                if t.exception() is not None: self.task_exceptions += 1
        self.tasks = [t for t in self.tasks if not t.done()]
        nt = self.notified - self.notified_seen; self.notified_seen = self.notified
        return {"r": resp, "nt": nt,
                "ep": self.request(self.aiocoap.GET, ["endpoint-lookup", ""]),
                "res": self.request(self.aiocoap.GET, ["resource-lookup", ""]),
                "bk": [[k[0], k[1], pidx(reg.path), reg.lt] for k, reg in crd._by_key.items()],
                "bp": [[pidx(p)] + key_of(reg) for p, reg in crd._by_path.items()],
                "tm": [d for d, s in self.loop.pending_timers()],
                "now": self.loop.now_us(),
                "exc": self.task_exceptions + len(self.loop.exceptions)}


# ---------------------------------------------------------------------------------------------- Gallina terms
def g_ostr(s): return "None" if s is None else "(Some %s)" % gstr(s)
def g_strs(l): return glist([gstr(x) for x in l])
def g_link(l): return "{| l_href := %s; l_attrs := %s |}" % (gstr(l[0]), glist(["(%s, %s)" % (gstr(k), g_ostr(v)) for k, v in l[1]]))
def g_body(o):
    links = o.get("links", [])
    pl = "PMalformed" if isinstance(links, str) else "(PLinks %s)" % glist([g_link(l) for l in links])
    return "{| b_cf := %s; b_payload := %s |}" % (gopt(o.get("cf"), gz), pl)
def g_remote(o): return g_ostr(None if o.get("remote") is None else "coap://" + o["remote"])
def g_op(o):
    k = o["op"]
    if k == "register": return "Register %s %s %s" % (g_remote(o), g_strs(o["q"]), g_body(o))
    if k == "post": return "UpdatePost %s %s %s %s" % (g_strs(o["path"]), g_remote(o), g_strs(o["q"]), g_body(o))
    if k == "put": return "UpdatePut %s %s %s %s" % (g_strs(o["path"]), g_remote(o), g_strs(o["q"]), g_body(o))
    if k == "delete": return "Delete %s" % g_strs(o["path"])
    if k == "get": return "GetReg %s %s" % (g_strs(o["path"]), gopt(o.get("accept"), gz))
    if k == "ep": return "LookupEp %s %s" % (g_strs(o["q"]), gopt(o.get("accept"), gz))
    if k == "res": return "LookupRes %s %s" % (g_strs(o["q"]), gopt(o.get("accept"), gz))
    if k == "advance": return "Advance %s" % gz(o["us"])
    raise ValueError(k)

EXN_CODE = {"BadRequest": "Err:400", "NotFound": "Err:404"}
def d_resp(x):
    if isinstance(x, str): return x                       # Changed / Deleted / NotAcceptable / Tick
    c, a = x["c"], x["a"]
    if c == "Created": return "Created:%d" % a[0]
    if c == "Content": return "Content:" + a[0]
    if c == "Err":
        e = a[0]
        if isinstance(e, str): return EXN_CODE.get(e, "Exn:" + e)
        n = e["a"][0]                                     # OtherError n
        return {1: "Exn:UnboundLocalError", 415: "Err:415"}.get(n, "Exn:Other%d" % n)
    return "?" + c
def d_ostr(x): return None if x == "None" else x["a"][0]



# ---------------------------------------------------------------------------------------------- the property, on the implementation's behaviour
# An independent shadow directory following RFC 9176: it changes only on requests the directory answered with success,
# and forgets a registration when its lifetime (+ grace) has passed. Nothing below looks at the Coq model.
def split_q(q):
    out = []
    for x in q:
        if "=" in x: k, v = x.split("=", 1); out.append((k, v))
        else: out.append((x, None))
    return out

class Shadow:
    def __init__(self): self.reg = {}; self.now = 0          # key -> entry dict (insertion ordered)
    def by_loc(self, loc): return next((k for k, e in self.reg.items() if e["loc"] == loc), None)
    def expire(self):
        for k in [k for k, e in self.reg.items() if e["expires"] <= self.now]: del self.reg[k]
    def apply_params(self, e, o, initial):
        q = split_q(o["q"])
        for k, v in q:
            if k == "lt": e["lt"] = int(v)
            elif k == "base":
                if v is not None: e["base"] = v; e["explicit"] = True   # a valueless base says nothing
            elif k in ("ep", "d"): pass
        if not e["explicit"]: e["base"] = "coap://" + o["remote"]
        extra = {}
        for k, v in q:
            if k not in ("lt", "base") and (initial or k not in ("ep", "d")): extra.setdefault(k, []).append(v)
        e["params"].update(extra)
        e["expires"] = self.now + (e["lt"] + GRACE) * US
    def expected_eps(self):
        out = {}
        for (ep, d), e in self.reg.items():
            attrs = sorted([[k, v] for k, vs in e["params"].items() for v in vs] + [["base", e["base"]], ["rt", "core.rd-ep"]], key=fw.jdump)
            out["/reg/%d/" % e["loc"]] = attrs
        return out
    def resolved_links(self, e):
        from urllib.parse import urljoin
        out = []
        for href, attrs in e["links"]:
            h = urljoin(e["base"], href)
            anchors = [v for k, v in attrs if k == "anchor"]
            rest = [[k, v] for k, v in attrs if k != "anchor"]
            anchor = urljoin(e["base"], anchors[0]) if anchors else urljoin(h, "/")
            out.append((h, rest, anchor))
        return out
    def expected_res(self):
        from urllib.parse import urljoin
        out = []
        for e in self.reg.values():
            for h, rest, anchor in self.resolved_links(e):
                out.append([h, rest + ([] if anchor == urljoin(h, "/") else [["anchor", anchor]])])
        return out

def canon_links(ls): return sorted(fw.jdump([h, sorted(a, key=fw.jdump)]) for h, a in ls)

def value_matches(crit, x, split):
    if x is None or crit is None: return None                     # valueless things: the RFC gives no rule; not judged
    xs = x.split() if split else [x]
    if crit.endswith("*"): return any(t.startswith(crit[:-1]) for t in xs)
    return any(t == crit for t in xs)

def rfc_filter(shadow, kind, crits):
    """RFC 9176 section 6: all criteria must match; returns the expected result (list of hrefs for ep / links for res), or None
    if a criterion is outside what this oracle judges (valueless criteria or attributes, base/rt/lt of the registration itself)"""
    def any3(vals):
        vals = list(vals)
        if True in vals: return True
        return None if None in vals else False
    out = []
    for (ep, d), e in shadow.reg.items():
        ehref = "/reg/%d/" % e["loc"]
        links = shadow.resolved_links(e)
        def ep_attr(k, v, split): return any3(value_matches(v, x, split) for kk, vs in e["params"].items() if kk == k for x in vs)
        def link_attr(l, k, v, split):
            h, rest, anchor = l
            return any3(value_matches(v, x, split) for kk, x in rest + [["anchor", anchor]] if kk == k)
        if kind == "ep":
            ok = True
            for k, v in crits:
                split = k in ("if", "rt")
                if k in ("base", "lt") or v is None: return None
                if k == "href": m = any3([value_matches(v, ehref, False)] + [value_matches(v, l[0], False) for l in links])
                else: m = any3([ep_attr(k, v, split)] + [link_attr(l, k, v, split) for l in links])
                if k == "rt" and v is not None and value_matches(v, "core.rd-ep", True): return None
                if m is None: return None
                ok = ok and m
            if ok: out.append(ehref)
        else:
            from urllib.parse import urljoin
            for l in links:
                ok = True
                for k, v in crits:
                    split = k in ("if", "rt")
                    if k in ("base", "lt") or v is None: return None
                    if k == "href": m = any3([value_matches(v, l[0], False), value_matches(v, ehref, False)])
                    else: m = any3([link_attr(l, k, v, split), ep_attr(k, v, split)])
                    if m is None: return None
                    ok = ok and m
                if ok: out.append([l[0], l[1] + ([] if l[2] == urljoin(l[0], "/") else [["anchor", l[2]]])])
    return out

def py_int(s):
    try: return int(s)
    except (ValueError, TypeError): return None

def canonical_loc(path):
    return int(path[0]) if len(path) == 2 and path[1] == "" and path[0].isdigit() and str(int(path[0])) == path[0] else None

def check_history(inp, res):
    """-> (hard, soft): lists of (signature, message); hard = the directory's state or answers contradict the property,
    soft = a request was answered 5.00 / a lookup does not follow RFC 9176 filter semantics"""
    hard, soft = [], []
    sh = Shadow(); prev = {"ep": "Content:", "res": "Content:", "bk": [], "bp": [], "tm": []}
    for n, (o, ob) in enumerate(zip(inp["ops"], res)):
        k = o["op"]; r = ob["r"]; where = "op %d (%s)" % (n, k)
        state = lambda x: [x["ep"], x["res"], x["bk"], x["bp"], x["tm"]]
        changed = state(ob) != state(prev)
        is4 = r.startswith("Err:4") or r == "NotAcceptable"
        is5 = r.startswith("Exn:") or r.startswith("Err:5") or r == "Hang"
        if k == "advance":
            sh.now += o["us"]; sh.expire()
        elif is4 or is5:
            if k in ("register", "post", "put", "delete") and changed:
                if k == "register":
                    kv = dict(split_q(o["q"])); key = (kv.get("ep"), kv.get("d"))
                    kind = "rereg" if key in sh.reg else "register"
                elif k == "post": kind = "update-with-body" if (o.get("cf") is not None or o.get("links")) else "update"
                else: kind = {"put": "update-put", "delete": "delete"}[k]
                if is4: hard.append(("C20:failed-op-changed-state:" + kind, "%s answered %s but the directory changed: before %s after %s" % (where, r, fw.jdump(state(prev))[:400], fw.jdump(state(ob))[:400])))
                else:
                    soft.append(("C20:5xx-changed-state:" + r[4:], "%s answered 5.00 (%s) after changing the directory: before %s after %s" % (where, r, fw.jdump(prev["bk"]), fw.jdump(ob["bk"]))))
                    # resynchronise the shadow's lifetimes with what the failed request left behind
                    for e_, d_, p_, lt_ in ob["bk"]:
                        if (e_, d_) in sh.reg: sh.reg[(e_, d_)]["lt"] = lt_
            elif k in ("ep", "res", "get") and changed:
                hard.append(("C20:read-changed-state", "%s changed the directory" % where))
            if is5 and k in ("register", "post", "put", "delete"): soft.append(("C20:write-5xx:" + r[4:], "%s %s answered 5.00 (%s)" % (where, fw.jdump(o.get("q")), r)))
            if is5 and k in ("ep", "res", "get"): soft.append(("C20:lookup-5xx:" + r[4:], "%s %s answered 5.00 (%s)" % (where, fw.jdump(o.get("q")), r)))
            if r == "Err:404" and k in ("post", "put", "delete", "get"):
                loc = canonical_loc(o["path"])
                if loc is not None and sh.by_loc(loc) is not None:
                    hard.append(("C20:live-registration-not-found", "%s: location %d is live but answered 4.04" % (where, loc)))
        elif k == "register" and o.get("simple"):
            kv = dict(split_q(o["q"])); key = (kv.get("ep"), kv.get("d"))
            loc = next((p_ for e_, d_, p_, _ in ob["bk"] if (e_, d_) == key), None)
            if r != "Changed": hard.append(("C20:unexpected-answer", "%s (simple registration) answered %s" % (where, r)))
            elif "base" in kv: hard.append(("C20:simple-registration-with-base-accepted", where))
            else:
                if key in sh.reg:
                    if loc is not None and sh.reg[key]["loc"] != loc: hard.append(("C20:rereg-location-changed", "%s: %r was at %d, simple re-registration put it at %d" % (where, key, sh.reg[key]["loc"], loc)))
                    del sh.reg[key]
                elif loc is not None and sh.by_loc(loc) is not None:
                    hard.append(("C20:location-shared", "%s: new registration %r got location %d of live %r" % (where, key, loc, sh.by_loc(loc))))
                if o.get("remote") is None: hard.append(("C20:anonymous-without-base", "%s succeeded" % where))
                e = {"loc": loc if loc is not None else -1, "lt": 90000, "base": None, "explicit": False, "params": {}, "links": o["links"], "expires": 0}
                try: sh.apply_params(e, o, True); sh.reg[key] = e
                except Exception as x: hard.append(("C20:accepted-invalid-parameters", "%s accepted %s (%s)" % (where, fw.jdump(o["q"]), x)))
                if loc is None and e["expires"] > sh.now: hard.append(("C20:lookup-misses-live", "%s: simple registration of %r answered 2.04 but it is not in the index" % (where, key)))
        elif k == "register":
            if not r.startswith("Created:") or not r[8:].isdigit(): hard.append(("C20:bad-location", "%s answered %s" % (where, r)))
            else:
                loc = int(r[8:]); kv = dict(split_q(o["q"])); key = (kv.get("ep"), kv.get("d"))
                if key[0] is None: hard.append(("C20:registered-without-ep", "%s succeeded without ep" % where))
                if key in sh.reg:
                    if sh.reg[key]["loc"] != loc: hard.append(("C20:rereg-location-changed", "%s: %r was at %d, re-registration answered %d" % (where, key, sh.reg[key]["loc"], loc)))
                    del sh.reg[key]
                elif sh.by_loc(loc) is not None:
                    hard.append(("C20:location-shared", "%s: new registration %r got location %d of live %r" % (where, key, loc, sh.by_loc(loc))))
                if o.get("remote") is None and "base" not in kv: hard.append(("C20:anonymous-without-base", "%s succeeded" % where))
                e = {"loc": loc, "lt": 90000, "base": None, "explicit": False, "params": {}, "links": o["links"], "expires": 0}
                try: sh.apply_params(e, o, True); sh.reg[key] = e
                except Exception as x: hard.append(("C20:accepted-invalid-parameters", "%s accepted %s (%s)" % (where, fw.jdump(o["q"]), x)))
        elif k in ("post", "put"):
            loc = canonical_loc(o["path"]); key = sh.by_loc(loc) if loc is not None else None
            if r != "Changed": hard.append(("C20:unexpected-answer", "%s answered %s" % (where, r)))
            elif key is None: hard.append(("C20:dead-registration-updated", "%s: update of %r succeeded but no live registration there" % (where, o["path"])))
            else:
                e = sh.reg[key]
                if k == "post" and (o.get("cf") is not None or o.get("links")): hard.append(("C20:update-with-body-accepted", where))
                try:
                    if o.get("remote") is None and not e["explicit"] and not any(x.startswith("base=") for x in o["q"]): raise ValueError("anonymous without base")
                    if any(kk in ("ep", "d") for kk, _ in split_q(o["q"])): raise ValueError("ep/d in update")
                    sh.apply_params(e, o, False)
                    if k == "put": e["links"] = o["links"]
                except Exception as x: hard.append(("C20:accepted-invalid-parameters", "%s accepted %s (%s)" % (where, fw.jdump(o["q"]), x)))
        elif k == "delete":
            loc = canonical_loc(o["path"]); key = sh.by_loc(loc) if loc is not None else None
            if r != "Deleted" or key is None: hard.append(("C20:dead-registration-deleted", "%s answered %s for %r" % (where, r, o["path"])))
            else: del sh.reg[key]
        elif k == "get":
            loc = canonical_loc(o["path"]); key = sh.by_loc(loc) if loc is not None else None
            if key is None: hard.append(("C20:dead-registration-found", "%s answered %s for %r" % (where, r, o["path"])))
            elif not r.startswith("Content:") or canon_links(parse_links(r[8:])) != canon_links(sh.reg[key]["links"]):
                hard.append(("C20:registration-resource-stale", "%s answered %s, latest successful write had %s" % (where, r, fw.jdump(sh.reg[key]["links"]))))
        elif k in ("ep", "res"):
            if changed: hard.append(("C20:read-changed-state", "%s changed the directory" % where))
            crits = [(kk, v) for kk, v in split_q(o["q"]) if kk not in ("page", "count")]
            pages = [v for kk, v in split_q(o["q"]) if kk == "page"]; counts = [v for kk, v in split_q(o["q"]) if kk == "count"]
            if not r.startswith("Content:"): hard.append(("C20:unexpected-answer", "%s answered %s" % (where, r)))
            else:
                got = parse_links(r[8:])
                universe = parse_links(prev[k][8:]) if prev[k].startswith("Content:") else []
                for item in got:
                    if item not in universe: hard.append(("C20:filtered-lookup-lists-unknown", "%s lists %s which the unfiltered lookup does not" % (where, fw.jdump(item)))); break
                if o.get("accept") not in (None, 40): hard.append(("C20:accept-ignored", where))
                exp = rfc_filter(sh, k, crits)
                page = py_int(pages[0]) if len(pages) == 1 and pages[0] is not None else None
                count = py_int(counts[0]) if len(counts) == 1 and counts[0] is not None else None
                judged = exp is not None and len(pages) <= 1 and len(counts) <= 1 and (not pages or page is not None) and (not counts or count is not None) \
                         and (page is None or count is not None) and (count is None or count >= 0) and (page is None or page >= 0)
                if judged:
                    # order: that of the unfiltered lookup made just before
                    if k == "ep":
                        seq = [it for it in universe if it[0] in exp]
                    else:
                        want = canon_links(exp); seq = [it for it in universe if fw.jdump([it[0], sorted(it[1], key=fw.jdump)]) in want]
                    mismatch = None
                    if k == "res" and len(set(canon_links(universe))) != len(universe):
                        # two registrations carry a textually identical link: its position in the unfiltered listing does not say whose it
                        # is; compare as multisets, and only when no pagination cuts the list
                        if page is None and count is None and canon_links(got) != canon_links(exp): mismatch = exp
                    else:
                        if page is not None: seq = seq[page * count:]
                        if count is not None: seq = seq[:count]
                        if got != seq: mismatch = seq
                    if mismatch is not None:
                        seq = mismatch
                        soft.append(("C20:lookup-filter-semantics:" + ("multi" if len(crits) + (1 if pages or counts else 0) > 1 else "single"),
                                     "%s %s lists %s, RFC 9176 semantics give %s" % (where, fw.jdump(o["q"]), fw.jdump(got)[:300], fw.jdump(seq)[:300])))
        sh.expire()
        # ---- after every step: the directory as observed must be exactly the shadow
        if (ob["ep"] != prev["ep"] or ob["res"] != prev["res"]) and ob.get("nt", 1) == 0:
            soft.append(("C20:lookup-observers-not-notified:" + (k + "-links" if k == "put" else k),
                         "%s changed what the lookups show (%s -> %s / %s -> %s) but no change callback ran: observers of the lookup resources keep the old representation" % (
                             where, prev["ep"][:120], ob["ep"][:120], prev["res"][:120], ob["res"][:120])))
        if ob["exc"] != 0: hard.append(("C20:loop-exception", "%s: an exception was raised inside a lifetime task" % where))
        bk = [(e_, d_, p_) for e_, d_, p_, _ in ob["bk"]]; bp = [(e_, d_, p_) for p_, e_, d_ in ob["bp"]]
        if sorted(bk, key=fw.jdump) != sorted(bp, key=fw.jdump) or len(set((e_, d_) for e_, d_, _ in bk)) != len(bk) or len(set(p_ for _, _, p_ in bk)) != len(bk):
            hard.append(("C20:index-mismatch", "%s: _by_key %s vs _by_path %s" % (where, fw.jdump(ob["bk"]), fw.jdump(ob["bp"]))))
        if not ob["ep"].startswith("Content:") or not ob["res"].startswith("Content:"):
            hard.append(("C20:plain-lookup-failed", "%s: unfiltered lookups answered %s / %s" % (where, ob["ep"][:60], ob["res"][:60])))
        else:
            got = {h: sorted(a, key=fw.jdump) for h, a in parse_links(ob["ep"][8:])}; exp = sh.expected_eps()
            if len(got) != len(parse_links(ob["ep"][8:])): hard.append(("C20:location-shared", "%s: two endpoints listed under one location: %s" % (where, ob["ep"])))
            dead = [h for h in got if h not in exp]; missing = [h for h in exp if h not in got]
            after4 = ":after-4xx" if (is4 and k in ("register", "post", "put", "delete")) else ""
            if dead: hard.append(("C20:lookup-lists-dead" + after4, "%s: endpoint lookup lists %s; live are %s (t=%d us)" % (where, dead, sorted(exp), sh.now)))
            elif missing: hard.append(("C20:lookup-misses-live" + after4, "%s: endpoint lookup lacks %s (t=%d us; expiry %s)" % (where, missing, sh.now, [e["expires"] for e in sh.reg.values()])))
            elif got != exp: hard.append(("C20:lookup-stale-parameters" + after4, "%s: endpoint lookup shows %s, latest successful writes give %s" % (where, fw.jdump(got)[:400], fw.jdump(exp)[:400])))
            if canon_links(parse_links(ob["res"][8:])) != canon_links(sh.expected_res()) and not dead and not missing:
                hard.append(("C20:resource-lookup-mismatch" + after4, "%s: resource lookup shows %s, latest successful writes give %s" % (where, ob["res"][:400], fw.jdump(sh.expected_res())[:400])))
            lts = {(e_, d_): lt_ for e_, d_, _, lt_ in ob["bk"]}
            if not dead and not missing and (sorted(ob["tm"]) != sorted(e["expires"] for e in sh.reg.values()) or any(lts.get(key) != e["lt"] for key, e in sh.reg.items())):
                hard.append(("C20:lifetime-mismatch" + after4, "%s: pending expiries %s / lifetimes %s, latest successful writes give %s / %s" % (
                    where, ob["tm"], sorted(lts.values()), sorted(e["expires"] for e in sh.reg.values()), sorted(e["lt"] for e in sh.reg.values()))))
        if hard: break
        prev = ob
    return hard, soft

# ---------------------------------------------------------------------------------------------- generator
EPS = ["a", "b", "node1", ""]
DS = [None, None, "x", "y"]
REMOTES = ["h1", "h1", "h2:5683", "[2001:db8::1]", None]
LT_VALID = ["1", "5", "60", "100", "0", "-15", "-16", "-14", "-20", "90000", "4000000", " 7", "+3", "1_0", "007"]
LT_INVALID = ["abc", "", "1__0", "_1", "5_", "0x10", "1.5", "-", "- 5"]
BASES = ["coap://b1", "coap://b1/p/", "coap://b1/p/q", "coaps://b2:99", "coap://h1", "http://web/x", "", "noscheme", "/abs"]
HREFS = ["/s/t", "/s/l", "/q", "rel", "rel/deeper", "coap://o/x", "coaps://o/y/", "//other/z", "/", "/a/./b/../c", "http://web/r"]
ATTRS = [["rt", "temp"], ["rt", "temp humid"], ["if", "sensor"], ["if", "a b"], ["ct", "40"], ["obs", None], ["title", "x y"],
         ["rt", None], ["anchor", "/s/t"], ["anchor", "coap://o/"], ["anchor", "other"], ["foo", "bar"], ["et", "x"], ["sz", ""]]
EXTRA_OK = ["et=x", "et=y", "foo=1", "foo=2", "foo=1", "flag", "if=core.a", "if", "con=coap://c", "k=v=w", "=", "e="]
EXTRA_BAD = ["rt=x", "href=/h", "page=1", "count=2", "anchor=/a", "proxy=on", "proxy=bogus", "proxy", "proxy=yes"]
ACCEPTS = [None] * 9 + [40, 40, 0, 60]

def gen_links(rng):
    r = rng.random()
    if r < 0.05: return "malformed:%d" % rng.randrange(8)
    n = rng.choice([0, 1, 1, 2, 2, 3])
    out = []
    for _ in range(n):
        attrs = [list(a) for a in rng.sample(ATTRS, rng.choice([0, 1, 1, 2, 3]))]
        out.append([rng.choice(HREFS), attrs])
    return out

def gen_lt(rng):
    r = rng.random()
    if r < 0.70: return ["lt=" + rng.choice(LT_VALID)]
    if r < 0.85: return ["lt=" + rng.choice(LT_INVALID)]
    if r < 0.90: return ["lt"]
    return ["lt=" + rng.choice(LT_VALID), "lt=" + rng.choice(LT_VALID)]

def gen_base(rng):
    r = rng.random()
    if r < 0.8: return ["base=" + rng.choice(BASES)]
    if r < 0.9: return ["base"]
    return ["base=" + rng.choice(BASES), "base=" + rng.choice(BASES)]

def gen_params(rng, initial):
    """mostly-valid parameter lists: 70 % clean, otherwise one or two injected faults"""
    q = []; faults = []
    if rng.random() >= 0.70:
        pool = ["lt_invalid", "lt_valueless", "lt_dup", "base_valueless", "base_dup", "bad_param", "bad_param"]
        pool += ["ep_missing", "ep_dup", "ep_valueless", "d_dup", "d_valueless"] if initial else ["has_ep_d", "has_ep_d"]
        faults = rng.sample(pool, rng.choice([1, 1, 1, 2]))
    if initial:
        if "ep_missing" in faults: pass
        elif "ep_dup" in faults: q += ["ep=" + rng.choice(EPS), "ep=" + rng.choice(EPS)]
        elif "ep_valueless" in faults: q.append("ep")
        else: q.append("ep=" + rng.choice(EPS))
        d = rng.choice(DS)
        if "d_dup" in faults: q += ["d=x", "d=" + rng.choice(["x", "y"])]
        elif "d_valueless" in faults: q.append("d")
        elif d is not None: q.append("d=" + d)
    elif "has_ep_d" in faults: q.append(rng.choice(["ep=a", "d=x", "ep", "d"]))
    if "lt_invalid" in faults: q.append("lt=" + rng.choice(LT_INVALID))
    elif "lt_valueless" in faults: q.append("lt")
    elif "lt_dup" in faults: q += ["lt=" + rng.choice(LT_VALID), "lt=" + rng.choice(LT_VALID)]
    elif rng.random() < 0.6: q.append("lt=" + rng.choice(LT_VALID))
    if "base_valueless" in faults: q.append("base")
    elif "base_dup" in faults: q += ["base=" + rng.choice(BASES), "base=" + rng.choice(BASES)]
    elif rng.random() < 0.3: q.append("base=" + rng.choice(BASES))
    for _ in range(rng.choice([0, 0, 0, 1, 1, 2, 3])): q.append(rng.choice(EXTRA_OK))
    if "bad_param" in faults: q.append(rng.choice(EXTRA_BAD))
    rng.shuffle(q)
    return q

def gen_lookup_query(rng):
    q = []
    n = rng.choice([0, 1, 1, 1, 1, 2, 2, 3])
    for _ in range(n):
        r = rng.random()
        if r < 0.2: q.append("ep=" + rng.choice(EPS + ["a*", "*", "n*", "zz"]))
        elif r < 0.3: q.append("d=" + rng.choice(["x", "y", "x*", "*", "z"]))
        elif r < 0.4: q.append(rng.choice(["d", "ep", "flag", "obs", "if", "rt"]))
        elif r < 0.55: q.append("rt=" + rng.choice(["temp", "humid", "te*", "core.rd-ep", "*", "x"]))
        elif r < 0.62: q.append("if=" + rng.choice(["sensor", "a", "b", "core.a", "s*"]))
        elif r < 0.75: q.append("href=" + rng.choice(["/reg/1/", "/reg/2/", "/reg/*", "coap://b1/s/t", "coap://h1/*", "coap://*", "*", "/q"]))
        elif r < 0.83: q.append("anchor=" + rng.choice(["coap://h1/", "coap://h1/s/t", "coap://o/", "coap://*", "*"]))
        elif r < 0.90: q.append(rng.choice(["et=x", "et=*", "foo=1", "foo=2*", "base=coap://h1", "base=coap://b1*", "flag=*", "obs=1*", "title=x y", "sz=", "ct=4*"]))
        else: q.append(rng.choice(["page=0", "page=1", "count=1", "count=2", "count=0", "count=-1", "page=-1", "count=x", "page=x", "page", "count", "count=1_0", "page=2"]))
    if rng.random() < 0.25:
        c = rng.choice(["count=1", "count=2", "count=3", "count=-1"])
        q.append(c)
        if rng.random() < 0.6: q.append("page=" + rng.choice(["0", "1", "2", "-1"]))
        if rng.random() < 0.1: q.append(rng.choice(["count=5", "page=0"]))
    rng.shuffle(q)
    return q

# pure helper functions of the model (CPython's int(), str.split(), urljoin as rd.py uses them) against the originals
H_SCHEMES = ["coap", "coaps", "http", "coap+tcp", ""]
H_AUTHS = ["h1", "b1:99", "[::1]", "[2001:db8::1]:5683", "a.b-c"]
H_PATHS = ["", "/", "/p", "/p/", "/p/q", "/p//q/", "/p/./q", "/p/../q", "/reg/1/"]
H_REFS = ["", "/", "/a", "/a/b/", "a", "a/b", "../a", "./a", ".", "..", "a/..", "//n/x", "coap://o/x", "coaps://o", "http://w/", "/a/./b/../c", "a//b", "a/",
          "../../x", "/..", "coap:x", "x:y", "coap:/x", "coap:///x", "/s/t", "rel/deeper", "1", "a:1/b"]
H_INTS = ["5", "-5", "+5", " 5", "5 ", "1_0", "", "abc", "5x", "0x10", "1__0", "_1", "1_", "-", "- 5", "007", "0_7", "+-5", "5.0", "1e3", " ", "+", "12345678901234567890",
          "-0", "1 2", "90000", "-15", "4294967296"]
H_SPLITS = ["", " ", "a", "a b", " a  b ", "temp humid", "x y z", "core.rd-ep", "a b ", "  "]
def gen_helpers(rng):
    def base():
        r = rng.random()
        if r < 0.85:
            sc = rng.choice(H_SCHEMES)
            return (sc + "://" if sc else "") + rng.choice(H_AUTHS) + rng.choice(H_PATHS)
        return rng.choice(["", "noscheme", "/abs", "rel/x", "coap://", "coap://h1:"])
    def num():
        r = rng.random()
        if r < 0.5: return rng.choice(H_INTS)
        s = "".join(rng.choice("0123456789_+- x") for _ in range(rng.randint(0, 6)))
        return s
    return {"urljoin": [[base(), rng.choice(H_REFS)] for _ in range(12)], "int": [num() for _ in range(10)],
            "split": [rng.choice(H_SPLITS) for _ in range(3)], "eq": [rng.choice(["a=b", "a", "=", "a=", "=b", "a=b=c", "lt=1", ""]) for _ in range(3)]}

class Guess:
    """the generator's rough idea of the directory (it only steers choices: which locations are probably live, when they
    probably expire); a wrong guess just makes a request hit 4.04"""
    def __init__(self): self.live = {}; self.now = 0      # loc -> [key, expiry_us, lt]
    def expire(self):
        for loc in [l for l, v in self.live.items() if v[1] <= self.now]: del self.live[loc]
    def plausible(self, o, initial):
        q = o["q"]; keys = [x.split("=", 1)[0] for x in q]
        if len(set(keys)) != len([k for k in keys if k in ("ep", "d", "lt", "base")] + list(set(k for k in keys if k not in ("ep", "d", "lt", "base")))): return False
        if any(k in ("rt", "href", "page", "count", "anchor", "proxy") for k in keys): return False
        if any(x in ("lt", "base", "ep") for x in q): return False
        if not initial and any(k in ("ep", "d") for k in keys): return False
        if initial and "ep" not in keys: return False
        for x in q:
            if x.startswith("lt="):
                try: int(x[3:])
                except ValueError: return False
        if o["op"] != "post" and (o.get("cf") != 40 or isinstance(o.get("links"), str)): return False
        if o["op"] == "post" and (o.get("cf") is not None or o.get("links")): return False
        if o.get("remote") is None and "base" not in keys and initial: return False
        return True
    def lt_of(self, q, default):
        for x in q:
            if x.startswith("lt="): return int(x[3:])
        return default
    def register(self, o):
        if not self.plausible(o, True): return
        kv = dict(x.split("=", 1) for x in o["q"] if "=" in x)
        key = (kv["ep"], kv.get("d"))
        loc = next((l for l, v in self.live.items() if v[0] == key), None)
        if loc is None: loc = next(i for i in range(1, 1000) if i not in self.live)
        else: del self.live[loc]
        lt = self.lt_of(o["q"], 90000)
        self.live[loc] = [key, self.now + (lt + GRACE) * US, lt]; self.expire()
    def update(self, o):
        p = o["path"]
        if not (len(p) == 2 and p[1] == "" and p[0].isdigit() and int(p[0]) in self.live and str(int(p[0])) == p[0]): return
        if not self.plausible(o, False): return
        v = self.live[int(p[0])]; v[2] = self.lt_of(o["q"], v[2]); v[1] = self.now + (v[2] + GRACE) * US; self.expire()
    def delete(self, p):
        if len(p) == 2 and p[1] == "" and p[0].isdigit(): self.live.pop(int(p[0]), None)

def gen_history(rng, k):
    """a history of 3..26 requests and time passages, aimed at re-registrations, updates of live registrations and time
    steps landing on / just before / just after expiry instants"""
    ops = []; g = Guess()
    n = rng.randint(3, 26)
    few_eps = rng.random() < 0.7          # concentrate on one or two names -> re-registrations
    names = rng.sample(EPS, 2) if few_eps else EPS
    short = rng.random() < 0.5            # prefer lifetimes that expire within the history
    def some_path():
        r = rng.random()
        if r < 0.80 and g.live: return [str(rng.choice(sorted(g.live))), ""]
        if r < 0.90: return [str(rng.choice([1, 2, 3, len(g.live) + 1])), ""]
        return rng.choice([["1"], [], ["01", ""], ["x", ""], ["1", "", ""], ["", ""], ["0", ""], ["-1", ""], ["1", "x"]])
    for _ in range(n):
        r = rng.random()
        if r < 0.28 or not ops:
            q = gen_params(rng, True)
            if few_eps: q = [("ep=" + rng.choice(names)) if x.startswith("ep=") else x for x in q]
            if not short: q = [x for x in q if not (x.startswith("lt=") and x[3:] in ("-15", "-16", "-20", "0", "1"))]
            cf = 40 if rng.random() < 0.94 else rng.choice([None, 0, 50])
            o = {"op": "register", "remote": rng.choice(REMOTES), "q": q, "cf": cf, "links": gen_links(rng)}
            if rng.random() < 0.2:
                o["simple"] = True; o["cf"] = 40; o["q"] = [x for x in q if not x.startswith("base")]
            g.register(o); ops.append(o)
        elif r < 0.43:
            q = gen_params(rng, False)
            o = {"op": "post", "path": some_path(), "remote": rng.choice(REMOTES), "q": q, "cf": None, "links": []}
            rr = rng.random()
            if rr < 0.10: o["links"] = gen_links(rng) or [["/x", []]]
            elif rr < 0.16: o["cf"] = rng.choice([40, 0])
            g.update(o); ops.append(o)
        elif r < 0.52:
            q = gen_params(rng, False)
            cf = 40 if rng.random() < 0.9 else rng.choice([None, 0])
            o = {"op": "put", "path": some_path(), "remote": rng.choice(REMOTES), "q": q, "cf": cf, "links": gen_links(rng)}
            g.update(o); ops.append(o)
        elif r < 0.58:
            p = some_path(); g.delete(p); ops.append({"op": "delete", "path": p})
        elif r < 0.62:
            ops.append({"op": "get", "path": some_path(), "accept": rng.choice(ACCEPTS)})
        elif r < 0.80 and (g.live or rng.random() < 0.2):
            ops.append({"op": "ep" if r < 0.71 else "res", "q": gen_lookup_query(rng), "accept": rng.choice(ACCEPTS)})
        else:
            future = sorted(v[1] for v in g.live.values() if v[1] > g.now)
            rr = rng.random()
            if future and rr < 0.55:
                target = rng.choice(future[:2]) + rng.choice([0, 0, -1, -1, 1, -US, US])
                us = max(0, target - g.now)
            elif rr < 0.85: us = rng.choice([1, US, 5 * US, 10 * US, 15 * US, 16 * US, 50 * US])
            elif rr < 0.90: us = rng.choice([0, 90015 * US, 90016 * US - 1])
            else: us = rng.randint(0, 200 * US)
            g.now += us; g.expire()
            ops.append({"op": "advance", "us": us})
    return {"ops": ops}


class C20(fw.Property):
    id = "C20"
    coq_props = "Props/C20.v"
    gen_jobs = []
    model_imports = ["Verif.Model.C20Str", "Verif.Model.C20"]
    quick_budget = 200
    thorough_budget = 6000
    design_ref = "DESIGN.md section 23"
    technique = ("Coq refinement proof (concrete heap+indexes+timers model -> abstract directory spec) with invariant / frame lemmas over an executable model of CommonRD + Registration + the RD resources with the lifetime timers on a "
                 "virtual clock; differential correspondence of the model with the real StandaloneResourceDirectory on request/time histories; "
                 "independent RFC 9176 shadow-directory oracle on the implementation's answers")
    level_text = ("Theorems (closed under the global context) over a hand-written model of aiocoap/cli/rd.py for ALL histories of register / re-register / "
                  "update POST / PUT / DELETE / GET / lookups / time passage. Main theorem C20_refinement: the model (heap of Registration objects, _by_key, _by_path, "
                  "lifetime timers) refines an abstract directory (ep,d) -> (location, lt, base, parameters, links, instant of the latest successful write) that changes "
                  "only on successful writes/removals and drops an entry when write + lt + grace has passed: every answer is the abstract directory's answer, the state "
                  "abstracts to its state, and the lookups render exactly its entries, each within its lifetime, one per (ep,d), no shared location. Supporting theorems: "
                  "index bijection invariant, closures never raise, 4.xx (indeed every error answer) leaves the complete state unchanged and no handler answers 5.00, "
                  "re-registration keeps the location, exact expiry, frame of writes, lookups with any list of criteria list exactly the live registrations matching all "
                  "of them with pagination last. The model is tied to the code by running both on the same histories and comparing every answer, both lookup payloads "
                  "as text, both indexes, lifetimes and pending expiry instants after every step.")
    level_note = ("Hand-written model (tie C only; no translated kernel). Trusted: the correspondence run (sampled histories), harness/simloop.py as an ideal timer "
                  "service, the plugin's own link-format writer/reader. What the parameters of a write set (update_params, registration parameter handling) is shared "
                  "between model and abstract directory; the refinement is about heap, indexes, timers, locations, atomicity and what lookups show. Not modelled: "
                  "SimpleRegistration (.well-known/rd, needs an outgoing request), the proxy extension (proxy_domain is None: every proxy=... is 4.00), observation "
                  "notifications of the lookup resources, key case-insensitivity of Link.__contains__, Unicode digits/whitespace in int(), urljoin outside the grammar "
                  "stated in Model/C20Str.v, valueless anchor attributes. Seven defects found by this check were fixed in /repo (f8ef49b, 5a5d1e7, 212d645, 3b8673f); no open finding.")
    rule = ("stream helpers (1 in 8) = the model's urljoin / int() / str.split() / query splitting against CPython's on scheme x authority x path x reference tables and "
            "random digit strings. stream history = 3..26 steps: register (28 %: names a/b/node1/'' x sectors -/x/y, 70 % clean parameters, else 1-2 injected faults among invalid/valueless/"
            "duplicate lt, valueless/duplicate base, ep missing/duplicate/valueless, d duplicate/valueless, forbidden keys rt/href/page/count/anchor/proxy; content-format "
            "40/None/0/50; 0-3 links with relative/absolute/full hrefs and anchors; malformed payloads; anonymous remotes), update POST (15 %, 16 % with a body or "
            "content-format), PUT (9 %), DELETE (6 %), GET of the registration resource (4 %), endpoint/resource lookups (18 %: exact/prefix/rt/if/href/anchor criteria, "
            "several criteria, page/count valid and invalid, Accept), time passage (20 %: to an expiry instant exactly / 1 us before / 1 us after / +-1 s, small steps, "
            "90015 s, random); paths aimed at probably-live locations 80 %, stale / non-canonical paths otherwise. After every step the harness records both unfiltered "
            "lookups, both indexes with lifetimes and the pending timers; all of it is compared with the model. Non-trivial = at least one successful write, one 4.xx "
            "write and one expiry or deletion in the history; distinct by full input.")
    trusted_base = ["hand-written Model/C20.v + Model/C20Str.v (validated by the history stream on every run: answers, lookup payload text, indexes, lifetimes, timers)",
                    "harness/simloop.py virtual-time loop (ideal timers, FIFO ready queue); rd.py's module global asyncio is wrapped to record its lifetime tasks",
                    "the plugin's own link-format serialiser/parser and urllib.parse.urljoin (used by the oracle)"]
    assumptions = ["proxy_domain is None (no proxy extension: every proxy=... is 4.00; proxy_active / setproxyremote never run) - the statement in properties.jsonl does not carry this restriction",
                   "SimpleRegistration (.well-known/rd) is driven with a stub context whose fetch of the registrant's /.well-known/core succeeds at once: it is compared with Register carrying the fetched links (answer 2.04 instead of 2.01 + Location); failing / slow fetches and the .well-known/core POST variant are not driven",
                   "request bodies fit one block: Block1 assembly in front of the resources (property C06) is not part of the histories", "requests reach the resources through Site.render after a real encode/decode round trip; transport, blockwise and observe are not involved",
                   "parameter/attribute names are lower-case ASCII, values printable ASCII without double quotes"]

    def gen_cases(self, tier, rng, n):
        for k in range(n):
            if k % 8 == 7: yield "helpers", gen_helpers(rng)
            else: yield "history", gen_history(rng, k)
        if tier == "thorough":
            # exhaustive small scope (validation of the tie, not a proof): every sequence of up to 3 steps over a 10-letter alphabet
            # of writes on one or two names, each followed by the passage of exactly the shortest lifetime (+ grace) minus 1 us and 1 us
            import itertools
            body = {"cf": 40, "links": [["/s", [["rt", "temp"]]]]}
            A = [dict(op="register", remote="h1", q=["ep=a", "lt=60"], **body), dict(op="register", remote="h1", q=["ep=b"], **body),
                 dict(op="register", remote="h1", q=["ep=a", "lt=abc"], **body), dict(op="register", remote=None, q=["ep=a", "d=x", "base=coap://b1"], cf=40, links=[]),
                 dict(op="post", path=["1", ""], remote="h1", q=["lt=5"], cf=None, links=[]), dict(op="post", path=["1", ""], remote="h1", q=["lt=70"], cf=None, links=[["/x", []]]),
                 dict(op="put", path=["2", ""], remote="h2", q=["et=y"], cf=40, links=[["/n", []]]), dict(op="delete", path=["1", ""]),
                 dict(op="advance", us=20 * US - 1), dict(op="advance", us=55 * US + 1)]
            for L in (1, 2, 3):
                for seq in itertools.product(range(len(A)), repeat=L):
                    yield "history", {"ops": [dict(A[i]) for i in seq] + [{"op": "advance", "us": 75 * US - 1}, {"op": "advance", "us": 1}]}

    def impl(self, stream, inp):
        if stream == "helpers":
            import aiocoap.cli.rd as rd
            def pint(x):
                try: return int(x)
                except ValueError: return None
            def qs(x):
                m = type("M", (), {})(); m.opt = type("O", (), {})(); m.opt.uri_query = [x]
                return [[k, v[0]] for k, v in rd.query_split(m).items()][0]
            return {"urljoin": [rd.urljoin(b, r) for b, r in inp["urljoin"]], "int": [pint(x) for x in inp["int"]],
                    "split": [x.split() for x in inp["split"]], "eq": [qs(x) for x in inp["eq"]]}
        w = World()
        try:
            out = []
            for o in inp["ops"]:
                out.append(w.observe(w.do(o)))
            return out
        finally:
            w.close()

    def model(self, stream, inp):
        if stream == "helpers":
            return "(map (fun p => urljoin (fst p) (snd p)) %s, map parse_int %s, map split_ws %s, map split_eq %s)" % (
                glist(["(%s, %s)" % (gstr(b), gstr(r)) for b, r in inp["urljoin"]]), g_strs(inp["int"]), g_strs(inp["split"]), g_strs(inp["eq"]))
        ops = glist([g_op(o) for o in inp["ops"]])
        return "let ops := %s in (run empty_rd ops, run_notified empty_rd ops)" % ops

    def decode(self, stream, inp, p):
        p = fw.plain(p)
        if stream == "helpers":
            u, i, sp, eq = p
            return {"urljoin": u, "int": [d_ostr(x) for x in i], "split": sp, "eq": [[k, d_ostr(v)] for k, v in eq]}
        out = []
        obs, nts = p
        for ob, nt, o in zip(obs, nts, inp["ops"]):
            rr = d_resp(ob["o_resp"])
            if o.get("simple") and rr.startswith("Created:"): rr = "Changed"
            out.append({"r": rr, "nt": nt, "ep": d_resp(ob["o_ep"]), "res": d_resp(ob["o_res"]),
                        "bk": [[e, d_ostr(d), i, lt] for (e, d, i, lt) in ob["o_by_key"]],
                        "bp": [[i, e, d_ostr(d)] for (i, e, d) in ob["o_by_path"]],
                        "tm": ob["o_timers"], "now": ob["o_now"], "exc": ob["o_exc"]})
        return out

    def oracle(self, stream, inp, res):
        if stream == "helpers": return None           # pure correspondence of the string helpers; the property is judged on histories
        if isinstance(res, dict): return ("C20:crash:" + res.get("where", "?"), "harness/implementation raised %s: %s" % (res.get("harness_exception"), res.get("text")))
        hard, soft = check_history(inp, res)
        if hard: return hard[0]
        if soft:
            # report the finding classes in a fixed order so that a history showing several is attributed deterministically
            return sorted(soft, key=lambda x: x[0])[0]
        return None

    def nontrivial(self, stream, inp, res):
        if stream == "helpers": return None
        if isinstance(res, dict): return None
        kinds = set()
        prev = 0
        for o, ob in zip(inp["ops"], res):
            w = o["op"] in ("register", "post", "put", "delete")
            if w and ob["r"].split(":")[0] in ("Created", "Changed"): kinds.add("ok")
            if w and ob["r"].startswith("Err:4"): kinds.add("4xx")
            if (o["op"] == "advance" or ob["r"] == "Deleted") and len(ob["bk"]) < prev: kinds.add("gone")
            prev = len(ob["bk"])
        return fw.jdump([stream, inp]) if len(kinds) == 3 else None

PROPERTY = C20()
